
val negb : bool -> bool

type nat =
| O
| S of nat

val fst : ('a1 * 'a2) -> 'a1

val snd : ('a1 * 'a2) -> 'a2

val length : 'a1 list -> nat

val app : 'a1 list -> 'a1 list -> 'a1 list

type comparison =
| Eq
| Lt
| Gt

val compOpp : comparison -> comparison

val add : nat -> nat -> nat

val sub : nat -> nat -> nat

module Nat :
 sig
  val eqb : nat -> nat -> bool

  val leb : nat -> nat -> bool

  val ltb : nat -> nat -> bool
 end

val hd_error : 'a1 list -> 'a1 option

val tl : 'a1 list -> 'a1 list

val last : 'a1 list -> 'a1 -> 'a1

val removelast : 'a1 list -> 'a1 list

val rev : 'a1 list -> 'a1 list

val map : ('a1 -> 'a2) -> 'a1 list -> 'a2 list

val flat_map : ('a1 -> 'a2 list) -> 'a1 list -> 'a2 list

val fold_left : ('a1 -> 'a2 -> 'a1) -> 'a2 list -> 'a1 -> 'a1

val existsb : ('a1 -> bool) -> 'a1 list -> bool

val forallb : ('a1 -> bool) -> 'a1 list -> bool

val firstn : nat -> 'a1 list -> 'a1 list

val skipn : nat -> 'a1 list -> 'a1 list

type positive =
| XI of positive
| XO of positive
| XH

type n =
| N0
| Npos of positive

type z =
| Z0
| Zpos of positive
| Zneg of positive

module Pos :
 sig
  type mask =
  | IsNul
  | IsPos of positive
  | IsNeg
 end

module Coq_Pos :
 sig
  val succ : positive -> positive

  val add : positive -> positive -> positive

  val add_carry : positive -> positive -> positive

  val pred_double : positive -> positive

  type mask = Pos.mask =
  | IsNul
  | IsPos of positive
  | IsNeg

  val succ_double_mask : mask -> mask

  val double_mask : mask -> mask

  val double_pred_mask : positive -> mask

  val sub_mask : positive -> positive -> mask

  val sub_mask_carry : positive -> positive -> mask

  val mul : positive -> positive -> positive

  val iter : ('a1 -> 'a1) -> 'a1 -> positive -> 'a1

  val size : positive -> positive

  val compare_cont : comparison -> positive -> positive -> comparison

  val compare : positive -> positive -> comparison

  val eqb : positive -> positive -> bool

  val iter_op : ('a1 -> 'a1 -> 'a1) -> positive -> 'a1 -> 'a1

  val to_nat : positive -> nat

  val of_succ_nat : nat -> positive
 end

module N :
 sig
  val sub : n -> n -> n

  val compare : n -> n -> comparison

  val eqb : n -> n -> bool

  val leb : n -> n -> bool

  val of_nat : nat -> n
 end

module Z :
 sig
  val double : z -> z

  val succ_double : z -> z

  val pred_double : z -> z

  val pos_sub : positive -> positive -> z

  val add : z -> z -> z

  val opp : z -> z

  val sub : z -> z -> z

  val mul : z -> z -> z

  val pow_pos : z -> positive -> z

  val pow : z -> z -> z

  val compare : z -> z -> comparison

  val leb : z -> z -> bool

  val ltb : z -> z -> bool

  val eqb : z -> z -> bool

  val max : z -> z -> z

  val abs : z -> z

  val to_nat : z -> nat

  val to_N : z -> n

  val of_nat : nat -> z

  val of_N : n -> z

  val pos_div_eucl : positive -> z -> z * z

  val div_eucl : z -> z -> z * z

  val div : z -> z -> z

  val modulo : z -> z -> z

  val even : z -> bool

  val odd : z -> bool

  val log2 : z -> z
 end

type bytes = n list

val lex : bytes -> bytes -> comparison

val beqb : bytes -> bytes -> bool

val bltb : bytes -> bytes -> bool

val bleb : bytes -> bytes -> bool

val is_prefix : bytes -> bytes -> bool

val drop_prefix : bytes -> bytes -> bytes

val cmp_then : comparison -> comparison -> comparison

val is_lt : comparison -> bool

val is_gt : comparison -> bool

val is_eq : comparison -> bool

val is_le : comparison -> bool

val is_ge : comparison -> bool

val ch_c : n

val ch_d : n

val ch_i : n

val ch_l : n

val ch_o : n

val ch_t : n

val ch_v : n

val ch_colon : n

val ch_semi : n

val ch_dot : n

val merge : ('a1 -> 'a1 -> bool) -> 'a1 list -> 'a1 list -> 'a1 list

val merge_list_to_stack :
  ('a1 -> 'a1 -> bool) -> 'a1 list option list -> 'a1 list -> 'a1 list option
  list

val merge_stack : ('a1 -> 'a1 -> bool) -> 'a1 list option list -> 'a1 list

val iter_merge :
  ('a1 -> 'a1 -> bool) -> 'a1 list option list -> 'a1 list -> 'a1 list

val msort : ('a1 -> 'a1 -> bool) -> 'a1 list -> 'a1 list

val two63 : z

val two64 : z

val two52 : z

val two53 : z

val fsign : z -> bool

val fbits_mag : z -> z

val fexp : z -> z

val fman : z -> z

val is_nan : z -> bool

val is_inf : z -> bool

val fmag : z -> z

val fden : z -> z

val fcmp : z -> z -> comparison

val of_Z_mag : z -> z

val of_Z : z -> z

val fkey_int : z -> z

val scale1074 : z

type value =
| VNil
| VInt of z
| VUint of z
| VFloat of z
| VStr of bytes
| VBool of bool
| VTime of z * z * z
| VArr of value list
| VObj of (bytes * value) list

type obj = (bytes * value) list

val type_id : value -> z

val is_number : value -> bool

val obj_get : bytes -> obj -> value option

val obj_set : bytes -> value -> obj -> obj

type wire =
| WNil
| WInt of z
| WUint of z
| WFloat of z
| WStr of bytes
| WBool of bool
| WTime of z * z * z
| WLTime of z * z * z
| WArr of wire list
| WObj of (bytes * wire) list

val replace_times : value -> wire

val remove_localized : wire -> value

val doc_encode : obj -> wire

val doc_decode : wire -> obj

val to_float : value -> z

val is_float : value -> bool

val int_val : value -> z

val compare_numbers : value -> value -> comparison

val compare_bool : bool -> bool -> comparison

val compare_time : z -> z -> z -> z -> comparison

val compare0 : value -> value -> comparison

val split_on : n -> bytes -> bytes list

val split_dot : bytes -> bytes list

val lookup_path : bytes list -> obj -> value option

val doc_lookup : bytes -> obj -> value option

val doc_has : bytes -> obj -> bool

val doc_get : bytes -> obj -> value

val set_path : bytes list -> value -> obj -> obj

val doc_set : bytes -> value -> obj -> obj

val id_field : bytes

val expires_field : bytes

val object_id : obj -> bytes

val is_hex : n -> bool

val ch_dash : n

val canonical_from : nat -> bytes -> bool

val uuid_body_ok : bytes -> bool

val urn_prefix : bytes

val valid_id : bytes -> bool

val validate : obj -> bool

type goval =
| GNil
| GInt of z * z
| GUint of z * z
| GFloat32 of z
| GFloat64 of z
| GString of bytes
| GBool of bool
| GTime of z * z * z
| GPtr of goval option
| GStruct of gfield list
| GMap of bool * (bytes * goval) list
| GSlice of bool * goval list
| GUnsupported
| GCanon of value
and gfield =
| GField of bytes * bool * bytes * bool * bool * goval

val ch_comma : n

val omitempty_s : bytes

val tag_name : bytes -> bytes

val tag_omitempty : bytes -> bool

val is_empty_value : bool -> goval -> bool

type nres =
| NOk of value
| NErr
| NBytes

val merge_obj : obj -> obj -> obj

val normalize : goval -> nres

val doc_set_go : bytes -> goval -> obj -> obj

type cmpop =
| OEq
| OGt
| OGtEq
| OLt
| OLtEq

type 'l operand =
| OLit of 'l
| ORef of bytes

type 'l crit =
| CCmp of cmpop * bytes * 'l operand
| CExists of bytes
| CLike of bytes * bytes
| CIn of bytes * 'l operand list
| CContains of bytes * 'l operand list
| CFun of z
| CNot of 'l crit
| CAnd of 'l crit * 'l crit
| COr of 'l crit * 'l crit

type gcrit = goval crit

type ncrit = value crit

type ratom =
| RLit of n
| RAnyStar

val parse_atoms : bytes -> ratom list

val match_here : ratom list -> bool -> bytes -> bool

val match_anywhere : ratom list -> bool -> bytes -> bool

val like_match : bytes -> bytes -> bool

val fa : bytes

val fb : bytes

val fun_menu : z -> obj -> bool

val trim_dollars : bytes -> bytes

val field_or_value : obj -> value operand -> value

val cmp_holds : cmpop -> comparison -> bool

val sat_cmp : cmpop -> bytes -> value operand -> obj -> bool

val sat_in : bytes -> value operand list -> obj -> bool

val sat_contains : bytes -> value operand list -> obj -> bool

val sat_like : bytes -> bytes -> obj -> bool

val sat : ncrit -> obj -> bool

val norm_operand : goval operand -> value operand option

val norm_operands : goval operand list -> value operand list option

val norm_crit : gcrit -> ncrit option

type query = { q_coll : bytes; q_crit : gcrit option; q_limit : z;
               q_skip : z; q_sort : (bytes * z) list }

val new_query : bytes -> query

type qstep =
| QWhere of gcrit
| QMatchFunc of z
| QSkip of z
| QLimit of z
| QSort of (bytes * z) list

val norm_sort_opts : (bytes * z) list -> (bytes * z) list

val q_apply : query -> qstep -> query

val build_query : bytes -> qstep list -> query

type range = { r_start : value; r_end : value; r_sinc : bool; r_einc : bool }

val is_nilv : value -> bool

val range_is_empty : range -> bool

val range_is_nil : range -> bool

val range_intersect : range -> range -> range

val flat : ncrit -> ncrit

val flat_neg : ncrit -> ncrit

val has_field : bytes -> bytes list -> bool

val index_select : bytes list -> ncrit -> bytes list

val is_ref_operand : value operand -> bool

val unary_range : cmpop -> value operand -> range option

val field_range : bytes -> ncrit -> range option

type idx_query =
| IQRange of bytes * range * bool
| IQAll of bytes * bool

val get_index_query : ncrit option -> bytes list -> (bytes * range) option

val try_select_index :
  ncrit option -> (bytes * z) list -> bytes list -> idx_query option * bool

type sval =
| SDoc of wire
| SMeta of z * bytes list
| SEmpty

type kv = (bytes * sval) list

val kv_get : bytes -> kv -> sval option

val kv_set : bytes -> sval -> kv -> kv

val kv_del : bytes -> kv -> kv

type err =
| ECollExist
| ECollNotExist
| EIdxExist
| EIdxNotExist
| EDocNotExist
| EDupKey
| EOther
| EStore

type 'a res =
| Ok of 'a
| Err of err

type txst = { view : kv; fault : nat option; calls : nat;
              committed : kv option; fired : bool }

type 'a m = txst -> 'a res * txst

val ret : 'a1 -> 'a1 m

val fail : err -> 'a1 m

val bind : 'a1 m -> ('a1 -> 'a2 m) -> 'a2 m

val tick : unit m

val get_view : kv m

val put_view : kv -> unit m

val tx_get : bytes -> sval option m

val tx_set : bytes -> sval -> unit m

val tx_delete : bytes -> unit m

val tx_commit : unit m

type cursor = (bytes * sval) list

val tx_cursor : bool -> cursor m

val seek_fwd : bytes -> cursor -> cursor

val seek_rev : bytes -> cursor -> cursor

val cursor_seek : bool -> bytes -> cursor -> cursor

val cursor_item : (bytes * sval) -> (bytes * sval) m

type dbst = { durable : kv; closed : bool }

type 'a txout = { o_res : 'a res; o_db : dbst; o_calls : nat; o_fired : bool }

val with_tx : 'a1 m -> nat option -> dbst -> 'a1 txout

val esc : bytes -> bytes

val oc_string : bytes -> bytes

val be_bytes : nat -> z -> bytes

val ulen : z -> nat

val oc_uint64 : z -> bytes

val ilen : z -> nat

val oc_int64_nonneg : z -> bytes

val invert : bytes -> bytes

val oc_int64 : z -> bytes

val oc_float64 : z -> bytes

val billion : z

val unix_nano_u64 : z -> z -> z

val oc_prim_body : value -> bytes

val ordered_code : value -> bool -> bytes

val value_code : value -> bytes

val coll_prefix : bytes

val coll_key : bytes -> bytes

val doc_prefix : bytes -> bytes

val doc_key : bytes -> bytes -> bytes

val idx_prefix : bytes -> bytes -> bytes

val idx_type_prefix : bytes -> bytes -> z -> bytes

val idx_value_key : bytes -> bytes -> value -> bytes

val idx_key : bytes -> bytes -> value -> bytes -> bytes

val idx_add : bytes -> bytes -> bytes -> value -> unit m

val idx_remove : bytes -> bytes -> bytes -> value -> unit m

val key_split_id : bytes -> bytes * bytes

val idx_drop_loop : bytes -> cursor -> unit m

val idx_drop : bytes -> bytes -> unit m

val skip_bound : bytes -> cursor -> cursor m

val range_loop :
  (bytes -> 'a1 -> ('a1 * bool) m) -> bytes -> bool -> bool -> bytes -> bool
  -> cursor -> 'a1 -> 'a1 m

val idx_iterate_range :
  (bytes -> 'a1 -> ('a1 * bool) m) -> bytes -> bytes -> range -> bool -> 'a1
  -> 'a1 m

val idx_iterate :
  (bytes -> 'a1 -> ('a1 * bool) m) -> bytes -> bytes -> bool -> 'a1 -> 'a1 m

val compare_docs : (bytes * z) list -> obj -> obj -> comparison

val docs_leb : (bytes * z) list -> obj -> obj -> bool

val sort_docs : (bytes * z) list -> obj list -> obj list

val sat_opt : ncrit option -> obj -> bool

val decode_sval : sval -> obj

val get_doc : bytes -> bytes -> obj option m

type 'a dstate = { d_skipped : z; d_consumed : z; d_acc : 'a }

val down :
  (obj -> 'a1 -> ('a1 * bool) m) -> z -> z -> obj -> 'a1 dstate -> ('a1
  dstate * bool) m

val full_scan_loop :
  bytes -> ncrit option -> (obj -> 'a1 -> ('a1 * bool) m) -> cursor -> 'a1 ->
  'a1 m

val full_scan :
  bytes -> ncrit option -> (obj -> 'a1 -> ('a1 * bool) m) -> 'a1 -> 'a1 m

val on_index_id :
  bytes -> ncrit option -> (obj -> 'a1 -> ('a1 * bool) m) -> bytes -> 'a1 ->
  ('a1 * bool) m

val run_input :
  bytes -> ncrit option -> idx_query option -> (obj -> 'a1 -> ('a1 * bool) m)
  -> 'a1 -> 'a1 m

val feed :
  (obj -> 'a1 -> ('a1 * bool) m) -> z -> z -> obj list -> 'a1 dstate -> 'a1
  dstate m

val exec_plan :
  (obj -> 'a1 -> ('a1 * bool) m) -> bytes -> ncrit option -> (bytes * z) list
  -> z -> z -> bytes list -> 'a1 -> 'a1 m

val get_meta : bytes -> (z * bytes list) m

val save_meta : bytes -> z -> bytes list -> unit m

val has_collection : bytes -> bool m

val add_to_indexes : bytes -> bytes list -> obj -> unit m

val del_from_indexes : bytes -> bytes list -> obj -> unit m

val save_document : bytes -> obj -> unit m

type updater =
| USetAll of (bytes * goval) list
| UFunSet of bytes * value
| UFunCopySet of bytes * value
| UFunNil
| UFunId
| UFunIncr of bytes
| UFunConst of obj

val apply_updater : updater -> obj -> obj option

type nquery = { nq_coll : bytes; nq_crit : ncrit option; nq_limit : z;
                nq_skip : z; nq_sort : (bytes * z) list }

val normalize_query : query -> nquery option

val iterate_docs : nquery -> (obj -> 'a1 -> ('a1 * bool) m) -> 'a1 -> 'a1 m

val collect : obj -> obj list -> (obj list * bool) m

val find_all_tx : nquery -> obj list m

val create_collection_tx : bytes -> unit m

val insert_docs : bytes -> bytes list -> obj list -> unit m

val insert_tx : bytes -> obj list -> unit m

val get_doc_and_del_idx : bytes -> bytes list -> bytes -> unit m

val delete_by_id_tx : bytes -> bytes -> unit m

val update_by_id_tx : bytes -> bytes -> updater -> unit m

val replace_loop : bytes -> bytes list -> updater -> obj list -> z -> z m

val replace_docs : nquery -> updater -> unit m

val update_tx : nquery -> updater -> unit m

val drop_collection_tx : bytes -> unit m

val index_doc : bytes -> bytes -> obj -> unit -> (unit * bool) m

val create_index_tx : bytes -> bytes -> unit m

val last_index_of : bytes -> bytes list -> nat -> nat option -> nat option

val set_nth : nat -> 'a1 -> 'a1 list -> 'a1 list

val drop_slot : nat -> bytes list -> bytes list

val drop_index_tx : bytes -> bytes -> unit m

val find_by_id_tx : bytes -> bytes -> obj option m

val has_index_tx : bytes -> bytes -> bool m

val list_indexes_tx : bytes -> bytes list m

val collection_size_tx : bytes -> z m

val list_coll_loop : cursor -> bytes list -> bytes list m

val list_collections_tx : bytes list m

val foreach_cons : z -> obj -> obj list -> (obj list * bool) m

val count_cons : obj -> z -> (z * bool) m

type t =
| TZ of z
| TL of t list

val t_eqb : t -> t -> bool

val tB : bytes -> t

val tbool : bool -> t

val tsign : comparison -> t

type qspec = bytes * qstep list

val mk_query : qspec -> query

type import_file =
| FUnreadable
| FIllFormed
| FElems of obj option list

type op =
| OCreateCollection of bytes
| ODropCollection of bytes
| OHasCollection of bytes
| OListCollections
| OInsert of bytes * obj list * bytes list
| OSave of bytes * obj * bytes
| OFindAll of qspec * z
| OCount of qspec
| OExists of qspec
| OFindFirst of qspec
| OForEach of qspec * z * z
| OFindById of bytes * bytes
| ODeleteById of bytes * bytes
| OUpdateById of bytes * bytes * updater
| OReplaceById of bytes * bytes * obj
| OUpdate of qspec * (bytes * goval) list
| OUpdateFunc of qspec * updater
| ODelete of qspec
| OCreateIndex of bytes * bytes
| ODropIndex of bytes * bytes
| OHasIndex of bytes * bytes
| OListIndexes of bytes
| OExport of bytes
| OImport of bytes * import_file
| OCreateByQuery of bytes * qspec
| OClose
| OReopen

type rstate = { r_db : dbst; r_fault : nat option; r_calls : nat;
                r_fired : bool }

val run_tx : 'a1 m -> rstate -> 'a1 res * rstate

val err_code : err -> z

val t_of_value : value -> t

val t_of_doc : obj -> t

val t_ok : t -> t

val t_err : err -> t

val t_unit : 'a1 res -> t

val t_res : ('a1 -> t) -> 'a1 res -> t

val id_leb : obj -> obj -> bool

val canon_key : value -> t

val key_tuple : (bytes * z) list -> obj -> t

val t_of_docs : (bytes * z) list -> z -> obj list -> t

val t_of_opt_doc : obj option -> t

val t_of_sval : sval -> t

val t_of_kv : kv -> t

val needs_id : obj -> bool

val assign_ids : obj list -> bytes list -> obj list

val count_window : z -> z -> z -> z

val find_all_op : query -> rstate -> obj list res * rstate

val insert_op : bytes -> obj list -> rstate -> unit res * rstate

val exec_op : op -> rstate -> t * rstate

val empty_db : dbst

val fresh_rstate : dbst -> nat option -> rstate

val step : dbst -> op -> t * dbst

val c10_key : value -> t

val c10_row : z -> z -> value -> value list -> t list -> t list

val c10_rows : z -> value list -> value list -> t list -> t list

val c10_keys : z -> value list -> t list -> t list

val c10_check : value list -> t list -> t list -> t list

type hcase =
| HC10 of value list * t list * t list
| HHist of ((op * t) * t option) list

val check_hist : z -> dbst -> ((op * t) * t option) list -> t list

val check_case : hcase -> t list

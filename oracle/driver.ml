(* Oracle: reads one case per line (a term of type hcase in Gallina syntax), runs the extracted
   model's check_case, prints "OK" or "MISMATCH <terms>" per line. *)
open Model

let () =
  let lineno = ref 0 in
  (try
     while true do
       let line = input_line stdin in
       incr lineno;
       if String.length line > 0 then begin
         match (try Stdlib.Ok (Conv.hcase_of_ast (Ast.parse line (ref 0))) with Ast.Bad m -> Stdlib.Error m) with
         | Stdlib.Error m -> Printf.printf "PARSEERROR %d %s\n%!" !lineno m
         | Stdlib.Ok c ->
             (match check_case c with
              | [] -> print_string "OK\n"; flush stdout
              | l ->
                  let b = Buffer.create 256 in
                  Ast.print_t b (TL l);
                  Printf.printf "MISMATCH %s\n%!" (Buffer.contents b))
       end
     done
   with End_of_file -> ());
  flush stdout


(** val negb : bool -> bool **)

let negb = function
| true -> false
| false -> true

type nat =
| O
| S of nat

(** val fst : ('a1 * 'a2) -> 'a1 **)

let fst = function
| (x, _) -> x

(** val snd : ('a1 * 'a2) -> 'a2 **)

let snd = function
| (_, y) -> y

(** val length : 'a1 list -> nat **)

let rec length = function
| [] -> O
| _ :: l' -> S (length l')

(** val app : 'a1 list -> 'a1 list -> 'a1 list **)

let rec app l m0 =
  match l with
  | [] -> m0
  | a :: l1 -> a :: (app l1 m0)

type comparison =
| Eq
| Lt
| Gt

(** val compOpp : comparison -> comparison **)

let compOpp = function
| Eq -> Eq
| Lt -> Gt
| Gt -> Lt

module Coq__1 = struct
 (** val add : nat -> nat -> nat **)
 let rec add n0 m0 =
   match n0 with
   | O -> m0
   | S p -> S (add p m0)
end
include Coq__1

(** val sub : nat -> nat -> nat **)

let rec sub n0 m0 =
  match n0 with
  | O -> n0
  | S k -> (match m0 with
            | O -> n0
            | S l -> sub k l)

module Nat =
 struct
  (** val eqb : nat -> nat -> bool **)

  let rec eqb n0 m0 =
    match n0 with
    | O -> (match m0 with
            | O -> true
            | S _ -> false)
    | S n' -> (match m0 with
               | O -> false
               | S m' -> eqb n' m')

  (** val leb : nat -> nat -> bool **)

  let rec leb n0 m0 =
    match n0 with
    | O -> true
    | S n' -> (match m0 with
               | O -> false
               | S m' -> leb n' m')

  (** val ltb : nat -> nat -> bool **)

  let ltb n0 m0 =
    leb (S n0) m0
 end

(** val hd_error : 'a1 list -> 'a1 option **)

let hd_error = function
| [] -> None
| x :: _ -> Some x

(** val tl : 'a1 list -> 'a1 list **)

let tl = function
| [] -> []
| _ :: m0 -> m0

(** val last : 'a1 list -> 'a1 -> 'a1 **)

let rec last l d =
  match l with
  | [] -> d
  | a :: l0 -> (match l0 with
                | [] -> a
                | _ :: _ -> last l0 d)

(** val removelast : 'a1 list -> 'a1 list **)

let rec removelast = function
| [] -> []
| a :: l0 -> (match l0 with
              | [] -> []
              | _ :: _ -> a :: (removelast l0))

(** val rev : 'a1 list -> 'a1 list **)

let rec rev = function
| [] -> []
| x :: l' -> app (rev l') (x :: [])

(** val map : ('a1 -> 'a2) -> 'a1 list -> 'a2 list **)

let rec map f = function
| [] -> []
| a :: t0 -> (f a) :: (map f t0)

(** val flat_map : ('a1 -> 'a2 list) -> 'a1 list -> 'a2 list **)

let rec flat_map f = function
| [] -> []
| x :: t0 -> app (f x) (flat_map f t0)

(** val fold_left : ('a1 -> 'a2 -> 'a1) -> 'a2 list -> 'a1 -> 'a1 **)

let rec fold_left f l a0 =
  match l with
  | [] -> a0
  | b :: t0 -> fold_left f t0 (f a0 b)

(** val existsb : ('a1 -> bool) -> 'a1 list -> bool **)

let rec existsb f = function
| [] -> false
| a :: l0 -> (||) (f a) (existsb f l0)

(** val forallb : ('a1 -> bool) -> 'a1 list -> bool **)

let rec forallb f = function
| [] -> true
| a :: l0 -> (&&) (f a) (forallb f l0)

(** val firstn : nat -> 'a1 list -> 'a1 list **)

let rec firstn n0 l =
  match n0 with
  | O -> []
  | S n1 -> (match l with
             | [] -> []
             | a :: l0 -> a :: (firstn n1 l0))

(** val skipn : nat -> 'a1 list -> 'a1 list **)

let rec skipn n0 l =
  match n0 with
  | O -> l
  | S n1 -> (match l with
             | [] -> []
             | _ :: l0 -> skipn n1 l0)

type positive =
| XI of positive
| XO of positive
| XH

type n =
| N0
| Npos of positive

type z =
| Z0
| Zpos of positive
| Zneg of positive

module Pos =
 struct
  type mask =
  | IsNul
  | IsPos of positive
  | IsNeg
 end

module Coq_Pos =
 struct
  (** val succ : positive -> positive **)

  let rec succ = function
  | XI p -> XO (succ p)
  | XO p -> XI p
  | XH -> XO XH

  (** val add : positive -> positive -> positive **)

  let rec add x y =
    match x with
    | XI p ->
      (match y with
       | XI q -> XO (add_carry p q)
       | XO q -> XI (add p q)
       | XH -> XO (succ p))
    | XO p ->
      (match y with
       | XI q -> XI (add p q)
       | XO q -> XO (add p q)
       | XH -> XI p)
    | XH -> (match y with
             | XI q -> XO (succ q)
             | XO q -> XI q
             | XH -> XO XH)

  (** val add_carry : positive -> positive -> positive **)

  and add_carry x y =
    match x with
    | XI p ->
      (match y with
       | XI q -> XI (add_carry p q)
       | XO q -> XO (add_carry p q)
       | XH -> XI (succ p))
    | XO p ->
      (match y with
       | XI q -> XO (add_carry p q)
       | XO q -> XI (add p q)
       | XH -> XO (succ p))
    | XH ->
      (match y with
       | XI q -> XI (succ q)
       | XO q -> XO (succ q)
       | XH -> XI XH)

  (** val pred_double : positive -> positive **)

  let rec pred_double = function
  | XI p -> XI (XO p)
  | XO p -> XI (pred_double p)
  | XH -> XH

  type mask = Pos.mask =
  | IsNul
  | IsPos of positive
  | IsNeg

  (** val succ_double_mask : mask -> mask **)

  let succ_double_mask = function
  | IsNul -> IsPos XH
  | IsPos p -> IsPos (XI p)
  | IsNeg -> IsNeg

  (** val double_mask : mask -> mask **)

  let double_mask = function
  | IsPos p -> IsPos (XO p)
  | x0 -> x0

  (** val double_pred_mask : positive -> mask **)

  let double_pred_mask = function
  | XI p -> IsPos (XO (XO p))
  | XO p -> IsPos (XO (pred_double p))
  | XH -> IsNul

  (** val sub_mask : positive -> positive -> mask **)

  let rec sub_mask x y =
    match x with
    | XI p ->
      (match y with
       | XI q -> double_mask (sub_mask p q)
       | XO q -> succ_double_mask (sub_mask p q)
       | XH -> IsPos (XO p))
    | XO p ->
      (match y with
       | XI q -> succ_double_mask (sub_mask_carry p q)
       | XO q -> double_mask (sub_mask p q)
       | XH -> IsPos (pred_double p))
    | XH -> (match y with
             | XH -> IsNul
             | _ -> IsNeg)

  (** val sub_mask_carry : positive -> positive -> mask **)

  and sub_mask_carry x y =
    match x with
    | XI p ->
      (match y with
       | XI q -> succ_double_mask (sub_mask_carry p q)
       | XO q -> double_mask (sub_mask p q)
       | XH -> IsPos (pred_double p))
    | XO p ->
      (match y with
       | XI q -> double_mask (sub_mask_carry p q)
       | XO q -> succ_double_mask (sub_mask_carry p q)
       | XH -> double_pred_mask p)
    | XH -> IsNeg

  (** val mul : positive -> positive -> positive **)

  let rec mul x y =
    match x with
    | XI p -> add y (XO (mul p y))
    | XO p -> XO (mul p y)
    | XH -> y

  (** val iter : ('a1 -> 'a1) -> 'a1 -> positive -> 'a1 **)

  let rec iter f x = function
  | XI n' -> f (iter f (iter f x n') n')
  | XO n' -> iter f (iter f x n') n'
  | XH -> f x

  (** val size : positive -> positive **)

  let rec size = function
  | XI p0 -> succ (size p0)
  | XO p0 -> succ (size p0)
  | XH -> XH

  (** val compare_cont : comparison -> positive -> positive -> comparison **)

  let rec compare_cont r x y =
    match x with
    | XI p ->
      (match y with
       | XI q -> compare_cont r p q
       | XO q -> compare_cont Gt p q
       | XH -> Gt)
    | XO p ->
      (match y with
       | XI q -> compare_cont Lt p q
       | XO q -> compare_cont r p q
       | XH -> Gt)
    | XH -> (match y with
             | XH -> r
             | _ -> Lt)

  (** val compare : positive -> positive -> comparison **)

  let compare =
    compare_cont Eq

  (** val eqb : positive -> positive -> bool **)

  let rec eqb p q =
    match p with
    | XI p0 -> (match q with
                | XI q0 -> eqb p0 q0
                | _ -> false)
    | XO p0 -> (match q with
                | XO q0 -> eqb p0 q0
                | _ -> false)
    | XH -> (match q with
             | XH -> true
             | _ -> false)

  (** val iter_op : ('a1 -> 'a1 -> 'a1) -> positive -> 'a1 -> 'a1 **)

  let rec iter_op op0 p a =
    match p with
    | XI p0 -> op0 a (iter_op op0 p0 (op0 a a))
    | XO p0 -> iter_op op0 p0 (op0 a a)
    | XH -> a

  (** val to_nat : positive -> nat **)

  let to_nat x =
    iter_op Coq__1.add x (S O)

  (** val of_succ_nat : nat -> positive **)

  let rec of_succ_nat = function
  | O -> XH
  | S x -> succ (of_succ_nat x)
 end

module N =
 struct
  (** val sub : n -> n -> n **)

  let sub n0 m0 =
    match n0 with
    | N0 -> N0
    | Npos n' ->
      (match m0 with
       | N0 -> n0
       | Npos m' ->
         (match Coq_Pos.sub_mask n' m' with
          | Coq_Pos.IsPos p -> Npos p
          | _ -> N0))

  (** val compare : n -> n -> comparison **)

  let compare n0 m0 =
    match n0 with
    | N0 -> (match m0 with
             | N0 -> Eq
             | Npos _ -> Lt)
    | Npos n' -> (match m0 with
                  | N0 -> Gt
                  | Npos m' -> Coq_Pos.compare n' m')

  (** val eqb : n -> n -> bool **)

  let eqb n0 m0 =
    match n0 with
    | N0 -> (match m0 with
             | N0 -> true
             | Npos _ -> false)
    | Npos p -> (match m0 with
                 | N0 -> false
                 | Npos q -> Coq_Pos.eqb p q)

  (** val leb : n -> n -> bool **)

  let leb x y =
    match compare x y with
    | Gt -> false
    | _ -> true

  (** val of_nat : nat -> n **)

  let of_nat = function
  | O -> N0
  | S n' -> Npos (Coq_Pos.of_succ_nat n')
 end

module Z =
 struct
  (** val double : z -> z **)

  let double = function
  | Z0 -> Z0
  | Zpos p -> Zpos (XO p)
  | Zneg p -> Zneg (XO p)

  (** val succ_double : z -> z **)

  let succ_double = function
  | Z0 -> Zpos XH
  | Zpos p -> Zpos (XI p)
  | Zneg p -> Zneg (Coq_Pos.pred_double p)

  (** val pred_double : z -> z **)

  let pred_double = function
  | Z0 -> Zneg XH
  | Zpos p -> Zpos (Coq_Pos.pred_double p)
  | Zneg p -> Zneg (XI p)

  (** val pos_sub : positive -> positive -> z **)

  let rec pos_sub x y =
    match x with
    | XI p ->
      (match y with
       | XI q -> double (pos_sub p q)
       | XO q -> succ_double (pos_sub p q)
       | XH -> Zpos (XO p))
    | XO p ->
      (match y with
       | XI q -> pred_double (pos_sub p q)
       | XO q -> double (pos_sub p q)
       | XH -> Zpos (Coq_Pos.pred_double p))
    | XH ->
      (match y with
       | XI q -> Zneg (XO q)
       | XO q -> Zneg (Coq_Pos.pred_double q)
       | XH -> Z0)

  (** val add : z -> z -> z **)

  let add x y =
    match x with
    | Z0 -> y
    | Zpos x' ->
      (match y with
       | Z0 -> x
       | Zpos y' -> Zpos (Coq_Pos.add x' y')
       | Zneg y' -> pos_sub x' y')
    | Zneg x' ->
      (match y with
       | Z0 -> x
       | Zpos y' -> pos_sub y' x'
       | Zneg y' -> Zneg (Coq_Pos.add x' y'))

  (** val opp : z -> z **)

  let opp = function
  | Z0 -> Z0
  | Zpos x0 -> Zneg x0
  | Zneg x0 -> Zpos x0

  (** val sub : z -> z -> z **)

  let sub m0 n0 =
    add m0 (opp n0)

  (** val mul : z -> z -> z **)

  let mul x y =
    match x with
    | Z0 -> Z0
    | Zpos x' ->
      (match y with
       | Z0 -> Z0
       | Zpos y' -> Zpos (Coq_Pos.mul x' y')
       | Zneg y' -> Zneg (Coq_Pos.mul x' y'))
    | Zneg x' ->
      (match y with
       | Z0 -> Z0
       | Zpos y' -> Zneg (Coq_Pos.mul x' y')
       | Zneg y' -> Zpos (Coq_Pos.mul x' y'))

  (** val pow_pos : z -> positive -> z **)

  let pow_pos z0 =
    Coq_Pos.iter (mul z0) (Zpos XH)

  (** val pow : z -> z -> z **)

  let pow x = function
  | Z0 -> Zpos XH
  | Zpos p -> pow_pos x p
  | Zneg _ -> Z0

  (** val compare : z -> z -> comparison **)

  let compare x y =
    match x with
    | Z0 -> (match y with
             | Z0 -> Eq
             | Zpos _ -> Lt
             | Zneg _ -> Gt)
    | Zpos x' -> (match y with
                  | Zpos y' -> Coq_Pos.compare x' y'
                  | _ -> Gt)
    | Zneg x' ->
      (match y with
       | Zneg y' -> compOpp (Coq_Pos.compare x' y')
       | _ -> Lt)

  (** val leb : z -> z -> bool **)

  let leb x y =
    match compare x y with
    | Gt -> false
    | _ -> true

  (** val ltb : z -> z -> bool **)

  let ltb x y =
    match compare x y with
    | Lt -> true
    | _ -> false

  (** val eqb : z -> z -> bool **)

  let eqb x y =
    match x with
    | Z0 -> (match y with
             | Z0 -> true
             | _ -> false)
    | Zpos p -> (match y with
                 | Zpos q -> Coq_Pos.eqb p q
                 | _ -> false)
    | Zneg p -> (match y with
                 | Zneg q -> Coq_Pos.eqb p q
                 | _ -> false)

  (** val max : z -> z -> z **)

  let max n0 m0 =
    match compare n0 m0 with
    | Lt -> m0
    | _ -> n0

  (** val abs : z -> z **)

  let abs = function
  | Zneg p -> Zpos p
  | x -> x

  (** val to_nat : z -> nat **)

  let to_nat = function
  | Zpos p -> Coq_Pos.to_nat p
  | _ -> O

  (** val to_N : z -> n **)

  let to_N = function
  | Zpos p -> Npos p
  | _ -> N0

  (** val of_nat : nat -> z **)

  let of_nat = function
  | O -> Z0
  | S n1 -> Zpos (Coq_Pos.of_succ_nat n1)

  (** val of_N : n -> z **)

  let of_N = function
  | N0 -> Z0
  | Npos p -> Zpos p

  (** val pos_div_eucl : positive -> z -> z * z **)

  let rec pos_div_eucl a b =
    match a with
    | XI a' ->
      let (q, r) = pos_div_eucl a' b in
      let r' = add (mul (Zpos (XO XH)) r) (Zpos XH) in
      if ltb r' b
      then ((mul (Zpos (XO XH)) q), r')
      else ((add (mul (Zpos (XO XH)) q) (Zpos XH)), (sub r' b))
    | XO a' ->
      let (q, r) = pos_div_eucl a' b in
      let r' = mul (Zpos (XO XH)) r in
      if ltb r' b
      then ((mul (Zpos (XO XH)) q), r')
      else ((add (mul (Zpos (XO XH)) q) (Zpos XH)), (sub r' b))
    | XH -> if leb (Zpos (XO XH)) b then (Z0, (Zpos XH)) else ((Zpos XH), Z0)

  (** val div_eucl : z -> z -> z * z **)

  let div_eucl a b =
    match a with
    | Z0 -> (Z0, Z0)
    | Zpos a' ->
      (match b with
       | Z0 -> (Z0, a)
       | Zpos _ -> pos_div_eucl a' b
       | Zneg b' ->
         let (q, r) = pos_div_eucl a' (Zpos b') in
         (match r with
          | Z0 -> ((opp q), Z0)
          | _ -> ((opp (add q (Zpos XH))), (add b r))))
    | Zneg a' ->
      (match b with
       | Z0 -> (Z0, a)
       | Zpos _ ->
         let (q, r) = pos_div_eucl a' b in
         (match r with
          | Z0 -> ((opp q), Z0)
          | _ -> ((opp (add q (Zpos XH))), (sub b r)))
       | Zneg b' -> let (q, r) = pos_div_eucl a' (Zpos b') in (q, (opp r)))

  (** val div : z -> z -> z **)

  let div a b =
    let (q, _) = div_eucl a b in q

  (** val modulo : z -> z -> z **)

  let modulo a b =
    let (_, r) = div_eucl a b in r

  (** val even : z -> bool **)

  let even = function
  | Z0 -> true
  | Zpos p -> (match p with
               | XO _ -> true
               | _ -> false)
  | Zneg p -> (match p with
               | XO _ -> true
               | _ -> false)

  (** val odd : z -> bool **)

  let odd = function
  | Z0 -> false
  | Zpos p -> (match p with
               | XO _ -> false
               | _ -> true)
  | Zneg p -> (match p with
               | XO _ -> false
               | _ -> true)

  (** val log2 : z -> z **)

  let log2 = function
  | Zpos p0 ->
    (match p0 with
     | XI p -> Zpos (Coq_Pos.size p)
     | XO p -> Zpos (Coq_Pos.size p)
     | XH -> Z0)
  | _ -> Z0
 end

type bytes = n list

(** val lex : bytes -> bytes -> comparison **)

let rec lex a b =
  match a with
  | [] -> (match b with
           | [] -> Eq
           | _ :: _ -> Lt)
  | x :: a' ->
    (match b with
     | [] -> Gt
     | y :: b' -> (match N.compare x y with
                   | Eq -> lex a' b'
                   | x0 -> x0))

(** val beqb : bytes -> bytes -> bool **)

let beqb a b =
  match lex a b with
  | Eq -> true
  | _ -> false

(** val bltb : bytes -> bytes -> bool **)

let bltb a b =
  match lex a b with
  | Lt -> true
  | _ -> false

(** val bleb : bytes -> bytes -> bool **)

let bleb a b =
  match lex a b with
  | Gt -> false
  | _ -> true

(** val is_prefix : bytes -> bytes -> bool **)

let rec is_prefix p s =
  match p with
  | [] -> true
  | x :: p' ->
    (match s with
     | [] -> false
     | y :: s' -> (&&) (N.eqb x y) (is_prefix p' s'))

(** val drop_prefix : bytes -> bytes -> bytes **)

let rec drop_prefix p s =
  match p with
  | [] -> s
  | _ :: p' -> (match s with
                | [] -> []
                | _ :: s' -> drop_prefix p' s')

(** val cmp_then : comparison -> comparison -> comparison **)

let cmp_then c d =
  match c with
  | Eq -> d
  | _ -> c

(** val is_lt : comparison -> bool **)

let is_lt = function
| Lt -> true
| _ -> false

(** val is_gt : comparison -> bool **)

let is_gt = function
| Gt -> true
| _ -> false

(** val is_eq : comparison -> bool **)

let is_eq = function
| Eq -> true
| _ -> false

(** val is_le : comparison -> bool **)

let is_le c =
  negb (is_gt c)

(** val is_ge : comparison -> bool **)

let is_ge c =
  negb (is_lt c)

(** val ch_c : n **)

let ch_c =
  Npos (XI (XI (XO (XO (XO (XI XH))))))

(** val ch_d : n **)

let ch_d =
  Npos (XO (XO (XI (XO (XO (XI XH))))))

(** val ch_i : n **)

let ch_i =
  Npos (XI (XO (XO (XI (XO (XI XH))))))

(** val ch_l : n **)

let ch_l =
  Npos (XO (XO (XI (XI (XO (XI XH))))))

(** val ch_o : n **)

let ch_o =
  Npos (XI (XI (XI (XI (XO (XI XH))))))

(** val ch_t : n **)

let ch_t =
  Npos (XO (XO (XI (XO (XI (XI XH))))))

(** val ch_v : n **)

let ch_v =
  Npos (XO (XI (XI (XO (XI (XI XH))))))

(** val ch_colon : n **)

let ch_colon =
  Npos (XO (XI (XO (XI (XI XH)))))

(** val ch_semi : n **)

let ch_semi =
  Npos (XI (XI (XO (XI (XI XH)))))

(** val ch_dot : n **)

let ch_dot =
  Npos (XO (XI (XI (XI (XO XH)))))

(** val merge : ('a1 -> 'a1 -> bool) -> 'a1 list -> 'a1 list -> 'a1 list **)

let rec merge leb0 l1 =
  let rec merge_aux l2 =
    match l1 with
    | [] -> l2
    | a1 :: l1' ->
      (match l2 with
       | [] -> l1
       | a2 :: l2' ->
         if leb0 a1 a2
         then a1 :: (merge leb0 l1' l2)
         else a2 :: (merge_aux l2'))
  in merge_aux

(** val merge_list_to_stack :
    ('a1 -> 'a1 -> bool) -> 'a1 list option list -> 'a1 list -> 'a1 list
    option list **)

let rec merge_list_to_stack leb0 stack l =
  match stack with
  | [] -> (Some l) :: []
  | o :: stack' ->
    (match o with
     | Some l' -> None :: (merge_list_to_stack leb0 stack' (merge leb0 l' l))
     | None -> (Some l) :: stack')

(** val merge_stack :
    ('a1 -> 'a1 -> bool) -> 'a1 list option list -> 'a1 list **)

let rec merge_stack leb0 = function
| [] -> []
| o :: stack' ->
  (match o with
   | Some l -> merge leb0 (merge_stack leb0 stack') l
   | None -> merge_stack leb0 stack')

(** val iter_merge :
    ('a1 -> 'a1 -> bool) -> 'a1 list option list -> 'a1 list -> 'a1 list **)

let rec iter_merge leb0 stack = function
| [] -> merge_stack leb0 stack
| a :: l' -> iter_merge leb0 (merge_list_to_stack leb0 stack (a :: [])) l'

(** val msort : ('a1 -> 'a1 -> bool) -> 'a1 list -> 'a1 list **)

let msort leb0 l =
  iter_merge leb0 [] l

(** val two63 : z **)

let two63 =
  Zpos (XO (XO (XO (XO (XO (XO (XO (XO (XO (XO (XO (XO (XO (XO (XO (XO (XO
    (XO (XO (XO (XO (XO (XO (XO (XO (XO (XO (XO (XO (XO (XO (XO (XO (XO (XO
    (XO (XO (XO (XO (XO (XO (XO (XO (XO (XO (XO (XO (XO (XO (XO (XO (XO (XO
    (XO (XO (XO (XO (XO (XO (XO (XO (XO (XO
    XH)))))))))))))))))))))))))))))))))))))))))))))))))))))))))))))))

(** val two64 : z **)

let two64 =
  Zpos (XO (XO (XO (XO (XO (XO (XO (XO (XO (XO (XO (XO (XO (XO (XO (XO (XO
    (XO (XO (XO (XO (XO (XO (XO (XO (XO (XO (XO (XO (XO (XO (XO (XO (XO (XO
    (XO (XO (XO (XO (XO (XO (XO (XO (XO (XO (XO (XO (XO (XO (XO (XO (XO (XO
    (XO (XO (XO (XO (XO (XO (XO (XO (XO (XO (XO
    XH))))))))))))))))))))))))))))))))))))))))))))))))))))))))))))))))

(** val two52 : z **)

let two52 =
  Zpos (XO (XO (XO (XO (XO (XO (XO (XO (XO (XO (XO (XO (XO (XO (XO (XO (XO
    (XO (XO (XO (XO (XO (XO (XO (XO (XO (XO (XO (XO (XO (XO (XO (XO (XO (XO
    (XO (XO (XO (XO (XO (XO (XO (XO (XO (XO (XO (XO (XO (XO (XO (XO (XO
    XH))))))))))))))))))))))))))))))))))))))))))))))))))))

(** val two53 : z **)

let two53 =
  Zpos (XO (XO (XO (XO (XO (XO (XO (XO (XO (XO (XO (XO (XO (XO (XO (XO (XO
    (XO (XO (XO (XO (XO (XO (XO (XO (XO (XO (XO (XO (XO (XO (XO (XO (XO (XO
    (XO (XO (XO (XO (XO (XO (XO (XO (XO (XO (XO (XO (XO (XO (XO (XO (XO (XO
    XH)))))))))))))))))))))))))))))))))))))))))))))))))))))

(** val fsign : z -> bool **)

let fsign b =
  Z.leb two63 b

(** val fbits_mag : z -> z **)

let fbits_mag b =
  Z.modulo b two63

(** val fexp : z -> z **)

let fexp b =
  Z.div (fbits_mag b) two52

(** val fman : z -> z **)

let fman b =
  Z.modulo b two52

(** val is_nan : z -> bool **)

let is_nan b =
  (&&)
    (Z.eqb (fexp b) (Zpos (XI (XI (XI (XI (XI (XI (XI (XI (XI (XI
      XH)))))))))))) (negb (Z.eqb (fman b) Z0))

(** val is_inf : z -> bool **)

let is_inf b =
  (&&)
    (Z.eqb (fexp b) (Zpos (XI (XI (XI (XI (XI (XI (XI (XI (XI (XI
      XH)))))))))))) (Z.eqb (fman b) Z0)

(** val fmag : z -> z **)

let fmag b =
  if Z.eqb (fexp b) Z0
  then fman b
  else Z.mul (Z.add two52 (fman b))
         (Z.pow (Zpos (XO XH)) (Z.sub (fexp b) (Zpos XH)))

(** val fden : z -> z **)

let fden b =
  if fsign b then Z.opp (fmag b) else fmag b

(** val fcmp : z -> z -> comparison **)

let fcmp a b =
  Z.compare (fden a) (fden b)

(** val of_Z_mag : z -> z **)

let of_Z_mag m0 =
  if Z.eqb m0 Z0
  then Z0
  else let k = Z.log2 m0 in
       if Z.leb k (Zpos (XO (XO (XI (XO (XI XH))))))
       then Z.add
              (Z.mul
                (Z.add (Zpos (XI (XI (XI (XI (XI (XI (XI (XI (XI XH))))))))))
                  k) two52)
              (Z.sub
                (Z.mul m0
                  (Z.pow (Zpos (XO XH))
                    (Z.sub (Zpos (XO (XO (XI (XO (XI XH)))))) k))) two52)
       else let sh = Z.sub k (Zpos (XO (XO (XI (XO (XI XH)))))) in
            let q = Z.div m0 (Z.pow (Zpos (XO XH)) sh) in
            let r = Z.modulo m0 (Z.pow (Zpos (XO XH)) sh) in
            let half = Z.pow (Zpos (XO XH)) (Z.sub sh (Zpos XH)) in
            let q' =
              if (||) (Z.ltb half r) ((&&) (Z.eqb r half) (Z.odd q))
              then Z.add q (Zpos XH)
              else q
            in
            Z.add
              (Z.mul
                (Z.add (Zpos (XI (XI (XI (XI (XI (XI (XI (XI (XI XH))))))))))
                  k) two52) (Z.sub q' two52)

(** val of_Z : z -> z **)

let of_Z z0 =
  if Z.ltb z0 Z0 then Z.add two63 (of_Z_mag (Z.opp z0)) else of_Z_mag z0

(** val fkey_int : z -> z **)

let fkey_int b =
  if fsign b then Z.opp (Z.sub b two63) else b

(** val scale1074 : z **)

let scale1074 =
  Z.pow (Zpos (XO XH)) (Zpos (XO (XI (XO (XO (XI (XI (XO (XO (XO (XO
    XH)))))))))))

type value =
| VNil
| VInt of z
| VUint of z
| VFloat of z
| VStr of bytes
| VBool of bool
| VTime of z * z * z
| VArr of value list
| VObj of (bytes * value) list

type obj = (bytes * value) list

(** val type_id : value -> z **)

let type_id = function
| VNil -> Z0
| VStr _ -> Zpos (XO XH)
| VBool _ -> Zpos (XI (XO XH))
| VTime (_, _, _) -> Zpos (XO (XI XH))
| VArr _ -> Zpos (XO (XO XH))
| VObj _ -> Zpos (XI XH)
| _ -> Zpos XH

(** val is_number : value -> bool **)

let is_number = function
| VInt _ -> true
| VUint _ -> true
| VFloat _ -> true
| _ -> false

(** val obj_get : bytes -> obj -> value option **)

let rec obj_get k = function
| [] -> None
| p :: t0 -> let (k', v) = p in if beqb k k' then Some v else obj_get k t0

(** val obj_set : bytes -> value -> obj -> obj **)

let rec obj_set k v o = match o with
| [] -> (k, v) :: []
| p :: t0 ->
  let (k', v') = p in
  (match lex k k' with
   | Eq -> (k, v) :: t0
   | Lt -> (k, v) :: o
   | Gt -> (k', v') :: (obj_set k v t0))

type wire =
| WNil
| WInt of z
| WUint of z
| WFloat of z
| WStr of bytes
| WBool of bool
| WTime of z * z * z
| WLTime of z * z * z
| WArr of wire list
| WObj of (bytes * wire) list

(** val replace_times : value -> wire **)

let rec replace_times = function
| VNil -> WNil
| VInt z0 -> WInt z0
| VUint z0 -> WUint z0
| VFloat b -> WFloat b
| VStr s -> WStr s
| VBool b -> WBool b
| VTime (s, n0, o) -> WLTime (s, n0, o)
| VArr l -> WArr (map replace_times l)
| VObj o ->
  WObj
    (let rec go = function
     | [] -> []
     | p :: t0 -> let (k, x) = p in (k, (replace_times x)) :: (go t0)
     in go o)

(** val remove_localized : wire -> value **)

let rec remove_localized = function
| WNil -> VNil
| WInt z0 -> VInt z0
| WUint z0 -> VUint z0
| WFloat b -> VFloat b
| WStr s -> VStr s
| WBool b -> VBool b
| WTime (s, n0, o) -> VTime (s, n0, o)
| WLTime (s, n0, o) -> VTime (s, n0, o)
| WArr l -> VArr (map remove_localized l)
| WObj o ->
  VObj
    (let rec go = function
     | [] -> []
     | p :: t0 -> let (k, x) = p in (k, (remove_localized x)) :: (go t0)
     in go o)

(** val doc_encode : obj -> wire **)

let doc_encode d =
  replace_times (VObj d)

(** val doc_decode : wire -> obj **)

let doc_decode w =
  match remove_localized w with
  | VObj o -> o
  | _ -> []

(** val to_float : value -> z **)

let to_float = function
| VInt z0 -> of_Z z0
| VUint z0 -> of_Z z0
| VFloat b -> b
| _ -> Z0

(** val is_float : value -> bool **)

let is_float = function
| VFloat _ -> true
| _ -> false

(** val int_val : value -> z **)

let int_val = function
| VInt z0 -> z0
| VUint z0 -> z0
| _ -> Z0

(** val compare_numbers : value -> value -> comparison **)

let compare_numbers a b =
  if (||) (is_float a) (is_float b)
  then fcmp (to_float a) (to_float b)
  else Z.compare (int_val a) (int_val b)

(** val compare_bool : bool -> bool -> comparison **)

let compare_bool a b =
  if a then if b then Eq else Gt else if b then Lt else Eq

(** val compare_time : z -> z -> z -> z -> comparison **)

let compare_time s1 n1 s2 n2 =
  cmp_then (Z.compare s1 s2) (Z.compare n1 n2)

(** val compare0 : value -> value -> comparison **)

let rec compare0 a b =
  match Z.compare (type_id a) (type_id b) with
  | Eq ->
    (match a with
     | VNil ->
       (match b with
        | VNil -> Eq
        | _ ->
          if (&&) (is_number a) (is_number b) then compare_numbers a b else Eq)
     | VStr s1 ->
       (match b with
        | VStr s2 -> lex s1 s2
        | _ ->
          if (&&) (is_number a) (is_number b) then compare_numbers a b else Eq)
     | VBool b1 ->
       (match b with
        | VBool b2 -> compare_bool b1 b2
        | _ ->
          if (&&) (is_number a) (is_number b) then compare_numbers a b else Eq)
     | VTime (s1, n1, _) ->
       (match b with
        | VTime (s2, n2, _) -> compare_time s1 n1 s2 n2
        | _ ->
          if (&&) (is_number a) (is_number b) then compare_numbers a b else Eq)
     | VArr l1 ->
       (match b with
        | VArr l2 ->
          let rec cl l3 l4 =
            match l3 with
            | [] -> (match l4 with
                     | [] -> Eq
                     | _ :: _ -> Lt)
            | x :: t1 ->
              (match l4 with
               | [] -> Gt
               | y :: t2 -> cmp_then (compare0 x y) (cl t1 t2))
          in cl l1 l2
        | _ ->
          if (&&) (is_number a) (is_number b) then compare_numbers a b else Eq)
     | VObj o1 ->
       (match b with
        | VObj o2 ->
          let rec co o3 o4 =
            match o3 with
            | [] -> (match o4 with
                     | [] -> Eq
                     | _ :: _ -> Lt)
            | p :: t1 ->
              let (k1, x) = p in
              (match o4 with
               | [] -> Gt
               | p0 :: t2 ->
                 let (k2, y) = p0 in
                 cmp_then (lex k1 k2) (cmp_then (compare0 x y) (co t1 t2)))
          in co o1 o2
        | _ ->
          if (&&) (is_number a) (is_number b) then compare_numbers a b else Eq)
     | _ ->
       if (&&) (is_number a) (is_number b) then compare_numbers a b else Eq)
  | x -> x

(** val split_on : n -> bytes -> bytes list **)

let rec split_on sep = function
| [] -> [] :: []
| x :: t0 ->
  if N.eqb x sep
  then [] :: (split_on sep t0)
  else (match split_on sep t0 with
        | [] -> (x :: []) :: []
        | h :: r -> (x :: h) :: r)

(** val split_dot : bytes -> bytes list **)

let split_dot s =
  split_on ch_dot s

(** val lookup_path : bytes list -> obj -> value option **)

let rec lookup_path path o =
  match path with
  | [] -> None
  | k :: rest ->
    (match rest with
     | [] -> obj_get k o
     | _ :: _ ->
       (match obj_get k o with
        | Some v -> (match v with
                     | VObj o' -> lookup_path rest o'
                     | _ -> None)
        | None -> None))

(** val doc_lookup : bytes -> obj -> value option **)

let doc_lookup name d =
  lookup_path (split_dot name) d

(** val doc_has : bytes -> obj -> bool **)

let doc_has name d =
  match doc_lookup name d with
  | Some _ -> true
  | None -> false

(** val doc_get : bytes -> obj -> value **)

let doc_get name d =
  match doc_lookup name d with
  | Some v -> v
  | None -> VNil

(** val set_path : bytes list -> value -> obj -> obj **)

let rec set_path path v o =
  match path with
  | [] -> o
  | k :: rest ->
    (match rest with
     | [] -> obj_set k v o
     | _ :: _ ->
       let sub0 =
         match obj_get k o with
         | Some v0 ->
           (match v0 with
            | VNil -> []
            | VInt _ -> []
            | VUint _ -> []
            | VFloat _ -> []
            | VStr _ -> []
            | VBool _ -> []
            | VTime (_, _, _) -> []
            | VArr _ -> []
            | VObj o' -> o')
         | None -> []
       in
       obj_set k (VObj (set_path rest v sub0)) o)

(** val doc_set : bytes -> value -> obj -> obj **)

let doc_set name v d =
  set_path (split_dot name) v d

(** val id_field : bytes **)

let id_field =
  (Npos (XI (XI (XI (XI (XI (XO XH))))))) :: ((Npos (XI (XO (XO (XI (XO (XI
    XH))))))) :: ((Npos (XO (XO (XI (XO (XO (XI XH))))))) :: []))

(** val expires_field : bytes **)

let expires_field =
  (Npos (XI (XI (XI (XI (XI (XO XH))))))) :: ((Npos (XI (XO (XI (XO (XO (XI
    XH))))))) :: ((Npos (XO (XO (XO (XI (XI (XI XH))))))) :: ((Npos (XO (XO
    (XO (XO (XI (XI XH))))))) :: ((Npos (XI (XO (XO (XI (XO (XI
    XH))))))) :: ((Npos (XO (XI (XO (XO (XI (XI XH))))))) :: ((Npos (XI (XO
    (XI (XO (XO (XI XH))))))) :: ((Npos (XI (XI (XO (XO (XI (XI
    XH))))))) :: ((Npos (XI (XO (XO (XO (XO (XO XH))))))) :: ((Npos (XO (XO
    (XI (XO (XI (XI XH))))))) :: [])))))))))

(** val object_id : obj -> bytes **)

let object_id d =
  match doc_get id_field d with
  | VStr s -> s
  | _ -> []

(** val is_hex : n -> bool **)

let is_hex c =
  (||)
    ((||)
      ((&&) (N.leb (Npos (XO (XO (XO (XO (XI XH)))))) c)
        (N.leb c (Npos (XI (XO (XO (XI (XI XH))))))))
      ((&&) (N.leb (Npos (XI (XO (XO (XO (XO (XI XH))))))) c)
        (N.leb c (Npos (XO (XI (XI (XO (XO (XI XH))))))))))
    ((&&) (N.leb (Npos (XI (XO (XO (XO (XO (XO XH))))))) c)
      (N.leb c (Npos (XO (XI (XI (XO (XO (XO XH)))))))))

(** val ch_dash : n **)

let ch_dash =
  Npos (XI (XO (XI (XI (XO XH)))))

(** val canonical_from : nat -> bytes -> bool **)

let rec canonical_from i = function
| [] -> true
| c :: t0 ->
  (&&)
    (if (||)
          ((||)
            ((||) (Nat.eqb i (S (S (S (S (S (S (S (S O)))))))))
              (Nat.eqb i (S (S (S (S (S (S (S (S (S (S (S (S (S
                O)))))))))))))))
            (Nat.eqb i (S (S (S (S (S (S (S (S (S (S (S (S (S (S (S (S (S (S
              O))))))))))))))))))))
          (Nat.eqb i (S (S (S (S (S (S (S (S (S (S (S (S (S (S (S (S (S (S (S
            (S (S (S (S O))))))))))))))))))))))))
     then N.eqb c ch_dash
     else is_hex c) (canonical_from (S i) t0)

(** val uuid_body_ok : bytes -> bool **)

let uuid_body_ok s =
  if Nat.eqb (length s) (S (S (S (S (S (S (S (S (S (S (S (S (S (S (S (S (S (S
       (S (S (S (S (S (S (S (S (S (S (S (S (S (S (S (S (S (S
       O))))))))))))))))))))))))))))))))))))
  then canonical_from O s
  else forallb is_hex s

(** val urn_prefix : bytes **)

let urn_prefix =
  (Npos (XI (XO (XI (XO (XI (XI XH))))))) :: ((Npos (XO (XI (XO (XO (XI (XI
    XH))))))) :: ((Npos (XO (XI (XI (XI (XO (XI XH))))))) :: ((Npos (XO (XI
    (XO (XI (XI XH)))))) :: ((Npos (XI (XO (XI (XO (XI (XI
    XH))))))) :: ((Npos (XI (XO (XI (XO (XI (XI XH))))))) :: ((Npos (XI (XO
    (XO (XI (XO (XI XH))))))) :: ((Npos (XO (XO (XI (XO (XO (XI
    XH))))))) :: ((Npos (XO (XI (XO (XI (XI XH)))))) :: []))))))))

(** val valid_id : bytes -> bool **)

let valid_id s =
  let n0 = length s in
  if (||)
       (Nat.eqb n0 (S (S (S (S (S (S (S (S (S (S (S (S (S (S (S (S (S (S (S
         (S (S (S (S (S (S (S (S (S (S (S (S (S
         O)))))))))))))))))))))))))))))))))
       (Nat.eqb n0 (S (S (S (S (S (S (S (S (S (S (S (S (S (S (S (S (S (S (S
         (S (S (S (S (S (S (S (S (S (S (S (S (S (S (S (S (S
         O)))))))))))))))))))))))))))))))))))))
  then uuid_body_ok s
  else if (||)
            (Nat.eqb n0 (S (S (S (S (S (S (S (S (S (S (S (S (S (S (S (S (S (S
              (S (S (S (S (S (S (S (S (S (S (S (S (S (S (S (S
              O)))))))))))))))))))))))))))))))))))
            (Nat.eqb n0 (S (S (S (S (S (S (S (S (S (S (S (S (S (S (S (S (S (S
              (S (S (S (S (S (S (S (S (S (S (S (S (S (S (S (S (S (S (S (S
              O)))))))))))))))))))))))))))))))))))))))
       then (match s with
             | [] -> false
             | c :: t0 ->
               (&&)
                 ((&&) (N.eqb c (Npos (XI (XI (XO (XI (XI (XI XH))))))))
                   (N.eqb (last s N0) (Npos (XI (XO (XI (XI (XI (XI XH)))))))))
                 (uuid_body_ok (removelast t0)))
       else if (||)
                 (Nat.eqb n0 (S (S (S (S (S (S (S (S (S (S (S (S (S (S (S (S
                   (S (S (S (S (S (S (S (S (S (S (S (S (S (S (S (S (S (S (S
                   (S (S (S (S (S (S
                   O))))))))))))))))))))))))))))))))))))))))))
                 (Nat.eqb n0 (S (S (S (S (S (S (S (S (S (S (S (S (S (S (S (S
                   (S (S (S (S (S (S (S (S (S (S (S (S (S (S (S (S (S (S (S
                   (S (S (S (S (S (S (S (S (S (S
                   O))))))))))))))))))))))))))))))))))))))))))))))
            then (&&) (is_prefix urn_prefix s)
                   (uuid_body_ok
                     (skipn (S (S (S (S (S (S (S (S (S O))))))))) s))
            else false

(** val validate : obj -> bool **)

let validate d =
  (&&) (valid_id (object_id d))
    (match doc_lookup expires_field d with
     | Some v -> (match v with
                  | VTime (_, _, _) -> true
                  | _ -> false)
     | None -> true)

type goval =
| GNil
| GInt of z * z
| GUint of z * z
| GFloat32 of z
| GFloat64 of z
| GString of bytes
| GBool of bool
| GTime of z * z * z
| GPtr of goval option
| GStruct of gfield list
| GMap of bool * (bytes * goval) list
| GSlice of bool * goval list
| GUnsupported
| GCanon of value
and gfield =
| GField of bytes * bool * bytes * bool * bool * goval

(** val ch_comma : n **)

let ch_comma =
  Npos (XO (XO (XI (XI (XO XH)))))

(** val omitempty_s : bytes **)

let omitempty_s =
  (Npos (XI (XI (XI (XI (XO (XI XH))))))) :: ((Npos (XI (XO (XI (XI (XO (XI
    XH))))))) :: ((Npos (XI (XO (XO (XI (XO (XI XH))))))) :: ((Npos (XO (XO
    (XI (XO (XI (XI XH))))))) :: ((Npos (XI (XO (XI (XO (XO (XI
    XH))))))) :: ((Npos (XI (XO (XI (XI (XO (XI XH))))))) :: ((Npos (XO (XO
    (XO (XO (XI (XI XH))))))) :: ((Npos (XO (XO (XI (XO (XI (XI
    XH))))))) :: ((Npos (XI (XO (XO (XI (XI (XI XH))))))) :: []))))))))

(** val tag_name : bytes -> bytes **)

let tag_name tag =
  match split_on ch_comma tag with
  | [] -> []
  | h :: _ -> h

(** val tag_omitempty : bytes -> bool **)

let tag_omitempty tag =
  match split_on ch_comma tag with
  | [] -> false
  | _ :: l -> (match l with
               | [] -> false
               | o :: _ -> beqb o omitempty_s)

(** val is_empty_value : bool -> goval -> bool **)

let is_empty_value iface_typed g =
  if iface_typed
  then (match g with
        | GNil -> true
        | _ -> false)
  else (match g with
        | GNil -> true
        | GInt (_, z0) -> Z.eqb z0 Z0
        | GUint (_, z0) -> Z.eqb z0 Z0
        | GFloat32 b -> Z.eqb (fbits_mag b) Z0
        | GFloat64 b -> Z.eqb (fbits_mag b) Z0
        | GString s -> (match s with
                        | [] -> true
                        | _ :: _ -> false)
        | GBool b -> negb b
        | GPtr p -> (match p with
                     | Some _ -> false
                     | None -> true)
        | GMap (_, l) -> (match l with
                          | [] -> true
                          | _ :: _ -> false)
        | GSlice (_, l) -> (match l with
                            | [] -> true
                            | _ :: _ -> false)
        | GCanon v -> (match v with
                       | VNil -> true
                       | _ -> false)
        | _ -> false)

type nres =
| NOk of value
| NErr
| NBytes

(** val merge_obj : obj -> obj -> obj **)

let merge_obj into from =
  fold_left (fun o kv0 -> obj_set (fst kv0) (snd kv0) o) from into

(** val normalize : goval -> nres **)

let rec normalize = function
| GNil -> NOk VNil
| GInt (_, z0) -> NOk (VInt z0)
| GUint (_, z0) -> NOk (VUint z0)
| GFloat32 b -> NOk (VFloat b)
| GFloat64 b -> NOk (VFloat b)
| GString s -> NOk (VStr s)
| GBool b -> NOk (VBool b)
| GTime (s, n0, o) -> NOk (VTime (s, n0, o))
| GPtr p -> (match p with
             | Some g' -> normalize g'
             | None -> NOk VNil)
| GStruct fs ->
  let rec go fs0 acc =
    match fs0 with
    | [] -> NOk (VObj acc)
    | g0 :: t0 ->
      let GField (name, exported, tag, anon, iface, x) = g0 in
      if negb exported
      then go t0 acc
      else let fname = match tag_name tag with
                       | [] -> name
                       | n0 :: l -> n0 :: l
           in
           if (&&) (tag_omitempty tag) (is_empty_value iface x)
           then go t0 acc
           else (match normalize x with
                 | NOk v ->
                   if anon
                   then (match v with
                         | VObj o -> go t0 (merge_obj acc o)
                         | _ -> go t0 (obj_set fname v acc))
                   else go t0 (obj_set fname v acc)
                 | NErr -> NErr
                 | NBytes -> go t0 (obj_set fname VNil acc))
  in go fs []
| GMap (string_keys, es) ->
  if string_keys
  then let rec go es0 acc =
         match es0 with
         | [] -> NOk (VObj acc)
         | p :: t0 ->
           let (k, x) = p in
           (match normalize x with
            | NOk v -> go t0 (obj_set k v acc)
            | NErr -> NErr
            | NBytes -> go t0 (obj_set k VNil acc))
       in go es []
  else NErr
| GSlice (elem_uint8, l) ->
  if elem_uint8
  then NBytes
  else let rec go l0 acc =
         match l0 with
         | [] -> NOk (VArr (rev acc))
         | x :: t0 ->
           (match normalize x with
            | NOk v -> go t0 (v :: acc)
            | NErr -> NErr
            | NBytes -> go t0 (VNil :: acc))
       in go l []
| GUnsupported -> NErr
| GCanon v -> NOk v

(** val doc_set_go : bytes -> goval -> obj -> obj **)

let doc_set_go name g d =
  match normalize g with
  | NOk v -> doc_set name v d
  | _ -> d

type cmpop =
| OEq
| OGt
| OGtEq
| OLt
| OLtEq

type 'l operand =
| OLit of 'l
| ORef of bytes

type 'l crit =
| CCmp of cmpop * bytes * 'l operand
| CExists of bytes
| CLike of bytes * bytes
| CIn of bytes * 'l operand list
| CContains of bytes * 'l operand list
| CFun of z
| CNot of 'l crit
| CAnd of 'l crit * 'l crit
| COr of 'l crit * 'l crit

type gcrit = goval crit

type ncrit = value crit

type ratom =
| RLit of n
| RAnyStar

(** val parse_atoms : bytes -> ratom list **)

let rec parse_atoms = function
| [] -> []
| c :: t0 ->
  (match c with
   | N0 -> (RLit c) :: (parse_atoms t0)
   | Npos p0 ->
     (match p0 with
      | XO p1 ->
        (match p1 with
         | XI p2 ->
           (match p2 with
            | XI p3 ->
              (match p3 with
               | XI p4 ->
                 (match p4 with
                  | XO p5 ->
                    (match p5 with
                     | XH ->
                       (match t0 with
                        | [] -> (RLit c) :: (parse_atoms t0)
                        | n0 :: t1 ->
                          (match n0 with
                           | N0 -> (RLit c) :: (parse_atoms t0)
                           | Npos p6 ->
                             (match p6 with
                              | XO p7 ->
                                (match p7 with
                                 | XI p8 ->
                                   (match p8 with
                                    | XO p9 ->
                                      (match p9 with
                                       | XI p10 ->
                                         (match p10 with
                                          | XO p11 ->
                                            (match p11 with
                                             | XH ->
                                               RAnyStar :: (parse_atoms t1)
                                             | _ ->
                                               (RLit c) :: (parse_atoms t0))
                                          | _ -> (RLit c) :: (parse_atoms t0))
                                       | _ -> (RLit c) :: (parse_atoms t0))
                                    | _ -> (RLit c) :: (parse_atoms t0))
                                 | _ -> (RLit c) :: (parse_atoms t0))
                              | _ -> (RLit c) :: (parse_atoms t0))))
                     | _ -> (RLit c) :: (parse_atoms t0))
                  | _ -> (RLit c) :: (parse_atoms t0))
               | _ -> (RLit c) :: (parse_atoms t0))
            | _ -> (RLit c) :: (parse_atoms t0))
         | _ -> (RLit c) :: (parse_atoms t0))
      | _ -> (RLit c) :: (parse_atoms t0)))

(** val match_here : ratom list -> bool -> bytes -> bool **)

let rec match_here atoms to_end s =
  match atoms with
  | [] -> if to_end then (match s with
                          | [] -> true
                          | _ :: _ -> false) else true
  | r :: rest ->
    (match r with
     | RLit c ->
       (match s with
        | [] -> false
        | x :: t0 -> (&&) (N.eqb x c) (match_here rest to_end t0))
     | RAnyStar ->
       let rec try0 s0 =
         (||) (match_here rest to_end s0)
           (match s0 with
            | [] -> false
            | _ :: t0 -> try0 t0)
       in try0 s)

(** val match_anywhere : ratom list -> bool -> bytes -> bool **)

let rec match_anywhere atoms to_end s =
  (||) (match_here atoms to_end s)
    (match s with
     | [] -> false
     | _ :: t0 -> match_anywhere atoms to_end t0)

(** val like_match : bytes -> bytes -> bool **)

let like_match pat s =
  match pat with
  | [] ->
    let anch_start = false in
    (match rev pat with
     | [] ->
       let anch_end = false in
       let atoms = parse_atoms pat in
       if anch_start
       then match_here atoms anch_end s
       else match_anywhere atoms anch_end s
     | n0 :: r ->
       (match n0 with
        | N0 ->
          let anch_end = false in
          let atoms = parse_atoms pat in
          if anch_start
          then match_here atoms anch_end s
          else match_anywhere atoms anch_end s
        | Npos p ->
          (match p with
           | XO p0 ->
             (match p0 with
              | XO p2 ->
                (match p2 with
                 | XI p3 ->
                   (match p3 with
                    | XO p4 ->
                      (match p4 with
                       | XO p5 ->
                         (match p5 with
                          | XH ->
                            let anch_end = true in
                            let p6 = rev r in
                            let atoms = parse_atoms p6 in
                            if anch_start
                            then match_here atoms anch_end s
                            else match_anywhere atoms anch_end s
                          | _ ->
                            let anch_end = false in
                            let atoms = parse_atoms pat in
                            if anch_start
                            then match_here atoms anch_end s
                            else match_anywhere atoms anch_end s)
                       | _ ->
                         let anch_end = false in
                         let atoms = parse_atoms pat in
                         if anch_start
                         then match_here atoms anch_end s
                         else match_anywhere atoms anch_end s)
                    | _ ->
                      let anch_end = false in
                      let atoms = parse_atoms pat in
                      if anch_start
                      then match_here atoms anch_end s
                      else match_anywhere atoms anch_end s)
                 | _ ->
                   let anch_end = false in
                   let atoms = parse_atoms pat in
                   if anch_start
                   then match_here atoms anch_end s
                   else match_anywhere atoms anch_end s)
              | _ ->
                let anch_end = false in
                let atoms = parse_atoms pat in
                if anch_start
                then match_here atoms anch_end s
                else match_anywhere atoms anch_end s)
           | _ ->
             let anch_end = false in
             let atoms = parse_atoms pat in
             if anch_start
             then match_here atoms anch_end s
             else match_anywhere atoms anch_end s)))
  | n0 :: t0 ->
    (match n0 with
     | N0 ->
       let anch_start = false in
       (match rev pat with
        | [] ->
          let anch_end = false in
          let atoms = parse_atoms pat in
          if anch_start
          then match_here atoms anch_end s
          else match_anywhere atoms anch_end s
        | n1 :: r ->
          (match n1 with
           | N0 ->
             let anch_end = false in
             let atoms = parse_atoms pat in
             if anch_start
             then match_here atoms anch_end s
             else match_anywhere atoms anch_end s
           | Npos p ->
             (match p with
              | XO p0 ->
                (match p0 with
                 | XO p2 ->
                   (match p2 with
                    | XI p3 ->
                      (match p3 with
                       | XO p4 ->
                         (match p4 with
                          | XO p5 ->
                            (match p5 with
                             | XH ->
                               let anch_end = true in
                               let p6 = rev r in
                               let atoms = parse_atoms p6 in
                               if anch_start
                               then match_here atoms anch_end s
                               else match_anywhere atoms anch_end s
                             | _ ->
                               let anch_end = false in
                               let atoms = parse_atoms pat in
                               if anch_start
                               then match_here atoms anch_end s
                               else match_anywhere atoms anch_end s)
                          | _ ->
                            let anch_end = false in
                            let atoms = parse_atoms pat in
                            if anch_start
                            then match_here atoms anch_end s
                            else match_anywhere atoms anch_end s)
                       | _ ->
                         let anch_end = false in
                         let atoms = parse_atoms pat in
                         if anch_start
                         then match_here atoms anch_end s
                         else match_anywhere atoms anch_end s)
                    | _ ->
                      let anch_end = false in
                      let atoms = parse_atoms pat in
                      if anch_start
                      then match_here atoms anch_end s
                      else match_anywhere atoms anch_end s)
                 | _ ->
                   let anch_end = false in
                   let atoms = parse_atoms pat in
                   if anch_start
                   then match_here atoms anch_end s
                   else match_anywhere atoms anch_end s)
              | _ ->
                let anch_end = false in
                let atoms = parse_atoms pat in
                if anch_start
                then match_here atoms anch_end s
                else match_anywhere atoms anch_end s)))
     | Npos p ->
       (match p with
        | XO p0 ->
          (match p0 with
           | XI p1 ->
             (match p1 with
              | XI p2 ->
                (match p2 with
                 | XI p3 ->
                   (match p3 with
                    | XI p4 ->
                      (match p4 with
                       | XO p5 ->
                         (match p5 with
                          | XH ->
                            let anch_start = true in
                            (match rev t0 with
                             | [] ->
                               let anch_end = false in
                               let atoms = parse_atoms t0 in
                               if anch_start
                               then match_here atoms anch_end s
                               else match_anywhere atoms anch_end s
                             | n1 :: r ->
                               (match n1 with
                                | N0 ->
                                  let anch_end = false in
                                  let atoms = parse_atoms t0 in
                                  if anch_start
                                  then match_here atoms anch_end s
                                  else match_anywhere atoms anch_end s
                                | Npos p6 ->
                                  (match p6 with
                                   | XO p7 ->
                                     (match p7 with
                                      | XO p8 ->
                                        (match p8 with
                                         | XI p9 ->
                                           (match p9 with
                                            | XO p10 ->
                                              (match p10 with
                                               | XO p11 ->
                                                 (match p11 with
                                                  | XH ->
                                                    let anch_end = true in
                                                    let p12 = rev r in
                                                    let atoms =
                                                      parse_atoms p12
                                                    in
                                                    if anch_start
                                                    then match_here atoms
                                                           anch_end s
                                                    else match_anywhere atoms
                                                           anch_end s
                                                  | _ ->
                                                    let anch_end = false in
                                                    let atoms = parse_atoms t0
                                                    in
                                                    if anch_start
                                                    then match_here atoms
                                                           anch_end s
                                                    else match_anywhere atoms
                                                           anch_end s)
                                               | _ ->
                                                 let anch_end = false in
                                                 let atoms = parse_atoms t0 in
                                                 if anch_start
                                                 then match_here atoms
                                                        anch_end s
                                                 else match_anywhere atoms
                                                        anch_end s)
                                            | _ ->
                                              let anch_end = false in
                                              let atoms = parse_atoms t0 in
                                              if anch_start
                                              then match_here atoms anch_end s
                                              else match_anywhere atoms
                                                     anch_end s)
                                         | _ ->
                                           let anch_end = false in
                                           let atoms = parse_atoms t0 in
                                           if anch_start
                                           then match_here atoms anch_end s
                                           else match_anywhere atoms anch_end
                                                  s)
                                      | _ ->
                                        let anch_end = false in
                                        let atoms = parse_atoms t0 in
                                        if anch_start
                                        then match_here atoms anch_end s
                                        else match_anywhere atoms anch_end s)
                                   | _ ->
                                     let anch_end = false in
                                     let atoms = parse_atoms t0 in
                                     if anch_start
                                     then match_here atoms anch_end s
                                     else match_anywhere atoms anch_end s)))
                          | _ ->
                            let anch_start = false in
                            (match rev pat with
                             | [] ->
                               let anch_end = false in
                               let atoms = parse_atoms pat in
                               if anch_start
                               then match_here atoms anch_end s
                               else match_anywhere atoms anch_end s
                             | n1 :: r ->
                               (match n1 with
                                | N0 ->
                                  let anch_end = false in
                                  let atoms = parse_atoms pat in
                                  if anch_start
                                  then match_here atoms anch_end s
                                  else match_anywhere atoms anch_end s
                                | Npos p6 ->
                                  (match p6 with
                                   | XO p7 ->
                                     (match p7 with
                                      | XO p8 ->
                                        (match p8 with
                                         | XI p9 ->
                                           (match p9 with
                                            | XO p10 ->
                                              (match p10 with
                                               | XO p11 ->
                                                 (match p11 with
                                                  | XH ->
                                                    let anch_end = true in
                                                    let p12 = rev r in
                                                    let atoms =
                                                      parse_atoms p12
                                                    in
                                                    if anch_start
                                                    then match_here atoms
                                                           anch_end s
                                                    else match_anywhere atoms
                                                           anch_end s
                                                  | _ ->
                                                    let anch_end = false in
                                                    let atoms =
                                                      parse_atoms pat
                                                    in
                                                    if anch_start
                                                    then match_here atoms
                                                           anch_end s
                                                    else match_anywhere atoms
                                                           anch_end s)
                                               | _ ->
                                                 let anch_end = false in
                                                 let atoms = parse_atoms pat
                                                 in
                                                 if anch_start
                                                 then match_here atoms
                                                        anch_end s
                                                 else match_anywhere atoms
                                                        anch_end s)
                                            | _ ->
                                              let anch_end = false in
                                              let atoms = parse_atoms pat in
                                              if anch_start
                                              then match_here atoms anch_end s
                                              else match_anywhere atoms
                                                     anch_end s)
                                         | _ ->
                                           let anch_end = false in
                                           let atoms = parse_atoms pat in
                                           if anch_start
                                           then match_here atoms anch_end s
                                           else match_anywhere atoms anch_end
                                                  s)
                                      | _ ->
                                        let anch_end = false in
                                        let atoms = parse_atoms pat in
                                        if anch_start
                                        then match_here atoms anch_end s
                                        else match_anywhere atoms anch_end s)
                                   | _ ->
                                     let anch_end = false in
                                     let atoms = parse_atoms pat in
                                     if anch_start
                                     then match_here atoms anch_end s
                                     else match_anywhere atoms anch_end s))))
                       | _ ->
                         let anch_start = false in
                         (match rev pat with
                          | [] ->
                            let anch_end = false in
                            let atoms = parse_atoms pat in
                            if anch_start
                            then match_here atoms anch_end s
                            else match_anywhere atoms anch_end s
                          | n1 :: r ->
                            (match n1 with
                             | N0 ->
                               let anch_end = false in
                               let atoms = parse_atoms pat in
                               if anch_start
                               then match_here atoms anch_end s
                               else match_anywhere atoms anch_end s
                             | Npos p5 ->
                               (match p5 with
                                | XO p6 ->
                                  (match p6 with
                                   | XO p7 ->
                                     (match p7 with
                                      | XI p8 ->
                                        (match p8 with
                                         | XO p9 ->
                                           (match p9 with
                                            | XO p10 ->
                                              (match p10 with
                                               | XH ->
                                                 let anch_end = true in
                                                 let p11 = rev r in
                                                 let atoms = parse_atoms p11
                                                 in
                                                 if anch_start
                                                 then match_here atoms
                                                        anch_end s
                                                 else match_anywhere atoms
                                                        anch_end s
                                               | _ ->
                                                 let anch_end = false in
                                                 let atoms = parse_atoms pat
                                                 in
                                                 if anch_start
                                                 then match_here atoms
                                                        anch_end s
                                                 else match_anywhere atoms
                                                        anch_end s)
                                            | _ ->
                                              let anch_end = false in
                                              let atoms = parse_atoms pat in
                                              if anch_start
                                              then match_here atoms anch_end s
                                              else match_anywhere atoms
                                                     anch_end s)
                                         | _ ->
                                           let anch_end = false in
                                           let atoms = parse_atoms pat in
                                           if anch_start
                                           then match_here atoms anch_end s
                                           else match_anywhere atoms anch_end
                                                  s)
                                      | _ ->
                                        let anch_end = false in
                                        let atoms = parse_atoms pat in
                                        if anch_start
                                        then match_here atoms anch_end s
                                        else match_anywhere atoms anch_end s)
                                   | _ ->
                                     let anch_end = false in
                                     let atoms = parse_atoms pat in
                                     if anch_start
                                     then match_here atoms anch_end s
                                     else match_anywhere atoms anch_end s)
                                | _ ->
                                  let anch_end = false in
                                  let atoms = parse_atoms pat in
                                  if anch_start
                                  then match_here atoms anch_end s
                                  else match_anywhere atoms anch_end s))))
                    | _ ->
                      let anch_start = false in
                      (match rev pat with
                       | [] ->
                         let anch_end = false in
                         let atoms = parse_atoms pat in
                         if anch_start
                         then match_here atoms anch_end s
                         else match_anywhere atoms anch_end s
                       | n1 :: r ->
                         (match n1 with
                          | N0 ->
                            let anch_end = false in
                            let atoms = parse_atoms pat in
                            if anch_start
                            then match_here atoms anch_end s
                            else match_anywhere atoms anch_end s
                          | Npos p4 ->
                            (match p4 with
                             | XO p5 ->
                               (match p5 with
                                | XO p6 ->
                                  (match p6 with
                                   | XI p7 ->
                                     (match p7 with
                                      | XO p8 ->
                                        (match p8 with
                                         | XO p9 ->
                                           (match p9 with
                                            | XH ->
                                              let anch_end = true in
                                              let p10 = rev r in
                                              let atoms = parse_atoms p10 in
                                              if anch_start
                                              then match_here atoms anch_end s
                                              else match_anywhere atoms
                                                     anch_end s
                                            | _ ->
                                              let anch_end = false in
                                              let atoms = parse_atoms pat in
                                              if anch_start
                                              then match_here atoms anch_end s
                                              else match_anywhere atoms
                                                     anch_end s)
                                         | _ ->
                                           let anch_end = false in
                                           let atoms = parse_atoms pat in
                                           if anch_start
                                           then match_here atoms anch_end s
                                           else match_anywhere atoms anch_end
                                                  s)
                                      | _ ->
                                        let anch_end = false in
                                        let atoms = parse_atoms pat in
                                        if anch_start
                                        then match_here atoms anch_end s
                                        else match_anywhere atoms anch_end s)
                                   | _ ->
                                     let anch_end = false in
                                     let atoms = parse_atoms pat in
                                     if anch_start
                                     then match_here atoms anch_end s
                                     else match_anywhere atoms anch_end s)
                                | _ ->
                                  let anch_end = false in
                                  let atoms = parse_atoms pat in
                                  if anch_start
                                  then match_here atoms anch_end s
                                  else match_anywhere atoms anch_end s)
                             | _ ->
                               let anch_end = false in
                               let atoms = parse_atoms pat in
                               if anch_start
                               then match_here atoms anch_end s
                               else match_anywhere atoms anch_end s))))
                 | _ ->
                   let anch_start = false in
                   (match rev pat with
                    | [] ->
                      let anch_end = false in
                      let atoms = parse_atoms pat in
                      if anch_start
                      then match_here atoms anch_end s
                      else match_anywhere atoms anch_end s
                    | n1 :: r ->
                      (match n1 with
                       | N0 ->
                         let anch_end = false in
                         let atoms = parse_atoms pat in
                         if anch_start
                         then match_here atoms anch_end s
                         else match_anywhere atoms anch_end s
                       | Npos p3 ->
                         (match p3 with
                          | XO p4 ->
                            (match p4 with
                             | XO p5 ->
                               (match p5 with
                                | XI p6 ->
                                  (match p6 with
                                   | XO p7 ->
                                     (match p7 with
                                      | XO p8 ->
                                        (match p8 with
                                         | XH ->
                                           let anch_end = true in
                                           let p9 = rev r in
                                           let atoms = parse_atoms p9 in
                                           if anch_start
                                           then match_here atoms anch_end s
                                           else match_anywhere atoms anch_end
                                                  s
                                         | _ ->
                                           let anch_end = false in
                                           let atoms = parse_atoms pat in
                                           if anch_start
                                           then match_here atoms anch_end s
                                           else match_anywhere atoms anch_end
                                                  s)
                                      | _ ->
                                        let anch_end = false in
                                        let atoms = parse_atoms pat in
                                        if anch_start
                                        then match_here atoms anch_end s
                                        else match_anywhere atoms anch_end s)
                                   | _ ->
                                     let anch_end = false in
                                     let atoms = parse_atoms pat in
                                     if anch_start
                                     then match_here atoms anch_end s
                                     else match_anywhere atoms anch_end s)
                                | _ ->
                                  let anch_end = false in
                                  let atoms = parse_atoms pat in
                                  if anch_start
                                  then match_here atoms anch_end s
                                  else match_anywhere atoms anch_end s)
                             | _ ->
                               let anch_end = false in
                               let atoms = parse_atoms pat in
                               if anch_start
                               then match_here atoms anch_end s
                               else match_anywhere atoms anch_end s)
                          | _ ->
                            let anch_end = false in
                            let atoms = parse_atoms pat in
                            if anch_start
                            then match_here atoms anch_end s
                            else match_anywhere atoms anch_end s))))
              | _ ->
                let anch_start = false in
                (match rev pat with
                 | [] ->
                   let anch_end = false in
                   let atoms = parse_atoms pat in
                   if anch_start
                   then match_here atoms anch_end s
                   else match_anywhere atoms anch_end s
                 | n1 :: r ->
                   (match n1 with
                    | N0 ->
                      let anch_end = false in
                      let atoms = parse_atoms pat in
                      if anch_start
                      then match_here atoms anch_end s
                      else match_anywhere atoms anch_end s
                    | Npos p2 ->
                      (match p2 with
                       | XO p3 ->
                         (match p3 with
                          | XO p4 ->
                            (match p4 with
                             | XI p5 ->
                               (match p5 with
                                | XO p6 ->
                                  (match p6 with
                                   | XO p7 ->
                                     (match p7 with
                                      | XH ->
                                        let anch_end = true in
                                        let p8 = rev r in
                                        let atoms = parse_atoms p8 in
                                        if anch_start
                                        then match_here atoms anch_end s
                                        else match_anywhere atoms anch_end s
                                      | _ ->
                                        let anch_end = false in
                                        let atoms = parse_atoms pat in
                                        if anch_start
                                        then match_here atoms anch_end s
                                        else match_anywhere atoms anch_end s)
                                   | _ ->
                                     let anch_end = false in
                                     let atoms = parse_atoms pat in
                                     if anch_start
                                     then match_here atoms anch_end s
                                     else match_anywhere atoms anch_end s)
                                | _ ->
                                  let anch_end = false in
                                  let atoms = parse_atoms pat in
                                  if anch_start
                                  then match_here atoms anch_end s
                                  else match_anywhere atoms anch_end s)
                             | _ ->
                               let anch_end = false in
                               let atoms = parse_atoms pat in
                               if anch_start
                               then match_here atoms anch_end s
                               else match_anywhere atoms anch_end s)
                          | _ ->
                            let anch_end = false in
                            let atoms = parse_atoms pat in
                            if anch_start
                            then match_here atoms anch_end s
                            else match_anywhere atoms anch_end s)
                       | _ ->
                         let anch_end = false in
                         let atoms = parse_atoms pat in
                         if anch_start
                         then match_here atoms anch_end s
                         else match_anywhere atoms anch_end s))))
           | _ ->
             let anch_start = false in
             (match rev pat with
              | [] ->
                let anch_end = false in
                let atoms = parse_atoms pat in
                if anch_start
                then match_here atoms anch_end s
                else match_anywhere atoms anch_end s
              | n1 :: r ->
                (match n1 with
                 | N0 ->
                   let anch_end = false in
                   let atoms = parse_atoms pat in
                   if anch_start
                   then match_here atoms anch_end s
                   else match_anywhere atoms anch_end s
                 | Npos p1 ->
                   (match p1 with
                    | XO p2 ->
                      (match p2 with
                       | XO p3 ->
                         (match p3 with
                          | XI p4 ->
                            (match p4 with
                             | XO p5 ->
                               (match p5 with
                                | XO p6 ->
                                  (match p6 with
                                   | XH ->
                                     let anch_end = true in
                                     let p7 = rev r in
                                     let atoms = parse_atoms p7 in
                                     if anch_start
                                     then match_here atoms anch_end s
                                     else match_anywhere atoms anch_end s
                                   | _ ->
                                     let anch_end = false in
                                     let atoms = parse_atoms pat in
                                     if anch_start
                                     then match_here atoms anch_end s
                                     else match_anywhere atoms anch_end s)
                                | _ ->
                                  let anch_end = false in
                                  let atoms = parse_atoms pat in
                                  if anch_start
                                  then match_here atoms anch_end s
                                  else match_anywhere atoms anch_end s)
                             | _ ->
                               let anch_end = false in
                               let atoms = parse_atoms pat in
                               if anch_start
                               then match_here atoms anch_end s
                               else match_anywhere atoms anch_end s)
                          | _ ->
                            let anch_end = false in
                            let atoms = parse_atoms pat in
                            if anch_start
                            then match_here atoms anch_end s
                            else match_anywhere atoms anch_end s)
                       | _ ->
                         let anch_end = false in
                         let atoms = parse_atoms pat in
                         if anch_start
                         then match_here atoms anch_end s
                         else match_anywhere atoms anch_end s)
                    | _ ->
                      let anch_end = false in
                      let atoms = parse_atoms pat in
                      if anch_start
                      then match_here atoms anch_end s
                      else match_anywhere atoms anch_end s))))
        | _ ->
          let anch_start = false in
          (match rev pat with
           | [] ->
             let anch_end = false in
             let atoms = parse_atoms pat in
             if anch_start
             then match_here atoms anch_end s
             else match_anywhere atoms anch_end s
           | n1 :: r ->
             (match n1 with
              | N0 ->
                let anch_end = false in
                let atoms = parse_atoms pat in
                if anch_start
                then match_here atoms anch_end s
                else match_anywhere atoms anch_end s
              | Npos p0 ->
                (match p0 with
                 | XO p1 ->
                   (match p1 with
                    | XO p2 ->
                      (match p2 with
                       | XI p3 ->
                         (match p3 with
                          | XO p4 ->
                            (match p4 with
                             | XO p5 ->
                               (match p5 with
                                | XH ->
                                  let anch_end = true in
                                  let p6 = rev r in
                                  let atoms = parse_atoms p6 in
                                  if anch_start
                                  then match_here atoms anch_end s
                                  else match_anywhere atoms anch_end s
                                | _ ->
                                  let anch_end = false in
                                  let atoms = parse_atoms pat in
                                  if anch_start
                                  then match_here atoms anch_end s
                                  else match_anywhere atoms anch_end s)
                             | _ ->
                               let anch_end = false in
                               let atoms = parse_atoms pat in
                               if anch_start
                               then match_here atoms anch_end s
                               else match_anywhere atoms anch_end s)
                          | _ ->
                            let anch_end = false in
                            let atoms = parse_atoms pat in
                            if anch_start
                            then match_here atoms anch_end s
                            else match_anywhere atoms anch_end s)
                       | _ ->
                         let anch_end = false in
                         let atoms = parse_atoms pat in
                         if anch_start
                         then match_here atoms anch_end s
                         else match_anywhere atoms anch_end s)
                    | _ ->
                      let anch_end = false in
                      let atoms = parse_atoms pat in
                      if anch_start
                      then match_here atoms anch_end s
                      else match_anywhere atoms anch_end s)
                 | _ ->
                   let anch_end = false in
                   let atoms = parse_atoms pat in
                   if anch_start
                   then match_here atoms anch_end s
                   else match_anywhere atoms anch_end s)))))

(** val fa : bytes **)

let fa =
  (Npos (XI (XO (XO (XO (XO (XI XH))))))) :: []

(** val fb : bytes **)

let fb =
  (Npos (XO (XI (XO (XO (XO (XI XH))))))) :: []

(** val fun_menu : z -> obj -> bool **)

let fun_menu m0 d =
  match m0 with
  | Z0 -> true
  | Zpos p ->
    (match p with
     | XI p0 ->
       (match p0 with
        | XH -> is_gt (compare0 (doc_get fa d) (doc_get fb d))
        | _ -> (match doc_get fb d with
                | VStr _ -> true
                | _ -> false))
     | XO p0 ->
       (match p0 with
        | XI _ -> (match doc_get fb d with
                   | VStr _ -> true
                   | _ -> false)
        | XO p1 ->
          (match p1 with
           | XH -> (match doc_get fa d with
                    | VInt z0 -> Z.even z0
                    | _ -> false)
           | _ -> (match doc_get fb d with
                   | VStr _ -> true
                   | _ -> false))
        | XH -> doc_has fa d)
     | XH -> false)
  | Zneg _ -> (match doc_get fb d with
               | VStr _ -> true
               | _ -> false)

(** val trim_dollars : bytes -> bytes **)

let rec trim_dollars s = match s with
| [] -> s
| n0 :: t0 ->
  (match n0 with
   | N0 -> s
   | Npos p ->
     (match p with
      | XO p0 ->
        (match p0 with
         | XO p1 ->
           (match p1 with
            | XI p2 ->
              (match p2 with
               | XO p3 ->
                 (match p3 with
                  | XO p4 -> (match p4 with
                              | XH -> trim_dollars t0
                              | _ -> s)
                  | _ -> s)
               | _ -> s)
            | _ -> s)
         | _ -> s)
      | _ -> s))

(** val field_or_value : obj -> value operand -> value **)

let field_or_value d = function
| OLit x ->
  (match x with
   | VStr s ->
     (match s with
      | [] -> x
      | n0 :: t0 ->
        (match n0 with
         | N0 -> x
         | Npos p ->
           (match p with
            | XO p0 ->
              (match p0 with
               | XO p1 ->
                 (match p1 with
                  | XI p2 ->
                    (match p2 with
                     | XO p3 ->
                       (match p3 with
                        | XO p4 ->
                          (match p4 with
                           | XH -> doc_get (trim_dollars t0) d
                           | _ -> x)
                        | _ -> x)
                     | _ -> x)
                  | _ -> x)
               | _ -> x)
            | _ -> x)))
   | _ -> x)
| ORef f -> doc_get f d

(** val cmp_holds : cmpop -> comparison -> bool **)

let cmp_holds o c =
  match o with
  | OEq -> is_eq c
  | OGt -> is_gt c
  | OGtEq -> is_ge c
  | OLt -> is_lt c
  | OLtEq -> is_le c

(** val sat_cmp : cmpop -> bytes -> value operand -> obj -> bool **)

let sat_cmp o f v d =
  match o with
  | OEq ->
    (&&) (doc_has f d) (is_eq (compare0 (doc_get f d) (field_or_value d v)))
  | _ -> cmp_holds o (compare0 (doc_get f d) (field_or_value d v))

(** val sat_in : bytes -> value operand list -> obj -> bool **)

let sat_in f vs d =
  existsb (fun v -> is_eq (compare0 (field_or_value d v) (doc_get f d))) vs

(** val sat_contains : bytes -> value operand list -> obj -> bool **)

let sat_contains f vs d =
  match doc_get f d with
  | VArr l ->
    forallb (fun v ->
      existsb (fun x -> is_eq (compare0 (field_or_value d v) x)) l) vs
  | _ -> false

(** val sat_like : bytes -> bytes -> obj -> bool **)

let sat_like f pat d =
  match doc_get f d with
  | VStr s -> like_match pat s
  | _ -> false

(** val sat : ncrit -> obj -> bool **)

let rec sat c d =
  match c with
  | CCmp (o, f, v) -> sat_cmp o f v d
  | CExists f -> doc_has f d
  | CLike (f, pat) -> sat_like f pat d
  | CIn (f, vs) -> sat_in f vs d
  | CContains (f, vs) -> sat_contains f vs d
  | CFun m0 -> fun_menu m0 d
  | CNot c' -> negb (sat c' d)
  | CAnd (c1, c2) -> (&&) (sat c1 d) (sat c2 d)
  | COr (c1, c2) -> (||) (sat c1 d) (sat c2 d)

(** val norm_operand : goval operand -> value operand option **)

let norm_operand = function
| OLit g -> (match normalize g with
             | NOk x -> Some (OLit x)
             | _ -> None)
| ORef f -> Some (ORef f)

(** val norm_operands : goval operand list -> value operand list option **)

let rec norm_operands = function
| [] -> Some []
| v :: t0 ->
  (match norm_operand v with
   | Some x ->
     (match norm_operands t0 with
      | Some r -> Some (x :: r)
      | None -> None)
   | None -> None)

(** val norm_crit : gcrit -> ncrit option **)

let rec norm_crit = function
| CCmp (o, f, v) ->
  (match norm_operand v with
   | Some x -> Some (CCmp (o, f, x))
   | None -> None)
| CExists f -> Some (CExists f)
| CLike (f, p) -> Some (CLike (f, p))
| CIn (f, vs) ->
  (match norm_operands vs with
   | Some r -> Some (CIn (f, r))
   | None -> None)
| CContains (f, vs) ->
  (match norm_operands vs with
   | Some r -> Some (CContains (f, r))
   | None -> None)
| CFun m0 -> Some (CFun m0)
| CNot c' -> (match norm_crit c' with
              | Some r -> Some (CNot r)
              | None -> None)
| CAnd (c1, c2) ->
  (match norm_crit c1 with
   | Some a ->
     (match norm_crit c2 with
      | Some b -> Some (CAnd (a, b))
      | None -> None)
   | None -> None)
| COr (c1, c2) ->
  (match norm_crit c1 with
   | Some a ->
     (match norm_crit c2 with
      | Some b -> Some (COr (a, b))
      | None -> None)
   | None -> None)

type query = { q_coll : bytes; q_crit : gcrit option; q_limit : z;
               q_skip : z; q_sort : (bytes * z) list }

(** val new_query : bytes -> query **)

let new_query c =
  { q_coll = c; q_crit = None; q_limit = (Zneg XH); q_skip = Z0; q_sort = [] }

type qstep =
| QWhere of gcrit
| QMatchFunc of z
| QSkip of z
| QLimit of z
| QSort of (bytes * z) list

(** val norm_sort_opts : (bytes * z) list -> (bytes * z) list **)

let norm_sort_opts opts =
  map (fun o -> ((fst o), (if Z.leb Z0 (snd o) then Zpos XH else Zneg XH)))
    opts

(** val q_apply : query -> qstep -> query **)

let q_apply q = function
| QWhere c ->
  { q_coll = q.q_coll; q_crit = (Some c); q_limit = q.q_limit; q_skip =
    q.q_skip; q_sort = q.q_sort }
| QMatchFunc m0 ->
  { q_coll = q.q_coll; q_crit = (Some (CFun m0)); q_limit = q.q_limit;
    q_skip = q.q_skip; q_sort = q.q_sort }
| QSkip n0 ->
  if Z.leb Z0 n0
  then { q_coll = q.q_coll; q_crit = q.q_crit; q_limit = q.q_limit; q_skip =
         n0; q_sort = q.q_sort }
  else q
| QLimit n0 ->
  { q_coll = q.q_coll; q_crit = q.q_crit; q_limit = n0; q_skip = q.q_skip;
    q_sort = q.q_sort }
| QSort opts ->
  { q_coll = q.q_coll; q_crit = q.q_crit; q_limit = q.q_limit; q_skip =
    q.q_skip; q_sort =
    (match opts with
     | [] -> (id_field, (Zpos XH)) :: []
     | _ :: _ -> norm_sort_opts opts) }

(** val build_query : bytes -> qstep list -> query **)

let build_query c steps =
  fold_left q_apply steps (new_query c)

type range = { r_start : value; r_end : value; r_sinc : bool; r_einc : bool }

(** val is_nilv : value -> bool **)

let is_nilv = function
| VNil -> true
| _ -> false

(** val range_is_empty : range -> bool **)

let range_is_empty r =
  if (||)
       ((&&) ((&&) (is_nilv r.r_start) (negb r.r_sinc))
         (negb (is_nilv r.r_end)))
       ((&&) ((&&) (is_nilv r.r_end) (negb r.r_einc))
         (negb (is_nilv r.r_start)))
  then false
  else let c = compare0 r.r_start r.r_end in
       (||) (is_gt c) ((&&) ((&&) (is_eq c) (negb r.r_sinc)) (negb r.r_einc))

(** val range_is_nil : range -> bool **)

let range_is_nil r =
  (&&) ((&&) ((&&) (is_nilv r.r_start) (is_nilv r.r_end)) r.r_sinc) r.r_einc

(** val range_intersect : range -> range -> range **)

let range_intersect r r2 =
  let c1 = compare0 r2.r_start r.r_start in
  if is_gt c1
  then let s = r2.r_start in
       let si = r2.r_sinc in
       let c2 = compare0 r2.r_end r.r_end in
       if is_lt c2
       then let e = r2.r_end in
            let ei = r2.r_einc in
            { r_start = s; r_end = e; r_sinc = si; r_einc = ei }
       else if is_eq c2
            then let e = r.r_end in
                 let ei = (&&) r.r_einc r2.r_einc in
                 { r_start = s; r_end = e; r_sinc = si; r_einc = ei }
            else if is_nilv r.r_end
                 then let e = r2.r_end in
                      let ei = r2.r_einc in
                      { r_start = s; r_end = e; r_sinc = si; r_einc = ei }
                 else let e = r.r_end in
                      let ei = r.r_einc in
                      { r_start = s; r_end = e; r_sinc = si; r_einc = ei }
  else if is_eq c1
       then let s = r.r_start in
            let si = (&&) r.r_sinc r2.r_sinc in
            let c2 = compare0 r2.r_end r.r_end in
            if is_lt c2
            then let e = r2.r_end in
                 let ei = r2.r_einc in
                 { r_start = s; r_end = e; r_sinc = si; r_einc = ei }
            else if is_eq c2
                 then let e = r.r_end in
                      let ei = (&&) r.r_einc r2.r_einc in
                      { r_start = s; r_end = e; r_sinc = si; r_einc = ei }
                 else if is_nilv r.r_end
                      then let e = r2.r_end in
                           let ei = r2.r_einc in
                           { r_start = s; r_end = e; r_sinc = si; r_einc =
                           ei }
                      else let e = r.r_end in
                           let ei = r.r_einc in
                           { r_start = s; r_end = e; r_sinc = si; r_einc =
                           ei }
       else if is_nilv r.r_start
            then let s = r2.r_start in
                 let si = r2.r_sinc in
                 let c2 = compare0 r2.r_end r.r_end in
                 if is_lt c2
                 then let e = r2.r_end in
                      let ei = r2.r_einc in
                      { r_start = s; r_end = e; r_sinc = si; r_einc = ei }
                 else if is_eq c2
                      then let e = r.r_end in
                           let ei = (&&) r.r_einc r2.r_einc in
                           { r_start = s; r_end = e; r_sinc = si; r_einc =
                           ei }
                      else if is_nilv r.r_end
                           then let e = r2.r_end in
                                let ei = r2.r_einc in
                                { r_start = s; r_end = e; r_sinc = si;
                                r_einc = ei }
                           else let e = r.r_end in
                                let ei = r.r_einc in
                                { r_start = s; r_end = e; r_sinc = si;
                                r_einc = ei }
            else let s = r.r_start in
                 let si = r.r_sinc in
                 let c2 = compare0 r2.r_end r.r_end in
                 if is_lt c2
                 then let e = r2.r_end in
                      let ei = r2.r_einc in
                      { r_start = s; r_end = e; r_sinc = si; r_einc = ei }
                 else if is_eq c2
                      then let e = r.r_end in
                           let ei = (&&) r.r_einc r2.r_einc in
                           { r_start = s; r_end = e; r_sinc = si; r_einc =
                           ei }
                      else if is_nilv r.r_end
                           then let e = r2.r_end in
                                let ei = r2.r_einc in
                                { r_start = s; r_end = e; r_sinc = si;
                                r_einc = ei }
                           else let e = r.r_end in
                                let ei = r.r_einc in
                                { r_start = s; r_end = e; r_sinc = si;
                                r_einc = ei }

(** val flat : ncrit -> ncrit **)

let rec flat c = match c with
| CNot c' -> flat_neg c'
| CAnd (a, b) -> CAnd ((flat a), (flat b))
| COr (a, b) -> COr ((flat a), (flat b))
| _ -> c

(** val flat_neg : ncrit -> ncrit **)

and flat_neg c = match c with
| CCmp (o, f, v) ->
  (match o with
   | OEq -> COr ((CCmp (OLt, f, v)), (CCmp (OGt, f, v)))
   | OGt -> CCmp (OLtEq, f, v)
   | OGtEq -> CCmp (OLt, f, v)
   | OLt -> CCmp (OGtEq, f, v)
   | OLtEq -> CCmp (OGt, f, v))
| CNot c' -> flat c'
| CAnd (a, b) -> COr ((flat_neg a), (flat_neg b))
| COr (a, b) -> CAnd ((flat_neg a), (flat_neg b))
| _ -> CNot c

(** val has_field : bytes -> bytes list -> bool **)

let has_field f idx =
  existsb (beqb f) idx

(** val index_select : bytes list -> ncrit -> bytes list **)

let rec index_select idx = function
| CCmp (_, f, _) -> if has_field f idx then f :: [] else []
| CExists f -> if has_field f idx then f :: [] else []
| CLike (f, _) -> if has_field f idx then f :: [] else []
| CIn (f, _) -> if has_field f idx then f :: [] else []
| CContains (f, _) -> if has_field f idx then f :: [] else []
| CFun _ -> if has_field [] idx then [] :: [] else []
| CNot _ -> []
| CAnd (a, b) ->
  let l = index_select idx a in
  let r = index_select idx b in
  if (&&) (Nat.ltb O (length l)) (Nat.ltb (length l) (length r)) then l else r
| COr (a, b) ->
  let l = index_select idx a in
  let r = index_select idx b in
  (match l with
   | [] -> []
   | _ :: _ -> (match r with
                | [] -> []
                | _ :: _ -> app l r))

(** val is_ref_operand : value operand -> bool **)

let is_ref_operand = function
| OLit l ->
  (match l with
   | VStr s ->
     (match s with
      | [] -> false
      | n0 :: _ ->
        (match n0 with
         | N0 -> false
         | Npos p ->
           (match p with
            | XO p0 ->
              (match p0 with
               | XO p1 ->
                 (match p1 with
                  | XI p2 ->
                    (match p2 with
                     | XO p3 ->
                       (match p3 with
                        | XO p4 -> (match p4 with
                                    | XH -> true
                                    | _ -> false)
                        | _ -> false)
                     | _ -> false)
                  | _ -> false)
               | _ -> false)
            | _ -> false)))
   | _ -> false)
| ORef _ -> true

(** val unary_range : cmpop -> value operand -> range option **)

let unary_range o v = match v with
| OLit x ->
  if is_ref_operand v
  then None
  else (match o with
        | OEq -> Some { r_start = x; r_end = x; r_sinc = true; r_einc = true }
        | OGt ->
          if is_nilv x
          then None
          else Some { r_start = x; r_end = VNil; r_sinc = false; r_einc =
                 false }
        | OGtEq ->
          if is_nilv x
          then None
          else Some { r_start = x; r_end = VNil; r_sinc = true; r_einc =
                 false }
        | OLt ->
          if is_nilv x
          then None
          else Some { r_start = VNil; r_end = x; r_sinc = false; r_einc =
                 false }
        | OLtEq ->
          if is_nilv x
          then None
          else Some { r_start = VNil; r_end = x; r_sinc = false; r_einc =
                 true })
| ORef _ -> None

(** val field_range : bytes -> ncrit -> range option **)

let rec field_range fld = function
| CCmp (o, f, v) -> if beqb f fld then unary_range o v else None
| CAnd (a, b) ->
  (match field_range fld a with
   | Some r1 ->
     (match field_range fld b with
      | Some r2 -> Some (range_intersect r1 r2)
      | None -> Some r1)
   | None -> field_range fld b)
| _ -> None

type idx_query =
| IQRange of bytes * range * bool
| IQAll of bytes * bool

(** val get_index_query :
    ncrit option -> bytes list -> (bytes * range) option **)

let get_index_query crit0 idx =
  match crit0 with
  | Some c ->
    (match idx with
     | [] -> None
     | _ :: _ ->
       let c' = flat c in
       (match index_select idx c' with
        | [] -> None
        | f :: _ ->
          (match field_range f c' with
           | Some r -> Some (f, r)
           | None -> None)))
  | None -> None

(** val try_select_index :
    ncrit option -> (bytes * z) list -> bytes list -> idx_query option * bool **)

let try_select_index crit0 sort idx =
  match get_index_query crit0 idx with
  | Some p ->
    let (f, r) = p in
    (match sort with
     | [] -> ((Some (IQRange (f, r, false))), false)
     | p0 :: l ->
       let (sf, dir) = p0 in
       (match l with
        | [] ->
          if beqb sf f
          then ((Some (IQRange (f, r, (Z.ltb dir Z0)))), true)
          else ((Some (IQRange (f, r, false))), false)
        | _ :: _ -> ((Some (IQRange (f, r, false))), false)))
  | None ->
    (match sort with
     | [] -> (None, false)
     | p :: l ->
       let (sf, dir) = p in
       (match l with
        | [] ->
          if has_field sf idx
          then ((Some (IQAll (sf, (Z.ltb dir Z0)))), true)
          else (None, false)
        | _ :: _ -> (None, false)))

type sval =
| SDoc of wire
| SMeta of z * bytes list
| SEmpty

type kv = (bytes * sval) list

(** val kv_get : bytes -> kv -> sval option **)

let rec kv_get k = function
| [] -> None
| p :: t0 -> let (k', v) = p in if beqb k k' then Some v else kv_get k t0

(** val kv_set : bytes -> sval -> kv -> kv **)

let rec kv_set k v s = match s with
| [] -> (k, v) :: []
| p :: t0 ->
  let (k', v') = p in
  (match lex k k' with
   | Eq -> (k, v) :: t0
   | Lt -> (k, v) :: s
   | Gt -> (k', v') :: (kv_set k v t0))

(** val kv_del : bytes -> kv -> kv **)

let rec kv_del k = function
| [] -> []
| p :: t0 ->
  let (k', v') = p in
  if beqb k k' then kv_del k t0 else (k', v') :: (kv_del k t0)

type err =
| ECollExist
| ECollNotExist
| EIdxExist
| EIdxNotExist
| EDocNotExist
| EDupKey
| EOther
| EStore

type 'a res =
| Ok of 'a
| Err of err

type txst = { view : kv; fault : nat option; calls : nat;
              committed : kv option; fired : bool }

type 'a m = txst -> 'a res * txst

(** val ret : 'a1 -> 'a1 m **)

let ret a s =
  ((Ok a), s)

(** val fail : err -> 'a1 m **)

let fail e s =
  ((Err e), s)

(** val bind : 'a1 m -> ('a1 -> 'a2 m) -> 'a2 m **)

let bind m0 f s =
  let (r, s') = m0 s in (match r with
                         | Ok a -> f a s'
                         | Err e -> ((Err e), s'))

(** val tick : unit m **)

let tick s =
  match s.fault with
  | Some n0 ->
    (match n0 with
     | O ->
       ((Err EStore), { view = s.view; fault = None; calls = (S s.calls);
         committed = s.committed; fired = true })
     | S n1 ->
       ((Ok ()), { view = s.view; fault = (Some n1); calls = (S s.calls);
         committed = s.committed; fired = s.fired }))
  | None ->
    ((Ok ()), { view = s.view; fault = None; calls = (S s.calls); committed =
      s.committed; fired = s.fired })

(** val get_view : kv m **)

let get_view s =
  ((Ok s.view), s)

(** val put_view : kv -> unit m **)

let put_view v s =
  ((Ok ()), { view = v; fault = s.fault; calls = s.calls; committed =
    s.committed; fired = s.fired })

(** val tx_get : bytes -> sval option m **)

let tx_get k =
  bind tick (fun _ -> bind get_view (fun v -> ret (kv_get k v)))

(** val tx_set : bytes -> sval -> unit m **)

let tx_set k x =
  bind tick (fun _ -> bind get_view (fun v -> put_view (kv_set k x v)))

(** val tx_delete : bytes -> unit m **)

let tx_delete k =
  bind tick (fun _ -> bind get_view (fun v -> put_view (kv_del k v)))

(** val tx_commit : unit m **)

let tx_commit =
  bind tick (fun _ s -> ((Ok ()), { view = s.view; fault = s.fault; calls =
    s.calls; committed = (Some s.view); fired = s.fired }))

type cursor = (bytes * sval) list

(** val tx_cursor : bool -> cursor m **)

let tx_cursor forward =
  bind tick (fun _ ->
    bind get_view (fun v -> ret (if forward then v else rev v)))

(** val seek_fwd : bytes -> cursor -> cursor **)

let rec seek_fwd target c = match c with
| [] -> []
| p :: t0 -> let (k, _) = p in if bltb k target then seek_fwd target t0 else c

(** val seek_rev : bytes -> cursor -> cursor **)

let rec seek_rev target c = match c with
| [] -> []
| p :: t0 -> let (k, _) = p in if bltb target k then seek_rev target t0 else c

(** val cursor_seek : bool -> bytes -> cursor -> cursor **)

let cursor_seek forward target c =
  if forward then seek_fwd target c else seek_rev target c

(** val cursor_item : (bytes * sval) -> (bytes * sval) m **)

let cursor_item e =
  bind tick (fun _ -> ret e)

type dbst = { durable : kv; closed : bool }

type 'a txout = { o_res : 'a res; o_db : dbst; o_calls : nat; o_fired : bool }

(** val with_tx : 'a1 m -> nat option -> dbst -> 'a1 txout **)

let with_tx body fault0 db =
  if db.closed
  then { o_res = (Err EOther); o_db = db; o_calls = O; o_fired = false }
  else let s0 = { view = db.durable; fault = fault0; calls = O; committed =
         None; fired = false }
       in
       let (r, s) = bind tick (fun _ -> body) s0 in
       let d = match s.committed with
               | Some v -> v
               | None -> db.durable in
       { o_res = r; o_db = { durable = d; closed = false }; o_calls =
       s.calls; o_fired = s.fired }

(** val esc : bytes -> bytes **)

let rec esc = function
| [] -> []
| x :: t0 ->
  app
    (if N.eqb x N0
     then N0 :: ((Npos (XI (XI (XI (XI (XI (XI (XI XH)))))))) :: [])
     else if N.eqb x (Npos (XI (XI (XI (XI (XI (XI (XI XH))))))))
          then (Npos (XI (XI (XI (XI (XI (XI (XI XH)))))))) :: (N0 :: [])
          else x :: []) (esc t0)

(** val oc_string : bytes -> bytes **)

let oc_string s =
  app (esc s) (N0 :: ((Npos XH) :: []))

(** val be_bytes : nat -> z -> bytes **)

let rec be_bytes n0 x =
  match n0 with
  | O -> []
  | S n' ->
    app
      (be_bytes n'
        (Z.div x (Zpos (XO (XO (XO (XO (XO (XO (XO (XO XH)))))))))))
      ((Z.to_N (Z.modulo x (Zpos (XO (XO (XO (XO (XO (XO (XO (XO XH))))))))))) :: [])

(** val ulen : z -> nat **)

let ulen x =
  if Z.leb x Z0
  then O
  else Z.to_nat (Z.add (Z.div (Z.log2 x) (Zpos (XO (XO (XO XH))))) (Zpos XH))

(** val oc_uint64 : z -> bytes **)

let oc_uint64 x =
  (N.of_nat (ulen x)) :: (be_bytes (ulen x) x)

(** val ilen : z -> nat **)

let ilen x =
  if Z.leb x Z0
  then S O
  else Z.to_nat
         (Z.add (Z.div (Z.add (Z.log2 x) (Zpos XH)) (Zpos (XI (XI XH))))
           (Zpos XH))

(** val oc_int64_nonneg : z -> bytes **)

let oc_int64_nonneg x =
  let l = Z.of_nat (ilen x) in
  be_bytes (ilen x)
    (Z.add
      (Z.sub (Z.pow (Zpos (XO XH)) (Z.mul (Zpos (XO (XO (XO XH)))) l))
        (Z.pow (Zpos (XO XH)) (Z.mul (Zpos (XI (XI XH))) l))) x)

(** val invert : bytes -> bytes **)

let invert s =
  map (fun b -> N.sub (Npos (XI (XI (XI (XI (XI (XI (XI XH)))))))) b) s

(** val oc_int64 : z -> bytes **)

let oc_int64 x =
  if Z.leb Z0 x
  then oc_int64_nonneg x
  else invert (oc_int64_nonneg (Z.sub (Z.opp x) (Zpos XH)))

(** val oc_float64 : z -> bytes **)

let oc_float64 b =
  oc_int64 (fkey_int b)

(** val billion : z **)

let billion =
  Zpos (XO (XO (XO (XO (XO (XO (XO (XO (XO (XI (XO (XI (XO (XO (XI (XI (XO
    (XI (XO (XI (XI (XO (XO (XI (XI (XI (XO (XI (XI
    XH)))))))))))))))))))))))))))))

(** val unix_nano_u64 : z -> z -> z **)

let unix_nano_u64 sec nsec =
  Z.modulo (Z.add (Z.mul sec billion) nsec) two64

(** val oc_prim_body : value -> bytes **)

let oc_prim_body v = match v with
| VNil -> []
| VStr s -> oc_string s
| VBool b -> oc_uint64 (if b then Zpos XH else Z0)
| VTime (sec, nsec, _) -> oc_uint64 (unix_nano_u64 sec nsec)
| VArr _ -> []
| VObj _ -> []
| _ -> oc_float64 (to_float v)

(** val ordered_code : value -> bool -> bytes **)

let rec ordered_code v include_type =
  match v with
  | VArr l ->
    app (oc_uint64 (Zpos (XO (XO XH))))
      (oc_string
        (let rec go = function
         | [] -> []
         | x :: t0 -> app (ordered_code x true) (go t0)
         in go l))
  | VObj o ->
    app (oc_uint64 (Zpos (XI XH)))
      (oc_string
        (let rec go = function
         | [] -> []
         | p :: t0 ->
           let (k, x) = p in
           app (oc_string k) (app (ordered_code x true) (go t0))
         in go o))
  | _ ->
    app (if include_type then oc_uint64 (type_id v) else []) (oc_prim_body v)

(** val value_code : value -> bytes **)

let value_code v =
  ordered_code v false

(** val coll_prefix : bytes **)

let coll_prefix =
  ch_c :: (ch_o :: (ch_l :: (ch_l :: (ch_colon :: []))))

(** val coll_key : bytes -> bytes **)

let coll_key c =
  app coll_prefix c

(** val doc_prefix : bytes -> bytes **)

let doc_prefix c =
  app (ch_c :: (ch_colon :: []))
    (app c (ch_semi :: (ch_d :: (ch_colon :: []))))

(** val doc_key : bytes -> bytes -> bytes **)

let doc_key c id =
  app (doc_prefix c) id

(** val idx_prefix : bytes -> bytes -> bytes **)

let idx_prefix c f =
  app (ch_c :: (ch_colon :: []))
    (app c
      (app (ch_semi :: (ch_i :: (ch_colon :: []))) (app f (ch_semi :: []))))

(** val idx_type_prefix : bytes -> bytes -> z -> bytes **)

let idx_type_prefix c f tid =
  app (idx_prefix c f)
    (ch_t :: (ch_colon :: ((Z.to_N
                             (Z.add (Zpos (XO (XO (XO (XO (XI XH)))))) tid)) :: (ch_semi :: (ch_v :: (ch_colon :: []))))))

(** val idx_value_key : bytes -> bytes -> value -> bytes **)

let idx_value_key c f v =
  app (idx_type_prefix c f (type_id v)) (value_code v)

(** val idx_key : bytes -> bytes -> value -> bytes -> bytes **)

let idx_key c f v id =
  app (idx_value_key c f v) id

(** val idx_add : bytes -> bytes -> bytes -> value -> unit m **)

let idx_add c f id v =
  tx_set (idx_key c f v id) SEmpty

(** val idx_remove : bytes -> bytes -> bytes -> value -> unit m **)

let idx_remove c f id v =
  tx_delete (idx_key c f v id)

(** val key_split_id : bytes -> bytes * bytes **)

let key_split_id k =
  let n0 =
    sub (length k) (S (S (S (S (S (S (S (S (S (S (S (S (S (S (S (S (S (S (S
      (S (S (S (S (S (S (S (S (S (S (S (S (S (S (S (S (S
      O))))))))))))))))))))))))))))))))))))
  in
  ((firstn n0 k), (skipn n0 k))

(** val idx_drop_loop : bytes -> cursor -> unit m **)

let rec idx_drop_loop p = function
| [] -> ret ()
| e :: t0 ->
  bind (cursor_item e) (fun it ->
    if is_prefix p (fst it)
    then bind (tx_delete (fst it)) (fun _ -> idx_drop_loop p t0)
    else ret ())

(** val idx_drop : bytes -> bytes -> unit m **)

let idx_drop c f =
  bind (tx_cursor true) (fun cur ->
    idx_drop_loop (idx_prefix c f) (cursor_seek true (idx_prefix c f) cur))

(** val skip_bound : bytes -> cursor -> cursor m **)

let rec skip_bound bkey c = match c with
| [] -> ret []
| e :: t0 ->
  bind (cursor_item e) (fun it ->
    if is_prefix bkey (fst it) then skip_bound bkey t0 else ret c)

(** val range_loop :
    (bytes -> 'a1 -> ('a1 * bool) m) -> bytes -> bool -> bool -> bytes ->
    bool -> cursor -> 'a1 -> 'a1 m **)

let rec range_loop on_id p reverse check far far_inc c a =
  match c with
  | [] -> ret a
  | e :: t0 ->
    bind (cursor_item e) (fun it ->
      let k = fst it in
      if negb (is_prefix p k)
      then ret a
      else let (pk, id) = key_split_id k in
           let cmp = lex pk far in
           let past =
             (&&) check
               (if reverse
                then (||) (is_lt cmp) ((&&) (is_eq cmp) (negb far_inc))
                else (||) (is_gt cmp) ((&&) (is_eq cmp) (negb far_inc)))
           in
           if past
           then ret a
           else bind (on_id id a) (fun r ->
                  if snd r
                  then range_loop on_id p reverse check far far_inc t0 (fst r)
                  else ret (fst r)))

(** val idx_iterate_range :
    (bytes -> 'a1 -> ('a1 * bool) m) -> bytes -> bytes -> range -> bool ->
    'a1 -> 'a1 m **)

let idx_iterate_range on_id c f r reverse a =
  if range_is_empty r
  then ret a
  else let nilr = range_is_nil r in
       let has_start = (||) nilr (negb (is_nilv r.r_start)) in
       let has_end = (||) nilr (negb (is_nilv r.r_end)) in
       let start_key = idx_value_key c f r.r_start in
       let end_key = idx_value_key c f r.r_end in
       let p = idx_prefix c f in
       let seek =
         if reverse
         then if has_end
              then if r.r_einc
                   then app end_key ((Npos (XI (XI (XI (XI (XI (XI (XI
                          XH)))))))) :: [])
                   else end_key
              else app p ((Npos (XI (XI (XI (XI (XI (XI (XI XH)))))))) :: [])
         else if has_start then start_key else p
       in
       bind (tx_cursor (negb reverse)) (fun cur ->
         let c0 = cursor_seek (negb reverse) seek cur in
         bind
           (if reverse
            then if (&&) (negb (is_nilv r.r_end)) (negb r.r_einc)
                 then skip_bound end_key c0
                 else ret c0
            else if (&&) (negb (is_nilv r.r_start)) (negb r.r_sinc)
                 then skip_bound start_key c0
                 else ret c0) (fun c1 ->
           if reverse
           then range_loop on_id p true has_start start_key r.r_sinc c1 a
           else range_loop on_id p false has_end end_key r.r_einc c1 a))

(** val idx_iterate :
    (bytes -> 'a1 -> ('a1 * bool) m) -> bytes -> bytes -> bool -> 'a1 -> 'a1 m **)

let idx_iterate on_id c f reverse a =
  let p = idx_prefix c f in
  bind (tx_cursor (negb reverse)) (fun cur ->
    let c0 =
      cursor_seek (negb reverse)
        (if reverse
         then app p ((Npos (XI (XI (XI (XI (XI (XI (XI XH)))))))) :: [])
         else p) cur
    in
    range_loop on_id p reverse false [] false c0 a)

(** val compare_docs : (bytes * z) list -> obj -> obj -> comparison **)

let rec compare_docs opts a b =
  match opts with
  | [] -> Eq
  | p :: t0 ->
    let (f, dir) = p in
    let ha = doc_has f a in
    let hb = doc_has f b in
    if (&&) (negb ha) hb
    then if Z.ltb dir Z0 then Gt else Lt
    else if (&&) ha (negb hb)
         then if Z.ltb dir Z0 then Lt else Gt
         else if (&&) ha hb
              then (match compare0 (doc_get f a) (doc_get f b) with
                    | Eq -> compare_docs t0 a b
                    | x -> if Z.ltb dir Z0 then compOpp x else x)
              else compare_docs t0 a b

(** val docs_leb : (bytes * z) list -> obj -> obj -> bool **)

let docs_leb opts a b =
  negb (is_gt (compare_docs opts a b))

(** val sort_docs : (bytes * z) list -> obj list -> obj list **)

let sort_docs opts l =
  msort (docs_leb opts) l

(** val sat_opt : ncrit option -> obj -> bool **)

let sat_opt c d =
  match c with
  | Some c' -> sat c' d
  | None -> true

(** val decode_sval : sval -> obj **)

let decode_sval = function
| SDoc w -> doc_decode w
| _ -> []

(** val get_doc : bytes -> bytes -> obj option m **)

let get_doc c id =
  bind (tx_get (doc_key c id)) (fun v ->
    ret (match v with
         | Some x -> Some (decode_sval x)
         | None -> None))

type 'a dstate = { d_skipped : z; d_consumed : z; d_acc : 'a }

(** val down :
    (obj -> 'a1 -> ('a1 * bool) m) -> z -> z -> obj -> 'a1 dstate -> ('a1
    dstate * bool) m **)

let down cons skip limit d st =
  if (||) (Z.ltb Z0 skip) (Z.leb Z0 limit)
  then if Z.ltb st.d_skipped skip
       then ret ({ d_skipped = (Z.add st.d_skipped (Zpos XH)); d_consumed =
              st.d_consumed; d_acc = st.d_acc }, true)
       else if (||) (Z.ltb limit Z0) (Z.ltb st.d_consumed limit)
            then bind (cons d st.d_acc) (fun r ->
                   ret ({ d_skipped = st.d_skipped; d_consumed =
                     (Z.add st.d_consumed (Zpos XH)); d_acc = (fst r) },
                     (snd r)))
            else ret (st, false)
  else bind (cons d st.d_acc) (fun r ->
         ret ({ d_skipped = st.d_skipped; d_consumed = st.d_consumed; d_acc =
           (fst r) }, (snd r)))

(** val full_scan_loop :
    bytes -> ncrit option -> (obj -> 'a1 -> ('a1 * bool) m) -> cursor -> 'a1
    -> 'a1 m **)

let rec full_scan_loop p flt f c b =
  match c with
  | [] -> ret b
  | e :: t0 ->
    bind (cursor_item e) (fun it ->
      if negb (is_prefix p (fst it))
      then ret b
      else let d = decode_sval (snd it) in
           if sat_opt flt d
           then bind (f d b) (fun r ->
                  if snd r
                  then full_scan_loop p flt f t0 (fst r)
                  else ret (fst r))
           else full_scan_loop p flt f t0 b)

(** val full_scan :
    bytes -> ncrit option -> (obj -> 'a1 -> ('a1 * bool) m) -> 'a1 -> 'a1 m **)

let full_scan c flt f b =
  bind (tx_cursor true) (fun cur ->
    full_scan_loop (doc_prefix c) flt f (cursor_seek true (doc_prefix c) cur)
      b)

(** val on_index_id :
    bytes -> ncrit option -> (obj -> 'a1 -> ('a1 * bool) m) -> bytes -> 'a1
    -> ('a1 * bool) m **)

let on_index_id c flt f id b =
  bind (get_doc c id) (fun od ->
    match od with
    | Some d -> if sat_opt flt d then f d b else ret (b, true)
    | None -> ret (b, true))

(** val run_input :
    bytes -> ncrit option -> idx_query option -> (obj -> 'a1 -> ('a1 * bool)
    m) -> 'a1 -> 'a1 m **)

let run_input c flt iq f b =
  match iq with
  | Some i ->
    (match i with
     | IQRange (fld, r, rv) ->
       idx_iterate_range (on_index_id c flt f) c fld r rv b
     | IQAll (fld, rv) -> idx_iterate (on_index_id c flt f) c fld rv b)
  | None -> full_scan c flt f b

(** val feed :
    (obj -> 'a1 -> ('a1 * bool) m) -> z -> z -> obj list -> 'a1 dstate -> 'a1
    dstate m **)

let rec feed cons skip limit l st =
  match l with
  | [] -> ret st
  | d :: t0 ->
    bind (down cons skip limit d st) (fun r ->
      if snd r then feed cons skip limit t0 (fst r) else ret (fst r))

(** val exec_plan :
    (obj -> 'a1 -> ('a1 * bool) m) -> bytes -> ncrit option -> (bytes * z)
    list -> z -> z -> bytes list -> 'a1 -> 'a1 m **)

let exec_plan cons c crit0 sort skip limit idx a0 =
  let (iq, sorted) = try_select_index crit0 sort idx in
  let st0 = { d_skipped = Z0; d_consumed = Z0; d_acc = a0 } in
  (match sort with
   | [] ->
     bind (run_input c crit0 iq (down cons skip limit) st0) (fun st ->
       ret st.d_acc)
   | _ :: _ ->
     if sorted
     then bind (run_input c crit0 iq (down cons skip limit) st0) (fun st ->
            ret st.d_acc)
     else bind
            (run_input c crit0 iq (fun d acc -> ret ((d :: acc), true)) [])
            (fun docs ->
            bind (feed cons skip limit (sort_docs sort (rev docs)) st0)
              (fun st -> ret st.d_acc)))

(** val get_meta : bytes -> (z * bytes list) m **)

let get_meta c =
  bind (tx_get (coll_key c)) (fun v ->
    match v with
    | Some s -> (match s with
                 | SMeta (n0, l) -> ret (n0, l)
                 | _ -> fail EOther)
    | None -> fail ECollNotExist)

(** val save_meta : bytes -> z -> bytes list -> unit m **)

let save_meta c n0 l =
  tx_set (coll_key c) (SMeta (n0, l))

(** val has_collection : bytes -> bool m **)

let has_collection c =
  bind (tx_get (coll_key c)) (fun v ->
    ret (match v with
         | Some _ -> true
         | None -> false))

(** val add_to_indexes : bytes -> bytes list -> obj -> unit m **)

let rec add_to_indexes c idx d =
  match idx with
  | [] -> ret ()
  | f :: t0 ->
    bind (idx_add c f (object_id d) (doc_get f d)) (fun _ ->
      add_to_indexes c t0 d)

(** val del_from_indexes : bytes -> bytes list -> obj -> unit m **)

let rec del_from_indexes c idx d =
  match idx with
  | [] -> ret ()
  | f :: t0 ->
    bind (idx_remove c f (object_id d) (doc_get f d)) (fun _ ->
      del_from_indexes c t0 d)

(** val save_document : bytes -> obj -> unit m **)

let save_document key d =
  if validate d then tx_set key (SDoc (doc_encode d)) else fail EOther

type updater =
| USetAll of (bytes * goval) list
| UFunSet of bytes * value
| UFunCopySet of bytes * value
| UFunNil
| UFunId
| UFunIncr of bytes
| UFunConst of obj

(** val apply_updater : updater -> obj -> obj option **)

let apply_updater u d =
  match u with
  | USetAll kvs ->
    Some (fold_left (fun d0 kv0 -> doc_set_go (fst kv0) (snd kv0) d0) kvs d)
  | UFunSet (f, v) -> Some (doc_set f v d)
  | UFunCopySet (f, v) -> Some (doc_set f v d)
  | UFunNil -> None
  | UFunId -> Some d
  | UFunIncr f ->
    Some
      (doc_set f
        (match doc_get f d with
         | VInt z0 ->
           VInt
             (if Z.ltb z0 (Zpos (XI (XI (XI (XI (XI (XI (XI (XI (XI (XI (XI
                   (XI (XI (XI (XI (XI (XI (XI (XI (XI (XI (XI (XI (XI (XI
                   (XI (XI (XI (XI (XI (XI (XI (XI (XI (XI (XI (XI (XI (XI
                   (XI (XI (XI (XI (XI (XI (XI (XI (XI (XI (XI (XI (XI (XI
                   (XI (XI (XI (XI (XI (XI (XI (XI (XI
                   XH)))))))))))))))))))))))))))))))))))))))))))))))))))))))))))))))
              then Z.add z0 (Zpos XH)
              else z0)
         | _ -> VInt (Zpos XH)) d)
  | UFunConst d' -> Some d'

type nquery = { nq_coll : bytes; nq_crit : ncrit option; nq_limit : z;
                nq_skip : z; nq_sort : (bytes * z) list }

(** val normalize_query : query -> nquery option **)

let normalize_query q =
  match q.q_crit with
  | Some c ->
    (match norm_crit c with
     | Some c' ->
       Some { nq_coll = q.q_coll; nq_crit = (Some c'); nq_limit = q.q_limit;
         nq_skip = q.q_skip; nq_sort = q.q_sort }
     | None -> None)
  | None ->
    Some { nq_coll = q.q_coll; nq_crit = None; nq_limit = q.q_limit;
      nq_skip = q.q_skip; nq_sort = q.q_sort }

(** val iterate_docs :
    nquery -> (obj -> 'a1 -> ('a1 * bool) m) -> 'a1 -> 'a1 m **)

let iterate_docs q cons a0 =
  bind (get_meta q.nq_coll) (fun m0 ->
    exec_plan cons q.nq_coll q.nq_crit q.nq_sort q.nq_skip q.nq_limit
      (snd m0) a0)

(** val collect : obj -> obj list -> (obj list * bool) m **)

let collect d acc =
  ret ((d :: acc), true)

(** val find_all_tx : nquery -> obj list m **)

let find_all_tx q =
  bind (iterate_docs q collect []) (fun l -> ret (rev l))

(** val create_collection_tx : bytes -> unit m **)

let create_collection_tx c =
  bind (has_collection c) (fun ok ->
    if ok
    then fail ECollExist
    else bind (save_meta c Z0 []) (fun _ -> tx_commit))

(** val insert_docs : bytes -> bytes list -> obj list -> unit m **)

let rec insert_docs c idx = function
| [] -> ret ()
| d :: t0 ->
  bind (add_to_indexes c idx d) (fun _ ->
    bind (tx_get (doc_key c (object_id d))) (fun v ->
      match v with
      | Some _ -> fail EDupKey
      | None ->
        bind (save_document (doc_key c (object_id d)) d) (fun _ ->
          insert_docs c idx t0)))

(** val insert_tx : bytes -> obj list -> unit m **)

let insert_tx c docs =
  bind (get_meta c) (fun m0 ->
    bind (insert_docs c (snd m0) docs) (fun _ ->
      bind (save_meta c (Z.add (fst m0) (Z.of_nat (length docs))) (snd m0))
        (fun _ -> tx_commit)))

(** val get_doc_and_del_idx : bytes -> bytes list -> bytes -> unit m **)

let get_doc_and_del_idx c idx id =
  match idx with
  | [] -> ret ()
  | _ :: _ ->
    bind (get_doc c id) (fun od ->
      match od with
      | Some d -> del_from_indexes c idx d
      | None -> ret ())

(** val delete_by_id_tx : bytes -> bytes -> unit m **)

let delete_by_id_tx c id =
  bind (get_meta c) (fun m0 ->
    bind (tx_get (doc_key c id)) (fun v ->
      match v with
      | Some _ ->
        bind (get_doc_and_del_idx c (snd m0) id) (fun _ ->
          bind (tx_delete (doc_key c id)) (fun _ ->
            bind (save_meta c (Z.sub (fst m0) (Zpos XH)) (snd m0)) (fun _ ->
              tx_commit)))
      | None -> ret ()))

(** val update_by_id_tx : bytes -> bytes -> updater -> unit m **)

let update_by_id_tx c id u =
  bind (get_meta c) (fun m0 ->
    bind (tx_get (doc_key c id)) (fun v ->
      match v with
      | Some x ->
        let d = decode_sval x in
        bind (del_from_indexes c (snd m0) d) (fun _ ->
          match apply_updater u d with
          | Some d' ->
            if negb (beqb (object_id d') id)
            then fail EOther
            else bind (add_to_indexes c (snd m0) d') (fun _ ->
                   bind (save_document (doc_key c id) d') (fun _ -> tx_commit))
          | None -> fail EOther)
      | None -> fail EDocNotExist))

(** val replace_loop :
    bytes -> bytes list -> updater -> obj list -> z -> z m **)

let rec replace_loop c idx u docs deleted =
  match docs with
  | [] -> ret deleted
  | d :: t0 ->
    let key = doc_key c (object_id d) in
    bind (del_from_indexes c idx d) (fun _ ->
      match apply_updater u d with
      | Some d' ->
        if negb (beqb (object_id d') (object_id d))
        then fail EOther
        else bind (add_to_indexes c idx d') (fun _ ->
               bind (save_document key d') (fun _ ->
                 replace_loop c idx u t0 deleted))
      | None ->
        bind (tx_delete key) (fun _ ->
          replace_loop c idx u t0 (Z.add deleted (Zpos XH))))

(** val replace_docs : nquery -> updater -> unit m **)

let replace_docs q u =
  bind (get_meta q.nq_coll) (fun m0 ->
    bind (find_all_tx q) (fun docs ->
      bind (replace_loop q.nq_coll (snd m0) u docs Z0) (fun deleted ->
        if Z.ltb Z0 deleted
        then save_meta q.nq_coll (Z.sub (fst m0) deleted) (snd m0)
        else ret ())))

(** val update_tx : nquery -> updater -> unit m **)

let update_tx q u =
  bind (replace_docs q u) (fun _ -> tx_commit)

(** val drop_collection_tx : bytes -> unit m **)

let drop_collection_tx c =
  bind
    (replace_docs { nq_coll = c; nq_crit = None; nq_limit = (Zneg XH);
      nq_skip = Z0; nq_sort = [] } UFunNil) (fun _ ->
    bind (tx_delete (coll_key c)) (fun _ -> tx_commit))

(** val index_doc : bytes -> bytes -> obj -> unit -> (unit * bool) m **)

let index_doc c f d _ =
  bind (idx_add c f (object_id d) (doc_get f d)) (fun _ -> ret ((), true))

(** val create_index_tx : bytes -> bytes -> unit m **)

let create_index_tx c f =
  bind (get_meta c) (fun m0 ->
    if has_field f (snd m0)
    then fail EIdxExist
    else bind
           (iterate_docs { nq_coll = c; nq_crit = None; nq_limit = (Zneg XH);
             nq_skip = Z0; nq_sort = [] } (index_doc c f) ()) (fun _ ->
           bind (save_meta c (fst m0) (app (snd m0) (f :: []))) (fun _ ->
             tx_commit)))

(** val last_index_of :
    bytes -> bytes list -> nat -> nat option -> nat option **)

let rec last_index_of f l i found =
  match l with
  | [] -> found
  | x :: t0 -> last_index_of f t0 (S i) (if beqb x f then Some i else found)

(** val set_nth : nat -> 'a1 -> 'a1 list -> 'a1 list **)

let rec set_nth n0 x = function
| [] -> []
| h :: t0 -> (match n0 with
              | O -> x :: t0
              | S n' -> h :: (set_nth n' x t0))

(** val drop_slot : nat -> bytes list -> bytes list **)

let drop_slot j l = match l with
| [] -> []
| h :: _ -> tl (set_nth j h l)

(** val drop_index_tx : bytes -> bytes -> unit m **)

let drop_index_tx c f =
  bind (get_meta c) (fun m0 ->
    match last_index_of f (snd m0) O None with
    | Some j ->
      bind (idx_drop c f) (fun _ ->
        bind (save_meta c (fst m0) (drop_slot j (snd m0))) (fun _ ->
          tx_commit))
    | None -> fail EIdxNotExist)

(** val find_by_id_tx : bytes -> bytes -> obj option m **)

let find_by_id_tx c id =
  bind (has_collection c) (fun ok ->
    if ok then get_doc c id else fail ECollNotExist)

(** val has_index_tx : bytes -> bytes -> bool m **)

let has_index_tx c f =
  bind (get_meta c) (fun m0 -> ret (has_field f (snd m0)))

(** val list_indexes_tx : bytes -> bytes list m **)

let list_indexes_tx c =
  bind (get_meta c) (fun m0 -> ret (snd m0))

(** val collection_size_tx : bytes -> z m **)

let collection_size_tx c =
  bind (get_meta c) (fun m0 -> ret (fst m0))

(** val list_coll_loop : cursor -> bytes list -> bytes list m **)

let rec list_coll_loop c acc =
  match c with
  | [] -> ret (rev acc)
  | e :: t0 ->
    bind (cursor_item e) (fun it ->
      if is_prefix coll_prefix (fst it)
      then list_coll_loop t0 ((drop_prefix coll_prefix (fst it)) :: acc)
      else ret (rev acc))

(** val list_collections_tx : bytes list m **)

let list_collections_tx =
  bind (tx_cursor true) (fun cur ->
    list_coll_loop (cursor_seek true coll_prefix cur) [])

(** val foreach_cons : z -> obj -> obj list -> (obj list * bool) m **)

let foreach_cons n0 d acc =
  ret ((d :: acc),
    (negb (Z.eqb (Z.add (Z.of_nat (length acc)) (Zpos XH)) n0)))

(** val count_cons : obj -> z -> (z * bool) m **)

let count_cons _ n0 =
  ret ((Z.add n0 (Zpos XH)), true)

type t =
| TZ of z
| TL of t list

(** val t_eqb : t -> t -> bool **)

let rec t_eqb a b =
  match a with
  | TZ x -> (match b with
             | TZ y -> Z.eqb x y
             | TL _ -> false)
  | TL l1 ->
    (match b with
     | TZ _ -> false
     | TL l2 ->
       let rec go l3 l4 =
         match l3 with
         | [] -> (match l4 with
                  | [] -> true
                  | _ :: _ -> false)
         | x :: t1 ->
           (match l4 with
            | [] -> false
            | y :: t2 -> (&&) (t_eqb x y) (go t1 t2))
       in go l1 l2)

(** val tB : bytes -> t **)

let tB s =
  TL (map (fun b -> TZ (Z.of_N b)) s)

(** val tbool : bool -> t **)

let tbool b =
  TZ (if b then Zpos XH else Z0)

(** val tsign : comparison -> t **)

let tsign c =
  TZ (match c with
      | Eq -> Z0
      | Lt -> Zneg XH
      | Gt -> Zpos XH)

type qspec = bytes * qstep list

(** val mk_query : qspec -> query **)

let mk_query q =
  build_query (fst q) (snd q)

type import_file =
| FUnreadable
| FIllFormed
| FElems of obj option list

type op =
| OCreateCollection of bytes
| ODropCollection of bytes
| OHasCollection of bytes
| OListCollections
| OInsert of bytes * obj list * bytes list
| OSave of bytes * obj * bytes
| OFindAll of qspec * z
| OCount of qspec
| OExists of qspec
| OFindFirst of qspec
| OForEach of qspec * z * z
| OFindById of bytes * bytes
| ODeleteById of bytes * bytes
| OUpdateById of bytes * bytes * updater
| OReplaceById of bytes * bytes * obj
| OUpdate of qspec * (bytes * goval) list
| OUpdateFunc of qspec * updater
| ODelete of qspec
| OCreateIndex of bytes * bytes
| ODropIndex of bytes * bytes
| OHasIndex of bytes * bytes
| OListIndexes of bytes
| OExport of bytes
| OImport of bytes * import_file
| OCreateByQuery of bytes * qspec
| OClose
| OReopen

type rstate = { r_db : dbst; r_fault : nat option; r_calls : nat;
                r_fired : bool }

(** val run_tx : 'a1 m -> rstate -> 'a1 res * rstate **)

let run_tx body st =
  let o = with_tx body st.r_fault st.r_db in
  let f' =
    if o.o_fired
    then None
    else (match st.r_fault with
          | Some n0 -> Some (sub n0 o.o_calls)
          | None -> None)
  in
  (o.o_res, { r_db = o.o_db; r_fault = f'; r_calls =
  (add st.r_calls o.o_calls); r_fired = ((||) st.r_fired o.o_fired) })

(** val err_code : err -> z **)

let err_code = function
| ECollExist -> Zpos XH
| ECollNotExist -> Zpos (XO XH)
| EIdxExist -> Zpos (XI XH)
| EIdxNotExist -> Zpos (XO (XO XH))
| EDocNotExist -> Zpos (XI (XO XH))
| EDupKey -> Zpos (XO (XI XH))
| EOther -> Zpos (XI (XI XH))
| EStore -> Zpos (XO (XO (XO XH)))

(** val t_of_value : value -> t **)

let rec t_of_value = function
| VNil -> TL ((TZ Z0) :: [])
| VInt z0 -> TL ((TZ (Zpos XH)) :: ((TZ z0) :: []))
| VUint z0 -> TL ((TZ (Zpos (XO XH))) :: ((TZ z0) :: []))
| VFloat b -> TL ((TZ (Zpos (XI XH))) :: ((TZ b) :: []))
| VStr s -> TL ((TZ (Zpos (XO (XO XH)))) :: ((tB s) :: []))
| VBool b -> TL ((TZ (Zpos (XI (XO XH)))) :: ((tbool b) :: []))
| VTime (s, n0, o) ->
  TL ((TZ (Zpos (XO (XI XH)))) :: ((TZ s) :: ((TZ n0) :: ((TZ o) :: []))))
| VArr l -> TL ((TZ (Zpos (XI (XI XH)))) :: ((TL (map t_of_value l)) :: []))
| VObj o ->
  TL ((TZ (Zpos (XO (XO (XO XH))))) :: ((TL
    (let rec go = function
     | [] -> []
     | p :: t0 ->
       let (k, x) = p in (TL ((tB k) :: ((t_of_value x) :: []))) :: (go t0)
     in go o)) :: []))

(** val t_of_doc : obj -> t **)

let t_of_doc d =
  t_of_value (VObj d)

(** val t_ok : t -> t **)

let t_ok payload =
  TL ((TZ Z0) :: (payload :: []))

(** val t_err : err -> t **)

let t_err e =
  TL ((TZ (err_code e)) :: ((TL []) :: []))

(** val t_unit : 'a1 res -> t **)

let t_unit = function
| Ok _ -> t_ok (TL [])
| Err e -> t_err e

(** val t_res : ('a1 -> t) -> 'a1 res -> t **)

let t_res f = function
| Ok a -> t_ok (f a)
| Err e -> t_err e

(** val id_leb : obj -> obj -> bool **)

let id_leb a b =
  bleb (object_id a) (object_id b)

(** val canon_key : value -> t **)

let canon_key v = match v with
| VInt z0 ->
  if Z.leb (Z.abs z0) two53
  then TL ((TZ (Zpos XH)) :: ((TZ z0) :: []))
  else t_of_value v
| VUint z0 ->
  if Z.leb (Z.abs z0) two53
  then TL ((TZ (Zpos XH)) :: ((TZ z0) :: []))
  else t_of_value v
| VFloat b ->
  if (||) (is_nan b) (is_inf b)
  then t_of_value v
  else let d = fden b in
       if (&&) (Z.eqb (Z.modulo d scale1074) Z0)
            (Z.leb (Z.abs (Z.div d scale1074)) two53)
       then TL ((TZ (Zpos XH)) :: ((TZ (Z.div d scale1074)) :: []))
       else t_of_value v
| _ -> t_of_value v

(** val key_tuple : (bytes * z) list -> obj -> t **)

let key_tuple sort d =
  TL
    (map (fun o ->
      if doc_has (fst o) d
      then TL ((TZ (Zpos XH)) :: ((canon_key (doc_get (fst o) d)) :: []))
      else TL ((TZ Z0) :: [])) sort)

(** val t_of_docs : (bytes * z) list -> z -> obj list -> t **)

let t_of_docs sort mode l =
  if Z.eqb mode (Zpos XH)
  then TL (map (key_tuple sort) l)
  else if Z.eqb mode (Zpos (XO XH))
       then TL (map t_of_doc l)
       else (match sort with
             | [] -> TL (map t_of_doc (msort id_leb l))
             | _ :: _ ->
               TL
                 (map t_of_doc
                   (msort (docs_leb (app sort ((id_field, (Zpos XH)) :: [])))
                     l)))

(** val t_of_opt_doc : obj option -> t **)

let t_of_opt_doc = function
| Some d -> TL ((t_of_doc d) :: [])
| None -> TL []

(** val t_of_sval : sval -> t **)

let t_of_sval = function
| SDoc w -> TL ((TZ (Zpos XH)) :: ((t_of_doc (doc_decode w)) :: []))
| SMeta (n0, l) ->
  TL ((TZ (Zpos (XO XH))) :: ((TZ n0) :: ((TL (map tB l)) :: [])))
| SEmpty -> TL ((TZ (Zpos (XI XH))) :: [])

(** val t_of_kv : kv -> t **)

let t_of_kv s =
  TL (map (fun e -> TL ((tB (fst e)) :: ((t_of_sval (snd e)) :: []))) s)

(** val needs_id : obj -> bool **)

let needs_id d =
  (||) (negb (doc_has id_field d))
    (match doc_get id_field d with
     | VStr s -> (match s with
                  | [] -> true
                  | _ :: _ -> false)
     | _ -> false)

(** val assign_ids : obj list -> bytes list -> obj list **)

let rec assign_ids docs fresh =
  match docs with
  | [] -> []
  | d :: t0 ->
    if needs_id d
    then (match fresh with
          | [] -> d :: (assign_ids t0 [])
          | id :: fr -> (doc_set id_field (VStr id) d) :: (assign_ids t0 fr))
    else d :: (assign_ids t0 fresh)

(** val count_window : z -> z -> z -> z **)

let count_window size0 skip limit =
  let s = Z.max Z0 (Z.sub size0 skip) in
  if (&&) (Z.leb Z0 limit) (Z.ltb limit s) then limit else s

(** val find_all_op : query -> rstate -> obj list res * rstate **)

let find_all_op q st =
  match normalize_query q with
  | Some nq -> run_tx (find_all_tx nq) st
  | None -> ((Err EOther), st)

(** val insert_op : bytes -> obj list -> rstate -> unit res * rstate **)

let insert_op c docs st =
  run_tx (insert_tx c docs) st

(** val exec_op : op -> rstate -> t * rstate **)

let exec_op o st =
  match o with
  | OCreateCollection c ->
    let (r, st') = run_tx (create_collection_tx c) st in ((t_unit r), st')
  | ODropCollection c ->
    let (r, st') = run_tx (drop_collection_tx c) st in ((t_unit r), st')
  | OHasCollection c ->
    let (r, st') = run_tx (has_collection c) st in ((t_res tbool r), st')
  | OListCollections ->
    let (r, st') = run_tx list_collections_tx st in
    ((t_res (fun l -> TL (map tB (msort bleb l))) r), st')
  | OInsert (c, docs, fresh) ->
    let (r, st') = insert_op c (assign_ids docs fresh) st in ((t_unit r), st')
  | OSave (c, d, fresh) ->
    if needs_id d
    then let (r, st') = insert_op c (assign_ids (d :: []) (fresh :: [])) st in
         ((t_unit r), st')
    else let (r, st') =
           run_tx (update_by_id_tx c (object_id d) (UFunConst d)) st
         in
         ((t_unit r), st')
  | OFindAll (q, mode) ->
    let (r, st') = find_all_op (mk_query q) st in
    ((t_res (t_of_docs (mk_query q).q_sort mode) r), st')
  | OCount q ->
    (match normalize_query (mk_query q) with
     | Some nq ->
       (match nq.nq_crit with
        | Some _ ->
          let (r, st') = run_tx (iterate_docs nq count_cons Z0) st in
          ((t_res (fun x -> TZ x) r), st')
        | None ->
          let (r, st') = run_tx (collection_size_tx nq.nq_coll) st in
          ((t_res (fun n0 -> TZ (count_window n0 nq.nq_skip nq.nq_limit)) r),
          st'))
     | None -> ((t_err EOther), st))
  | OExists q ->
    let (r, st') = find_all_op (q_apply (mk_query q) (QLimit (Zpos XH))) st in
    ((t_res (fun l -> tbool (match l with
                             | [] -> false
                             | _ :: _ -> true)) r), st')
  | OFindFirst q ->
    let (r, st') = find_all_op (q_apply (mk_query q) (QLimit (Zpos XH))) st in
    ((t_res (fun l -> t_of_opt_doc (hd_error l)) r), st')
  | OForEach (q, n0, mode) ->
    (match normalize_query (mk_query q) with
     | Some nq ->
       let (r, st') = run_tx (iterate_docs nq (foreach_cons n0) []) st in
       ((t_res (fun l -> t_of_docs nq.nq_sort mode (rev l)) r), st')
     | None -> ((t_err EOther), st))
  | OFindById (c, id) ->
    let (r, st') = run_tx (find_by_id_tx c id) st in
    ((t_res t_of_opt_doc r), st')
  | ODeleteById (c, id) ->
    let (r, st') = run_tx (delete_by_id_tx c id) st in ((t_unit r), st')
  | OUpdateById (c, id, u) ->
    let (r, st') = run_tx (update_by_id_tx c id u) st in ((t_unit r), st')
  | OReplaceById (c, id, d) ->
    if negb (beqb (object_id d) id)
    then ((t_err EOther), st)
    else let (r, st') = run_tx (update_by_id_tx c id (UFunConst d)) st in
         ((t_unit r), st')
  | OUpdate (q, kvs) ->
    (match normalize_query (mk_query q) with
     | Some nq ->
       let (r, st') = run_tx (update_tx nq (USetAll kvs)) st in
       ((t_unit r), st')
     | None -> ((t_err EOther), st))
  | OUpdateFunc (q, u) ->
    (match normalize_query (mk_query q) with
     | Some nq ->
       let (r, st') = run_tx (update_tx nq u) st in ((t_unit r), st')
     | None -> let (r, st') = run_tx (fail EOther) st in ((t_unit r), st'))
  | ODelete q ->
    (match normalize_query (mk_query q) with
     | Some nq ->
       let (r, st') = run_tx (update_tx nq UFunNil) st in ((t_unit r), st')
     | None -> ((t_err EOther), st))
  | OCreateIndex (c, f) ->
    let (r, st') = run_tx (create_index_tx c f) st in ((t_unit r), st')
  | ODropIndex (c, f) ->
    let (r, st') = run_tx (drop_index_tx c f) st in ((t_unit r), st')
  | OHasIndex (c, f) ->
    let (r, st') = run_tx (has_index_tx c f) st in ((t_res tbool r), st')
  | OListIndexes c ->
    let (r, st') = run_tx (list_indexes_tx c) st in
    ((t_res (fun l -> TL (map tB (msort bleb l))) r), st')
  | OExport c ->
    let (r, st1) = run_tx (has_collection c) st in
    (match r with
     | Ok a ->
       if a
       then let (r2, st2) = find_all_op (new_query c) st1 in
            ((t_res (t_of_docs [] Z0) r2), st2)
       else ((t_err ECollNotExist), st1)
     | Err e -> ((t_err e), st1))
  | OImport (c, file) ->
    (match file with
     | FUnreadable -> ((t_err EOther), st)
     | FIllFormed ->
       let (r, st1) = run_tx (create_collection_tx c) st in
       (match r with
        | Ok _ ->
          (match file with
           | FElems l ->
             if forallb (fun o0 ->
                  match o0 with
                  | Some _ -> true
                  | None -> false) l
             then let docs =
                    flat_map (fun o0 ->
                      match o0 with
                      | Some d -> d :: []
                      | None -> []) l
                  in
                  let (r2, st2) = insert_op c docs st1 in ((t_unit r2), st2)
             else ((t_err EOther), st1)
           | _ -> ((t_err EOther), st1))
        | Err e -> ((t_err e), st1))
     | FElems _ ->
       let (r, st1) = run_tx (create_collection_tx c) st in
       (match r with
        | Ok _ ->
          (match file with
           | FElems l ->
             if forallb (fun o0 ->
                  match o0 with
                  | Some _ -> true
                  | None -> false) l
             then let docs =
                    flat_map (fun o0 ->
                      match o0 with
                      | Some d -> d :: []
                      | None -> []) l
                  in
                  let (r2, st2) = insert_op c docs st1 in ((t_unit r2), st2)
             else ((t_err EOther), st1)
           | _ -> ((t_err EOther), st1))
        | Err e -> ((t_err e), st1)))
  | OCreateByQuery (c, q) ->
    let (r, st1) = run_tx (create_collection_tx c) st in
    (match r with
     | Ok _ ->
       let (r2, st2) = find_all_op (mk_query q) st1 in
       (match r2 with
        | Ok docs ->
          (match docs with
           | [] -> ((t_ok (TL [])), st2)
           | _ :: _ ->
             let (r3, st3) = insert_op c docs st2 in ((t_unit r3), st3))
        | Err e -> ((t_err e), st2))
     | Err e -> ((t_err e), st1))
  | OClose ->
    ((t_ok (TL [])), { r_db = { durable = st.r_db.durable; closed = true };
      r_fault = st.r_fault; r_calls = st.r_calls; r_fired = st.r_fired })
  | OReopen ->
    ((t_ok (TL [])), { r_db = { durable = st.r_db.durable; closed = false };
      r_fault = st.r_fault; r_calls = st.r_calls; r_fired = st.r_fired })

(** val empty_db : dbst **)

let empty_db =
  { durable = []; closed = false }

(** val fresh_rstate : dbst -> nat option -> rstate **)

let fresh_rstate db flt =
  { r_db = db; r_fault = flt; r_calls = O; r_fired = false }

(** val step : dbst -> op -> t * dbst **)

let step db o =
  let (t0, st) = exec_op o (fresh_rstate db None) in (t0, st.r_db)

(** val c10_key : value -> t **)

let c10_key a =
  tB
    (app
      ((Z.to_N (Z.add (Zpos (XO (XO (XO (XO (XI XH)))))) (type_id a))) :: ((Npos
      (XO (XO (XI (XI (XI (XI XH))))))) :: [])) (value_code a))

(** val c10_row : z -> z -> value -> value list -> t list -> t list **)

let rec c10_row i j a pool obs =
  match pool with
  | [] ->
    (match obs with
     | [] -> []
     | _ :: _ ->
       (TL ((TZ i) :: ((TZ j) :: ((TZ (Zpos (XI (XI (XO (XO (XO (XI
         XH)))))))) :: [])))) :: [])
  | b :: pt ->
    (match obs with
     | [] ->
       (TL ((TZ i) :: ((TZ j) :: ((TZ (Zpos (XI (XI (XO (XO (XO (XI
         XH)))))))) :: [])))) :: []
     | o :: ot ->
       app
         (if t_eqb (tsign (compare0 a b)) o
          then []
          else (TL ((TZ i) :: ((TZ
                 j) :: ((tsign (compare0 a b)) :: [])))) :: [])
         (c10_row i (Z.add j (Zpos XH)) a pt ot))

(** val c10_rows : z -> value list -> value list -> t list -> t list **)

let rec c10_rows i rest pool signs =
  match rest with
  | [] ->
    (match signs with
     | [] -> []
     | _ :: _ ->
       (TL ((TZ i) :: ((TZ (Zneg XH)) :: ((TZ (Zpos (XI (XI (XO (XO (XO (XI
         XH)))))))) :: [])))) :: [])
  | a :: t0 ->
    (match signs with
     | [] ->
       (TL ((TZ i) :: ((TZ (Zneg XH)) :: ((TZ (Zpos (XI (XI (XO (XO (XO (XI
         XH)))))))) :: [])))) :: []
     | t1 :: st ->
       (match t1 with
        | TZ _ ->
          (TL ((TZ i) :: ((TZ (Zneg XH)) :: ((TZ (Zpos (XI (XI (XO (XO (XO
            (XI XH)))))))) :: [])))) :: []
        | TL row ->
          app (c10_row i Z0 a pool row)
            (c10_rows (Z.add i (Zpos XH)) t0 pool st)))

(** val c10_keys : z -> value list -> t list -> t list **)

let rec c10_keys i pool keys =
  match pool with
  | [] ->
    (match keys with
     | [] -> []
     | _ :: _ ->
       (TL ((TZ i) :: ((TZ (Zneg (XO XH))) :: ((TZ (Zpos (XI (XI (XO (XO (XO
         (XI XH)))))))) :: [])))) :: [])
  | a :: t0 ->
    (match keys with
     | [] ->
       (TL ((TZ i) :: ((TZ (Zneg (XO XH))) :: ((TZ (Zpos (XI (XI (XO (XO (XO
         (XI XH)))))))) :: [])))) :: []
     | k :: kt ->
       app
         (if t_eqb (c10_key a) k
          then []
          else (TL ((TZ i) :: ((TZ (Zneg XH)) :: ((c10_key a) :: [])))) :: [])
         (c10_keys (Z.add i (Zpos XH)) t0 kt))

(** val c10_check : value list -> t list -> t list -> t list **)

let c10_check pool signs keys =
  app (c10_rows Z0 pool pool signs) (c10_keys Z0 pool keys)

type hcase =
| HC10 of value list * t list * t list
| HHist of ((op * t) * t option) list

(** val check_hist : z -> dbst -> ((op * t) * t option) list -> t list **)

let rec check_hist i db = function
| [] -> []
| p :: t0 ->
  let (p0, odump) = p in
  let (o, obs) = p0 in
  let (m0, db') = step db o in
  if negb (t_eqb m0 obs)
  then (TL ((TZ i) :: ((TZ Z0) :: (m0 :: [])))) :: []
  else (match odump with
        | Some dmp ->
          let md = t_of_kv db'.durable in
          if t_eqb md dmp
          then check_hist (Z.add i (Zpos XH)) db' t0
          else (TL ((TZ i) :: ((TZ (Zpos XH)) :: (md :: [])))) :: []
        | None -> check_hist (Z.add i (Zpos XH)) db' t0)

(** val check_case : hcase -> t list **)

let check_case = function
| HC10 (pool, signs, keys) -> c10_check pool signs keys
| HHist steps -> check_hist Z0 empty_db steps

(* Generic AST of the Gallina term subset printed by the Go harness, with base readers. *)
type ast =
  | Num of string
  | App of string * ast list      (* constructor application (or bare identifier) *)
  | Lst of ast list
  | Tup of ast list

exception Bad of string

let rec show (a : ast) : string =
  match a with
  | Num s -> s
  | App (c, []) -> c
  | App (c, l) -> "(" ^ c ^ " " ^ String.concat " " (List.map show l) ^ ")"
  | Lst l -> "[" ^ String.concat ";" (List.map show l) ^ "]"
  | Tup l -> "(" ^ String.concat "," (List.map show l) ^ ")"

let bad (ty : string) (a : ast) = 
  let s = show a in
  raise (Bad (ty ^ ": " ^ (if String.length s > 200 then String.sub s 0 200 else s)))

let norm (a : ast) : ast = a

(* ---- tokenizer / parser ---- *)
let parse (s : string) (pos : int ref) : ast =
  let n = String.length s in
  let rec skip () =
    while !pos < n && (s.[!pos] = ' ' || s.[!pos] = '\n' || s.[!pos] = '\t') do incr pos done;
    (* scope annotations %N %Z are noise *)
    if !pos + 1 < n && s.[!pos] = '%' then begin
      incr pos;
      while !pos < n && (match s.[!pos] with 'A'..'Z' | 'a'..'z' | '_' -> true | _ -> false) do incr pos done;
      skip ()
    end in
  let is_id c = match c with 'A'..'Z' | 'a'..'z' | '0'..'9' | '_' | '\'' -> true | _ -> false in
  let rec atom () : ast option =
    skip ();
    if !pos >= n then None else
    match s.[!pos] with
    | '(' ->
        incr pos;
        let first = term () in
        skip ();
        let items = ref [first] in
        while !pos < n && s.[!pos] = ',' do incr pos; items := term () :: !items; skip () done;
        if !pos >= n || s.[!pos] <> ')' then raise (Bad ("expected ) at " ^ string_of_int !pos));
        incr pos;
        (match !items with [x] -> Some x | l -> Some (Tup (List.rev l)))
    | '[' ->
        incr pos; skip ();
        if !pos < n && s.[!pos] = ']' then (incr pos; Some (Lst []))
        else begin
          let items = ref [term ()] in
          skip ();
          while !pos < n && s.[!pos] = ';' do incr pos; items := term () :: !items; skip () done;
          if !pos >= n || s.[!pos] <> ']' then raise (Bad ("expected ] at " ^ string_of_int !pos));
          incr pos; Some (Lst (List.rev !items))
        end
    | '-' | '0'..'9' ->
        let st = !pos in
        incr pos;
        while !pos < n && (match s.[!pos] with '0'..'9' -> true | _ -> false) do incr pos done;
        Some (Num (String.sub s st (!pos - st)))
    | c when is_id c ->
        let st = !pos in
        while !pos < n && is_id s.[!pos] do incr pos done;
        Some (App (String.sub s st (!pos - st), []))
    | _ -> None
  and term () : ast =
    match atom () with
    | None -> raise (Bad ("term expected at " ^ string_of_int !pos))
    | Some (App (c, [])) ->
        let args = ref [] in
        let continue = ref true in
        while !continue do
          let save = !pos in
          (match atom () with
           | Some a -> args := a :: !args
           | None -> pos := save; continue := false)
        done;
        App (c, List.rev !args)
    | Some a -> a in
  term ()

(* ---- base readers ---- *)
module ZA = Z
open Model

let rec pos_of_zarith (x : ZA.t) : positive =
  if ZA.equal x ZA.one then XH
  else if ZA.is_even x then XO (pos_of_zarith (ZA.shift_right x 1))
  else XI (pos_of_zarith (ZA.shift_right x 1))

let z_of_zarith (x : ZA.t) : z =
  if ZA.sign x = 0 then Z0 else if ZA.sign x > 0 then Zpos (pos_of_zarith x) else Zneg (pos_of_zarith (ZA.neg x))

let rec zarith_of_pos (p : positive) : ZA.t =
  match p with
  | XH -> ZA.one
  | XO q -> ZA.shift_left (zarith_of_pos q) 1
  | XI q -> ZA.succ (ZA.shift_left (zarith_of_pos q) 1)

let zarith_of_z (x : z) : ZA.t =
  match x with Z0 -> ZA.zero | Zpos p -> zarith_of_pos p | Zneg p -> ZA.neg (zarith_of_pos p)

let z_of_ast (a : ast) : z = match a with Num s -> z_of_zarith (ZA.of_string s) | _ -> bad "z" a
let n_of_ast (a : ast) : n =
  match a with
  | Num s -> let x = ZA.of_string s in if ZA.sign x = 0 then N0 else Npos (pos_of_zarith x)
  | _ -> bad "n" a
let bool_of_ast (a : ast) : bool =
  match a with App ("true", []) -> true | App ("false", []) -> false | _ -> bad "bool" a
let list_of_ast (f : ast -> 'a) (a : ast) : 'a list = match a with Lst l -> List.map f l | _ -> bad "list" a
let option_of_ast (f : ast -> 'a) (a : ast) : 'a option =
  match a with App ("None", []) -> None | App ("Some", [x]) -> Some (f x) | _ -> bad "option" a
let rec pair_of_ast (f : ast -> 'a) (g : ast -> 'b) (a : ast) : 'a * 'b =
  match a with
  | Tup [x; y] -> (f x, g y)
  | Tup l when List.length l > 2 ->
      (* Coq's (a, b, c) is ((a, b), c) *)
      let rl = List.rev l in
      (f (Tup (List.rev (List.tl rl))), g (List.hd rl))
  | _ -> bad "pair" a

(* ---- printing observation terms ---- *)
let rec print_t (b : Buffer.t) (x : t) : unit =
  match x with
  | TZ z -> Buffer.add_string b (ZA.to_string (zarith_of_z z))
  | TL l ->
      Buffer.add_char b '[';
      List.iteri (fun i e -> if i > 0 then Buffer.add_char b ';'; print_t b e) l;
      Buffer.add_char b ']'

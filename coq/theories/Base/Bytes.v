(* Byte strings as lists of N; lexicographic order. Definitions only (no proofs). *)
From Coq Require Export List NArith ZArith Bool.
Export ListNotations.

Definition bytes := list N.

Fixpoint lex (a b : bytes) : comparison :=
  match a, b with
  | [], [] => Eq
  | [], _ :: _ => Lt
  | _ :: _, [] => Gt
  | x :: a', y :: b' =>
      match N.compare x y with
      | Eq => lex a' b'
      | c => c
      end
  end.

Definition beqb (a b : bytes) : bool :=
  match lex a b with Eq => true | _ => false end.

Definition bltb (a b : bytes) : bool :=
  match lex a b with Lt => true | _ => false end.

Definition bleb (a b : bytes) : bool :=
  match lex a b with Gt => false | _ => true end.

Fixpoint is_prefix (p s : bytes) : bool :=
  match p, s with
  | [], _ => true
  | _ :: _, [] => false
  | x :: p', y :: s' => N.eqb x y && is_prefix p' s'
  end.

Fixpoint drop_prefix (p s : bytes) : bytes :=
  match p, s with
  | [], _ => s
  | _ :: p', _ :: s' => drop_prefix p' s'
  | _ :: _, [] => []
  end.

Definition mem_byte (x : N) (s : bytes) : bool := existsb (N.eqb x) s.

(* comparison helpers *)
Definition cmp_then (c : comparison) (d : comparison) : comparison :=
  match c with Eq => d | _ => c end.

Definition cmp_opp (c : comparison) : comparison := CompOpp c.

Definition is_lt c := match c with Lt => true | _ => false end.
Definition is_gt c := match c with Gt => true | _ => false end.
Definition is_eq c := match c with Eq => true | _ => false end.
Definition is_le c := negb (is_gt c).
Definition is_ge c := negb (is_lt c).

(* ASCII helpers used to write key prefixes readably *)
Definition ch_c : N := 99.   (* 'c' *)
Definition ch_d : N := 100.  (* 'd' *)
Definition ch_i : N := 105.  (* 'i' *)
Definition ch_l : N := 108.  (* 'l' *)
Definition ch_o : N := 111.  (* 'o' *)
Definition ch_t : N := 116.  (* 't' *)
Definition ch_v : N := 118.  (* 'v' *)
Definition ch_colon : N := 58.
Definition ch_semi : N := 59.
Definition ch_dot : N := 46.
Definition ch_dollar : N := 36.
Definition ch_0 : N := 48.

(* generic insertion sort on a boolean "less or equal", stable; used by cursors and canonicalisers *)
Section Sort.
  Context {A : Type} (leb : A -> A -> bool).
  Fixpoint insert_sorted (x : A) (l : list A) : list A :=
    match l with
    | [] => [x]
    | y :: t => if leb x y then x :: l else y :: insert_sorted x t
    end.
  (* stable: processes from the right so equal elements keep their order *)
  Definition isort (l : list A) : list A := fold_right insert_sorted [] l.

  (* merge sort (stable), used where sizes may be in the thousands *)
  Fixpoint merge (l1 : list A) : list A -> list A :=
    fix merge_aux (l2 : list A) : list A :=
      match l1, l2 with
      | [], _ => l2
      | _, [] => l1
      | a1 :: l1', a2 :: l2' =>
          if leb a1 a2 then a1 :: merge l1' l2 else a2 :: merge_aux l2'
      end.

  Fixpoint merge_list_to_stack (stack : list (option (list A))) (l : list A) : list (option (list A)) :=
    match stack with
    | [] => [Some l]
    | None :: stack' => Some l :: stack'
    | Some l' :: stack' => None :: merge_list_to_stack stack' (merge l' l)
    end.

  Fixpoint merge_stack (stack : list (option (list A))) : list A :=
    match stack with
    | [] => []
    | None :: stack' => merge_stack stack'
    | Some l :: stack' => merge (merge_stack stack') l
    end.

  Fixpoint iter_merge (stack : list (option (list A))) (l : list A) : list A :=
    match l with
    | [] => merge_stack stack
    | a :: l' => iter_merge (merge_list_to_stack stack [a]) l'
    end.

  Definition msort (l : list A) : list A := iter_merge [] l.
End Sort.

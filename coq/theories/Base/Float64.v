(* IEEE-754 binary64 as bit patterns in Z, with an exact integer denotation
   (value scaled by 2^1074). Definitions only. *)
From Coq Require Import ZArith Bool.
Open Scope Z_scope.

Definition two63 : Z := 9223372036854775808.
Definition two64 : Z := 18446744073709551616.
Definition two52 : Z := 4503599627370496.
Definition two53 : Z := 9007199254740992.

Definition fsign (b : Z) : bool := two63 <=? b.
Definition fbits_mag (b : Z) : Z := b mod two63.          (* the 63 magnitude bits *)
Definition fexp (b : Z) : Z := (fbits_mag b) / two52.     (* 0..2047 *)
Definition fman (b : Z) : Z := b mod two52.

Definition is_nan (b : Z) : bool := (fexp b =? 2047) && negb (fman b =? 0).
Definition is_inf (b : Z) : bool := (fexp b =? 2047) && (fman b =? 0).

(* |value| * 2^1074; infinity is given the next power of two, which keeps the order *)
Definition fmag (b : Z) : Z :=
  if fexp b =? 0 then fman b else (two52 + fman b) * 2 ^ (fexp b - 1).

(* exact denotation scaled by 2^1074 *)
Definition fden (b : Z) : Z := if fsign b then - fmag b else fmag b.

Definition fcmp (a b : Z) : comparison := Z.compare (fden a) (fden b).

(* float64(z) for an integer z, round to nearest, ties to even (Go conversion semantics).
   |z| < 2^64 always here so no overflow to infinity. *)
Definition of_Z_mag (m : Z) : Z :=
  if m =? 0 then 0 else
  let k := Z.log2 m in
  if k <=? 52 then (1023 + k) * two52 + (m * 2 ^ (52 - k) - two52)
  else
    let sh := k - 52 in
    let q := m / 2 ^ sh in
    let r := m mod 2 ^ sh in
    let half := 2 ^ (sh - 1) in
    let q' := if (half <? r) || ((r =? half) && Z.odd q) then q + 1 else q in
    (* q' in [2^52, 2^53]; adding (q' - 2^52) to the exponent field carries correctly *)
    (1023 + k) * two52 + (q' - two52).

Definition of_Z (z : Z) : Z :=
  if z <? 0 then two63 + of_Z_mag (- z) else of_Z_mag z.

(* orderedcode's float transform: sign-magnitude bits -> signed integer *)
Definition fkey_int (b : Z) : Z :=
  if fsign b then - (b - two63) else b.

(* int64 denotation scaled like fden, for comparisons between exact ints and floats *)
Definition scale1074 : Z := 2 ^ 1074.

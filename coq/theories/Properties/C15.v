(* C15 — all storage backends behave identically: both cursor adapters meet the ordered-map cursor
   contract the model is written against (the libraries behind them are modelled by their documented
   cursor semantics). *)
From Clover Require Import Adapters AdapterProofs.

Theorem C15_cursor_contract_bbolt : forall ks forward t, keys_sorted_strict ks ->
  bolt_scan ks forward t = contract_scan ks forward t.
Proof. exact bolt_scan_contract. Qed.
Print Assumptions C15_cursor_contract_bbolt.

Theorem C15_cursor_contract_badger : forall ks forward t, keys_sorted_strict ks ->
  badger_scan ks forward t = contract_scan ks forward t.
Proof. exact badger_scan_contract. Qed.
Print Assumptions C15_cursor_contract_badger.

Theorem C15_adapters_agree : forall ks forward t, keys_sorted_strict ks ->
  bolt_scan ks forward t = badger_scan ks forward t.
Proof. exact adapters_agree. Qed.
Print Assumptions C15_adapters_agree.

(* a forward seek lands on the first key at or after the target and visits the rest ascending;
   a reverse seek lands on the last key at or before it and visits the rest descending *)
Theorem C15_forward_meaning : forall ks t, keys_sorted_strict ks ->
  contract_scan ks true t = filter (fun k => negb (bltb k t)) ks.
Proof. exact contract_scan_fwd. Qed.
Print Assumptions C15_forward_meaning.
Theorem C15_reverse_meaning : forall ks t, keys_sorted_strict ks ->
  contract_scan ks false t = rev (filter (fun k => negb (bltb t k)) ks).
Proof. exact contract_scan_rev. Qed.
Print Assumptions C15_reverse_meaning.
Theorem C15_each_key_once : forall ks forward t, keys_sorted_strict ks -> NoDup (bolt_scan ks forward t).
Proof. exact scan_visits_once. Qed.
Print Assumptions C15_each_key_once.

(* the defect repaired by "fix: bbolt cursor agrees with the badger cursor ...": the old reverse seek *)
Theorem C15_old_bbolt_seek_refuted : exists ks t, keys_sorted_strict ks /\
  bolt_scan_old ks false t <> contract_scan ks false t.
Proof. exact bolt_old_violates_contract. Qed.
Print Assumptions C15_old_bbolt_seek_refuted.

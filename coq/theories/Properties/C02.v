(* C02 — index transparency. Core: whatever index range the planner derives, every document satisfying
   the criteria has its field value inside it (so the range scan, which re-applies the full criteria to
   each candidate, loses nothing); a range reported empty means the criteria are unsatisfiable; the
   chosen field is always an indexed one. The end-to-end statement is assembled in Final. *)
From Clover Require Import ScanSpec VisitProofs.

Theorem C02_planner_range_sound : forall m c sort idx f r rv b d,
  try_select_index (Some c) sort idx = (Some (IQRange f r rv), b) ->
  crit_lits_ok (regime m) c = true -> regime m (doc_get f d) = true ->
  sat c d = true -> in_range r (doc_get f d) = true.
Proof. exact try_select_index_sound. Qed.
Print Assumptions C02_planner_range_sound.

Theorem C02_planner_empty_range_sound : forall m c sort idx f r rv b d,
  try_select_index (Some c) sort idx = (Some (IQRange f r rv), b) ->
  crit_lits_ok (regime m) c = true -> regime m (doc_get f d) = true ->
  range_is_empty r = true -> sat c d = false.
Proof. exact try_select_index_empty_sound. Qed.
Print Assumptions C02_planner_empty_range_sound.

(* the negation push-down used for planning never excludes a satisfying document *)
Theorem C02_flatten_sound : forall c m fld r d, regime m (doc_get fld d) = true ->
  crit_lits_ok (regime m) c = true -> field_range fld (flat c) = Some r ->
  sat c d = true -> in_range r (doc_get fld d) = true.
Proof. exact field_range_flat_sound. Qed.
Print Assumptions C02_flatten_sound.

Theorem C02_selected_field_is_indexed : forall crit sort idx q b,
  try_select_index crit sort idx = (Some q, b) -> has_field (iq_field q) idx = true.
Proof. exact try_select_index_indexed. Qed.
Print Assumptions C02_selected_field_is_indexed.

Theorem C02_no_criteria_no_range : forall idx, get_index_query None idx = None.
Proof. exact get_index_query_none. Qed.
Print Assumptions C02_no_criteria_no_range.

(* ---- end-to-end theorems against the abstract database (refinement R, SpecDB.v) ---- *)
From Coq Require Import ZArith List.
From Clover Require Import QueryDom QueryProofs BulkProofs OpProofs.

(* two databases holding the same documents in c under ANY two index sets (whenever the indexes were created): same count; unsorted-unwindowed: same documents; sorted: the same sequence up to ties of the sort order (absent tied with nil) *)
Theorem C02_index_transparent :
  forall (m : bool) (db1 : sdb) (s1 : kv) (db2 : sdb) (s2 : kv) (c : bytes)
           (sc1 sc2 : scoll) (q : nquery),
         wf_db db1 ->
         R db1 s1 ->
         wf_db db2 ->
         R db2 s2 ->
         assoc c db1 = Some sc1 ->
         assoc c db2 = Some sc2 ->
         Permutation (sc_docs sc1) (sc_docs sc2) ->
         coll_dom m sc1 ->
         coll_dom m sc2 ->
         crit_dom m (nq_crit q) ->
         nq_coll q = c ->
         Z.le Z0 (nq_skip q) ->
         exists r1 r2 : list obj,
           o_res (with_tx (find_all_tx q) None {| durable := s1; closed := false |}) = Ok r1 /\
           o_res (with_tx (find_all_tx q) None {| durable := s2; closed := false |}) = Ok r2 /\
           length r1 = length r2 /\
           (nq_sort q = nil -> unwindowed q -> Permutation r1 r2) /\
           (nq_sort q <> nil -> tie_equal' (nq_sort q) r1 r2).
Proof. exact index_transparent. Qed.
Print Assumptions C02_index_transparent.

(* an index created after the documents were written holds exactly what one created before would (render does not depend on history): CreateIndex refines the abstract catalog update *)
Theorem C02_index_built_after_writes :
  forall (db : sdb) (s : kv) (c f : bytes),
         wf_db db ->
         R db s ->
         no_semi c = true ->
         no_semi f = true ->
         let out := with_tx (create_index_tx c f) None {| durable := s; closed := false |} in
         match s_create_index c f db with
         | Ok db' => o_res out = Ok tt /\ R db' (durable (o_db out)) /\ wf_db db'
         | Err e => o_res out = Err e /\ o_db out = {| durable := s; closed := false |}
         end.
Proof. exact create_index_refines. Qed.
Print Assumptions C02_index_built_after_writes.

(* the one observable difference: with the sort served by an index, an absent field and an explicit nil tie (ordered by id), whereas the in-memory comparator puts absent first; the property text allows either *)
Theorem C02_elided_sort_ties_refuted :
  wf_db na_db /\
         R na_db na_s /\
         coll_dom true na_sc /\
         crit_dom true (nq_crit na_q) /\
         o_res (with_tx (find_all_tx na_q) None {| durable := na_s; closed := false |}) =
         Ok (na_dn :: na_da :: nil)%list /\
         ~ find_ok (map snd (sc_docs na_sc)) na_q (na_dn :: na_da :: nil) /\
         find_ok' (map snd (sc_docs na_sc)) na_q (na_dn :: na_da :: nil).
Proof. exact na_find_all_not_find_ok. Qed.
Print Assumptions C02_elided_sort_ties_refuted.


(* ---- history level (Spec/IndexIndep.v, Proofs/IndexIndepProofs.v): two histories that differ only by CreateIndex / DropIndex operations
   (inserted anywhere) hold the same documents in every collection, and the same query afterwards meets one specification on both;
   the hypothesis on windowed bulk writes is needed (a Delete with Sort + Limit 1 over an absent/nil tie removes another document with
   the index than without: _refuted witness) ---- *)
From Clover Require Import IndexIndep IndexIndepProofs.
Theorem C02_index_ops_keep_documents : forall db h o, wf_db db -> R db (durable h) -> closed h = false -> op_dom db o ->
  is_index_op o = true ->
  exists db', wf_db db' /\ R db' (durable (snd (step h o))) /\ docs_eq db db' /\ closed (snd (step h o)) = false.
Proof. exact index_op_keeps_docs. Qed.
Print Assumptions C02_index_ops_keep_documents.

Theorem C02_step_documents_independent_of_indexes : forall db1 db2 h1 h2 o,
  wf_db db1 -> wf_db db2 -> R db1 (durable h1) -> R db2 (durable h2) -> closed h1 = closed h2 ->
  docs_eq db1 db2 -> is_index_op o = false -> unwindowed_write o ->
  (closed h1 = false -> op_dom db1 o) -> (closed h2 = false -> op_dom db2 o) ->
  exists db1' db2', wf_db db1' /\ wf_db db2' /\
    R db1' (durable (snd (step h1 o))) /\ R db2' (durable (snd (step h2 o))) /\
    closed (snd (step h1 o)) = closed (snd (step h2 o)) /\ docs_eq db1' db2'.
Proof. exact step_docs_independent. Qed.
Print Assumptions C02_step_documents_independent_of_indexes.

Theorem C02_history_index_independent : forall ops1 ops2,
  idx_variant ops1 ops2 -> Forall unwindowed_write ops1 ->
  hist_dom empty_db ops1 -> hist_dom empty_db ops2 ->
  exists db1 db2, wf_db db1 /\ wf_db db2 /\
    R db1 (durable (snd (run_ops empty_db ops1))) /\ R db2 (durable (snd (run_ops empty_db ops2))) /\
    closed (snd (run_ops empty_db ops1)) = closed (snd (run_ops empty_db ops2)) /\ docs_eq db1 db2.
Proof. exact history_index_independent. Qed.
Print Assumptions C02_history_index_independent.

Theorem C02_history_index_transparent : forall ops1 ops2 q mode,
  idx_variant ops1 ops2 -> Forall unwindowed_write ops1 ->
  hist_dom empty_db (ops1 ++ [OFindAll q mode]) -> hist_dom empty_db (ops2 ++ [OFindAll q mode]) ->
  closed (snd (run_ops empty_db ops1)) = false ->
  forall nq, normalize_query (mk_query q) = Some nq ->
  exists db1 db2,
    wf_db db1 /\ wf_db db2 /\
    R db1 (durable (snd (run_ops empty_db ops1))) /\ R db2 (durable (snd (run_ops empty_db ops2))) /\
    docs_eq db1 db2 /\ closed (snd (run_ops empty_db ops2)) = false /\
    query_agrees db1 db2 (snd (run_ops empty_db ops1)) (snd (run_ops empty_db ops2)) q nq /\
    (* every abstract database of either final store lists the documents of db1, in some order *)
    (forall db, wf_db db ->
       R db (durable (snd (run_ops empty_db ops1))) \/ R db (durable (snd (run_ops empty_db ops2))) ->
       forall sc, assoc (nq_coll nq) db = Some sc ->
         exists sc1, assoc (nq_coll nq) db1 = Some sc1 /\ Permutation (sc_docs sc) (sc_docs sc1)).
Proof. exact history_index_transparent. Qed.
Print Assumptions C02_history_index_transparent.

Theorem C02_abstract_state_determined_by_store : forall db db' s, wf_db db -> wf_db db' -> R db s -> R db' s ->
  forall c sc, assoc c db = Some sc ->
  exists sc', assoc c db' = Some sc' /\ Permutation (sc_docs sc) (sc_docs sc') /\ sc_idx sc = sc_idx sc'.
Proof. exact R_docs_determined. Qed.
Print Assumptions C02_abstract_state_determined_by_store.

Theorem C02_independence_example :
  exists db1 db2, wf_db db1 /\ wf_db db2 /\
    R db1 (durable (snd (run_ops empty_db ii_ops1))) /\ R db2 (durable (snd (run_ops empty_db ii_ops2))) /\
    closed (snd (run_ops empty_db ii_ops1)) = closed (snd (run_ops empty_db ii_ops2)) /\ docs_eq db1 db2.
Proof. exact ii_independent. Qed.
Print Assumptions C02_independence_example.

Theorem C02_history_index_independent_windowed_refuted :
  ~ (forall ops1 ops2, idx_variant ops1 ops2 -> hist_dom empty_db ops1 -> hist_dom empty_db ops2 ->
       exists db1 db2, wf_db db1 /\ wf_db db2 /\
         R db1 (durable (snd (run_ops empty_db ops1))) /\ R db2 (durable (snd (run_ops empty_db ops2))) /\
         closed (snd (run_ops empty_db ops1)) = closed (snd (run_ops empty_db ops2)) /\ docs_eq db1 db2).
Proof. exact history_index_independent_windowed_refuted. Qed.
Print Assumptions C02_history_index_independent_windowed_refuted.

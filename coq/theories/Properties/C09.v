(* C09 — Count, Exists, FindFirst, ForEach agree with FindAll (plan level, same abstraction as C08);
   FindById and the read bodies against the abstract database. [res] below is the FindAll sequence
   [window skip limit (plan_seq crit sort idx L)]. *)
From Clover Require Import PureRun PlanProofs WriteProofs TxProofs.
Open Scope Z_scope.

Theorem C09_count : forall c crit sort skip idx L, input_feeds c crit sort idx L ->
  forall limit s, fault s = None -> 0 <= skip ->
  runs_to (exec_plan count_cons c crit sort skip limit idx 0) s
          (Z.of_nat (length (window skip limit (plan_seq crit sort idx L)))).
Proof. exact count_agrees. Qed.
Print Assumptions C09_count.

(* the stored-counter shortcut used when the query has no criteria *)
Theorem C09_count_from_counter : forall n skip limit (l : list obj), 0 <= skip -> length l = n ->
  count_window (Z.of_nat n) skip limit = Z.of_nat (length (window skip limit l)).
Proof. exact count_window_agrees. Qed.
Print Assumptions C09_count_from_counter.

Theorem C09_foreach_prefix : forall c crit sort skip idx L, input_feeds c crit sort idx L ->
  forall n limit s, fault s = None -> 0 <= skip ->
  runs_to (l <- exec_plan (foreach_cons n) c crit sort skip limit idx [] ;; ret (rev l)) s
          (let res := window skip limit (plan_seq crit sort idx L) in
           if 0 <? n then firstn (Z.to_nat n) res else res).
Proof. exact foreach_agrees. Qed.
Print Assumptions C09_foreach_prefix.

Theorem C09_findfirst : forall c crit sort skip idx L, input_feeds c crit sort idx L ->
  forall limit s, fault s = None -> 0 <= skip -> limit <> 0 ->
  runs_to (l <- exec_plan collect c crit sort skip 1 idx [] ;; ret (hd_error (rev l))) s
          (hd_error (window skip limit (plan_seq crit sort idx L))).
Proof. exact findfirst_plan_agrees. Qed.
Print Assumptions C09_findfirst.

Theorem C09_exists : forall c crit sort skip idx L, input_feeds c crit sort idx L ->
  forall limit s, fault s = None -> 0 <= skip -> limit <> 0 ->
  runs_to (l <- exec_plan collect c crit sort skip 1 idx [] ;; ret (nonempty (rev l))) s
          (nonempty (window skip limit (plan_seq crit sort idx L))).
Proof. exact exists_plan_agrees. Qed.
Print Assumptions C09_exists.

(* FindById returns the document iff it is live, and changes nothing *)
Theorem C09_findbyid : forall db s c id, wf_db db -> R db s -> no_semi c = true ->
  o_res (with_tx (find_by_id_tx c id) None (mkDb s false)) =
    match assoc c db with None => Err ECollNotExist | Some sc => Ok (assoc id (sc_docs sc)) end /\
  o_db (with_tx (find_by_id_tx c id) None (mkDb s false)) = mkDb s false.
Proof. exact find_by_id_refines. Qed.
Print Assumptions C09_findbyid.

(* no read operation ever commits: the database is unchanged by every one of them, whatever happens *)
Theorem C09_reads_pure :
  (forall q, no_commit (find_all_tx q)) /\ (forall c id, no_commit (find_by_id_tx c id)) /\
  (forall c, no_commit (has_collection c)) /\ (forall c f, no_commit (has_index_tx c f)) /\
  (forall c, no_commit (list_indexes_tx c)) /\ (forall c, no_commit (collection_size_tx c)) /\
  no_commit list_collections_tx /\
  (forall A q (cons : obj -> A -> M (A * bool)) a0, (forall d a, no_commit (cons d a)) -> no_commit (iterate_docs q cons a0)).
Proof. exact read_bodies_no_commit. Qed.
Print Assumptions C09_reads_pure.

(* ---- end-to-end theorems against the abstract database (refinement R, SpecDB.v) ---- *)
From Coq Require Import ZArith List.
From Clover Require Import QueryDom QueryProofs BulkProofs OpProofs.

(* closed forms: res is the FindAll result on the same state *)
Theorem C09_count_closed :
  forall (m : bool) (db : sdb) (s : kv) (q : nquery) (sc : scoll) (res : list obj),
         wf_db db ->
         R db s ->
         assoc (nq_coll q) db = Some sc ->
         coll_dom m sc ->
         crit_dom m (nq_crit q) ->
         o_res (with_tx (find_all_tx q) None {| durable := s; closed := false |}) = Ok res ->
         o_res (with_tx (iterate_docs q count_cons Z0) None {| durable := s; closed := false |}) =
         Ok (Z.of_nat (length res)) /\
         o_db (with_tx (iterate_docs q count_cons Z0) None {| durable := s; closed := false |}) =
         {| durable := s; closed := false |}.
Proof. exact count_refines. Qed.
Print Assumptions C09_count_closed.

Theorem C09_count_counter_closed :
  forall (m : bool) (db : sdb) (s : kv) (q : nquery) (sc : scoll) (res : list obj),
         wf_db db ->
         R db s ->
         assoc (nq_coll q) db = Some sc ->
         coll_dom m sc ->
         crit_dom m (nq_crit q) ->
         o_res (with_tx (find_all_tx q) None {| durable := s; closed := false |}) = Ok res ->
         nq_crit q = None ->
         Z.le Z0 (nq_skip q) ->
         count_window (Z.of_nat (length (sc_docs sc))) (nq_skip q) (nq_limit q) =
         Z.of_nat (length res).
Proof. exact count_counter_refines. Qed.
Print Assumptions C09_count_counter_closed.

Theorem C09_foreach_closed :
  forall (m : bool) (db : sdb) (s : kv) (q : nquery) (sc : scoll) (res : list obj),
         wf_db db ->
         R db s ->
         assoc (nq_coll q) db = Some sc ->
         coll_dom m sc ->
         crit_dom m (nq_crit q) ->
         o_res (with_tx (find_all_tx q) None {| durable := s; closed := false |}) = Ok res ->
         forall n : Z,
         o_res (with_tx (iterate_docs q (foreach_cons n) nil) None {| durable := s; closed := false |}) =
         Ok (rev (if Z.ltb Z0 n then firstn (Z.to_nat n) res else res)) /\
         o_db (with_tx (iterate_docs q (foreach_cons n) nil) None {| durable := s; closed := false |}) =
         {| durable := s; closed := false |}.
Proof. exact foreach_refines. Qed.
Print Assumptions C09_foreach_closed.

Theorem C09_findfirst_closed :
  forall (m : bool) (db : sdb) (s : kv) (q : nquery) (sc : scoll) (res : list obj),
         wf_db db ->
         R db s ->
         assoc (nq_coll q) db = Some sc ->
         coll_dom m sc ->
         crit_dom m (nq_crit q) ->
         o_res (with_tx (find_all_tx q) None {| durable := s; closed := false |}) = Ok res ->
         nq_limit q <> Z0 ->
         exists r1 : list obj,
           o_res
             (with_tx (find_all_tx (with_limit q (Zpos xH))) None {| durable := s; closed := false |}) =
           Ok r1 /\
           o_db
             (with_tx (find_all_tx (with_limit q (Zpos xH))) None {| durable := s; closed := false |}) =
           {| durable := s; closed := false |} /\ hd_error r1 = hd_error res.
Proof. exact findfirst_refines. Qed.
Print Assumptions C09_findfirst_closed.

Theorem C09_exists_closed :
  forall (m : bool) (db : sdb) (s : kv) (q : nquery) (sc : scoll) (res : list obj),
         wf_db db ->
         R db s ->
         assoc (nq_coll q) db = Some sc ->
         coll_dom m sc ->
         crit_dom m (nq_crit q) ->
         o_res (with_tx (find_all_tx q) None {| durable := s; closed := false |}) = Ok res ->
         nq_limit q <> Z0 ->
         exists r1 : list obj,
           o_res
             (with_tx (find_all_tx (with_limit q (Zpos xH))) None {| durable := s; closed := false |}) =
           Ok r1 /\
           o_db
             (with_tx (find_all_tx (with_limit q (Zpos xH))) None {| durable := s; closed := false |}) =
           {| durable := s; closed := false |} /\ nonempty r1 = nonempty res.
Proof. exact exists_refines. Qed.
Print Assumptions C09_exists_closed.


(* ---- operation level: one result sequence explains FindAll, Count, ForEach, Exists and FindFirst after any history of the domain ---- *)
From Clover Require Import HistDom HistoryProofs OpQueryProofs.
Theorem C09_history_reads_agree : forall ops q mode0 nq,
  hist_dom empty_db (ops ++ [OFindAll q mode0]) ->
  let h := snd (run_ops empty_db ops) in
  closed h = false ->
  normalize_query (mk_query q) = Some nq ->
  exists db, wf_db db /\ R db (durable h) /\
    forall sc, assoc (nq_coll nq) db = Some sc ->
      exists res,
        find_ok' (map snd (sc_docs sc)) nq res /\
        (forall mode, fst (step h (OFindAll q mode)) = T_ok (T_of_docs (nq_sort nq) mode res)) /\
        fst (step h (OCount q)) = T_ok (TZ (Z.of_nat (length res))) /\
        (forall n mode, fst (step h (OForEach q n mode)) =
           T_ok (T_of_docs (nq_sort nq) mode (if 0 <? n then firstn (Z.to_nat n) res else res))) /\
        (nq_limit nq <> 0 ->
           fst (step h (OExists q)) = T_ok (Tbool (match res with [] => false | _ => true end)) /\
           fst (step h (OFindFirst q)) = T_ok (T_of_opt_doc (hd_error res))).
Proof. exact history_reads_agree. Qed.
Print Assumptions C09_history_reads_agree.

Theorem C09_history_find_by_id : forall ops c id,
  hist_dom empty_db (ops ++ [OFindById c id]) ->
  let h := snd (run_ops empty_db ops) in
  closed h = false ->
  exists db, wf_db db /\ R db (durable h) /\
    fst (step h (OFindById c id)) =
      match assoc c db with
      | None => T_err ECollNotExist
      | Some sc => T_ok (T_of_opt_doc (assoc id (sc_docs sc)))
      end /\
    snd (step h (OFindById c id)) = h.
Proof. exact history_find_by_id. Qed.
Print Assumptions C09_history_find_by_id.

(* the hypothesis [nq_limit nq <> 0] above cannot be dropped: Exists and FindFirst overwrite the limit with 1 *)
Theorem C09_limit0_needed :
  let h := snd (run_ops empty_db oq_hist) in
  fst (step h (OFindAll (RProofs.ex_c, [QLimit 0]) 2)) = T_ok (TL []) /\
  fst (step h (OExists (RProofs.ex_c, [QLimit 0]))) = T_ok (Tbool true) /\
  fst (step h (OFindFirst (RProofs.ex_c, [QLimit 0]))) = T_ok (T_of_opt_doc (Some RProofs.ex_d1)).
Proof. exact oq_limit0. Qed.
Print Assumptions C09_limit0_needed.

(* ---- from the abstract specification alone ---- *)
From Clover Require Import CompositeSpec AbstractSpecProofs.
Theorem C09_count_is_length_of_find_all_after_any_history : forall ops q mode nq,
  hist_dom_all empty_db (ops ++ [OFindAll q mode; OCount q]) ->
  normalize_query (mk_query q) = Some nq -> nq_skip nq = 0 -> nq_limit nq < 0 ->
  exists ts0 t1 t2,
    fst (run_ops empty_db (ops ++ [OFindAll q mode; OCount q])) = ts0 ++ [t1; t2] /\
    ((exists e, t1 = T_err e /\ t2 = T_err e) \/
     (exists res1 res2,
        t1 = T_ok (T_of_docs (nq_sort nq) mode res1) /\ t2 = T_ok (TZ (Z.of_nat (length res2))) /\
        Permutation res1 res2)).
Proof. exact history_count_is_length_of_find_all. Qed.
Print Assumptions C09_count_is_length_of_find_all_after_any_history.

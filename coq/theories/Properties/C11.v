(* C11 — stored documents read back identical. *)
From Clover Require Import Wire WireProofs.

Theorem C11_roundtrip : forall d : obj, doc_decode (doc_encode d) = d.
Proof. exact decode_encode. Qed.
Print Assumptions C11_roundtrip.

Theorem C11_value_roundtrip : forall v, remove_localized (replace_times v) = v.
Proof. exact remove_replace. Qed.
Print Assumptions C11_value_roundtrip.

Theorem C11_types_preserved : forall v, type_id (remove_localized (replace_times v)) = type_id v.
Proof. exact roundtrip_kind. Qed.
Print Assumptions C11_types_preserved.

Theorem C11_numeric_kinds_preserved :
  (forall z, remove_localized (replace_times (VInt z)) = VInt z) /\
  (forall z, remove_localized (replace_times (VUint z)) = VUint z) /\
  (forall b, remove_localized (replace_times (VFloat b)) = VFloat b).
Proof. exact roundtrip_numeric_kind. Qed.
Print Assumptions C11_numeric_kinds_preserved.

Theorem C11_encoder_never_emits_bare_time : forall v, no_bare_time (replace_times v) = true.
Proof. exact encode_no_bare_time. Qed.
Print Assumptions C11_encoder_never_emits_bare_time.

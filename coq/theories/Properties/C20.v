(* C20 — no public operation panics on well-typed input. The model is a total function; every operation, in
   every state (any database, closed handle, any fault position), returns a well-formed result: success or
   one of the declared error classes. Safety-only by the nature of the property; the correspondence runs wrap
   every real call in recover() and a deadline. *)
From Coq Require Import ZArith List.
From Clover Require Import QueryDom QueryProofs BulkProofs OpProofs.

Theorem C20_result_shape :
  forall (o : op) (st : rstate),
         exists (c : Z) (p : T),
           fst (exec_op o st) = TL (TZ c :: p :: nil) /\
           Z.le Z0 c /\ Z.le c (Zpos (xO (xO (xO xH)))).
Proof. exact exec_op_result_shape. Qed.
Print Assumptions C20_result_shape.

(* after Close every operation returns an error and changes nothing *)
Theorem C20_after_close :
  forall (o : op) (st : rstate),
         closed (r_db st) = true -> handle_op o = false -> exec_op o st = (T_err EOther, st).
Proof. exact exec_op_closed_strong. Qed.
Print Assumptions C20_after_close.

Theorem C20_every_history_total :
  forall (ops : list op) (db : dbst), length (fst (run_ops db ops)) = length ops.
Proof. exact run_ops_total. Qed.
Print Assumptions C20_every_history_total.


(* ---- adequacy of the abstract specification S (Proofs/SpecAdequacyProofs.v): consequences of a_step alone, no store, model or refinement lemma ---- *)
From Coq Require Import Permutation Sorted.
From Clover Require Import HistoryProofs CompositeSpec CompositeProofs IndexIndepProofs AbstractSpecProofs SpecAdequacyProofs.
Theorem C20_spec_total_unsorted : forall o a, wf_db (a_db a) -> unsorted_op o -> exists t a', a_step o a t a'.
Proof. exact spec_total_unsorted. Qed.
Print Assumptions C20_spec_total_unsorted.

Theorem C20_spec_total : forall o a, wf_db (a_db a) -> total_dom (a_db a) o -> exists t a', a_step o a t a'.
Proof. exact spec_total. Qed.
Print Assumptions C20_spec_total.

Theorem C20_spec_answer_shape : forall o a t a', a_step o a t a' -> (exists p, t = T_ok p) \/ (exists e, t = T_err e).
Proof. exact spec_answer_shape. Qed.
Print Assumptions C20_spec_answer_shape.

Theorem C20_spec_closed : forall o a t a', a_closed a = true -> handle_op o = false ->
  a_step o a t a' -> t = T_err EOther /\ a' = a.
Proof. exact spec_closed. Qed.
Print Assumptions C20_spec_closed.

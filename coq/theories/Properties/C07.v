(* C07 — concurrent use of one handle is atomic per operation: a generic theorem about the transaction
   discipline every clover operation runs under (one store transaction per operation; write transactions
   mutually exclusive from begin to commit/rollback; read transactions on the snapshot taken at begin).
   For ANY sequential specification [step], every concurrent execution is linearizable, with linearisation
   points "begin" for reads and "commit" for writes. Data races and the Go memory model are outside any
   executable Gallina model: that clause is covered by the harness (race detector) only. *)
From Coq Require Import List.
From Clover Require Import Concurrency ConcurrencyProofs.

Section C07.
  Variables (State Op Res : Type) (step : State -> Op -> Res * State) (is_write : Op -> bool).
  Hypothesis read_pure : forall s o, is_write o = false -> snd (step s o) = s.

  (* the durable state is the sequential replay of the linearisation; every returned call is linearised
     between its invoke and its return with the very result it returned; real time is respected *)
  Theorem C07_linearizable : forall s0 tr s, exec step is_write (init s0) tr s ->
    replay_ok step s0 (lin_of tr) (durable s) /\
    (forall i c o r, returned_at tr i c o r ->
       exists k j, lin_point_of tr c o r k j /\ j < i /\ own_quiet tr c o k i (Some j) /\
                   nth_error (lin_of tr) (lin_index tr j) = Some (c, o, r)) /\
    (forall j c o r, linearised_at tr j c o r -> exists k, lin_point_of tr c o r k j) /\
    (forall i ca oa ra j cb ob rb lb, returned_at tr i ca oa ra -> i < j -> lin_point_of tr cb ob rb j lb ->
       exists ka la, lin_point_of tr ca oa ra ka la /\ la < i /\ lin_index tr la < lin_index tr lb).
  Proof. exact (linearizable State Op Res step is_write read_pure). Qed.

  (* readers never observe a partially applied write: a read's result is computed on the replay of whole
     committed operations *)
  Theorem C07_reads_see_whole_operations : forall s0 tr s i c o r, exec step is_write (init s0) tr s ->
    nth_error tr i = Some (EBeginRead c o r) ->
    exists s1, replay_ok step s0 (lin_of (firstn i tr)) s1 /\ r = fst (step s1 o).
  Proof. exact (reads_see_committed_prefix State Op Res step is_write read_pure). Qed.
End C07.
Print Assumptions C07_linearizable.
Print Assumptions C07_reads_see_whole_operations.

(* an operation rejected by the store (write conflict / rollback) has no effect *)
Theorem C07_conflict_no_effect : forall State Op Res (step : State -> Op -> Res * State) is_write
  (s s' : sys State Op Res) ev c o, trans step is_write s ev s' -> ev = EAbort c o -> durable s' = durable s.
Proof. exact abort_no_effect. Qed.
Print Assumptions C07_conflict_no_effect.

Theorem C07_single_writer : forall State Op Res (step : State -> Op -> Res * State) is_write s0 tr (s : sys State Op Res),
  exec step is_write (init s0) tr s ->
  forall c1 c2 sn1 o1 sn2 o2, cl s c1 = CWriting sn1 o1 -> cl s c2 = CWriting sn2 o2 -> c1 = c2.
Proof. exact one_writer. Qed.
Print Assumptions C07_single_writer.

(* ---- end-to-end theorems against the abstract database (refinement R, SpecDB.v) ---- *)
From Coq Require Import ZArith List.
From Clover Require Import QueryDom QueryProofs BulkProofs OpProofs.

(* instantiation with clover own sequential semantics (Ops.step): read operations never change the database, so the premise of the generic theorem holds *)
Theorem C07_clover_reads_are_pure :
  forall (db : dbst) (o : op), is_write_op o = false -> snd (step db o) = db.
Proof. exact clover_read_pure. Qed.
Print Assumptions C07_clover_reads_are_pure.

(* hence every concurrent execution of single-transaction clover operations under the discipline is
   linearizable w.r.t. the sequential model: the durable store is the sequential replay of the
   linearisation, and every returned call is linearised, with its own result, before it returns *)
Theorem C07_clover_linearizable : forall db0 tr s, exec step_tx is_write_tx (init db0) tr s ->
  replay_ok step_tx db0 (lin_of tr) (Concurrency.durable s) /\
  (forall i c o r, returned_at tr i c o r ->
     exists k j, lin_point_of tr c o r k j /\ (j < i)%nat /\
                 nth_error (lin_of tr) (lin_index tr j) = Some (c, o, r)).
Proof.
  intros db0 tr s H. destruct (clover_linearizable_single_tx db0 tr s H) as [H1 [H2 _]].
  split; [exact H1|]. intros i c o r Hr. destruct (H2 i c o r Hr) as (k & j & Hl & Hj & _ & Hn).
  exists k, j. split; [exact Hl | split; [exact Hj | exact Hn]].
Qed.
Print Assumptions C07_clover_linearizable.

(* ---- composed with the abstract specification S (Proofs/AbstractSpecProofs.v): the (operation, result) pairs of a concurrent execution, in
   linearisation order, form a run of S from the abstract state the initial store refines; the final durable store refines the final abstract
   state; every returned call is linearised with its own result before it returns (Proofs/ConcSpecProofs.v) ---- *)
From Clover Require Import HistoryProofs CompositeSpec CompositeProofs AbstractSpecProofs ConcSpecProofs.
Theorem C07_linearizable_wrt_abstract_spec :
  forall (db0 : dbst) (a0 : sdb) (tr : list (event txop T)) (s : sys dbst txop T),
  wf_db a0 -> Rdb' a0 db0 ->
  exec step_tx is_write_tx (init db0) tr s ->
  replay_dom_tx db0 (lin_of tr) ->
  exists a,
    a_run (mkA a0 (closed db0)) (map the_op (lin_ops (lin_of tr))) (lin_results (lin_of tr)) a /\
    wf_db (a_db a) /\ R (a_db a) (KV.durable (Concurrency.durable s)) /\ a_closed a = closed db0 /\
    (forall i c o r, returned_at tr i c o r ->
       exists k j, lin_point_of tr c o r k j /\ (j < i)%nat /\
                   nth_error (lin_of tr) (lin_index tr j) = Some (c, o, r)).
Proof. exact concurrent_linearizable_wrt_spec. Qed.
Print Assumptions C07_linearizable_wrt_abstract_spec.

Theorem C07_linearizable_wrt_abstract_spec_from_empty :
  forall (tr : list (event txop T)) (s : sys dbst txop T),
  exec step_tx is_write_tx (init empty_db) tr s ->
  replay_dom_tx empty_db (lin_of tr) ->
  exists a,
    a_run a_init (map the_op (lin_ops (lin_of tr))) (lin_results (lin_of tr)) a /\
    wf_db (a_db a) /\ R (a_db a) (KV.durable (Concurrency.durable s)) /\ a_closed a = false /\
    (forall i c o r, returned_at tr i c o r ->
       exists k j, lin_point_of tr c o r k j /\ (j < i)%nat /\
                   nth_error (lin_of tr) (lin_index tr j) = Some (c, o, r)).
Proof. exact concurrent_linearizable_wrt_spec_empty. Qed.
Print Assumptions C07_linearizable_wrt_abstract_spec_from_empty.

Theorem C07_returned_call_allowed_by_spec :
  forall (db0 : dbst) (a0 : sdb) (tr : list (event txop T)) (s : sys dbst txop T),
  wf_db a0 -> Rdb' a0 db0 ->
  exec step_tx is_write_tx (init db0) tr s ->
  replay_dom_tx db0 (lin_of tr) ->
  forall i c o r, returned_at tr i c o r ->
    exists k j am am',
      lin_point_of tr c o r k j /\ (j < i)%nat /\
      a_run (mkA a0 (closed db0))
            (firstn (lin_index tr j) (map the_op (lin_ops (lin_of tr))))
            (firstn (lin_index tr j) (lin_results (lin_of tr))) am /\
      a_step (the_op o) am r am'.
Proof. exact returned_call_allowed_by_spec. Qed.
Print Assumptions C07_returned_call_allowed_by_spec.

Theorem C07_example_execution : exists s, exec step_tx is_write_tx (init empty_db) cx_trace s.
Proof. exact cx_is_execution. Qed.
Print Assumptions C07_example_execution.

(* the instantiated example (two clients, an Insert overlapping a FindAll) is cx_linearizable_wrt_spec in Proofs/ConcSpecProofs.v *)

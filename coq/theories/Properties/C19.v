(* C19 — export then import reproduces a collection, up to JSON typing. [json_value fmt v]: what a stored
   value becomes after json.Marshal and json.Unmarshal into interface{} (numbers -> float64, times -> their
   RFC 3339 text [fmt], given as a parameter). The JSON text layer itself is a contract (encoding/json). *)
From Coq Require Import ZArith List.
From Clover Require Import QueryDom QueryProofs BulkProofs OpProofs.
From Clover Require Import TxSpec TxProofs WriteProofs.

(* re-exporting imported data changes nothing more *)
Theorem C19_typing_idempotent :
  forall (fmt : Z -> Z -> Z -> bytes) (v : value),
         json_value fmt (json_value fmt v) = json_value fmt v.
Proof. exact json_value_idempotent. Qed.
Print Assumptions C19_typing_idempotent.

(* the imported values hold no int64 / uint64 / time any more *)
Theorem C19_typing_shape :
  forall (fmt : Z -> Z -> Z -> bytes) (v : value),
         json_typed (json_value fmt v) = true.
Proof. exact json_value_shape. Qed.
Print Assumptions C19_typing_shape.

(* the same field sets *)
Theorem C19_field_sets_preserved :
  forall (fmt : Z -> Z -> Z -> bytes) (o : list (bytes * value)),
         map fst match json_value fmt (VObj o) with
                      | VObj o' => o'
                      | _ => nil
                      end = map fst o.
Proof. exact json_value_keys. Qed.
Print Assumptions C19_field_sets_preserved.

(* numbers within 2^53 stay numerically equal *)
Theorem C19_numbers_numerically_equal :
  forall (fmt : Z -> Z -> Z -> bytes) (z : Z),
         Z.le (Z.opp Float64.two53) z /\ Z.le z Float64.two53 ->
         compare (json_value fmt (VInt z)) (VInt z) = Eq.
Proof. exact json_number_compare_eq. Qed.
Print Assumptions C19_numbers_numerically_equal.

Theorem C19_numbers_exact :
  forall (fmt : Z -> Z -> Z -> bytes) (z : Z),
         Z.le (Z.opp Float64.two53) z /\ Z.le z Float64.two53 ->
         json_value fmt (VInt z) = VFloat (Float64.of_Z z) /\
         Float64.fden (Float64.of_Z z) = Z.mul z Float64.scale1074.
Proof. exact json_number_equal. Qed.
Print Assumptions C19_numbers_exact.

(* export is pure: it is made of read transactions only *)
Theorem C19_export_pure : (forall c, no_commit (has_collection c)) /\ (forall q, no_commit (find_all_tx q)).
Proof. destruct read_bodies_no_commit as [H1 [_ [H3 _]]]. split; assumption. Qed.
Print Assumptions C19_export_pure.

(* importing under an existing name fails in its first transaction and changes nothing *)
Theorem C19_import_existing_name : forall db s c, wf_db db -> R db s -> no_semi c = true ->
  let out := with_tx (create_collection_tx c) None (mkDb s false) in
  match s_create c db with
  | Ok db' => o_res out = Ok tt /\ R db' (durable (o_db out)) /\ closed (o_db out) = false
  | Err e => o_res out = Err e /\ o_db out = mkDb s false
  end.
Proof. exact create_refines. Qed.
Print Assumptions C19_import_existing_name.

(* known finding K-composite: an ill-formed file leaves the freshly created empty collection behind *)
Theorem C19_import_ill_formed_refuted : exists c file st,
  T_is_err (fst (exec_op (OImport c file) st)) = true /\ r_db (snd (exec_op (OImport c file) st)) <> r_db st.
Proof. exact import_not_atomic_refuted. Qed.
Print Assumptions C19_import_ill_formed_refuted.

(* ---- end to end, at operation level (Spec/CompositeSpec.v, Proofs/CompositeProofs.v): Export answers the collection's documents and changes nothing; Import is characterised exactly by s_import (also what a failed import leaves behind: K-composite); importing the exported file under a new name reproduces ids and field sets with JSON-typed values; a document with _expiresAt makes that import fail (K-expires) ---- *)
From Clover Require Import CompositeSpec CompositeProofs.
Theorem C19_export_refines : forall db h c, wf_db db -> R db (durable h) -> closed h = false ->
  snd (step h (OExport c)) = h /\
  match assoc c db with
  | None => fst (step h (OExport c)) = T_err ECollNotExist
  | Some sc => fst (step h (OExport c)) = T_ok (T_of_docs [] 0 (docs_by_id sc))
  end.
Proof. exact export_refines_exact. Qed.
Print Assumptions C19_export_refines.

Theorem C19_import_refines : forall db h c file,
  wf_db db -> R db (durable h) -> closed h = false -> op_dom_all db (OImport c file) ->
  let '(r, db') := s_import c file db in
  fst (step h (OImport c file)) = T_unit r /\ wf_db db' /\ R db' (durable (snd (step h (OImport c file)))).
Proof. exact import_refines. Qed.
Print Assumptions C19_import_refines.

Theorem C19_export_then_import : forall (fmt : Z -> Z -> Z -> bytes), forall db h c c' sc,
    wf_db db -> R db (durable h) -> closed h = false -> no_semi c = true -> no_semi c' = true ->
    assoc c db = Some sc -> assoc c' db = None ->
    (forall id d, In (id, d) (sc_docs sc) -> doc_has expires_field d = false) ->
    fst (step h (OExport c)) = T_ok (T_of_docs [] 0 (docs_by_id sc)) /\ snd (step h (OExport c)) = h /\
    let file := FElems (map (fun d => Some (json_doc fmt d)) (docs_by_id sc)) in
    exists db', fst (step h (OImport c' file)) = T_unit (Ok tt) /\ wf_db db' /\
      R db' (durable (snd (step h (OImport c' file)))) /\
      (forall c0, c0 <> c' -> assoc c0 db' = assoc c0 db) /\
      exists sc', assoc c' db' = Some sc' /\ sc_idx sc' = [] /\
        Permutation (map fst (sc_docs sc')) (map fst (sc_docs sc)) /\
        forall id d, assoc id (sc_docs sc) = Some d -> assoc id (sc_docs sc') = Some (json_doc fmt d).
Proof. exact export_then_import. Qed.
Print Assumptions C19_export_then_import.

Theorem C19_roundtrip_any_file_order : forall (fmt : Z -> Z -> Z -> bytes), forall db h c c' sc l,
    wf_db db -> R db (durable h) -> closed h = false -> no_semi c = true -> no_semi c' = true ->
    assoc c db = Some sc -> assoc c' db = None ->
    (forall id d, In (id, d) (sc_docs sc) -> doc_has expires_field d = false) ->
    Permutation l (sc_docs sc) ->
    let file := FElems (map (fun idd => Some (json_doc fmt (snd idd))) l) in
    exists db', fst (step h (OImport c' file)) = T_unit (Ok tt) /\ wf_db db' /\
      R db' (durable (snd (step h (OImport c' file)))) /\
      (forall c0, c0 <> c' -> assoc c0 db' = assoc c0 db) /\
      exists sc', assoc c' db' = Some sc' /\ sc_idx sc' = [] /\
        map fst (sc_docs sc') = map fst l /\
        forall id d, assoc id (sc_docs sc) = Some d -> assoc id (sc_docs sc') = Some (json_doc fmt d).
Proof. exact export_import_roundtrip_any_order. Qed.
Print Assumptions C19_roundtrip_any_file_order.

Theorem C19_expires_fails : forall (fmt : Z -> Z -> Z -> bytes), forall db h c c' sc id d s n o,
    wf_db db -> R db (durable h) -> closed h = false -> no_semi c = true -> no_semi c' = true ->
    assoc c db = Some sc -> assoc c' db = None ->
    In (id, d) (sc_docs sc) -> obj_get expires_field d = Some (VTime s n o) ->
    let file := FElems (map (fun idd => Some (json_doc fmt (snd idd))) (sc_docs sc)) in
    exists e, fst (step h (OImport c' file)) = T_err e /\
      wf_db (db ++ [(c', mkSC [] [])]) /\
      R (db ++ [(c', mkSC [] [])]) (durable (snd (step h (OImport c' file)))).
Proof. exact export_import_expires_fails. Qed.
Print Assumptions C19_expires_fails.

Theorem C19_expires_refuted :
  ~ (forall (fmt : Z -> Z -> Z -> bytes) db h c c' sc,
       wf_db db -> R db (durable h) -> closed h = false -> no_semi c = true -> no_semi c' = true ->
       assoc c db = Some sc -> assoc c' db = None ->
       let file := FElems (map (fun idd => Some (json_doc fmt (snd idd))) (sc_docs sc)) in
       exists db', fst (step h (OImport c' file)) = T_unit (Ok tt) /\ wf_db db' /\
         R db' (durable (snd (step h (OImport c' file)))) /\
         (forall c0, c0 <> c' -> assoc c0 db' = assoc c0 db) /\
         exists sc', assoc c' db' = Some sc' /\ sc_idx sc' = [] /\
           map fst (sc_docs sc') = map fst (sc_docs sc) /\
           forall id d, assoc id (sc_docs sc) = Some d -> assoc id (sc_docs sc') = Some (json_doc fmt d)).
Proof. exact export_import_expires_refuted. Qed.
Print Assumptions C19_expires_refuted.

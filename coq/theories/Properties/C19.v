(* C19 — export then import reproduces a collection, up to JSON typing. [json_value fmt v]: what a stored
   value becomes after json.Marshal and json.Unmarshal into interface{} (numbers -> float64, times -> their
   RFC 3339 text [fmt], given as a parameter). The JSON text layer itself is a contract (encoding/json). *)
From Coq Require Import ZArith List.
From Clover Require Import QueryDom QueryProofs BulkProofs OpProofs.
From Clover Require Import TxSpec TxProofs WriteProofs.

(* re-exporting imported data changes nothing more *)
Theorem C19_typing_idempotent :
  forall (fmt : Z -> Z -> Z -> bytes) (v : value),
         json_value fmt (json_value fmt v) = json_value fmt v.
Proof. exact json_value_idempotent. Qed.
Print Assumptions C19_typing_idempotent.

(* the imported values hold no int64 / uint64 / time any more *)
Theorem C19_typing_shape :
  forall (fmt : Z -> Z -> Z -> bytes) (v : value),
         json_typed (json_value fmt v) = true.
Proof. exact json_value_shape. Qed.
Print Assumptions C19_typing_shape.

(* the same field sets *)
Theorem C19_field_sets_preserved :
  forall (fmt : Z -> Z -> Z -> bytes) (o : list (bytes * value)),
         map fst match json_value fmt (VObj o) with
                      | VObj o' => o'
                      | _ => nil
                      end = map fst o.
Proof. exact json_value_keys. Qed.
Print Assumptions C19_field_sets_preserved.

(* numbers within 2^53 stay numerically equal *)
Theorem C19_numbers_numerically_equal :
  forall (fmt : Z -> Z -> Z -> bytes) (z : Z),
         Z.le (Z.opp Float64.two53) z /\ Z.le z Float64.two53 ->
         compare (json_value fmt (VInt z)) (VInt z) = Eq.
Proof. exact json_number_compare_eq. Qed.
Print Assumptions C19_numbers_numerically_equal.

Theorem C19_numbers_exact :
  forall (fmt : Z -> Z -> Z -> bytes) (z : Z),
         Z.le (Z.opp Float64.two53) z /\ Z.le z Float64.two53 ->
         json_value fmt (VInt z) = VFloat (Float64.of_Z z) /\
         Float64.fden (Float64.of_Z z) = Z.mul z Float64.scale1074.
Proof. exact json_number_equal. Qed.
Print Assumptions C19_numbers_exact.

(* export is pure: it is made of read transactions only *)
Theorem C19_export_pure : (forall c, no_commit (has_collection c)) /\ (forall q, no_commit (find_all_tx q)).
Proof. destruct read_bodies_no_commit as [H1 [_ [H3 _]]]. split; assumption. Qed.
Print Assumptions C19_export_pure.

(* importing under an existing name fails in its first transaction and changes nothing *)
Theorem C19_import_existing_name : forall db s c, wf_db db -> R db s -> no_semi c = true ->
  let out := with_tx (create_collection_tx c) None (mkDb s false) in
  match s_create c db with
  | Ok db' => o_res out = Ok tt /\ R db' (durable (o_db out)) /\ closed (o_db out) = false
  | Err e => o_res out = Err e /\ o_db out = mkDb s false
  end.
Proof. exact create_refines. Qed.
Print Assumptions C19_import_existing_name.

(* known finding K-composite: an ill-formed file leaves the freshly created empty collection behind *)
Theorem C19_import_ill_formed_refuted : exists c file st,
  T_is_err (fst (exec_op (OImport c file) st)) = true /\ r_db (snd (exec_op (OImport c file) st)) <> r_db st.
Proof. exact import_not_atomic_refuted. Qed.
Print Assumptions C19_import_ill_formed_refuted.

(* C06 — documents, index entries and counts stay consistent. The invariant is the refinement relation
   [R db s] (SpecDB.v): the store holds exactly one metadata record per collection whose counter is the
   number of its documents, one record per document, one index entry per (document, indexed field) under
   the document's current value — and nothing else. Point operations preserve it (here); bulk and catalog
   operations are added from BulkProofs. *)
From Clover Require Import PureRun RProofs WriteProofs.

Theorem C06_empty_store : R [] [] /\ wf_db [].
Proof. split; [exact R_empty | exact wf_empty]. Qed.
Print Assumptions C06_empty_store.

Theorem C06_point_operations_preserve_the_invariant :
  (forall db s c, wf_db db -> R db s -> no_semi c = true ->
     let out := with_tx (create_collection_tx c) None (mkDb s false) in
     match s_create c db with
     | Ok db' => o_res out = Ok tt /\ R db' (durable (o_db out)) /\ closed (o_db out) = false /\ wf_db db'
     | Err e => o_res out = Err e /\ o_db out = mkDb s false end) /\
  (forall db s c docs, wf_db db -> R db s -> no_semi c = true -> docs_have_ids docs ->
     let out := with_tx (insert_tx c docs) None (mkDb s false) in
     match s_insert c docs db with
     | Ok db' => o_res out = Ok tt /\ R db' (durable (o_db out)) /\ wf_db db'
     | Err e => o_res out = Err e /\ o_db out = mkDb s false end) /\
  (forall db s c id, wf_db db -> R db s -> no_semi c = true ->
     let out := with_tx (delete_by_id_tx c id) None (mkDb s false) in
     match s_delete_by_id c id db with
     | Ok db' => o_res out = Ok tt /\ R db' (durable (o_db out)) /\ wf_db db'
     | Err e => o_res out = Err e /\ o_db out = mkDb s false end) /\
  (forall db s c id u, wf_db db -> R db s -> no_semi c = true ->
     let out := with_tx (update_by_id_tx c id u) None (mkDb s false) in
     match s_update_by_id c id u db with
     | Ok db' => o_res out = Ok tt /\ R db' (durable (o_db out)) /\ wf_db db'
     | Err e => o_res out = Err e /\ o_db out = mkDb s false end).
Proof. exact point_ops_preserve_refinement. Qed.
Print Assumptions C06_point_operations_preserve_the_invariant.

(* the counter served by Count is the number of stored documents *)
Theorem C06_count : forall db s c, wf_db db -> R db s ->
  o_res (with_tx (collection_size_tx c) None (mkDb s false)) =
    match assoc c db with Some sc => Ok (Z.of_nat (length (sc_docs sc))) | None => Err ECollNotExist end /\
  o_db (with_tx (collection_size_tx c) None (mkDb s false)) = mkDb s false.
Proof. exact collection_size_refines. Qed.
Print Assumptions C06_count.

(* the store is a function of the abstract state: nothing else can be in it *)
Theorem C06_store_determined : forall db s1 s2, wf_db db -> R db s1 -> R db s2 -> s1 = s2.
Proof. exact R_unique. Qed.
Print Assumptions C06_store_determined.
Theorem C06_only_three_kinds_of_keys : forall db k v, wf_db db -> denotes db k v ->
  (exists c, k = coll_key c) \/
  (exists c id, k = doc_key c id /\ no_semi c = true /\ id_ok id) \/
  (exists c f x id, k = idx_key c f x id /\ no_semi c = true /\ no_semi f = true /\ id_ok id).
Proof. exact den_cases. Qed.
Print Assumptions C06_only_three_kinds_of_keys.

(* ---- end-to-end theorems against the abstract database (refinement R, SpecDB.v) ---- *)
From Coq Require Import ZArith List.
From Clover Require Import QueryDom QueryProofs BulkProofs OpProofs.

Theorem C06_create_index_exact :
  forall (db : sdb) (s : kv) (c f : bytes),
         wf_db db ->
         R db s ->
         no_semi c = true ->
         no_semi f = true ->
         let out := with_tx (create_index_tx c f) None {| durable := s; closed := false |} in
         match s_create_index c f db with
         | Ok db' => o_res out = Ok tt /\ R db' (durable (o_db out)) /\ wf_db db'
         | Err e => o_res out = Err e /\ o_db out = {| durable := s; closed := false |}
         end.
Proof. exact create_index_refines. Qed.
Print Assumptions C06_create_index_exact.

Theorem C06_drop_index_exact :
  forall (db : sdb) (s : kv) (c f : bytes),
         wf_db db ->
         R db s ->
         no_semi c = true ->
         no_semi f = true ->
         let out := with_tx (drop_index_tx c f) None {| durable := s; closed := false |} in
         match s_drop_index c f db with
         | Ok db' => o_res out = Ok tt /\ R db' (durable (o_db out)) /\ wf_db db'
         | Err e => o_res out = Err e /\ o_db out = {| durable := s; closed := false |}
         end.
Proof. exact drop_index_refines. Qed.
Print Assumptions C06_drop_index_exact.

Theorem C06_bulk_rewrite_preserves_invariant :
  forall (db : sdb) (s : kv) (q : nquery) (u : updater) (sc : scoll) (sel : list obj),
         wf_db db ->
         R db s ->
         assoc (nq_coll q) db = Some sc ->
         o_res (with_tx (find_all_tx q) None {| durable := s; closed := false |}) = Ok sel ->
         (forall d : obj, In d sel -> assoc (object_id d) (sc_docs sc) = Some d) ->
         NoDup (map object_id sel) ->
         let out := with_tx (update_tx q u) None {| durable := s; closed := false |} in
         match s_apply_sel u sel (sc_docs sc) with
         | Ok ds =>
             o_res out = Ok tt /\
             R (assoc_set (nq_coll q) {| sc_docs := ds; sc_idx := sc_idx sc |} db)
               (durable (o_db out)) /\
             wf_db (assoc_set (nq_coll q) {| sc_docs := ds; sc_idx := sc_idx sc |} db)
         | Err e => o_res out = Err e /\ o_db out = {| durable := s; closed := false |}
         end.
Proof. exact update_refines. Qed.
Print Assumptions C06_bulk_rewrite_preserves_invariant.

Theorem C06_drop_collection_preserves_invariant :
  forall (db : sdb) (s : kv) (c : bytes),
         wf_db db ->
         R db s ->
         no_semi c = true ->
         let out := with_tx (drop_collection_tx c) None {| durable := s; closed := false |} in
         match s_drop c db with
         | Ok db' => o_res out = Ok tt /\ R db' (durable (o_db out)) /\ wf_db db'
         | Err e => o_res out = Err e /\ o_db out = {| durable := s; closed := false |}
         end.
Proof. exact drop_collection_refines. Qed.
Print Assumptions C06_drop_collection_preserves_invariant.

(* dropping an index leaves no key under its prefix *)
Theorem C06_drop_index_no_residue :
  forall (db : sdb) (s : kv) (c f : bytes) (db' : sdb),
         wf_db db ->
         R db s ->
         no_semi c = true ->
         no_semi f = true ->
         s_drop_index c f db = Ok db' ->
         let s' := durable (o_db (with_tx (drop_index_tx c f) None {| durable := s; closed := false |})) in
         R db' s' /\
         (forall e : bytes * sval, In e s' -> is_prefix (idx_prefix c f) (fst e) = false).
Proof. exact drop_index_no_residue. Qed.
Print Assumptions C06_drop_index_no_residue.

(* re-creating it yields a fresh, exact index *)
Theorem C06_recreate_index_fresh :
  forall (db : sdb) (s : kv) (c f : bytes) (db1 : sdb) (sc : scoll),
         wf_db db ->
         R db s ->
         no_semi c = true ->
         no_semi f = true ->
         s_drop_index c f db = Ok db1 ->
         assoc c db = Some sc ->
         let o1 := with_tx (drop_index_tx c f) None {| durable := s; closed := false |} in
         let o2 := with_tx (create_index_tx c f) None (o_db o1) in
         exists (db2 : sdb) (sc2 : scoll),
           s_create_index c f db1 = Ok db2 /\
           o_res o1 = Ok tt /\
           o_res o2 = Ok tt /\
           R db2 (durable (o_db o2)) /\
           wf_db db2 /\
           assoc c db2 = Some sc2 /\
           sc_docs sc2 = sc_docs sc /\
           (forall g : bytes, In g (sc_idx sc2) <-> In g (sc_idx sc)) /\
           (forall (id : bytes) (d : obj),
            assoc id (sc_docs sc) = Some d ->
            In (idx_key c f (doc_get f d) id, SEmpty) (durable (o_db o2))) /\
           (forall e : bytes * sval,
            In e (durable (o_db o2)) ->
            is_prefix (idx_prefix c f) (fst e) = true ->
            exists (id : bytes) (d : obj),
              assoc id (sc_docs sc) = Some d /\ e = (idx_key c f (doc_get f d) id, SEmpty)).
Proof. exact recreate_index_fresh. Qed.
Print Assumptions C06_recreate_index_fresh.

(* dropping a collection leaves no key of it *)
Theorem C06_drop_collection_no_residue :
  forall (db : sdb) (s : kv) (c : bytes) (db' : sdb),
         wf_db db ->
         R db s ->
         no_semi c = true ->
         s_drop c db = Ok db' ->
         let s' := durable (o_db (with_tx (drop_collection_tx c) None {| durable := s; closed := false |})) in
         R db' s' /\ (forall e : bytes * sval, In e s' -> ~ key_in_coll c (fst e)).
Proof. exact drop_collection_no_residue. Qed.
Print Assumptions C06_drop_collection_no_residue.


(* ---- over whole histories (HistDom.v: every operation in the domain of the state it is applied to) ---- *)
From Clover Require Import HistDom HistoryProofs.

(* THE invariant: after ANY history of single-transaction operations in the domain, from the empty database, the store is exactly what a well-formed abstract database denotes *)
Theorem C06_invariant :
  forall ops : list op,
         hist_dom empty_db ops ->
         exists db : sdb, wf_db db /\ R db (durable (snd (run_ops empty_db ops))).
Proof. exact history_invariant. Qed.
Print Assumptions C06_invariant.

(* spelled out: the stored counter is the number of documents, ids are unique and equal the _id, every index holds exactly one entry per document under its current value, the catalog is exact *)
Theorem C06_history_consistent :
  forall ops : list op,
         hist_dom empty_db ops ->
         let s := durable (snd (run_ops empty_db ops)) in
         exists db : sdb,
           wf_db db /\
           R db s /\
           (forall (c : bytes) (sc : scoll),
            assoc c db = Some sc ->
            kv_get (coll_key c) s = Some (SMeta (Z.of_nat (length (sc_docs sc))) (sc_idx sc)) /\
            NoDup (map fst (sc_docs sc)) /\
            (forall (id : bytes) (d : obj), assoc id (sc_docs sc) = Some d -> object_id d = id) /\
            (forall f : bytes,
             In f (sc_idx sc) ->
             (forall e : bytes * sval,
              In e s ->
              is_prefix (idx_prefix c f) (fst e) = true ->
              exists (id : bytes) (d : obj),
                assoc id (sc_docs sc) = Some d /\ e = (idx_key c f (doc_get f d) id, SEmpty)) /\
             (forall (id : bytes) (d : obj),
              assoc id (sc_docs sc) = Some d -> In (idx_key c f (doc_get f d) id, SEmpty) s))) /\
           (forall c : bytes, kv_get (coll_key c) s <> None <-> assoc c db <> None).
Proof. exact history_consistent. Qed.
Print Assumptions C06_history_consistent.

(* one step, any operation, open or closed handle *)
Theorem C06_step_preserves :
  forall (db : sdb) (h : dbst) (o : op),
         wf_db db ->
         Rdb' db h ->
         (closed h = false -> op_dom db o) -> exists db' : sdb, wf_db db' /\ Rdb' db' (snd (step h o)).
Proof. exact step_preserves_refinement. Qed.
Print Assumptions C06_step_preserves.

(* non-vacuity: a concrete 8-operation history (two prefix-related collections, an index, inserts, update, bulk delete through the index, drop index) is in the domain ... *)
Theorem C06_example_history_in_domain :
  hist_dom empty_db hx_history.
Proof. exact hx_history_in_domain. Qed.
Print Assumptions C06_example_history_in_domain.

(* ... and the theorem applies to it *)
Theorem C06_example_history_invariant :
  exists db : sdb, wf_db db /\ R db (durable (snd (run_ops empty_db hx_history))).
Proof. exact hx_history_invariant. Qed.
Print Assumptions C06_example_history_invariant.


(* ---- the invariant over histories of EVERY operation of the API, the multi-transaction composites included ---- *)
From Clover Require Import CompositeSpec CompositeProofs.
Theorem C06_step_preserves_all_operations : forall db h o,
  wf_db db -> Rdb' db h -> (closed h = false -> op_dom_all db o) ->
  exists db', wf_db db' /\ Rdb' db' (snd (step h o)).
Proof. exact step_preserves_refinement_all. Qed.
Print Assumptions C06_step_preserves_all_operations.

Theorem C06_invariant_all_operations : forall ops, hist_dom_all empty_db ops ->
  exists db, wf_db db /\ R db (durable (snd (run_ops empty_db ops))).
Proof. exact history_invariant_all. Qed.
Print Assumptions C06_invariant_all_operations.

Theorem C06_composite_history_in_domain : hist_dom_all empty_db ex_ops.
Proof. exact composite_history_in_domain. Qed.
Print Assumptions C06_composite_history_in_domain.

Theorem C06_composite_history_not_in_single_tx_domain : ~ hist_dom empty_db ex_ops.
Proof. exact composite_history_not_in_old_domain. Qed.
Print Assumptions C06_composite_history_not_in_single_tx_domain.

(* ---- the capstone in its textbook form (Proofs/AbstractSpecProofs.v): EVERY history of the public API in the domain, as a client observes it (the rendered result of every call, errors and calls on a closed handle included), is a run of the small abstract specification S = a_step over (abstract database, closed flag), and the final store refines the final abstract state. S mentions no store, key, transaction, plan or index content. ---- *)
From Clover Require Import HistoryProofs CompositeSpec CompositeProofs AbstractSpecProofs.
Theorem C06_step_refines_abstract_spec : forall db h o,
  wf_db db -> Rdb' db h -> (closed h = false -> op_dom_all db o) ->
  exists db', wf_db db' /\ Rdb' db' (snd (step h o)) /\
    a_step o (mkA db (closed h)) (fst (step h o)) (mkA db' (closed (snd (step h o)))).
Proof. exact step_refines_spec. Qed.
Print Assumptions C06_step_refines_abstract_spec.

Theorem C06_history_refines_abstract_spec : forall ops,
  hist_dom_all empty_db ops ->
  exists a, a_run a_init ops (fst (run_ops empty_db ops)) a /\
    wf_db (a_db a) /\ R (a_db a) (durable (snd (run_ops empty_db ops))) /\
    a_closed a = closed (snd (run_ops empty_db ops)).
Proof. exact history_refines_spec. Qed.
Print Assumptions C06_history_refines_abstract_spec.

Theorem C06_spec_writes_deterministic : forall o a t1 a1 t2 a2, det_op o = true ->
  a_step o a t1 a1 -> a_step o a t2 a2 -> t1 = t2 /\ a1 = a2.
Proof. exact a_step_writes_deterministic. Qed.
Print Assumptions C06_spec_writes_deterministic.

Theorem C06_spec_reads_keep_state : forall o a t a', read_op o = true -> a_step o a t a' -> a' = a.
Proof. exact a_step_reads_keep_state. Qed.
Print Assumptions C06_spec_reads_keep_state.

Theorem C06_spec_example_history :
  exists a, a_run a_init sx_ops (fst (run_ops empty_db sx_ops)) a /\
    wf_db (a_db a) /\ R (a_db a) (durable (snd (run_ops empty_db sx_ops))) /\
    a_closed a = closed (snd (run_ops empty_db sx_ops)).
Proof. exact sx_refines_spec. Qed.
Print Assumptions C06_spec_example_history.

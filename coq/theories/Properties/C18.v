(* C18 — Go values are normalised deterministically into the canonical universe; path laws. *)
From Clover Require Import GoValue Embed NormalizeProofs DocumentProofs.

Theorem C18_canonical : forall g v, supported g = true -> normalize g = NOk v -> canonical v = true.
Proof. exact normalize_canonical. Qed.
Print Assumptions C18_canonical.
Theorem C18_total_on_supported : forall g, supported g = true -> exists v, normalize g = NOk v.
Proof. exact normalize_supported. Qed.
Print Assumptions C18_total_on_supported.
Theorem C18_fixed_point : forall v, canonical v = true -> normalize (embed v) = NOk v.
Proof. exact normalize_embed. Qed.
Print Assumptions C18_fixed_point.
Theorem C18_idempotent : forall g v, normalize g = NOk v -> canonical v = true -> normalize (embed v) = NOk v.
Proof. exact normalize_idempotent. Qed.
Print Assumptions C18_idempotent.
Theorem C18_pointers_followed : forall n g, normalize (Nat.iter n (fun x => GPtr (Some x)) g) = normalize g.
Proof. exact normalize_ptr_chain. Qed.
Print Assumptions C18_pointers_followed.
Theorem C18_nil_pointer : normalize (GPtr None) = NOk VNil.
Proof. exact normalize_ptr_nil. Qed.
Print Assumptions C18_nil_pointer.
Theorem C18_map_keys_must_be_strings : forall es, normalize (GMap false es) = NErr.
Proof. exact normalize_map_nonstring_keys. Qed.
Print Assumptions C18_map_keys_must_be_strings.
Theorem C18_struct_rename : forall name tag x v, normalize x = NOk v -> tag_name tag <> [] -> tag_omitempty tag = false ->
  normalize (GStruct [GField name true tag false false x]) = NOk (VObj [(tag_name tag, v)]).
Proof. exact normalize_struct_field_rename. Qed.
Print Assumptions C18_struct_rename.
Theorem C18_struct_unexported_skipped : forall name tag a i x rest,
  normalize (GStruct (GField name false tag a i x :: rest)) = normalize (GStruct rest).
Proof. exact normalize_struct_unexported. Qed.
Print Assumptions C18_struct_unexported_skipped.
Theorem C18_struct_omitempty : forall name tag a i x rest, tag_omitempty tag = true -> is_empty_value i x = true ->
  normalize (GStruct (GField name true tag a i x :: rest)) = normalize (GStruct rest).
Proof. exact normalize_struct_omitempty. Qed.
Print Assumptions C18_struct_omitempty.
Theorem C18_struct_embedded_flattened : forall name tag x o rest acc, normalize x = NOk (VObj o) -> tag_omitempty tag = false ->
  struct_loop (GField name true tag true false x :: rest) acc = struct_loop rest (merge_obj acc o).
Proof. exact normalize_struct_embedded. Qed.
Print Assumptions C18_struct_embedded_flattened.
Theorem C18_unsupported_unchanged : forall name g d, normalize g = NErr -> doc_set_go name g d = d.
Proof. exact doc_set_go_unsupported. Qed.
Print Assumptions C18_unsupported_unchanged.

(* path laws of Get / Has / Set *)
Theorem C18_get_set : forall name v d, doc_get name (doc_set name v d) = v.
Proof. exact doc_get_set. Qed.
Print Assumptions C18_get_set.
Theorem C18_has_set : forall name v d, doc_has name (doc_set name v d) = true.
Proof. exact doc_has_set. Qed.
Print Assumptions C18_has_set.
Theorem C18_set_frame : forall name other v d, ~ prefix_related (split_dot name) (split_dot other) ->
  doc_get other (doc_set name v d) = doc_get other d /\ doc_has other (doc_set name v d) = doc_has other d.
Proof. exact doc_set_frame. Qed.
Print Assumptions C18_set_frame.
Theorem C18_set_wf : forall name v d, wf_value (VObj d) = true -> wf_value v = true -> wf_value (VObj (doc_set name v d)) = true.
Proof. exact doc_set_wf. Qed.
Print Assumptions C18_set_wf.

(* ---- the last clause: a struct converted to a document and unmarshalled back is unchanged (Model/Unmarshal.v, Spec/UnmarshalSpec.v,
   Proofs/UnmarshalProofs.v). Domain: rt_ty (names distinct, embedded structs untagged, ...), type_ok (what JSON reproduces exactly) and
   rt_extra (no embedded map types, no omitempty on pointers to pointers/interfaces, no unexported field named like the json name of an
   exported one): each exclusion is justified by a _refuted witness that also fails on the real code ---- *)
From Coq Require Import Permutation String Ascii.
Local Open Scope string_scope.
From Clover Require Import UnmarshalSpec UnmarshalProofs.
Theorem C18_normalize_total_on_typed_structs : forall fs g, rt_ty (TyStruct fs) = true -> type_ok (TyStruct fs) g = true ->
  exists d, normalize g = NOk (VObj d).
Proof. exact normalize_typed_struct. Qed.
Print Assumptions C18_normalize_total_on_typed_structs.

Theorem C18_unmarshal_roundtrip : forall fs g d,
  rt_ty (TyStruct fs) = true -> rt_extra (TyStruct fs) = true ->
  type_ok (TyStruct fs) g = true -> normalize g = NOk (VObj d) ->
  exists g', unmarshal (TyStruct fs) d = UOk g' /\ type_ok (TyStruct fs) g' = true /\ normalize g' = NOk (VObj d).
Proof. exact unmarshal_roundtrip. Qed.
Print Assumptions C18_unmarshal_roundtrip.

Theorem C18_unmarshal_roundtrip_all_types : forall t g v n m,
  rt_ty t = true -> rt_extra t = true -> type_ok t g = true -> normalize g = NOk v ->
  (tdepth t <= n)%nat -> (vdepth v <= m)%nat ->
  exists g', jdecode n t (rename_value m t v) = UOk g' /\ type_ok t g' = true /\ normalize g' = NOk v.
Proof. exact jdecode_rename_roundtrip. Qed.
Print Assumptions C18_unmarshal_roundtrip_all_types.

Theorem C18_rename_order_irrelevant : forall fields o o',
  NoDup (map fst o) -> Permutation o o' ->
  NoDup (map (fun kv => match rename_lookup fields (fst kv) with Some k' => k' | None => fst kv end) o) ->
  rename_obj fields o = rename_obj fields o'.
Proof. exact rename_obj_order_irrelevant. Qed.
Print Assumptions C18_rename_order_irrelevant.

Theorem C18_roundtrip_example_in_domain : rt_ty ex_ty = true /\ type_ok ex_ty ex_g = true.
Proof. exact rt_example_in_domain. Qed.
Print Assumptions C18_roundtrip_example_in_domain.

Theorem C18_roundtrip_example :
  exists d g', normalize ex_g = NOk (VObj d) /\ unmarshal ex_ty d = UOk g' /\ normalize g' = NOk (VObj d).
Proof. exact rt_example_roundtrip. Qed.
Print Assumptions C18_roundtrip_example.

Theorem C18_roundtrip_embedded_map_refuted :
  rt_ty (TyStruct anonmap_fs) = true /\ rt_extra (TyStruct anonmap_fs) = false /\
  type_ok (TyStruct anonmap_fs) anonmap_g = true /\
  normalize anonmap_g = NOk (VObj [(bs "x", VInt 1)]) /\
  unmarshal (TyStruct anonmap_fs) [(bs "x", VInt 1)] = UOk (GStruct [GField (bs "M") true [] true false (GMap true [])]) /\
  normalize (GStruct [GField (bs "M") true [] true false (GMap true [])]) = NOk (VObj []).
Proof. exact anon_map_refuted. Qed.
Print Assumptions C18_roundtrip_embedded_map_refuted.

Theorem C18_roundtrip_omitempty_pointer_to_nil_refuted :
  rt_ty (TyStruct omitptr_fs) = true /\ rt_extra (TyStruct omitptr_fs) = false /\
  type_ok (TyStruct omitptr_fs) omitptr_g = true /\
  normalize omitptr_g = NOk (VObj [(bs "p", VNil)]) /\
  unmarshal (TyStruct omitptr_fs) [(bs "p", VNil)] =
    UOk (GStruct [GField (bs "P") true (bs "p,omitempty") false false (GPtr None)]) /\
  normalize (GStruct [GField (bs "P") true (bs "p,omitempty") false false (GPtr None)]) = NOk (VObj []).
Proof. exact omit_ptr_refuted. Qed.
Print Assumptions C18_roundtrip_omitempty_pointer_to_nil_refuted.

Theorem C18_roundtrip_unexported_name_clash_refuted :
  rt_ty (TyStruct unexp_fs) = true /\ rt_extra (TyStruct unexp_fs) = false /\
  type_ok (TyStruct unexp_fs) unexp_g = true /\
  normalize unexp_g = NOk (VObj unexp_d) /\
  unmarshal (TyStruct unexp_fs) unexp_d = UOk unexp_g' /\
  normalize unexp_g' = NOk (VObj unexp_d') /\
  unexp_d = [(bs "B", VObj [(bs "P", VInt 2); (bs "Q", VInt 1)])] /\
  unexp_d' = [(bs "B", VObj [(bs "P", VInt 1); (bs "Q", VInt 0)])].
Proof. exact unexported_rename_refuted. Qed.
Print Assumptions C18_roundtrip_unexported_name_clash_refuted.

Theorem C18_roundtrip_empty_embedded_pointer_refuted :
  forallb emb_ptr_ok [TField (bs "Opt") true [] None true (TyPtr opt_ty)] = false /\ rt_ty embptr_ty = false /\
  struct_level_ok embptr_ty = true /\ rt_extra embptr_ty = true /\ type_ok embptr_ty embptr_g = true /\
  normalize embptr_g = NOk (VObj []) /\
  unmarshal embptr_ty [] = UOk embptr_g' /\ type_ok embptr_ty embptr_g' = true /\
  normalize embptr_g' = NOk (VObj [(bs "Opt", VNil)]).
Proof. exact emb_ptr_refuted. Qed.
Print Assumptions C18_roundtrip_empty_embedded_pointer_refuted.

Theorem C18_roundtrip_casefold_refuted :
  struct_level_ok casefold_ty = false /\ rt_ty casefold_ty = false /\ rt_extra casefold_ty = true /\
  type_ok casefold_ty casefold_g = true /\
  normalize casefold_g = NOk (VObj casefold_d) /\ unmarshal casefold_ty casefold_d = UUndet.
Proof. exact casefold_refuted. Qed.
Print Assumptions C18_roundtrip_casefold_refuted.

Theorem C18_roundtrip_needs_the_extra_domain_refuted : ~ U2_unrestricted.
Proof. exact unmarshal_roundtrip_unrestricted_refuted. Qed.
Print Assumptions C18_roundtrip_needs_the_extra_domain_refuted.

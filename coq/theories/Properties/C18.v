(* C18 — Go values are normalised deterministically into the canonical universe; path laws. *)
From Clover Require Import GoValue Embed NormalizeProofs DocumentProofs.

Theorem C18_canonical : forall g v, supported g = true -> normalize g = NOk v -> canonical v = true.
Proof. exact normalize_canonical. Qed.
Print Assumptions C18_canonical.
Theorem C18_total_on_supported : forall g, supported g = true -> exists v, normalize g = NOk v.
Proof. exact normalize_supported. Qed.
Print Assumptions C18_total_on_supported.
Theorem C18_fixed_point : forall v, canonical v = true -> normalize (embed v) = NOk v.
Proof. exact normalize_embed. Qed.
Print Assumptions C18_fixed_point.
Theorem C18_idempotent : forall g v, normalize g = NOk v -> canonical v = true -> normalize (embed v) = NOk v.
Proof. exact normalize_idempotent. Qed.
Print Assumptions C18_idempotent.
Theorem C18_pointers_followed : forall n g, normalize (Nat.iter n (fun x => GPtr (Some x)) g) = normalize g.
Proof. exact normalize_ptr_chain. Qed.
Print Assumptions C18_pointers_followed.
Theorem C18_nil_pointer : normalize (GPtr None) = NOk VNil.
Proof. exact normalize_ptr_nil. Qed.
Print Assumptions C18_nil_pointer.
Theorem C18_map_keys_must_be_strings : forall es, normalize (GMap false es) = NErr.
Proof. exact normalize_map_nonstring_keys. Qed.
Print Assumptions C18_map_keys_must_be_strings.
Theorem C18_struct_rename : forall name tag x v, normalize x = NOk v -> tag_name tag <> [] -> tag_omitempty tag = false ->
  normalize (GStruct [GField name true tag false false x]) = NOk (VObj [(tag_name tag, v)]).
Proof. exact normalize_struct_field_rename. Qed.
Print Assumptions C18_struct_rename.
Theorem C18_struct_unexported_skipped : forall name tag a i x rest,
  normalize (GStruct (GField name false tag a i x :: rest)) = normalize (GStruct rest).
Proof. exact normalize_struct_unexported. Qed.
Print Assumptions C18_struct_unexported_skipped.
Theorem C18_struct_omitempty : forall name tag a i x rest, tag_omitempty tag = true -> is_empty_value i x = true ->
  normalize (GStruct (GField name true tag a i x :: rest)) = normalize (GStruct rest).
Proof. exact normalize_struct_omitempty. Qed.
Print Assumptions C18_struct_omitempty.
Theorem C18_struct_embedded_flattened : forall name tag x o rest acc, normalize x = NOk (VObj o) -> tag_omitempty tag = false ->
  struct_loop (GField name true tag true false x :: rest) acc = struct_loop rest (merge_obj acc o).
Proof. exact normalize_struct_embedded. Qed.
Print Assumptions C18_struct_embedded_flattened.
Theorem C18_unsupported_unchanged : forall name g d, normalize g = NErr -> doc_set_go name g d = d.
Proof. exact doc_set_go_unsupported. Qed.
Print Assumptions C18_unsupported_unchanged.

(* path laws of Get / Has / Set *)
Theorem C18_get_set : forall name v d, doc_get name (doc_set name v d) = v.
Proof. exact doc_get_set. Qed.
Print Assumptions C18_get_set.
Theorem C18_has_set : forall name v d, doc_has name (doc_set name v d) = true.
Proof. exact doc_has_set. Qed.
Print Assumptions C18_has_set.
Theorem C18_set_frame : forall name other v d, ~ prefix_related (split_dot name) (split_dot other) ->
  doc_get other (doc_set name v d) = doc_get other d /\ doc_has other (doc_set name v d) = doc_has other d.
Proof. exact doc_set_frame. Qed.
Print Assumptions C18_set_frame.
Theorem C18_set_wf : forall name v d, wf_value (VObj d) = true -> wf_value v = true -> wf_value (VObj (doc_set name v d)) = true.
Proof. exact doc_set_wf. Qed.
Print Assumptions C18_set_wf.

(* C13 — collection catalog exact; collections isolated. The content is the key algebra (metadata keys
   "coll:<c>", document keys "c:<c>;d:<id>", index keys "c:<c>;i:<f>;..." never collide for names free
   of ';', however prefix-related) plus refinement of the catalog operations. *)
From Clover Require Import PureRun KeyProofs RProofs WriteProofs.

Theorem C13_has_collection : forall db s c, wf_db db -> R db s ->
  o_res (with_tx (has_collection c) None (mkDb s false)) = Ok (match assoc c db with Some _ => true | None => false end) /\
  o_db (with_tx (has_collection c) None (mkDb s false)) = mkDb s false.
Proof. exact has_collection_refines. Qed.
Print Assumptions C13_has_collection.

(* CreateCollection: an existing name fails with ErrCollectionExist and nothing changes *)
Theorem C13_create : forall db s c, wf_db db -> R db s -> no_semi c = true ->
  let out := with_tx (create_collection_tx c) None (mkDb s false) in
  match s_create c db with
  | Ok db' => o_res out = Ok tt /\ R db' (durable (o_db out)) /\ closed (o_db out) = false
  | Err e => o_res out = Err e /\ o_db out = mkDb s false
  end.
Proof. exact create_refines. Qed.
Print Assumptions C13_create.

(* isolation at the level of what the store denotes: rewriting collection c in any way leaves every key of
   every other collection c' with exactly the same value, for all ';'-free names *)
Theorem C13_isolation_meta : forall db c sc' c' v, c' <> c ->
  (denotes (assoc_set c sc' db) (coll_key c') v <-> denotes db (coll_key c') v).
Proof. exact den_other_coll. Qed.
Print Assumptions C13_isolation_meta.
Theorem C13_isolation_docs : forall db c sc' c' id v, c' <> c -> no_semi c = true -> no_semi c' = true ->
  (denotes (assoc_set c sc' db) (doc_key c' id) v <-> denotes db (doc_key c' id) v).
Proof. exact den_other_doc. Qed.
Print Assumptions C13_isolation_docs.
Theorem C13_isolation_indexes : forall db c sc' c' f x id v, c' <> c -> no_semi c = true -> no_semi c' = true ->
  (denotes (assoc_set c sc' db) (idx_key c' f x id) v <-> denotes db (idx_key c' f x id) v).
Proof. exact den_other_idx. Qed.
Print Assumptions C13_isolation_indexes.
(* dropping c removes exactly the keys of c *)
Theorem C13_drop_removes_only_own_keys : forall db c k v, wf_db db -> no_semi c = true ->
  (denotes (assoc_del c db) k v <-> denotes db k v /\ ~ key_in_coll c k).
Proof. exact den_del_coll. Qed.
Print Assumptions C13_drop_removes_only_own_keys.

(* the key algebra behind it: a collection's scan prefix matches exactly its own document keys *)
Theorem C13_doc_prefix_exact : forall c c' id, no_semi c = true -> no_semi c' = true ->
  (is_prefix (doc_prefix c) (doc_key c' id) = true <-> c = c').
Proof. exact doc_prefix_doc. Qed.
Print Assumptions C13_doc_prefix_exact.
Theorem C13_doc_key_injective : forall c c' id id', no_semi c = true -> no_semi c' = true ->
  doc_key c id = doc_key c' id' -> c = c' /\ id = id'.
Proof. exact doc_key_inj. Qed.
Print Assumptions C13_doc_key_injective.
Theorem C13_meta_key_injective : forall c c', coll_key c = coll_key c' -> c = c'.
Proof. exact coll_key_inj. Qed.
Print Assumptions C13_meta_key_injective.

(* ---- over whole histories (HistDom.v: every operation in the domain of the state it is applied to) ---- *)
From Clover Require Import HistDom HistoryProofs.

(* after any history in the domain the catalog keys are exactly the collections of the abstract database *)
Theorem C13_catalog_after_any_history :
  forall (ops : list op) (db : sdb) (s : kv),
         hist_dom empty_db ops ->
         s = final_store ops ->
         wf_db db ->
         R db s -> forall c : bytes, kv_get (coll_key c) s <> None <-> assoc c db <> None.
Proof. exact history_catalog. Qed.
Print Assumptions C13_catalog_after_any_history.


(* ---- CreateCollectionByQuery: the new collection holds exactly the selected documents, no index, every other collection unchanged; what a failure leaves behind ---- *)
From Clover Require Import QueryProofs CompositeSpec CompositeProofs.
Theorem C13_create_by_query : forall db h c q,
  wf_db db -> R db (durable h) -> closed h = false -> op_dom_all db (OCreateByQuery c q) ->
  assoc c db = None ->
  forall nq, normalize_query (mk_query q) = Some nq ->
  match assoc (nq_coll nq) db with
  | None =>
      (nq_coll nq = c -> fst (step h (OCreateByQuery c q)) = T_ok (TL [])) /\
      (nq_coll nq <> c -> fst (step h (OCreateByQuery c q)) = T_err ECollNotExist) /\
      wf_db (db ++ [(c, mkSC [] [])]) /\
      R (db ++ [(c, mkSC [] [])]) (durable (snd (step h (OCreateByQuery c q))))
  | Some sc =>
      exists res,
        find_ok' (map snd (sc_docs sc)) nq res /\
        fst (step h (OCreateByQuery c q)) = T_ok (TL []) /\
        let db' := assoc_set c (mkSC (map (fun d => (object_id d, d)) res) []) (db ++ [(c, mkSC [] [])]) in
        wf_db db' /\ R db' (durable (snd (step h (OCreateByQuery c q))))
  end.
Proof. exact create_by_query_refines_exact. Qed.
Print Assumptions C13_create_by_query.

(* ---- adequacy of the abstract specification S (Proofs/SpecAdequacyProofs.v): consequences of a_step alone, no store, model or refinement lemma ---- *)
From Coq Require Import Permutation Sorted.
From Clover Require Import HistoryProofs CompositeSpec CompositeProofs IndexIndepProofs AbstractSpecProofs SpecAdequacyProofs.
Theorem C13_spec_catalog : forall c a, a_closed a = false ->
  (* Create then Create: the second answers ECollExist and changes nothing *)
  (forall t1 a1 t2 a2, a_step (OCreateCollection c) a t1 a1 -> a_step (OCreateCollection c) a1 t2 a2 ->
     t2 = T_err ECollExist /\ a2 = a1) /\
  (* after a successful Create the collection is there, empty and without indexes *)
  (forall t1 a1 t2 a2, a_step (OCreateCollection c) a t1 a1 -> t1 = T_ok (TL []) ->
     a_step (OHasCollection c) a1 t2 a2 ->
     t2 = T_ok (Tbool true) /\ assoc c (a_db a1) = Some (mkSC [] [])) /\
  (* Drop (whatever it answers) then HasCollection: false; then Create succeeds with an empty collection
     without indexes *)
  (forall t1 a1 t2 a2 t3 a3, a_step (ODropCollection c) a t1 a1 -> a_step (OHasCollection c) a1 t2 a2 ->
     a_step (OCreateCollection c) a2 t3 a3 ->
     t2 = T_ok (Tbool false) /\ a2 = a1 /\ t3 = T_ok (TL []) /\ assoc c (a_db a3) = Some (mkSC [] [])) /\
  (* Drop answers ok exactly when the collection was there *)
  (forall t1 a1, a_step (ODropCollection c) a t1 a1 ->
     (t1 = T_ok (TL []) <-> assoc c (a_db a) <> None) /\ (t1 = T_err ECollNotExist <-> assoc c (a_db a) = None)).
Proof. exact spec_catalog. Qed.
Print Assumptions C13_spec_catalog.

Theorem C13_spec_frame : forall o a t a', a_step o a t a' ->
  match target o with
  | Some c => forall c', c' <> c -> assoc c' (a_db a') = assoc c' (a_db a)
  | None => a_db a' = a_db a
  end.
Proof. exact spec_frame. Qed.
Print Assumptions C13_spec_frame.

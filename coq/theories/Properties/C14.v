(* C14 — index catalog exact; indexes independent. *)
From Clover Require Import PureRun KeyProofs RProofs WriteProofs.

Theorem C14_has_index : forall db s c f, wf_db db -> R db s ->
  o_res (with_tx (has_index_tx c f) None (mkDb s false)) =
    match assoc c db with Some sc => Ok (has_field f (sc_idx sc)) | None => Err ECollNotExist end /\
  o_db (with_tx (has_index_tx c f) None (mkDb s false)) = mkDb s false.
Proof. exact has_index_refines. Qed.
Print Assumptions C14_has_index.
Theorem C14_list_indexes : forall db s c, wf_db db -> R db s ->
  o_res (with_tx (list_indexes_tx c) None (mkDb s false)) =
    match assoc c db with Some sc => Ok (sc_idx sc) | None => Err ECollNotExist end /\
  o_db (with_tx (list_indexes_tx c) None (mkDb s false)) = mkDb s false.
Proof. exact list_indexes_refines. Qed.
Print Assumptions C14_list_indexes.

(* independence: the scan/drop prefix of the index on f matches exactly the entries of that index, also
   when one field name is a prefix of another (x / xy) or a dotted sub-path (n / n.a) *)
Theorem C14_index_prefix_exact : forall c f c' f' v id, no_semi c = true -> no_semi c' = true ->
  no_semi f = true -> no_semi f' = true ->
  (is_prefix (idx_prefix c f) (idx_key c' f' v id) = true <-> c = c' /\ f = f').
Proof. exact idx_prefix_idx. Qed.
Print Assumptions C14_index_prefix_exact.
(* the defect repaired by "fix: terminate the index key prefix with its separator": without the trailing
   ';' the prefix of f captures every index whose field name extends f *)
Theorem C14_unterminated_prefix_refuted : forall c f g v id,
  is_prefix (idx_prefix_nosep c f) (idx_key c (f ++ g) v id) = true.
Proof. exact idx_prefix_nosep_leaks. Qed.
Print Assumptions C14_unterminated_prefix_refuted.

(* in a store that refines S, the entries under the prefix of (c,f) are exactly one per document of c, under
   its current value, if f is indexed — and none otherwise *)
Theorem C14_entries_of_an_index : forall db s c f, R db s -> wf_db db -> no_semi c = true -> no_semi f = true ->
  forall e, In e s -> is_prefix (idx_prefix c f) (fst e) = true ->
  exists sc id d, assoc c db = Some sc /\ assoc id (sc_docs sc) = Some d /\ In f (sc_idx sc) /\
                  e = (idx_key c f (doc_get f d) id, SEmpty).
Proof. exact R_idx_prefix_entries. Qed.
Print Assumptions C14_entries_of_an_index.
Theorem C14_every_document_has_its_entry : forall db s c sc f id d, R db s -> assoc c db = Some sc ->
  assoc id (sc_docs sc) = Some d -> In f (sc_idx sc) ->
  In (idx_key c f (doc_get f d) id, SEmpty) s /\ is_prefix (idx_prefix c f) (idx_key c f (doc_get f d) id) = true.
Proof. exact R_idx_entry_in. Qed.
Print Assumptions C14_every_document_has_its_entry.

(* ---- end-to-end theorems against the abstract database (refinement R, SpecDB.v) ---- *)
From Coq Require Import ZArith List.
From Clover Require Import QueryDom QueryProofs BulkProofs OpProofs.

(* CreateIndex / DropIndex refine the abstract catalog: ErrIndexExist / ErrIndexNotExist / ErrCollectionNotExist leave everything unchanged *)
Theorem C14_create_index :
  forall (db : sdb) (s : kv) (c f : bytes),
         wf_db db ->
         R db s ->
         no_semi c = true ->
         no_semi f = true ->
         let out := with_tx (create_index_tx c f) None {| durable := s; closed := false |} in
         match s_create_index c f db with
         | Ok db' => o_res out = Ok tt /\ R db' (durable (o_db out)) /\ wf_db db'
         | Err e => o_res out = Err e /\ o_db out = {| durable := s; closed := false |}
         end.
Proof. exact create_index_refines. Qed.
Print Assumptions C14_create_index.

Theorem C14_drop_index :
  forall (db : sdb) (s : kv) (c f : bytes),
         wf_db db ->
         R db s ->
         no_semi c = true ->
         no_semi f = true ->
         let out := with_tx (drop_index_tx c f) None {| durable := s; closed := false |} in
         match s_drop_index c f db with
         | Ok db' => o_res out = Ok tt /\ R db' (durable (o_db out)) /\ wf_db db'
         | Err e => o_res out = Err e /\ o_db out = {| durable := s; closed := false |}
         end.
Proof. exact drop_index_refines. Qed.
Print Assumptions C14_drop_index.

(* dropping the index on f keeps every entry of the index on any other field g, also when g extends f (x / xy) or is a dotted sub-path *)
Theorem C14_sibling_survives_drop :
  forall (db : sdb) (s : kv) (c f : bytes) (db' : sdb) (sc : scoll) 
           (g id : bytes) (d : obj),
         wf_db db ->
         R db s ->
         no_semi c = true ->
         no_semi f = true ->
         s_drop_index c f db = Ok db' ->
         assoc c db = Some sc ->
         In g (sc_idx sc) ->
         g <> f ->
         assoc id (sc_docs sc) = Some d ->
         In (idx_key c g (doc_get g d) id, SEmpty)
           (durable (o_db (with_tx (drop_index_tx c f) None {| durable := s; closed := false |}))).
Proof. exact drop_index_keeps_others. Qed.
Print Assumptions C14_sibling_survives_drop.


(* ---- adequacy of the abstract specification S (Proofs/SpecAdequacyProofs.v): consequences of a_step alone, no store, model or refinement lemma ---- *)
From Coq Require Import Permutation Sorted.
From Clover Require Import HistoryProofs CompositeSpec CompositeProofs IndexIndepProofs AbstractSpecProofs SpecAdequacyProofs.
Theorem C14_spec_indexes : forall c f a, a_closed a = false ->
  (* CreateIndex: ok appends f to the index list (documents untouched); on an indexed field EIdxExist *)
  (forall t1 a1 sc, a_step (OCreateIndex c f) a t1 a1 -> assoc c (a_db a) = Some sc ->
     (has_field f (sc_idx sc) = true -> t1 = T_err EIdxExist /\ a1 = a) /\
     (has_field f (sc_idx sc) = false ->
        t1 = T_ok (TL []) /\ assoc c (a_db a1) = Some (mkSC (sc_docs sc) (sc_idx sc ++ [f])))) /\
  (* CreateIndex twice on an existing collection: the second answers EIdxExist; HasIndex in between: true *)
  (forall t1 a1 t2 a2 t3 a3, assoc c (a_db a) <> None ->
     a_step (OCreateIndex c f) a t1 a1 -> a_step (OHasIndex c f) a1 t2 a2 -> a_step (OCreateIndex c f) a2 t3 a3 ->
     t2 = T_ok (Tbool true) /\ a2 = a1 /\ t3 = T_err EIdxExist /\ a3 = a1) /\
  (* DropIndex of a field that is not indexed: EIdxNotExist, nothing changes *)
  (forall t1 a1 sc, a_step (ODropIndex c f) a t1 a1 -> assoc c (a_db a) = Some sc ->
     has_field f (sc_idx sc) = false -> t1 = T_err EIdxNotExist /\ a1 = a) /\
  (* DropIndex of an indexed field: ok, f is gone, every other indexed field stays, documents untouched;
     HasIndex afterwards: false *)
  (forall t1 a1 t2 a2 sc, wf_db (a_db a) -> a_step (ODropIndex c f) a t1 a1 -> assoc c (a_db a) = Some sc ->
     has_field f (sc_idx sc) = true -> a_step (OHasIndex c f) a1 t2 a2 ->
     t1 = T_ok (TL []) /\ t2 = T_ok (Tbool false) /\
     exists sc', assoc c (a_db a1) = Some sc' /\ sc_docs sc' = sc_docs sc /\ NoDup (sc_idx sc') /\
       forall g, In g (sc_idx sc') <-> In g (sc_idx sc) /\ g <> f) /\
  (* on a missing collection all four answer ECollNotExist *)
  (forall t1 a1 t2 a2 t3 a3 t4 a4, assoc c (a_db a) = None ->
     a_step (OCreateIndex c f) a t1 a1 -> a_step (ODropIndex c f) a t2 a2 ->
     a_step (OHasIndex c f) a t3 a3 -> a_step (OListIndexes c) a t4 a4 ->
     t1 = T_err ECollNotExist /\ t2 = T_err ECollNotExist /\ t3 = T_err ECollNotExist /\
     t4 = T_err ECollNotExist /\ a1 = a /\ a2 = a /\ a3 = a /\ a4 = a).
Proof. exact spec_indexes. Qed.
Print Assumptions C14_spec_indexes.

Theorem C14_spec_doc_write_keeps_indexes : forall o a t a', doc_write o = true -> a_step o a t a' ->
  forall c0, option_map sc_idx (assoc c0 (a_db a')) = option_map sc_idx (assoc c0 (a_db a)).
Proof. exact spec_doc_write_keeps_indexes. Qed.
Print Assumptions C14_spec_doc_write_keeps_indexes.

Theorem C14_spec_index_write_keeps_docs : forall o a t a', index_write o = true -> a_step o a t a' ->
  (forall c0, option_map sc_docs (assoc c0 (a_db a')) = option_map sc_docs (assoc c0 (a_db a))) /\
  map fst (a_db a') = map fst (a_db a) /\
  (forall c, target o = Some c -> forall c', c' <> c -> assoc c' (a_db a') = assoc c' (a_db a)).
Proof. exact spec_index_write_keeps_docs. Qed.
Print Assumptions C14_spec_index_write_keeps_docs.

(* C03 — bulk update/delete touch exactly the matched documents, once each; DropCollection removes
   everything. S-level semantics of a bulk rewrite: [s_apply_sel u sel docs] (SpecDB.v). *)
From Coq Require Import ZArith List.
From Clover Require Import QueryDom RProofs QueryProofs BulkProofs OpProofs.

(* Update / UpdateFunc / Delete(q): with sel the FindAll(q) result on the pre-state (documents of the collection, each once), the store afterwards denotes exactly the documents with sel rewritten by the updater, or nothing changes on error *)
Theorem C03_bulk_rewrite_refines :
  forall (db : sdb) (s : kv) (q : nquery) (u : updater) (sc : scoll) (sel : list obj),
         wf_db db ->
         R db s ->
         assoc (nq_coll q) db = Some sc ->
         o_res (with_tx (find_all_tx q) None {| durable := s; closed := false |}) = Ok sel ->
         (forall d : obj, In d sel -> assoc (object_id d) (sc_docs sc) = Some d) ->
         NoDup (map object_id sel) ->
         let out := with_tx (update_tx q u) None {| durable := s; closed := false |} in
         match s_apply_sel u sel (sc_docs sc) with
         | Ok ds =>
             o_res out = Ok tt /\
             R (assoc_set (nq_coll q) {| sc_docs := ds; sc_idx := sc_idx sc |} db)
               (durable (o_db out)) /\
             wf_db (assoc_set (nq_coll q) {| sc_docs := ds; sc_idx := sc_idx sc |} db)
         | Err e => o_res out = Err e /\ o_db out = {| durable := s; closed := false |}
         end.
Proof. exact update_refines. Qed.
Print Assumptions C03_bulk_rewrite_refines.

Theorem C03_bulk_rewrite_meets_spec :
  forall (db : sdb) (s : kv) (q : nquery) (u : updater) (sc : scoll) (sel : list obj),
         wf_db db ->
         R db s ->
         assoc (nq_coll q) db = Some sc ->
         o_res (with_tx (find_all_tx q) None {| durable := s; closed := false |}) = Ok sel ->
         (forall d : obj, In d sel -> assoc (object_id d) (sc_docs sc) = Some d) ->
         NoDup (map object_id sel) ->
         find_ok (map snd (sc_docs sc)) q sel ->
         let out := with_tx (update_tx q u) None {| durable := s; closed := false |} in
         exists r : res sdb,
           s_update_ok q u db r /\
           match r with
           | Ok db' => o_res out = Ok tt /\ R db' (durable (o_db out)) /\ wf_db db'
           | Err e => o_res out = Err e /\ o_db out = {| durable := s; closed := false |}
           end.
Proof. exact update_refines_spec. Qed.
Print Assumptions C03_bulk_rewrite_meets_spec.

(* no document outside the selection is touched *)
Theorem C03_unselected_untouched :
  forall (u : updater) (sel : list obj) (ds0 ds : list (bytes * obj)) (id : bytes),
         s_apply_sel u sel ds0 = Ok ds ->
         ~ In id (map object_id sel) -> assoc id ds = assoc id ds0.
Proof. exact apply_sel_untouched. Qed.
Print Assumptions C03_unselected_untouched.

(* each selected document is replaced by the updater applied ONCE to its pre-call value (or removed when the updater returns nil) *)
Theorem C03_selected_updated_once :
  forall (u : updater) (sel : list obj) (ds0 ds : list (bytes * obj)) (d : obj),
         s_apply_sel u sel ds0 = Ok ds ->
         In d sel ->
         NoDup (map object_id sel) -> assoc (object_id d) ds = apply_updater u d.
Proof. exact apply_sel_updated. Qed.
Print Assumptions C03_selected_updated_once.

(* the selection is what FindAll returns: stored documents, each once *)
Theorem C03_selection_is_findall :
  forall (m : bool) (db : sdb) (s : kv) (q : nquery) (sc : scoll) (res : list obj),
         wf_db db ->
         R db s ->
         assoc (nq_coll q) db = Some sc ->
         coll_dom m sc ->
         crit_dom m (nq_crit q) ->
         o_res (with_tx (find_all_tx q) None {| durable := s; closed := false |}) = Ok res ->
         NoDup (map object_id res).
Proof. exact find_all_each_once. Qed.
Print Assumptions C03_selection_is_findall.

(* DropCollection: documents, index entries and metadata of c all go, whatever the size and index set *)
Theorem C03_drop_collection_removes_all :
  forall (db : sdb) (s : kv) (c : bytes),
         wf_db db ->
         R db s ->
         no_semi c = true ->
         let out := with_tx (drop_collection_tx c) None {| durable := s; closed := false |} in
         match s_drop c db with
         | Ok db' => o_res out = Ok tt /\ R db' (durable (o_db out)) /\ wf_db db'
         | Err e => o_res out = Err e /\ o_db out = {| durable := s; closed := false |}
         end.
Proof. exact drop_collection_refines. Qed.
Print Assumptions C03_drop_collection_removes_all.

Theorem C03_drop_collection_frame :
  forall (db : sdb) (s : kv) (c k : bytes),
         wf_db db ->
         R db s ->
         no_semi c = true ->
         assoc c db <> None ->
         ~ key_in_coll c k ->
         kv_get k (durable (o_db (with_tx (drop_collection_tx c) None {| durable := s; closed := false |}))) =
         kv_get k s.
Proof. exact drop_collection_frame. Qed.
Print Assumptions C03_drop_collection_frame.


(* ---- adequacy of the abstract specification S (Proofs/SpecAdequacyProofs.v): consequences of a_step alone, no store, model or refinement lemma ---- *)
From Coq Require Import Permutation Sorted.
From Clover Require Import HistoryProofs CompositeSpec CompositeProofs IndexIndepProofs AbstractSpecProofs SpecAdequacyProofs.
Theorem C03_spec_bulk_update_exact : forall a q u t a' nq sc,
  a_closed a = false -> wf_db (a_db a) -> a_step (OUpdateFunc q u) a t a' ->
  normalize_query (mk_query q) = Some nq -> nq_skip nq = 0 -> nq_limit nq < 0 ->
  assoc (nq_coll nq) (a_db a) = Some sc ->
  bulk_outcome nq u sc a t a'.
Proof. exact spec_bulk_update_exact. Qed.
Print Assumptions C03_spec_bulk_update_exact.

Theorem C03_spec_delete_exact : forall a q t a' nq sc,
  a_closed a = false -> wf_db (a_db a) -> a_step (ODelete q) a t a' ->
  normalize_query (mk_query q) = Some nq -> nq_skip nq = 0 -> nq_limit nq < 0 ->
  assoc (nq_coll nq) (a_db a) = Some sc ->
  t = T_ok (TL []) /\
  exists sc', assoc (nq_coll nq) (a_db a') = Some sc' /\ sc_idx sc' = sc_idx sc /\
    sc_docs sc' = filter (fun e => negb (sat_opt (nq_crit nq) (snd e))) (sc_docs sc) /\
    (forall id d, In (id, d) (sc_docs sc) ->
       assoc id (sc_docs sc') = if sat_opt (nq_crit nq) d then None else Some d) /\
    (forall c', c' <> nq_coll nq -> assoc c' (a_db a') = assoc c' (a_db a)) /\
    map fst (a_db a') = map fst (a_db a).
Proof. exact spec_delete_exact. Qed.
Print Assumptions C03_spec_delete_exact.

Theorem C03_spec_windowed_selection_not_determined :
  exists a1 a2, a_step (ODelete (RProofs.ex_c, [QLimit 1])) ns_a (T_ok (TL [])) a1 /\
                a_step (ODelete (RProofs.ex_c, [QLimit 1])) ns_a (T_ok (TL [])) a2 /\
                assoc RProofs.ex_c (a_db a1) = Some (mkSC [(ex_id2, ex_d2)] []) /\
                assoc RProofs.ex_c (a_db a2) = Some (mkSC [(ex_id1, ex_d1)] []) /\ a1 <> a2.
Proof. exact spec_bulk_windowed_not_determined. Qed.
Print Assumptions C03_spec_windowed_selection_not_determined.

(* C08 — sort order and skip/limit windows are exact (plan level; the input node is abstracted by
   [input_feeds], which ScanProofs discharges for the real scans). *)
From Clover Require Import PureRun PlanProofs.
Open Scope Z_scope.

(* what FindAll computes: the window [skip, skip+limit) of the sorted (or scan-ordered) sequence *)
Theorem C08_window_of_sequence : forall c crit sort skip idx L, input_feeds c crit sort idx L ->
  forall limit s, fault s = None -> 0 <= skip ->
  runs_to (l <- exec_plan collect c crit sort skip limit idx [] ;; ret (rev l)) s
          (window skip limit (plan_seq crit sort idx L)).
Proof. exact find_all_plan. Qed.
Print Assumptions C08_window_of_sequence.

(* the in-memory sort returns a permutation that is sorted by the documented order, whatever the mix of
   types (inside one numeric regime), for any number of sort keys and directions *)
Theorem C08_sorted : forall m sort l, docs_regime m sort l -> StronglySorted (docs_le sort) (sort_docs sort l).
Proof. exact sort_docs_sorted. Qed.
Print Assumptions C08_sorted.
Theorem C08_sort_is_permutation : forall sort l, Permutation (sort_docs sort l) l.
Proof. exact sort_docs_perm. Qed.
Print Assumptions C08_sort_is_permutation.
Theorem C08_order_total : forall opts a b, docs_leb opts a b = true \/ docs_leb opts b a = true.
Proof. exact docs_leb_total. Qed.
Print Assumptions C08_order_total.
Theorem C08_order_transitive : forall m opts a b c, doc_regime m opts a -> doc_regime m opts b -> doc_regime m opts c ->
  docs_leb opts a b = true -> docs_leb opts b c = true -> docs_leb opts a c = true.
Proof. exact docs_leb_trans. Qed.
Print Assumptions C08_order_transitive.

(* FindAll meets the specification: a permutation of the matches, sorted when a sort is given, windowed *)
Theorem C08_find_all_meets_spec : forall c crit sort skip idx L, input_feeds c crit sort idx L ->
  forall m docs limit s, Permutation L (matches crit docs) -> fault s = None -> 0 <= skip ->
  (needs_sort crit sort idx = true /\ docs_regime m sort L) \/
  (needs_sort crit sort idx = false /\ (sort = [] \/ StronglySorted (docs_le sort) L)) ->
  exists res, runs_to (l <- exec_plan collect c crit sort skip limit idx [] ;; ret (rev l)) s res /\
              find_ok docs (mkNQ c crit limit skip sort) res.
Proof. exact find_all_spec_rev. Qed.
Print Assumptions C08_find_all_meets_spec.

(* the skip/limit node: exactly the window, for every consumer *)
Theorem C08_skip_limit_node : forall B (k : obj -> B -> B * bool) skip limit l b0, 0 <= skip ->
  d_acc (fold_pure (down_g k skip limit) l (mkD 0 0 b0)) = fold_pure k (window skip limit l) b0.
Proof. exact down_window. Qed.
Print Assumptions C08_skip_limit_node.
Theorem C08_window_length : forall skip limit (l : list obj), 0 <= skip ->
  length (window skip limit l) =
  if limit <? 0 then (length l - Z.to_nat skip)%nat else Nat.min (Z.to_nat limit) (length l - Z.to_nat skip).
Proof. exact window_length. Qed.
Print Assumptions C08_window_length.

(* builder options: a negative skip is ignored, a negative limit means unlimited, Sort() = by _id,
   directions are normalised to +1 / -1 *)
Theorem C08_negative_skip_ignored : forall q n, n < 0 -> q_apply q (QSkip n) = q.
Proof. exact q_skip_negative_ignored. Qed.
Print Assumptions C08_negative_skip_ignored.
Theorem C08_negative_limit_unlimited : forall skip limit (l : list obj), limit < 0 -> window skip limit l = skipn (Z.to_nat skip) l.
Proof. exact window_negative_limit. Qed.
Print Assumptions C08_negative_limit_unlimited.
Theorem C08_sort_default_id : forall q, q_sort (q_apply q (QSort [])) = [(id_field, 1)].
Proof. exact q_sort_default. Qed.
Print Assumptions C08_sort_default_id.
Theorem C08_directions_normalised : forall opts f d, In (f, d) (norm_sort_opts opts) -> d = 1 \/ d = -1.
Proof. exact norm_sort_dir. Qed.
Print Assumptions C08_directions_normalised.

(* ---- end-to-end theorems against the abstract database (refinement R, SpecDB.v) ---- *)
From Coq Require Import ZArith List.
From Clover Require Import QueryDom QueryProofs BulkProofs OpProofs.

(* closed form: with an in-memory sort (or no sort) FindAll is a window of a permutation of the matches sorted by the documented order *)
Theorem C08_find_all_sorted_window :
  forall (m : bool) (db : sdb) (s : kv) (q : nquery) (sc : scoll),
         wf_db db ->
         R db s ->
         assoc (nq_coll q) db = Some sc ->
         coll_dom m sc ->
         crit_dom m (nq_crit q) ->
         Z.le Z0 (nq_skip q) ->
         nq_sort q = nil \/ snd (try_select_index (nq_crit q) (nq_sort q) (sc_idx sc)) = false ->
         exists res : list obj,
           o_res (with_tx (find_all_tx q) None {| durable := s; closed := false |}) = Ok res /\
           o_db (with_tx (find_all_tx q) None {| durable := s; closed := false |}) =
           {| durable := s; closed := false |} /\ find_ok (map snd (sc_docs sc)) q res.
Proof. exact find_all_refines_strict. Qed.
Print Assumptions C08_find_all_sorted_window.

(* with the sort served by an index the same holds for the order that ties absent with nil *)
Theorem C08_find_all_sorted_window_index_order :
  forall (m : bool) (db : sdb) (s : kv) (q : nquery) (sc : scoll),
         wf_db db ->
         R db s ->
         assoc (nq_coll q) db = Some sc ->
         coll_dom m sc ->
         crit_dom m (nq_crit q) ->
         Z.le Z0 (nq_skip q) ->
         exists res : list obj,
           o_res (with_tx (find_all_tx q) None {| durable := s; closed := false |}) = Ok res /\
           o_db (with_tx (find_all_tx q) None {| durable := s; closed := false |}) =
           {| durable := s; closed := false |} /\ find_ok' (map snd (sc_docs sc)) q res.
Proof. exact find_all_refines. Qed.
Print Assumptions C08_find_all_sorted_window_index_order.


(* ---- adequacy of the abstract specification S (Proofs/SpecAdequacyProofs.v): consequences of a_step alone, no store, model or refinement lemma ---- *)
From Coq Require Import Permutation Sorted.
From Clover Require Import HistoryProofs CompositeSpec CompositeProofs IndexIndepProofs AbstractSpecProofs SpecAdequacyProofs.
Theorem C08_spec_sorted_window : forall a q mode t a' nq sc,
  a_closed a = false -> a_step (OFindAll q mode) a t a' ->
  normalize_query (mk_query q) = Some nq -> nq_sort nq <> [] ->
  assoc (nq_coll nq) (a_db a) = Some sc ->
  a' = a /\
  exists res l0, t = T_ok (T_of_docs (nq_sort nq) mode res) /\
    res = window (nq_skip nq) (nq_limit nq) l0 /\
    Permutation l0 (filter (sat_opt (nq_crit nq)) (map snd (sc_docs sc))) /\
    StronglySorted (docs_le_nil (nq_sort nq)) l0.
Proof. exact spec_find_all_sorted_window. Qed.
Print Assumptions C08_spec_sorted_window.

Theorem C08_spec_sorted_answers_tie : forall m a q mode1 mode2 t1 a1 t2 a2 nq sc,
  a_closed a = false -> a_step (OFindAll q mode1) a t1 a1 -> a_step (OFindAll q mode2) a t2 a2 ->
  normalize_query (mk_query q) = Some nq -> nq_sort nq <> [] ->
  assoc (nq_coll nq) (a_db a) = Some sc ->
  (forall d, In d (map snd (sc_docs sc)) -> sat_opt (nq_crit nq) d = true -> doc_regime m (nq_sort nq) d) ->
  exists res1 res2,
    t1 = T_ok (T_of_docs (nq_sort nq) mode1 res1) /\ t2 = T_ok (T_of_docs (nq_sort nq) mode2 res2) /\
    length res1 = length res2 /\
    Forall2 (fun x y => docs_le_nil (nq_sort nq) x y /\ docs_le_nil (nq_sort nq) y x) res1 res2.
Proof. exact spec_find_all_sorted_answers_tie. Qed.
Print Assumptions C08_spec_sorted_answers_tie.

Theorem C08_spec_ties_need_regime :
  exists t1 t2 res1 res2,
    a_step (OFindAll tw_q 2) tw_a t1 tw_a /\ a_step (OFindAll tw_q 2) tw_a t2 tw_a /\
    t1 = T_ok (T_of_docs [(RProofs.ex_f, 1)] 2 res1) /\ t2 = T_ok (T_of_docs [(RProofs.ex_f, 1)] 2 res2) /\
    t1 <> t2 /\
    ~ Forall2 (fun x y => docs_le_nil [(RProofs.ex_f, 1)] x y /\ docs_le_nil [(RProofs.ex_f, 1)] y x) res1 res2.
Proof. exact spec_sorted_ties_need_regime. Qed.
Print Assumptions C08_spec_ties_need_regime.

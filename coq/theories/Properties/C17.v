(* C17 — index range scans: range algebra (intersection and emptiness). Then scan exactness: in a store that
   refines S, with no fault and a pure consumer. [in_range r v]: the set of values a scan over r visits. *)
From Clover Require Import PureRun RangeProofs ScanProofs.

Theorem C17_intersect_sound : forall m r1 r2 v, regime m v = true ->
  regime m (r_start r1) = true -> regime m (r_end r1) = true ->
  regime m (r_start r2) = true -> regime m (r_end r2) = true ->
  in_range r1 v = true -> in_range r2 v = true -> in_range (range_intersect r1 r2) v = true.
Proof. exact intersect_sound. Qed.
Print Assumptions C17_intersect_sound.

(* a range with a bounded end is reported empty only if no value can lie in it *)
Theorem C17_empty_sound : forall m r v, regime m v = true ->
  regime m (r_start r) = true -> regime m (r_end r) = true ->
  end_bounded r = true -> range_is_empty r = true -> in_range r v = false.
Proof. exact empty_sound_bounded. Qed.
Print Assumptions C17_empty_sound.

(* exact characterisation of what "reported empty" means for every range *)
Theorem C17_empty_characterised : forall m r v, regime m v = true ->
  regime m (r_start r) = true -> regime m (r_end r) = true -> range_is_empty r = true ->
  in_range r v = (is_nilv (r_end r) && above (r_start r) (r_sinc r) v)%bool.
Proof. exact empty_in_range_char. Qed.
Print Assumptions C17_empty_characterised.

(* with a nil end bound read as "unbounded", {3, nil, incl, incl} is reported empty although values lie
   above 3: the code reads an INCLUDED nil end as the value nil (then [3, nil] is indeed empty) *)
Theorem C17_empty_unbounded_reading_refuted : exists m r v, regime m v = true /\
  regime m (r_start r) = true /\ regime m (r_end r) = true /\ range_is_empty r = true /\ in_range r v = true.
Proof. exact empty_sound_refuted. Qed.
Print Assumptions C17_empty_unbounded_reading_refuted.

Theorem C17_nil_only_range : forall r v, range_is_nil r = true -> (in_range r v = true <-> compare v VNil = Eq).
Proof. exact in_range_nil. Qed.
Print Assumptions C17_nil_only_range.

(* ---- scan exactness ---- *)
(* A range scan visits exactly the documents whose indexed value lies in the range, once each, in index
   order (ascending, or descending when reversed), re-applying the filter, and stops when the consumer asks
   (fold_pure stops at the consumer's false) — for every range not reported empty, both directions,
   inclusive/exclusive/open ends and the nil-only range. *)
Theorem C17_scan_exact : forall db c sc f B (g : obj -> B -> B * bool) flt r reverse b s,
  wf_db db -> assoc c db = Some sc -> In f (sc_idx sc) -> idx_dom f sc ->
  key_dom (r_start r) = true -> key_dom (r_end r) = true -> range_is_empty r = false ->
  R db (view s) -> fault s = None ->
  runs_to (idx_iterate_range (on_index_id c flt (pure_cons g)) c f r reverse b) s
    (fold_pure g (filter (sat_opt flt) (filter (fun d => in_range r (doc_get f d)) (docs_by_idx c f reverse sc))) b).
Proof. exact idx_iterate_range_pure. Qed.
Print Assumptions C17_scan_exact.

Theorem C17_scan_of_empty_range : forall A (on_id : bytes -> A -> M (A * bool)) c f r reverse a,
  range_is_empty r = true -> idx_iterate_range on_id c f r reverse a = ret a.
Proof. exact idx_iterate_range_empty. Qed.
Print Assumptions C17_scan_of_empty_range.

(* a full index iteration yields every document of the collection once, in index order *)
Theorem C17_iterate_all : forall db c sc f B (g : obj -> B -> B * bool) flt reverse b s,
  wf_db db -> assoc c db = Some sc -> In f (sc_idx sc) -> R db (view s) -> fault s = None ->
  runs_to (idx_iterate (on_index_id c flt (pure_cons g)) c f reverse b) s
    (fold_pure g (filter (sat_opt flt) (docs_by_idx c f reverse sc)) b).
Proof. exact idx_iterate_pure. Qed.
Print Assumptions C17_iterate_all.
Theorem C17_iterate_all_is_permutation : forall c f rv sc, Permutation (docs_by_idx c f rv sc) (map snd (sc_docs sc)).
Proof. exact docs_by_idx_perm. Qed.
Print Assumptions C17_iterate_all_is_permutation.

(* index order is value order (inside the key domain), ascending and descending *)
Theorem C17_ascending : forall c f sc, idx_dom f sc ->
  StronglySorted (fun a b => compare (doc_get f a) (doc_get f b) <> Gt) (docs_by_idx c f false sc).
Proof. exact docs_by_idx_sorted. Qed.
Print Assumptions C17_ascending.
Theorem C17_descending : forall c f sc, idx_dom f sc ->
  StronglySorted (fun a b => compare (doc_get f b) (doc_get f a) <> Gt) (docs_by_idx c f true sc).
Proof. exact docs_by_idx_sorted_rev. Qed.
Print Assumptions C17_descending.

(* ---- against the MEANING of a range (Spec/RangeSpec.v: a nil bound is a bound only when it is inclusive, i.e. produced by Eq/GtEq/LtEq nil), not only against the scan set in_range ---- *)
From Clover Require Import RangeSpec RangeMeaningProofs.
Theorem C17_empty_sound_meaning : forall m r v,
  regime m v = true -> regime m (r_start r) = true -> regime m (r_end r) = true ->
  c17_range r = true ->
  range_is_empty r = true -> range_denotes r v = false.
Proof. exact empty_sound_c17. Qed.
Print Assumptions C17_empty_sound_meaning.

Theorem C17_empty_sound_all_but_unbounded : forall m r v,
  regime m v = true -> regime m (r_start r) = true -> regime m (r_end r) = true ->
  range_unbounded r = false ->
  range_is_empty r = true -> range_denotes r v = false.
Proof. exact empty_sound_bounded_somewhere. Qed.
Print Assumptions C17_empty_sound_all_but_unbounded.

Theorem C17_empty_full_reading_refuted : exists m r v,
  regime m v = true /\ regime m (r_start r) = true /\ regime m (r_end r) = true /\
  range_is_empty r = true /\ range_denotes r v = true.
Proof. exact empty_sound_full_refuted. Qed.
Print Assumptions C17_empty_full_reading_refuted.

Theorem C17_meaning_within_scan : forall r v, range_denotes r v = true -> in_range r v = true.
Proof. exact denotes_in_range. Qed.
Print Assumptions C17_meaning_within_scan.

Theorem C17_scan_is_meaning : forall m r v,
  regime m v = true -> regime m (r_start r) = true -> regime m (r_end r) = true ->
  c17_range r = true -> range_is_empty r = false -> in_range r v = range_denotes r v.
Proof. exact in_range_denotes_c17. Qed.
Print Assumptions C17_scan_is_meaning.

Theorem C17_scan_is_meaning_needs_dom_refuted : exists m r v,
  regime m v = true /\ regime m (r_start r) = true /\ regime m (r_end r) = true /\
  c17_range r = false /\ range_is_empty r = false /\
  in_range r v = true /\ range_denotes r v = false.
Proof. exact in_range_denotes_refuted. Qed.
Print Assumptions C17_scan_is_meaning_needs_dom_refuted.

Theorem C17_scan_exact_meaning :
  forall m db c sc f B (g : obj -> B -> B * bool) (flt : option ncrit) r reverse (b : B) s,
  wf_db db -> assoc c db = Some sc -> In f (sc_idx sc) -> idx_dom f sc ->
  key_dom (r_start r) = true -> key_dom (r_end r) = true ->
  c17_range r = true ->
  (forall id d, In (id, d) (sc_docs sc) -> regime m (doc_get f d) = true) ->
  regime m (r_start r) = true -> regime m (r_end r) = true ->
  R db (view s) -> fault s = None ->
  runs_to (idx_iterate_range (on_index_id c flt (pure_cons g)) c f r reverse b) s
    (fold_pure g (filter (sat_opt flt)
       (filter (fun d => range_denotes r (doc_get f d)) (docs_by_idx c f reverse sc))) b).
Proof. exact scan_exact_c17. Qed.
Print Assumptions C17_scan_exact_meaning.

Theorem C17_intersect_sound_meaning : forall m r1 r2 v,
  regime m v = true ->
  regime m (r_start r1) = true -> regime m (r_end r1) = true ->
  regime m (r_start r2) = true -> regime m (r_end r2) = true ->
  range_denotes r1 v = true -> range_denotes r2 v = true ->
  in_range (range_intersect r1 r2) v = true.
Proof. exact intersect_sound_denotes. Qed.
Print Assumptions C17_intersect_sound_meaning.

(* C12 — _id is a unique, immutable key. Stated against the abstract database S through the refinement
   relation R (SpecDB.v): the model's store stays equal to what S denotes, and S's operations have the
   key properties by construction; the theorems below are the refinement steps and S-level facts. *)
From Clover Require Import PureRun RProofs WriteProofs.

(* Insert: missing collection / duplicate (stored or earlier in the batch) / invalid document are errors
   that change nothing; otherwise exactly the batch is added under the documents' own ids *)
Theorem C12_insert_refines : forall db s c docs, wf_db db -> R db s -> no_semi c = true -> docs_have_ids docs ->
  let out := with_tx (insert_tx c docs) None (mkDb s false) in
  match s_insert c docs db with
  | Ok db' => o_res out = Ok tt /\ R db' (durable (o_db out))
  | Err e => o_res out = Err e /\ o_db out = mkDb s false
  end.
Proof. exact insert_refines. Qed.
Print Assumptions C12_insert_refines.

(* what S's insert does: duplicates give ErrDuplicateKey, and a successful batch is appended verbatim *)
Theorem C12_insert_appends : forall docs acc ds, s_insert_docs docs acc = Ok ds ->
  ds = acc ++ map (fun d => (object_id d, d)) docs.
Proof. exact s_insert_docs_eq. Qed.
Print Assumptions C12_insert_appends.
Theorem C12_duplicate_rejected : forall d t acc x, assoc (object_id d) acc = Some x ->
  s_insert_docs (d :: t) acc = Err EDupKey.
Proof. intros d t acc x H. simpl. rewrite H. reflexivity. Qed.
Print Assumptions C12_duplicate_rejected.
Theorem C12_malformed_rejected : forall d t acc, assoc (object_id d) acc = None -> validate d = false ->
  s_insert_docs (d :: t) acc = Err EOther.
Proof. intros d t acc H V. simpl. rewrite H, V. reflexivity. Qed.
Print Assumptions C12_malformed_rejected.

(* UpdateById / ReplaceById / Save: only the addressed document changes, its _id cannot change *)
Theorem C12_update_refines : forall db s c id u, wf_db db -> R db s -> no_semi c = true ->
  let out := with_tx (update_by_id_tx c id u) None (mkDb s false) in
  match s_update_by_id c id u db with
  | Ok db' => o_res out = Ok tt /\ R db' (durable (o_db out))
  | Err e => o_res out = Err e /\ o_db out = mkDb s false
  end.
Proof. exact update_by_id_refines. Qed.
Print Assumptions C12_update_refines.
Theorem C12_id_rewrite_rejected : forall c id u db sc d d', assoc c db = Some sc -> assoc id (sc_docs sc) = Some d ->
  apply_updater u d = Some d' -> beqb (object_id d') id = false -> s_update_by_id c id u db = Err EOther.
Proof. intros c id u db sc d d' H1 H2 H3 H4. unfold s_update_by_id. rewrite H1, H2, H3, H4. reflexivity. Qed.
Print Assumptions C12_id_rewrite_rejected.

(* FindById(c, id) only ever returns a document whose _id is id, in every well-formed state *)
Theorem C12_findbyid_id : forall db s c id d, wf_db db -> R db s -> no_semi c = true ->
  o_res (with_tx (find_by_id_tx c id) None (mkDb s false)) = Ok (Some d) -> object_id d = id.
Proof.
  intros db s c id d Hwf HR Hc H.
  destruct (find_by_id_refines db s c id Hwf HR Hc) as [E _]. rewrite E in H.
  destruct (assoc c db) as [sc|] eqn:Ec; [|discriminate].
  inversion H as [H']. eapply wf_doc_object_id; eauto.
Qed.
Print Assumptions C12_findbyid_id.

(* well-formedness (unique ids, every document stored under its own canonical id) is preserved *)
Theorem C12_wf_preserved_by_update : forall c id u db db', wf_db db -> s_update_by_id c id u db = Ok db' -> wf_db db'.
Proof. exact wf_s_update_by_id. Qed.
Print Assumptions C12_wf_preserved_by_update.
Theorem C12_wf_preserved_by_insert : forall db c docs db', wf_db db -> docs_have_ids docs -> s_insert c docs db = Ok db' -> wf_db db'.
Proof. intros; eapply wf_s_insert; eauto. Qed.
Print Assumptions C12_wf_preserved_by_insert.

(* ---- over whole histories (HistDom.v: every operation in the domain of the state it is applied to) ---- *)
From Clover Require Import HistDom HistoryProofs.

(* after any history in the domain: ids are unique within a collection and every document is stored under its own _id *)
Theorem C12_ids_unique_after_any_history :
  forall (ops : list op) (db : sdb) (s : kv),
         hist_dom empty_db ops ->
         s = final_store ops ->
         wf_db db ->
         R db s ->
         forall (c : bytes) (sc : scoll),
         assoc c db = Some sc ->
         NoDup (map fst (sc_docs sc)) /\
         (forall (id : bytes) (d : obj), assoc id (sc_docs sc) = Some d -> object_id d = id).
Proof. exact history_ids_unique. Qed.
Print Assumptions C12_ids_unique_after_any_history.


(* ---- read-your-writes consequences of the abstract specification alone, after any history ---- *)
From Clover Require Import CompositeSpec AbstractSpecProofs.
Theorem C12_insert_then_find_by_id : forall ops c d fresh d',
  hist_dom_all empty_db (ops ++ [OInsert c [d] fresh; OFindById c (object_id d')]) ->
  assign_ids [d] fresh = [d'] ->
  exists ts0 t1 t2,
    fst (run_ops empty_db (ops ++ [OInsert c [d] fresh; OFindById c (object_id d')])) = ts0 ++ [t1; t2] /\
    (t1 = T_ok (TL []) -> t2 = T_ok (T_of_opt_doc (Some d'))).
Proof. exact history_insert_then_find_by_id. Qed.
Print Assumptions C12_insert_then_find_by_id.

Theorem C12_delete_then_find_by_id : forall ops c id,
  hist_dom_all empty_db (ops ++ [ODeleteById c id; OFindById c id]) ->
  exists ts0 t1 t2,
    fst (run_ops empty_db (ops ++ [ODeleteById c id; OFindById c id])) = ts0 ++ [t1; t2] /\
    (t1 = T_ok (TL []) -> t2 = T_ok (T_of_opt_doc None)).
Proof. exact history_delete_then_find_by_id. Qed.
Print Assumptions C12_delete_then_find_by_id.

(* ---- adequacy of the abstract specification S (Proofs/SpecAdequacyProofs.v): consequences of a_step alone, no store, model or refinement lemma ---- *)
From Coq Require Import Permutation Sorted.
From Clover Require Import HistoryProofs CompositeSpec CompositeProofs IndexIndepProofs AbstractSpecProofs SpecAdequacyProofs.
Theorem C12_spec_insert_ok : forall c docs fresh a t a' p,
  a_closed a = false -> a_step (OInsert c docs fresh) a t a' -> t = T_ok p ->
  let ds := assign_ids docs fresh in
  exists sc,
    assoc c (a_db a) = Some sc /\
    (* the inserted ids are pairwise distinct and none was present *)
    NoDup (map object_id ds) /\
    (forall d, In d ds -> assoc (object_id d) (sc_docs sc) = None /\ validate d = true) /\
    (* the state afterwards: the batch appended, indexes and the other collections untouched *)
    a_closed a' = false /\
    a_db a' = assoc_set c (mkSC (sc_docs sc ++ map (fun d => (object_id d, d)) ds) (sc_idx sc)) (a_db a) /\
    (* FindById answers that very document for each of them *)
    (forall d t2 a2, In d ds -> a_step (OFindById c (object_id d)) a' t2 a2 ->
       t2 = T_ok (T_of_opt_doc (Some d)) /\ a2 = a') /\
    (* every previously stored document is unchanged *)
    (forall id d0 t2 a2, assoc id (sc_docs sc) = Some d0 -> a_step (OFindById c id) a' t2 a2 ->
       t2 = T_ok (T_of_opt_doc (Some d0)) /\ a2 = a') /\
    (* and nothing else is stored *)
    (forall id t2 a2, assoc id (sc_docs sc) = None -> ~ In id (map object_id ds) ->
       a_step (OFindById c id) a' t2 a2 -> t2 = T_ok (T_of_opt_doc None)).
Proof. exact spec_insert_ok. Qed.
Print Assumptions C12_spec_insert_ok.

Theorem C12_spec_insert_dup : forall c docs fresh a t a' sc,
  a_closed a = false -> a_step (OInsert c docs fresh) a t a' ->
  assoc c (a_db a) = Some sc ->
  let ds := assign_ids docs fresh in
  (~ NoDup (map object_id ds) \/ exists d, In d ds /\ assoc (object_id d) (sc_docs sc) <> None) ->
  a' = a /\ (t = T_err EDupKey \/ t = T_err EOther) /\
  ((forall d, In d ds -> validate d = true) -> t = T_err EDupKey).
Proof. exact spec_insert_dup. Qed.
Print Assumptions C12_spec_insert_dup.

Theorem C12_spec_update_by_id : forall c id u a t a',
  a_closed a = false -> wf_db (a_db a) -> a_step (OUpdateById c id u) a t a' ->
  a_closed a' = false /\
  (forall c0, option_map (fun sc => map fst (sc_docs sc)) (assoc c0 (a_db a')) =
              option_map (fun sc => map fst (sc_docs sc)) (assoc c0 (a_db a))) /\
  (forall sc' d', assoc c (a_db a') = Some sc' -> assoc id (sc_docs sc') = Some d' -> object_id d' = id) /\
  (forall p, t = T_ok p ->
     exists sc d d', assoc c (a_db a) = Some sc /\ assoc id (sc_docs sc) = Some d /\
       apply_updater u d = Some d' /\ object_id d' = id /\ validate d' = true /\
       a_db a' = assoc_set c (mkSC (assoc_set id d' (sc_docs sc)) (sc_idx sc)) (a_db a) /\
       (forall id0, id0 <> id ->
          assoc id0 (assoc_set id d' (sc_docs sc)) = assoc id0 (sc_docs sc))) /\
  (forall e, t = T_err e -> a' = a).
Proof. exact spec_update_by_id. Qed.
Print Assumptions C12_spec_update_by_id.

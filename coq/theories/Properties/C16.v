(* C16 — criteria obey Boolean algebra and literal normalisation. [sat c d] models Criteria.Satisfy. *)
From Clover Require Import Criteria Domains ScanSpec CompareProofs CriteriaProofs.

Theorem C16_not : forall c d, sat (CNot c) d = negb (sat c d).
Proof. exact sat_not. Qed.
Print Assumptions C16_not.
Theorem C16_and : forall a b d, sat (CAnd a b) d = sat a d && sat b d.
Proof. exact sat_and. Qed.
Print Assumptions C16_and.
Theorem C16_or : forall a b d, sat (COr a b) d = sat a d || sat b d.
Proof. exact sat_or. Qed.
Print Assumptions C16_or.
Theorem C16_demorgan_and : forall a b d, sat (CNot (CAnd a b)) d = sat (COr (CNot a) (CNot b)) d.
Proof. exact sat_demorgan_and. Qed.
Print Assumptions C16_demorgan_and.
Theorem C16_demorgan_or : forall a b d, sat (CNot (COr a b)) d = sat (CAnd (CNot a) (CNot b)) d.
Proof. exact sat_demorgan_or. Qed.
Print Assumptions C16_demorgan_or.
Theorem C16_dneg : forall c d, sat (CNot (CNot c)) d = sat c d.
Proof. exact sat_dneg. Qed.
Print Assumptions C16_dneg.

(* Neq is the negation of Eq; an absent field fails Eq and therefore satisfies Neq *)
Theorem C16_neq : forall f v d, sat (CNeq f v) d = negb (sat (CCmp OEq f v) d).
Proof. exact sat_neq. Qed.
Print Assumptions C16_neq.
Theorem C16_neq_absent : forall f v d, doc_has f d = false -> sat (CNeq f v) d = true.
Proof. exact sat_neq_absent. Qed.
Print Assumptions C16_neq_absent.

(* In = some operand compares equal to the field value (absent read as nil) *)
Theorem C16_in : forall f vs d, sat (CIn f vs) d = true <->
  exists v, In v vs /\ compare (field_or_value d v) (doc_get f d) = Eq.
Proof. exact sat_in_exists. Qed.
Print Assumptions C16_in.
Theorem C16_in_singleton_is_eq : forall f v d, doc_has f d = true -> sat (CIn f [v]) d = sat (CCmp OEq f v) d.
Proof. exact sat_in_singleton. Qed.
Print Assumptions C16_in_singleton_is_eq.
Theorem C16_in_app : forall f l1 l2 d, sat (CIn f (l1 ++ l2)) d = sat (CIn f l1) d || sat (CIn f l2) d.
Proof. exact sat_in_app. Qed.
Print Assumptions C16_in_app.

(* Contains = every operand occurs in the array field *)
Theorem C16_contains : forall f vs d l, doc_get f d = VArr l ->
  (sat (CContains f vs) d = true <-> forall v, In v vs -> exists x, In x l /\ compare (field_or_value d v) x = Eq).
Proof. exact sat_contains_forall. Qed.
Print Assumptions C16_contains.
Theorem C16_contains_nonarray : forall f vs d, (forall l, doc_get f d <> VArr l) -> sat (CContains f vs) d = false.
Proof. exact sat_contains_nonarray. Qed.
Print Assumptions C16_contains_nonarray.

Theorem C16_exists : forall f d, sat (CExists f) d = doc_has f d.
Proof. exact sat_exists. Qed.
Print Assumptions C16_exists.
Theorem C16_notexists : forall f d, sat (CNot (CExists f)) d = negb (doc_has f d).
Proof. exact sat_notexists. Qed.
Print Assumptions C16_notexists.

(* ordering comparisons read an absent field as nil; Eq fails on an absent field *)
Theorem C16_cmp_absent : forall o f v d, o <> OEq -> doc_has f d = false ->
  sat (CCmp o f v) d = cmp_holds o (compare VNil (field_or_value d v)).
Proof. exact sat_cmp_absent. Qed.
Print Assumptions C16_cmp_absent.
Theorem C16_eq_absent : forall f v d, doc_has f d = false -> sat (CCmp OEq f v) d = false.
Proof. exact sat_eq_absent. Qed.
Print Assumptions C16_eq_absent.
Theorem C16_lt_ge : forall f v d, sat (CCmp OLt f v) d = negb (sat (CCmp OGtEq f v) d).
Proof. exact sat_lt_ge. Qed.
Print Assumptions C16_lt_ge.
Theorem C16_gt_le : forall f v d, sat (CCmp OGt f v) d = negb (sat (CCmp OLtEq f v) d).
Proof. exact sat_gt_le. Qed.
Print Assumptions C16_gt_le.

(* literal normalisation: every Go numeric kind of the same number gives the same criteria ... *)
Theorem C16_literal_go_kind : forall o f b1 b2 z,
  norm_crit (CCmp o f (OLit (GInt b1 z))) = norm_crit (CCmp o f (OLit (GInt b2 z))).
Proof. exact norm_crit_int_kinds. Qed.
Print Assumptions C16_literal_go_kind.
(* ... and literals that compare equal (int 5, uint 5, 5.0) are satisfied by the same documents *)
Theorem C16_literal_kind_invariant : forall o f x y d,
  cmp_dom3 (doc_get f d) x y = true -> compare x y = Eq ->
  sat (CCmp o f (OLit x)) d = sat (CCmp o f (OLit y)) d.
Proof. exact sat_cmp_literal_cong_any. Qed.
Print Assumptions C16_literal_kind_invariant.
Theorem C16_in_literal_kind_invariant : forall f pre post x y d, lit_plain x = true -> lit_plain y = true ->
  cmp_dom3 (doc_get f d) x y = true -> compare x y = Eq ->
  sat (CIn f (pre ++ OLit x :: post)) d = sat (CIn f (pre ++ OLit y :: post)) d.
Proof. exact sat_in_literal_cong. Qed.
Print Assumptions C16_in_literal_kind_invariant.

(* field operands read the document under test, an absent referenced field as nil *)
Theorem C16_field_ref : forall f d, field_or_value d (ORef f) = doc_get f d.
Proof. exact field_or_value_ref. Qed.
Print Assumptions C16_field_ref.
Theorem C16_dollar_ref : forall f d, field_or_value d (OLit (VStr (36%N :: f))) = doc_get (trim_dollars f) d.
Proof. exact field_or_value_dollar. Qed.
Print Assumptions C16_dollar_ref.
Theorem C16_ref_absent : forall o f g d, o <> OEq -> doc_has g d = false ->
  sat (CCmp o f (ORef g)) d = cmp_holds o (compare (doc_get f d) VNil).
Proof. exact sat_cmp_ref_absent. Qed.
Print Assumptions C16_ref_absent.

(* C10 — total preorder on values; index keys sort in that order.
   Statements only: each is closed by [exact] of a lemma proved in Proofs/. *)
From Clover Require Import Index Domains BytesProofs CompareProofs OrderedCodeProofs CodeProofs.
Open Scope Z_scope.

(* compare is reflexive, antisymmetric (as a sign), and transitive on the compare domain *)
Theorem C10_refl : forall v, compare v v = Eq.
Proof. exact compare_refl. Qed.
Print Assumptions C10_refl.

Theorem C10_antisym : forall a b, compare b a = CompOpp (compare a b).
Proof. exact compare_antisym. Qed.
Print Assumptions C10_antisym.

Theorem C10_trans : forall c0 a b c, cmp_dom3 a b c = true ->
  compare a b = c0 -> compare b c = c0 -> compare a c = c0.
Proof. exact compare_trans. Qed.
Print Assumptions C10_trans.

Theorem C10_eq_cong : forall a b c, cmp_dom3 a b c = true -> compare a b = Eq -> compare a c = compare b c.
Proof. exact compare_eq_cong. Qed.
Print Assumptions C10_eq_cong.

Theorem C10_le_trans : forall a b c, cmp_dom3 a b c = true ->
  compare a b <> Gt -> compare b c <> Gt -> compare a c <> Gt.
Proof. exact compare_le_trans. Qed.
Print Assumptions C10_le_trans.

(* types rank nil < number < string < object < array < bool < time *)
Theorem C10_type_rank : forall a b, type_id a < type_id b -> compare a b = Lt.
Proof. exact compare_type_rank. Qed.
Print Assumptions C10_type_rank.

(* numbers compare by exact value across int64 / uint64 / float64 *)
Theorem C10_numeric_by_value : forall a b, is_number a = true -> is_number b = true ->
  small_ints a = true -> small_ints b = true -> num_ok a = true -> num_ok b = true ->
  compare a b = Z.compare (nden a) (nden b).
Proof. exact compare_numbers_by_value. Qed.
Print Assumptions C10_numeric_by_value.

Theorem C10_string_bytewise : forall s1 s2, compare (VStr s1) (VStr s2) = lex s1 s2.
Proof. exact compare_string_bytewise. Qed.
Print Assumptions C10_string_bytewise.

Theorem C10_array_lex : forall x y t1 t2,
  compare (VArr (x :: t1)) (VArr (y :: t2)) = cmp_then (compare x y) (compare (VArr t1) (VArr t2)).
Proof. exact compare_array_lex. Qed.
Print Assumptions C10_array_lex.

Theorem C10_object_lex : forall k1 x k2 y t1 t2,
  compare (VObj ((k1, x) :: t1)) (VObj ((k2, y) :: t2)) =
  cmp_then (lex k1 k2) (cmp_then (compare x y) (compare (VObj t1) (VObj t2))).
Proof. exact compare_object_lex. Qed.
Print Assumptions C10_object_lex.

(* inside the key domain, the bytes of index keys sort exactly like compare, ids breaking ties;
   the law is a composition law, so it also gives prefix-freeness *)
Theorem C10_key_order : forall c f a b ida idb, key_dom a = true -> key_dom b = true ->
  lex (idx_value_key c f a ++ ida) (idx_value_key c f b ++ idb) = cmp_then (compare a b) (lex ida idb).
Proof. exact idx_key_law. Qed.
Print Assumptions C10_key_order.

Theorem C10_key_eq : forall c f a b, key_dom a = true -> key_dom b = true ->
  compare a b = Eq -> idx_value_key c f a = idx_value_key c f b.
Proof. exact idx_key_eq. Qed.
Print Assumptions C10_key_eq.

Theorem C10_key_prefix_free : forall c f a b r, key_dom a = true -> key_dom b = true ->
  idx_value_key c f a ++ r = idx_value_key c f b -> compare a b = Eq.
Proof. exact idx_key_prefix_free. Qed.
Print Assumptions C10_key_prefix_free.

Theorem C10_nested_code_order : forall a b x y, key_dom a = true -> key_dom b = true ->
  lex (ordered_code a true ++ x) (ordered_code b true ++ y) = cmp_then (compare a b) (lex x y).
Proof. exact ordered_code_law. Qed.
Print Assumptions C10_nested_code_order.

(* non-vacuity: values of different Go kinds that compare equal share a key; the domains are inhabited *)
Example C10_nonvacuous :
  cmp_dom3 (VInt 1) (VFloat 4607182418800017408) (VUint 1) = true /\
  key_dom (VInt 1) = true /\ key_dom (VFloat 4607182418800017408) = true /\
  compare (VInt 1) (VFloat 4607182418800017408) = Eq.
Proof. vm_compute. repeat split; reflexivity. Qed.

(* outside the key domain the key order does NOT follow compare (encoding through float64 /
   uint64 nanoseconds): the reason C02/C08/C17 carry the key_dom guard *)
Theorem C10_key_order_outside_dom_refuted :
  exists a b, compare a b = Lt /\ idx_value_key [99%N] [97%N] a = idx_value_key [99%N] [97%N] b.
Proof. exists (VInt 9007199254740992), (VInt 9007199254740993). vm_compute. split; reflexivity. Qed.
Print Assumptions C10_key_order_outside_dom_refuted.

(* ---- the MAXIMAL key domain (Proofs/KeyDomainProofs.v): the key laws hold for every integer whose conversion to float64 is exact
   (2^60, 2^63, 2^53+2, ... not only |z| <= 2^53), and for no other: an int64 outside it shares its key with a different integer. This is the
   exact extent of the known finding K-float-key. (The 1024 largest uint64 round up to 2^64, which is no uint64: they collide only with one
   another.) ---- *)
From Clover Require Import KeyDomainProofs.
Theorem C10_key_order_maximal_domain : forall c f a b ida idb,
  key_dom_x a = true -> key_dom_x b = true ->
  lex (idx_value_key c f a ++ ida) (idx_value_key c f b ++ idb)
  = cmp_then (compare a b) (lex ida idb).
Proof. exact idx_key_law_x. Qed.
Print Assumptions C10_key_order_maximal_domain.

Theorem C10_key_eq_maximal_domain : forall c f a b,
  key_dom_x a = true -> key_dom_x b = true -> compare a b = Eq ->
  idx_value_key c f a = idx_value_key c f b.
Proof. exact idx_key_eq_x. Qed.
Print Assumptions C10_key_eq_maximal_domain.

Theorem C10_key_prefix_free_maximal_domain : forall c f a b r,
  key_dom_x a = true -> key_dom_x b = true ->
  idx_value_key c f a ++ r = idx_value_key c f b -> compare a b = Eq.
Proof. exact idx_key_prefix_free_x. Qed.
Print Assumptions C10_key_prefix_free_maximal_domain.

Theorem C10_key_dom_within_maximal_domain : forall v, wf_value v = true -> key_dom v = true -> key_dom_x v = true.
Proof. exact key_dom_key_dom_x. Qed.
Print Assumptions C10_key_dom_within_maximal_domain.

Theorem C10_exact_int_examples :
  exact_int (2 ^ 60) = true /\ exact_int (2 ^ 63) = true /\ exact_int (- (2 ^ 62)) = true /\
  exact_int (2 ^ 53 + 2) = true /\ exact_int (2 ^ 53 + 1) = false /\ exact_int (2 ^ 64 - 1) = false.
Proof. exact exact_int_examples. Qed.
Print Assumptions C10_exact_int_examples.

Theorem C10_inexact_int_collides : forall z, int64_ok z = true -> exact_int z = false ->
  exists b, key_dom_x b = true /\
    idx_value_key [99%N] [97%N] (VInt z) = idx_value_key [99%N] [97%N] b /\
    compare (VInt z) b <> Eq.
Proof. exact inexact_int_collides. Qed.
Print Assumptions C10_inexact_int_collides.

Theorem C10_inexact_uint_collides : forall z, uint64_ok z = true -> exact_int z = false ->
  z < two64 - 1024 ->
  exists b, key_dom_x b = true /\
    idx_value_key [99%N] [97%N] (VUint z) = idx_value_key [99%N] [97%N] b /\
    compare (VUint z) b <> Eq.
Proof. exact inexact_uint_collides. Qed.
Print Assumptions C10_inexact_uint_collides.

Theorem C10_int_domain_characterised : forall c f z, int64_ok z = true ->
  (key_dom_x (VInt z) = true <-> key_faithful c f (VInt z)).
Proof. exact int_domain_characterised. Qed.
Print Assumptions C10_int_domain_characterised.

(* C04 — a failed operation leaves no trace; a store failure is always reported.
   The store-call fault position is carried by the run state [st] ([r_fault]); every fallible store call
   (begin, get, set, delete, cursor, cursor item read, commit) is a fault point. *)
From Clover Require Import TxSpec TxProofs.

(* Every single-transaction public operation, from any state, with the fault at any position (or none),
   and for invalid input alike: an error result means the database is exactly what it was. *)
Theorem C04_error_no_effect : forall o st, single_tx o = true ->
  T_is_err (fst (exec_op o st)) = true -> r_db (snd (exec_op o st)) = r_db st.
Proof. exact exec_op_error_no_effect. Qed.
Print Assumptions C04_error_no_effect.

(* A store failure is never swallowed into a success — for every operation, composites included. *)
Theorem C04_fault_reported : forall o st, r_fired st = false ->
  r_fired (snd (exec_op o st)) = true -> T_is_err (fst (exec_op o st)) = true.
Proof. exact exec_op_fault_reported. Qed.
Print Assumptions C04_fault_reported.

(* the structural fact behind both: a transaction body can only have committed if it returns Ok *)
Theorem C04_transaction_level : forall A (body : M A) f db, commit_last body ->
  is_err (o_res (with_tx body f db)) = true -> o_db (with_tx body f db) = db.
Proof. exact with_tx_error_no_effect. Qed.
Print Assumptions C04_transaction_level.

Theorem C04_write_bodies_commit_last :
  (forall c, commit_last (create_collection_tx c)) /\
  (forall c docs, commit_last (insert_tx c docs)) /\
  (forall c id, commit_last (delete_by_id_tx c id)) /\
  (forall c id u, commit_last (update_by_id_tx c id u)) /\
  (forall q u, commit_last (update_tx q u)) /\
  (forall c, commit_last (drop_collection_tx c)) /\
  (forall c f, commit_last (create_index_tx c f)) /\
  (forall c f, commit_last (drop_index_tx c f)).
Proof. exact write_bodies_commit_last. Qed.
Print Assumptions C04_write_bodies_commit_last.

(* Known finding K-composite: ImportCollection and CreateCollectionByQuery are several transactions;
   a failure after the first leaves the freshly created collection behind. *)
Theorem C04_import_not_atomic_refuted : exists c file st,
  T_is_err (fst (exec_op (OImport c file) st)) = true /\
  r_db (snd (exec_op (OImport c file) st)) <> r_db st.
Proof. exact import_not_atomic_refuted. Qed.
Print Assumptions C04_import_not_atomic_refuted.

Theorem C04_create_by_query_not_atomic_refuted : exists c q st,
  T_is_err (fst (exec_op (OCreateByQuery c q) st)) = true /\
  r_db (snd (exec_op (OCreateByQuery c q) st)) <> r_db st.
Proof. exact create_by_query_not_atomic_refuted. Qed.
Print Assumptions C04_create_by_query_not_atomic_refuted.

(* ---- over whole histories (HistDom.v: every operation in the domain of the state it is applied to) ---- *)
From Clover Require Import HistDom HistoryProofs.

(* in every state of every history: an error result leaves the handle exactly as it was *)
Theorem C04_errors_no_effect_along_histories :
  forall (h : dbst) (o : op),
         single_tx o = true -> T_is_err (fst (step h o)) = true -> snd (step h o) = h.
Proof. exact history_errors_no_effect. Qed.
Print Assumptions C04_errors_no_effect_along_histories.


(* ---- K-composite characterised: the state after a failed composite is exactly the one s_import / the statement below describe (an empty new collection at most), and it still refines a well-formed database ---- *)
From Clover Require Import QueryProofs CompositeSpec CompositeProofs.
Theorem C04_failed_import_leaves_exactly_this : forall db h c file,
  wf_db db -> R db (durable h) -> closed h = false -> op_dom_all db (OImport c file) ->
  let '(r, db') := s_import c file db in
  fst (step h (OImport c file)) = T_unit r /\ wf_db db' /\ R db' (durable (snd (step h (OImport c file)))).
Proof. exact import_refines. Qed.
Print Assumptions C04_failed_import_leaves_exactly_this.

Theorem C04_failed_create_by_query_leaves_exactly_this : forall db h c q,
  wf_db db -> R db (durable h) -> closed h = false -> op_dom_all db (OCreateByQuery c q) ->
  exists db', wf_db db' /\ R db' (durable (snd (step h (OCreateByQuery c q)))) /\
    match assoc c db with
    | Some _ => fst (step h (OCreateByQuery c q)) = T_err ECollExist /\ db' = db
    | None =>
        (forall c', c' <> c -> assoc c' db' = assoc c' db) /\
        match normalize_query (mk_query q) with
        | None => fst (step h (OCreateByQuery c q)) = T_err EOther /\ assoc c db' = Some (mkSC [] [])
        | Some nq =>
            match assoc (nq_coll nq) db with
            | None => (* the source does not exist (it may be c itself, just created and empty) *)
                assoc c db' = Some (mkSC [] [])
            | Some sc =>
                fst (step h (OCreateByQuery c q)) = T_ok (TL []) /\
                exists res sc', find_ok' (map snd (sc_docs sc)) nq res /\ assoc c db' = Some sc' /\
                                sc_idx sc' = [] /\ Permutation (map snd (sc_docs sc')) res
            end
        end
    end.
Proof. exact create_by_query_refines. Qed.
Print Assumptions C04_failed_create_by_query_leaves_exactly_this.

(* ---- history level, every operation of the API, every call position (Proofs/CrashInvProofs.v): a store failure (C04) or a crash (C05) while store call k of the next operation is in flight — the same execution in the model: whatever the in-flight transaction has not committed is discarded — leaves a store that still refines a well-formed abstract database (documents, index entries, counts and catalog mutually consistent, no rebuild); for single-transaction operations it is exactly the state before or after; the history can go on after reopening; a fault that fired is always reported ---- *)
From Clover Require Import HistoryProofs CompositeSpec CompositeProofs CrashInvProofs.
Theorem C04_fault_after_any_history_keeps_invariant : forall ops o k,
  hist_dom_all empty_db (ops ++ [o]) ->
  exists db, wf_db db /\
    R db (durable (r_db (snd (exec_op o (fresh_rstate (snd (run_ops empty_db ops)) (Some k)))))).
Proof. exact fault_after_history_keeps_invariant. Qed.
Print Assumptions C04_fault_after_any_history_keeps_invariant.

Theorem C04_fault_keeps_refinement : forall db h o k,
  wf_db db -> Rdb' db h -> (closed h = false -> op_dom_all db o) ->
  exists db', wf_db db' /\ Rdb' db' (r_db (snd (exec_op o (fresh_rstate h (Some k))))).
Proof. exact fault_keeps_refinement. Qed.
Print Assumptions C04_fault_keeps_refinement.

Theorem C04_fault_fired_reported_every_operation : forall h o k,
  r_fired (snd (exec_op o (fresh_rstate h (Some k)))) = true ->
  T_is_err (fst (exec_op o (fresh_rstate h (Some k)))) = true.
Proof. exact fault_fired_reported_all. Qed.
Print Assumptions C04_fault_fired_reported_every_operation.

(* C01 — queries return exactly the documents that satisfy their criteria. Ingredients proved so far:
   every input scan (full collection, whole index, index range) feeds exactly the documents of the
   collection that pass the re-applied criteria, once each (here); the end-to-end FindAll theorems against
   the abstract database are added from QueryProofs. Criteria semantics: C16; value order: C10. *)
From Clover Require Import PureRun ScanProofs VisitProofs.

(* a full collection scan visits every stored document of the collection once, in id order, and passes on
   exactly those satisfying the criteria *)
Theorem C01_full_scan_exact : forall db c sc B (g : obj -> B -> B * bool) flt b s,
  wf_db db -> assoc c db = Some sc -> R db (view s) -> fault s = None ->
  runs_to (full_scan c flt (pure_cons g) b) s (fold_pure g (filter (sat_opt flt) (docs_by_id sc)) b).
Proof. exact full_scan_pure. Qed.
Print Assumptions C01_full_scan_exact.
Theorem C01_full_scan_covers_collection : forall db c sc, wf_db db -> assoc c db = Some sc ->
  Permutation (docs_by_id sc) (map snd (sc_docs sc)).
Proof. exact docs_by_id_perm. Qed.
Print Assumptions C01_full_scan_covers_collection.

(* whichever input node the planner picks, it feeds the filtered documents of a list drawn from the
   collection (no foreign or stale document can appear) *)
Theorem C01_any_input_node : forall db c sc iq B (g : obj -> B -> B * bool) flt b s,
  wf_db db -> assoc c db = Some sc -> input_ok sc iq -> R db (view s) -> fault s = None ->
  runs_to (run_input c flt iq (pure_cons g) b) s (fold_pure g (filter (sat_opt flt) (input_docs c sc iq)) b).
Proof. exact run_input_pure. Qed.
Print Assumptions C01_any_input_node.
Theorem C01_inputs_are_stored_documents : forall c sc iq d, In d (input_docs c sc iq) -> In d (map snd (sc_docs sc)).
Proof. exact input_docs_In. Qed.
Print Assumptions C01_inputs_are_stored_documents.

(* and the range chosen by the planner never excludes a satisfying document *)
Theorem C01_planner_loses_nothing : forall m c sort idx f r rv b d,
  try_select_index (Some c) sort idx = (Some (IQRange f r rv), b) ->
  crit_lits_ok (regime m) c = true -> regime m (doc_get f d) = true ->
  sat c d = true -> in_range r (doc_get f d) = true.
Proof. exact try_select_index_sound. Qed.
Print Assumptions C01_planner_loses_nothing.

(* ---- end-to-end theorems against the abstract database (refinement R, SpecDB.v) ---- *)
From Coq Require Import ZArith List.
From Clover Require Import QueryDom QueryProofs BulkProofs OpProofs.

(* FindAll without sort/window returns exactly the stored documents of the collection that satisfy the criteria: a permutation of the filter *)
Theorem C01_find_all_exact :
  forall (m : bool) (db : sdb) (s : kv) (q : nquery) (sc : scoll),
         wf_db db ->
         R db s ->
         assoc (nq_coll q) db = Some sc ->
         coll_dom m sc ->
         crit_dom m (nq_crit q) ->
         Z.le Z0 (nq_skip q) ->
         nq_sort q = nil ->
         unwindowed q ->
         exists res : list obj,
           o_res (with_tx (find_all_tx q) None {| durable := s; closed := false |}) = Ok res /\
           Permutation res (filter (sat_opt (nq_crit q)) (map snd (sc_docs sc))).
Proof. exact find_all_exact. Qed.
Print Assumptions C01_find_all_exact.

(* for ANY query (sorted, windowed or not): no document twice *)
Theorem C01_each_document_once :
  forall (m : bool) (db : sdb) (s : kv) (q : nquery) (sc : scoll) (res : list obj),
         wf_db db ->
         R db s ->
         assoc (nq_coll q) db = Some sc ->
         coll_dom m sc ->
         crit_dom m (nq_crit q) ->
         o_res (with_tx (find_all_tx q) None {| durable := s; closed := false |}) = Ok res ->
         NoDup (map object_id res).
Proof. exact find_all_each_once. Qed.
Print Assumptions C01_each_document_once.

(* ... and only stored documents that satisfy the criteria *)
Theorem C01_nothing_else :
  forall (m : bool) (db : sdb) (s : kv) (q : nquery) (sc : scoll) (res : list obj) (d : obj),
         wf_db db ->
         R db s ->
         assoc (nq_coll q) db = Some sc ->
         coll_dom m sc ->
         crit_dom m (nq_crit q) ->
         o_res (with_tx (find_all_tx q) None {| durable := s; closed := false |}) = Ok res ->
         In d res -> sat_opt (nq_crit q) d = true /\ In d (map snd (sc_docs sc)).
Proof. exact find_all_only_matches. Qed.
Print Assumptions C01_nothing_else.

(* the general form: the result is in the set of acceptable results of the specification (a window of a sorted-or-not permutation of the matches), and the store is unchanged *)
Theorem C01_find_all_meets_spec :
  forall (m : bool) (db : sdb) (s : kv) (q : nquery) (sc : scoll),
         wf_db db ->
         R db s ->
         assoc (nq_coll q) db = Some sc ->
         coll_dom m sc ->
         crit_dom m (nq_crit q) ->
         Z.le Z0 (nq_skip q) ->
         exists res : list obj,
           o_res (with_tx (find_all_tx q) None {| durable := s; closed := false |}) = Ok res /\
           o_db (with_tx (find_all_tx q) None {| durable := s; closed := false |}) =
           {| durable := s; closed := false |} /\ find_ok' (map snd (sc_docs sc)) q res.
Proof. exact find_all_refines. Qed.
Print Assumptions C01_find_all_meets_spec.

Theorem C01_missing_collection :
  forall (db : sdb) (s : kv) (q : nquery),
         wf_db db ->
         R db s ->
         assoc (nq_coll q) db = None ->
         o_res (with_tx (find_all_tx q) None {| durable := s; closed := false |}) = Err ECollNotExist /\
         o_db (with_tx (find_all_tx q) None {| durable := s; closed := false |}) =
         {| durable := s; closed := false |}.
Proof. exact find_all_missing. Qed.
Print Assumptions C01_missing_collection.


(* ---- operation level: FindAll as the harness observes it (rendered result of [step]), after any history of the domain ---- *)
From Clover Require Import HistDom HistoryProofs OpQueryProofs.
Theorem C01_history_find_all : forall ops q mode,
  hist_dom empty_db (ops ++ [OFindAll q mode]) ->
  let h := snd (run_ops empty_db ops) in
  closed h = false ->
  exists db, wf_db db /\ R db (durable h) /\
    match normalize_query (mk_query q) with
    | None => fst (step h (OFindAll q mode)) = T_err EOther
    | Some nq =>
        match assoc (nq_coll nq) db with
        | None => fst (step h (OFindAll q mode)) = T_err ECollNotExist
        | Some sc =>
            exists res,
              fst (step h (OFindAll q mode)) = T_ok (T_of_docs (nq_sort nq) mode res) /\
              find_ok' (map snd (sc_docs sc)) nq res
        end
    end /\
    snd (step h (OFindAll q mode)) = h.
Proof. exact history_find_all. Qed.
Print Assumptions C01_history_find_all.

Theorem C01_history_find_all_exact : forall ops q mode nq,
  hist_dom empty_db (ops ++ [OFindAll q mode]) ->
  let h := snd (run_ops empty_db ops) in
  closed h = false ->
  normalize_query (mk_query q) = Some nq ->
  nq_sort nq = [] -> nq_skip nq = 0 -> nq_limit nq < 0 ->
  exists db, wf_db db /\ R db (durable h) /\
    forall sc, assoc (nq_coll nq) db = Some sc ->
      exists res,
        fst (step h (OFindAll q mode)) = T_ok (T_of_docs [] mode res) /\
        Permutation res (filter (sat_opt (nq_crit nq)) (map snd (sc_docs sc))).
Proof. exact history_find_all_exact. Qed.
Print Assumptions C01_history_find_all_exact.

(* ---- adequacy of the abstract specification S (Proofs/SpecAdequacyProofs.v): consequences of a_step alone, no store, model or refinement lemma ---- *)
From Coq Require Import Permutation Sorted.
From Clover Require Import HistoryProofs CompositeSpec CompositeProofs IndexIndepProofs AbstractSpecProofs SpecAdequacyProofs.
Theorem C01_spec_find_all_exact : forall a q mode t a' nq sc,
  a_closed a = false -> a_step (OFindAll q mode) a t a' ->
  normalize_query (mk_query q) = Some nq -> nq_sort nq = [] -> nq_skip nq = 0 -> nq_limit nq < 0 ->
  assoc (nq_coll nq) (a_db a) = Some sc ->
  a' = a /\
  exists res, t = T_ok (T_of_docs [] mode res) /\
    Permutation res (filter (sat_opt (nq_crit nq)) (map snd (sc_docs sc))).
Proof. exact spec_find_all_exact. Qed.
Print Assumptions C01_spec_find_all_exact.

Theorem C01_spec_order_not_determined :
  exists t1 t2, a_step (OFindAll (RProofs.ex_c, []) 2) ns_a t1 ns_a /\
                a_step (OFindAll (RProofs.ex_c, []) 2) ns_a t2 ns_a /\ t1 <> t2.
Proof. exact spec_find_all_order_not_determined. Qed.
Print Assumptions C01_spec_order_not_determined.

(* C05 — acknowledged operations survive close/reopen and crashes atomically.
   A crash while store call k of an operation is in flight = the fault fires at call k and everything not
   yet committed is discarded. The store's own commit is assumed atomic and durable (contract). *)
From Clover Require Import TxSpec TxProofs.

(* a single-transaction operation interrupted at ANY store call is afterwards entirely absent or
   entirely present (equal to the uninterrupted run) *)
Theorem C05_crash_atomic : forall o db k, single_tx o = true ->
  let st := fresh_rstate db (Some k) in
  r_db (snd (exec_op o st)) = db \/ r_db (snd (exec_op o st)) = snd (step db o).
Proof. exact exec_op_crash_atomic. Qed.
Print Assumptions C05_crash_atomic.

Theorem C05_transaction_level : forall A (body : M A) k db,
  commit_last body -> ok_keeps_fired body -> fault_sim body ->
  o_db (with_tx body (Some k) db) = db \/
  (o_db (with_tx body (Some k) db) = o_db (with_tx body None db) /\
   o_res (with_tx body (Some k) db) = o_res (with_tx body None db)).
Proof. exact with_tx_crash_atomic. Qed.
Print Assumptions C05_transaction_level.

(* close and reopen change nothing but the handle's open flag: the durable state is the only state *)
Theorem C05_reopen_identity : forall st,
  durable (r_db (snd (exec_op OReopen (snd (exec_op OClose st))))) = durable (r_db st) /\
  closed (r_db (snd (exec_op OReopen (snd (exec_op OClose st))))) = false.
Proof. intros st. split; reflexivity. Qed.
Print Assumptions C05_reopen_identity.

(* Known finding K-composite: CreateCollectionByQuery interrupted in its third transaction is neither
   absent nor present *)
Theorem C05_create_by_query_crash_refuted :
  let st := fresh_rstate ex_db_src (Some 12%nat) in
  let o := OCreateByQuery ex_cB (ex_cA, nil) in
  T_is_err (fst (exec_op o st)) = true /\ r_fired (snd (exec_op o st)) = true /\
  r_db (snd (exec_op o st)) <> r_db st /\ r_db (snd (exec_op o st)) <> snd (step ex_db_src o).
Proof. exact create_by_query_third_tx_not_atomic_refuted. Qed.
Print Assumptions C05_create_by_query_crash_refuted.

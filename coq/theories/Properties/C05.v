(* C05 — acknowledged operations survive close/reopen and crashes atomically.
   A crash while store call k of an operation is in flight = the fault fires at call k and everything not
   yet committed is discarded. The store's own commit is assumed atomic and durable (contract). *)
From Clover Require Import TxSpec TxProofs.

(* a single-transaction operation interrupted at ANY store call is afterwards entirely absent or
   entirely present (equal to the uninterrupted run) *)
Theorem C05_crash_atomic : forall o db k, single_tx o = true ->
  let st := fresh_rstate db (Some k) in
  r_db (snd (exec_op o st)) = db \/ r_db (snd (exec_op o st)) = snd (step db o).
Proof. exact exec_op_crash_atomic. Qed.
Print Assumptions C05_crash_atomic.

Theorem C05_transaction_level : forall A (body : M A) k db,
  commit_last body -> ok_keeps_fired body -> fault_sim body ->
  o_db (with_tx body (Some k) db) = db \/
  (o_db (with_tx body (Some k) db) = o_db (with_tx body None db) /\
   o_res (with_tx body (Some k) db) = o_res (with_tx body None db)).
Proof. exact with_tx_crash_atomic. Qed.
Print Assumptions C05_transaction_level.

(* close and reopen change nothing but the handle's open flag: the durable state is the only state *)
Theorem C05_reopen_identity : forall st,
  durable (r_db (snd (exec_op OReopen (snd (exec_op OClose st))))) = durable (r_db st) /\
  closed (r_db (snd (exec_op OReopen (snd (exec_op OClose st))))) = false.
Proof. intros st. split; reflexivity. Qed.
Print Assumptions C05_reopen_identity.

(* Known finding K-composite: CreateCollectionByQuery interrupted in its third transaction is neither
   absent nor present *)
Theorem C05_create_by_query_crash_refuted :
  let st := fresh_rstate ex_db_src (Some 12%nat) in
  let o := OCreateByQuery ex_cB (ex_cA, nil) in
  T_is_err (fst (exec_op o st)) = true /\ r_fired (snd (exec_op o st)) = true /\
  r_db (snd (exec_op o st)) <> r_db st /\ r_db (snd (exec_op o st)) <> snd (step ex_db_src o).
Proof. exact create_by_query_third_tx_not_atomic_refuted. Qed.
Print Assumptions C05_create_by_query_crash_refuted.

(* ---- history level, every operation of the API, every call position (Proofs/CrashInvProofs.v): a store failure (C04) or a crash (C05) while store call k of the next operation is in flight — the same execution in the model: whatever the in-flight transaction has not committed is discarded — leaves a store that still refines a well-formed abstract database (documents, index entries, counts and catalog mutually consistent, no rebuild); for single-transaction operations it is exactly the state before or after; the history can go on after reopening; a fault that fired is always reported ---- *)
From Clover Require Import HistoryProofs CompositeSpec CompositeProofs CrashInvProofs.
Theorem C05_crash_after_any_history_keeps_invariant : forall ops o k,
  hist_dom_all empty_db (ops ++ [o]) ->
  exists db, wf_db db /\
    R db (durable (r_db (snd (exec_op o (fresh_rstate (snd (run_ops empty_db ops)) (Some k)))))).
Proof. exact fault_after_history_keeps_invariant. Qed.
Print Assumptions C05_crash_after_any_history_keeps_invariant.

Theorem C05_single_tx_before_or_after : forall db h o k,
  wf_db db -> Rdb' db h -> (closed h = false -> op_dom_all db o) -> single_tx o = true ->
  r_db (snd (exec_op o (fresh_rstate h (Some k)))) = h \/
  r_db (snd (exec_op o (fresh_rstate h (Some k)))) = snd (step h o).
Proof. exact fault_single_tx_before_or_after. Qed.
Print Assumptions C05_single_tx_before_or_after.

Theorem C05_history_continues_after_crash : forall ops o k ops',
  hist_dom_all empty_db (ops ++ [o]) ->
  let h' := r_db (snd (exec_op o (fresh_rstate (snd (run_ops empty_db ops)) (Some k)))) in
  hist_dom_all (snd (step h' OReopen)) ops' ->
  exists db, wf_db db /\ R db (durable (snd (run_ops (snd (step h' OReopen)) ops'))).
Proof. exact history_continues_after_fault. Qed.
Print Assumptions C05_history_continues_after_crash.

(* the table of an import interrupted at each of its 12 store calls (before / empty new collection / complete) is the
   Example x_fault_table in Proofs/CrashInvProofs.v *)

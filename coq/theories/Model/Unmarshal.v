(* Document.Unmarshal = internal.Convert (internal/encoding.go, repaired): undo the clover tag renames,
   directed by the TYPE of the target, then json.Marshal + json.Unmarshal into the target.
   Definitions only.

   Two layers:
   - rename_value and what it is built from transcribe clover's own code (structFields, fieldNames,
     createRenameMap, rename, renameValue, renameMapKeys);
   - jdecode models the encoding/json round trip into a freshly zeroed target of a given Go type. That is
     standard-library behaviour: modelled by contract inside an explicit domain, answering UUndet outside
     it (the harness compares only determined answers). *)
From Clover Require Export GoValue.
Open Scope Z_scope.

(* ---- Go types as reflect sees them ---- *)
Inductive gotype : Type :=
| TyInt (bits : Z)               (* int (bits 0) and int8/16/32/64 *)
| TyUint (bits : Z)
| TyFloat32
| TyFloat64
| TyString
| TyBool
| TyTime                         (* time.Time *)
| TyPtr (t : gotype)
| TyStruct (fs : list tfield)
| TyMap (e : gotype)             (* map[string]e *)
| TySlice (e : gotype)
| TyArray (n : Z) (e : gotype)   (* [n]e *)
| TyIface                        (* interface{} *)
with tfield : Type :=
| TField (name : bytes) (exported : bool) (tag : bytes) (jtag : option bytes) (anonymous : bool) (t : gotype).

Definition tf_name (f : tfield) : bytes := let 'TField n _ _ _ _ _ := f in n.
Definition tf_exported (f : tfield) : bool := let 'TField _ e _ _ _ _ := f in e.
Definition tf_tag (f : tfield) : bytes := let 'TField _ _ t _ _ _ := f in t.
Definition tf_jtag (f : tfield) : option bytes := let 'TField _ _ _ j _ _ := f in j.
Definition tf_anon (f : tfield) : bool := let 'TField _ _ _ _ a _ := f in a.
Definition tf_type (f : tfield) : gotype := let 'TField _ _ _ _ _ t := f in t.

(* getElemType *)
Fixpoint elem_type (t : gotype) : gotype :=
  match t with TyPtr p => elem_type p | _ => t end.

Fixpoint is_struct_ty (t : gotype) : bool :=
  match t with TyPtr p => is_struct_ty p | TyStruct _ => true | _ => false end.

(* structFields: the fields of an embedded struct (reached through pointers) stand for the embedded field.
   Go's recursion guard (visited) is for cyclic type graphs, which an inductive gotype cannot express. *)
Fixpoint struct_fields (t : gotype) : list tfield :=
  match t with
  | TyPtr p => struct_fields p
  | TyStruct fs =>
      (fix go (fs : list tfield) : list tfield :=
         match fs with
         | [] => []
         | TField n e tg jt an ft :: rest =>
             if an && is_struct_ty ft then struct_fields ft ++ go rest
             else TField n e tg jt an ft :: go rest
         end) fs
  | _ => []
  end.

(* fieldNames: (name in the document, name encoding/json expects) *)
Definition field_from (f : tfield) : bytes :=
  match tag_name (tf_tag f) with [] => tf_name f | n => n end.
Definition field_to (f : tfield) : bytes :=
  match tf_jtag f with
  | Some j => match tag_name j with [] => tf_name f | n => n end
  | None => tf_name f
  end.

(* createRenameMap + lookup: a Go map, so the LAST field declaring a source name wins *)
Fixpoint rename_lookup (fields : list tfield) (k : bytes) : option bytes :=
  match fields with
  | [] => None
  | f :: rest =>
      match rename_lookup rest k with
      | Some r => Some r
      | None => if beqb (field_from f) k && negb (beqb (field_from f) (field_to f)) then Some (field_to f) else None
      end
  end.

(* rename: Go iterates the source map in random order; the model takes key order. The two agree whenever no two
   source keys land on the same target (part of the round-trip domain). *)
Definition rename_obj (fields : list tfield) (o : obj) : obj :=
  fold_left (fun m kv => obj_set (match rename_lookup fields (fst kv) with Some k' => k' | None => fst kv end) (snd kv) m) o [].

(* renameValue / renameMapKeys; fuel bounds the depth of the value *)
Fixpoint rename_value (fuel : nat) (t : gotype) (v : value) {struct fuel} : value :=
  match fuel with
  | O => v
  | S n =>
      match elem_type t with
      | TyStruct fs =>
          match v with
          | VObj o =>
              let fields := struct_fields (TyStruct fs) in
              VObj (fold_left (fun r f =>
                                 match obj_get (field_to f) r with
                                 | Some fv => obj_set (field_to f) (rename_value n (tf_type f) fv) r
                                 | None => r
                                 end) fields (rename_obj fields o))
          | _ => v
          end
      | TySlice e | TyArray _ e =>
          match v with
          | VArr l => VArr (map (rename_value n e) l)
          | _ => v
          end
      | TyMap e =>
          match v with
          | VObj o => VObj (map (fun kv => (fst kv, rename_value n e (snd kv))) o)
          | _ => v
          end
      | _ => v
      end
  end.

Fixpoint vdepth (v : value) : nat :=
  match v with
  | VArr l => S (fold_right (fun x m => Nat.max (vdepth x) m) O l)
  | VObj o => S ((fix go (o : list (bytes * value)) : nat :=
                    match o with [] => O | (_, x) :: t => Nat.max (vdepth x) (go t) end) o)
  | _ => 1%nat
  end.

(* ---- the encoding/json round trip (contract) ---- *)
Inductive ures (A : Type) : Type := UOk (a : A) | UErr | UUndet.
Arguments UOk {A} a.
Arguments UErr {A}.
Arguments UUndet {A}.

Definition ubind {A B} (r : ures A) (f : A -> ures B) : ures B :=
  match r with UOk a => f a | UErr => UErr | UUndet => UUndet end.

Fixpoint umap {A B} (f : A -> ures B) (l : list A) : ures (list B) :=
  match l with
  | [] => UOk []
  | x :: t => ubind (f x) (fun y => ubind (umap f t) (fun ys => UOk (y :: ys)))
  end.

Definition ascii (s : bytes) : bool := forallb (fun c => N.ltb c 128) s.

(* what json.Marshal accepts and reproduces exactly: finite floats, times with a year in 0..9999 and a zone
   offset of whole minutes, ASCII strings and keys. UErr = Marshal fails; UUndet = text is produced but is not
   an identity the model tracks (invalid UTF-8 is replaced, a seconds part of the offset is dropped). *)
Definition time_year_ok (s o : Z) : bool := (-62167219200 <=? s + o) && (s + o <=? 253402300799).

Fixpoint json_ok (v : value) {struct v} : ures unit :=
  match v with
  | VFloat b => if is_nan b || is_inf b then UErr else UOk tt
  | VStr s => if ascii s then UOk tt else UUndet
  | VTime s n o => if negb (time_year_ok s o) then UErr else if o mod 60 =? 0 then UOk tt else UUndet
  | VArr l => (fix go (l : list value) : ures unit :=
                 match l with [] => UOk tt | x :: t => ubind (json_ok x) (fun _ => go t) end) l
  | VObj o => (fix go (o : list (bytes * value)) : ures unit :=
                 match o with
                 | [] => UOk tt
                 | (k, x) :: t => if ascii k then ubind (json_ok x) (fun _ => go t) else UUndet
                 end) o
  | _ => UOk tt
  end.

Definition int_range (bits z : Z) : bool :=
  let b := if bits =? 0 then 64 else bits in (- 2 ^ (b - 1) <=? z) && (z <? 2 ^ (b - 1)).
Definition uint_range (bits z : Z) : bool :=
  let b := if bits =? 0 then 64 else bits in (0 <=? z) && (z <? 2 ^ b).

(* a float that prints as an integer literal: its exact value *)
Definition float_int (b : Z) : option Z :=
  if (fden b) mod scale1074 =? 0 then Some (fden b / scale1074) else None.

(* exactly representable as a float32 (normal range) *)
Definition f32_exact (b : Z) : bool :=
  (fbits_mag b =? 0) || ((897 <=? fexp b) && (fexp b <=? 1150) && (fman b mod 536870912 =? 0)).

Definition zero_time : goval := GTime (-62135596800) 0 0.

Fixpoint zero (t : gotype) : goval :=
  match t with
  | TyInt b => GInt b 0
  | TyUint b => GUint b 0
  | TyFloat32 => GFloat32 0
  | TyFloat64 => GFloat64 0
  | TyString => GString []
  | TyBool => GBool false
  | TyTime => zero_time
  | TyPtr _ => GPtr None
  | TyStruct fs =>
      GStruct ((fix go (fs : list tfield) : list gfield :=
                  match fs with
                  | [] => []
                  | TField n e tg _ an ft :: rest =>
                      GField n e tg an (match ft with TyIface => true | _ => false end) (zero ft) :: go rest
                  end) fs)
  | TyMap _ => GMap true []
  | TySlice _ => GSlice false []
  | TyArray n e => GSlice false (repeat (zero e) (Z.to_nat n))
  | TyIface => GNil
  end.

(* ASCII case folding, as encoding/json matches object keys to field names when no exact match exists *)
Definition lower (c : N) : N := if (N.leb 65 c && N.leb c 90)%bool then (c + 32)%N else c.
Definition fold_eq (a b : bytes) : bool := beqb (map lower a) (map lower b).

(* the keys of o that encoding/json routes to the field called [jname] of a struct whose (flattened, exported)
   field names are [all]: an exact match wins, otherwise a case-insensitive one *)
Definition routes_to (all : list bytes) (jname k : bytes) : bool :=
  if existsb (beqb k) all then beqb k jname else fold_eq k jname.

Definition exported_names (fields : list tfield) : list bytes :=
  map field_to (filter tf_exported fields).

(* decoding of a JSON value (as a clover value) into interface{} *)
Fixpoint jdecode_iface (v : value) {struct v} : ures goval :=
  match v with
  | VNil => UOk GNil
  | VInt z | VUint z => UOk (GFloat64 (of_Z z))
  | VFloat b => UOk (GFloat64 b)
  | VStr s => UOk (GString s)
  | VBool b => UOk (GBool b)
  | VTime _ _ _ => UUndet       (* becomes its RFC 3339 text *)
  | VArr l => ubind ((fix go (l : list value) : ures (list goval) :=
                        match l with
                        | [] => UOk []
                        | x :: t => ubind (jdecode_iface x) (fun y => ubind (go t) (fun ys => UOk (y :: ys)))
                        end) l) (fun ys => UOk (GSlice false ys))
  | VObj o => ubind ((fix go (o : list (bytes * value)) : ures (list (bytes * goval)) :=
                        match o with
                        | [] => UOk []
                        | (k, x) :: t => ubind (jdecode_iface x) (fun y => ubind (go t) (fun ys => UOk ((k, y) :: ys)))
                        end) o) (fun ys => UOk (GMap true ys))
  end.

(* json.Unmarshal of value v into a zeroed target of type t. Fuel bounds the nesting of t. *)
Fixpoint jdecode (fuel : nat) (t : gotype) (v : value) {struct fuel} : ures goval :=
  match fuel with
  | O => UUndet
  | S n =>
      match t with
      | TyIface => jdecode_iface v
      | TyInt bits =>
          match v with
          | VNil => UOk (GInt bits 0)
          | VInt z | VUint z => if int_range bits z then UOk (GInt bits z) else UErr
          | VFloat b => match float_int b with
                        | Some z => if int_range bits z then UOk (GInt bits z) else UErr
                        | None => UErr
                        end
          | _ => UErr
          end
      | TyUint bits =>
          match v with
          | VNil => UOk (GUint bits 0)
          | VInt z | VUint z => if uint_range bits z then UOk (GUint bits z) else UErr
          | VFloat b => match float_int b with
                        | Some z => if (fsign b && (z =? 0)) then UErr (* "-0" is not an unsigned literal *)
                                    else if uint_range bits z then UOk (GUint bits z) else UErr
                        | None => UErr
                        end
          | _ => UErr
          end
      | TyFloat64 =>
          match v with
          | VNil => UOk (GFloat64 0)
          | VFloat b => UOk (GFloat64 b)
          | VInt z | VUint z => UOk (GFloat64 (of_Z z))
          | _ => UErr
          end
      | TyFloat32 =>
          match v with
          | VNil => UOk (GFloat32 0)
          | VFloat b => if f32_exact b then UOk (GFloat32 b) else UUndet (* rounds to the nearest float32 *)
          | VInt z | VUint z => if f32_exact (of_Z z) && (Z.abs z <? two53) then UOk (GFloat32 (of_Z z)) else UUndet
          | _ => UErr
          end
      | TyString =>
          match v with VNil => UOk (GString []) | VStr s => UOk (GString s) | _ => UErr end
      | TyBool =>
          match v with VNil => UOk (GBool false) | VBool b => UOk (GBool b) | _ => UErr end
      | TyTime =>
          match v with
          | VNil => UOk zero_time
          | VTime s ns o => UOk (GTime s ns o)
          | VStr _ => UUndet    (* parsed as RFC 3339 text *)
          | _ => UErr
          end
      | TyPtr p =>
          match v with
          | VNil => UOk (GPtr None)
          | _ => ubind (jdecode n p v) (fun g => UOk (GPtr (Some g)))
          end
      | TyMap e =>
          match v with
          | VNil => UOk (GMap true [])
          | VObj o => ubind (umap (fun kv => ubind (jdecode n e (snd kv)) (fun g => UOk (fst kv, g))) o)
                            (fun es => UOk (GMap true es))
          | _ => UErr
          end
      | TySlice e =>
          match e with
          | TyUint 8 => UUndet   (* []byte travels as base64 text *)
          | _ =>
              match v with
              | VNil => UOk (GSlice false [])
              | VArr l => ubind (umap (jdecode n e) l) (fun gs => UOk (GSlice false gs))
              | _ => UErr
              end
          end
      | TyArray len e =>
          match v with
          | VNil => UOk (zero t)
          | VArr l => ubind (umap (jdecode n e) (firstn (Z.to_nat len) l))
                            (fun gs => UOk (GSlice false (gs ++ repeat (zero e) (Z.to_nat len - length gs))))
          | _ => UErr
          end
      | TyStruct fs =>
          match v with
          | VNil => UOk (zero t)
          | VObj o =>
              let all := exported_names (struct_fields t) in
              ubind ((fix go (fs : list tfield) : ures (list gfield) :=
                        match fs with
                        | [] => UOk []
                        | TField nm e tg jt an ft :: rest =>
                            let iface := match ft with TyIface => true | _ => false end in
                            let mk := fun g => ubind (go rest) (fun gs => UOk (GField nm e tg an iface g :: gs)) in
                            if negb e then
                              (if an && is_struct_ty ft then UUndet (* promoted fields of an unexported embedded struct *)
                               else mk (zero ft))
                            else if an && is_struct_ty ft then
                              (* promoted fields: decoded from the same object; an embedded POINTER is allocated only
                                 when one of its fields is present *)
                              match jt with
                              | Some _ => UUndet (* a json tag turns the embedded struct into a named field *)
                              | None =>
                                  let mine := exported_names (struct_fields ft) in
                                  let present := existsb (fun kv => existsb (fun nme => routes_to all nme (fst kv)) mine) o in
                                  match ft with
                                  | TyPtr _ => if present then ubind (jdecode n ft v) mk else mk (GPtr None)
                                  | _ => ubind (jdecode n ft v) mk
                                  end
                              end
                            else
                              let jname := field_to (TField nm e tg jt an ft) in
                              match filter (fun kv => routes_to all jname (fst kv)) o with
                              | [] => mk (zero ft)
                              | [kv] => ubind (jdecode n ft (snd kv)) mk
                              | _ => UUndet (* several keys reach one field: order- and merge-dependent *)
                              end
                        end) fs) (fun gs => UOk (GStruct gs))
          | _ => UErr
          end
      end
  end.

Fixpoint tdepth (t : gotype) : nat :=
  match t with
  | TyPtr p => S (tdepth p)
  | TyStruct fs => S ((fix go (fs : list tfield) : nat :=
                         match fs with [] => O | TField _ _ _ _ _ ft :: rest => Nat.max (tdepth ft) (go rest) end) fs)
  | TyMap e | TySlice e | TyArray _ e => S (tdepth e)
  | _ => 1%nat
  end.

(* doc.Unmarshal(&target) with target a zero value of type t: UOk = the value the target holds afterwards,
   UErr = an error is returned *)
Definition unmarshal (t : gotype) (d : obj) : ures goval :=
  ubind (json_ok (VObj d)) (fun _ =>
    jdecode (S (tdepth t)) t (rename_value (S (vdepth (VObj d))) t (VObj d))).

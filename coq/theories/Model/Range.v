(* index/range.go — value ranges; VNil doubles as "unbounded". Definitions only. *)
From Clover Require Export Criteria.
Open Scope Z_scope.

Record range : Type := mkRange {
  r_start : value; r_end : value; r_sinc : bool; r_einc : bool
}.

Definition is_nilv (v : value) : bool := match v with VNil => true | _ => false end.

Definition range_is_empty (r : range) : bool :=
  if (is_nilv (r_start r) && negb (r_sinc r) && negb (is_nilv (r_end r)))
     || (is_nilv (r_end r) && negb (r_einc r) && negb (is_nilv (r_start r)))
  then false
  else
    let c := compare (r_start r) (r_end r) in
    is_gt c || (is_eq c && negb (r_sinc r) && negb (r_einc r)).

Definition range_is_nil (r : range) : bool :=
  is_nilv (r_start r) && is_nilv (r_end r) && r_sinc r && r_einc r.

Definition range_intersect (r r2 : range) : range :=
  let c1 := compare (r_start r2) (r_start r) in
  let '(s, si) :=
    if is_gt c1 then (r_start r2, r_sinc r2)
    else if is_eq c1 then (r_start r, r_sinc r && r_sinc r2)
    else if is_nilv (r_start r) then (r_start r2, r_sinc r2)
    else (r_start r, r_sinc r) in
  let c2 := compare (r_end r2) (r_end r) in
  let '(e, ei) :=
    if is_lt c2 then (r_end r2, r_einc r2)
    else if is_eq c2 then (r_end r, r_einc r && r_einc r2)
    else if is_nilv (r_end r) then (r_end r2, r_einc r2)
    else (r_end r, r_einc r) in
  mkRange s e si ei.

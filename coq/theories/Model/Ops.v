(* The public API as an operation alphabet, with observations as generic terms. Definitions only. *)
From Clover Require Export DB Obs.
Open Scope Z_scope.

Definition qspec : Type := (bytes * list qstep)%type.
Definition mk_query (q : qspec) : query := build_query (fst q) (snd q).

Inductive import_file : Type :=
| FUnreadable                         (* os.Open fails *)
| FIllFormed                          (* not a JSON array of objects *)
| FElems (l : list (option obj)).     (* parsed elements; None = a null element *)

Inductive op : Type :=
| OCreateCollection (c : bytes)
| ODropCollection (c : bytes)
| OHasCollection (c : bytes)
| OListCollections
| OInsert (c : bytes) (docs : list obj) (fresh : list bytes)
| OSave (c : bytes) (d : obj) (fresh : bytes)
| OFindAll (q : qspec) (mode : Z)
| OCount (q : qspec)
| OExists (q : qspec)
| OFindFirst (q : qspec)
| OForEach (q : qspec) (stop_after : Z) (mode : Z)
| OFindById (c id : bytes)
| ODeleteById (c id : bytes)
| OUpdateById (c id : bytes) (u : updater)
| OReplaceById (c id : bytes) (d : obj)
| OUpdate (q : qspec) (kvs : list (bytes * goval))
| OUpdateFunc (q : qspec) (u : updater)
| ODelete (q : qspec)
| OCreateIndex (c f : bytes)
| ODropIndex (c f : bytes)
| OHasIndex (c f : bytes)
| OListIndexes (c : bytes)
| OExport (c : bytes)
| OImport (c : bytes) (file : import_file)
| OCreateByQuery (c : bytes) (q : qspec)
| OClose
| OReopen.

(* ---- running state across the transactions of one operation ---- *)
Record rstate : Type := mkR { r_db : dbst; r_fault : option nat; r_calls : nat; r_fired : bool }.

Definition run_tx {A} (body : M A) (st : rstate) : res A * rstate :=
  let o := with_tx body (r_fault st) (r_db st) in
  let f' := if o_fired o then None
            else match r_fault st with
                 | Some n => Some (n - o_calls o)%nat
                 | None => None
                 end in
  (o_res o, mkR (o_db o) f' (r_calls st + o_calls o)%nat (r_fired st || o_fired o)).

(* ---- observation encoding ---- *)
Definition err_code (e : err) : Z :=
  match e with
  | ECollExist => 1 | ECollNotExist => 2 | EIdxExist => 3 | EIdxNotExist => 4
  | EDocNotExist => 5 | EDupKey => 6 | EOther => 7 | EStore => 8
  end.

Fixpoint T_of_value (v : value) {struct v} : T :=
  match v with
  | VNil => TL [TZ 0]
  | VInt z => TL [TZ 1; TZ z]
  | VUint z => TL [TZ 2; TZ z]
  | VFloat b => TL [TZ 3; TZ b]
  | VStr s => TL [TZ 4; TB s]
  | VBool b => TL [TZ 5; Tbool b]
  | VTime s n o => TL [TZ 6; TZ s; TZ n; TZ o]
  | VArr l => TL [TZ 7; TL (map T_of_value l)]
  | VObj o => TL [TZ 8; TL ((fix go (o : list (bytes * value)) : list T :=
                               match o with [] => [] | (k, x) :: t => TL [TB k; T_of_value x] :: go t end) o)]
  end.

Definition T_of_doc (d : obj) : T := T_of_value (VObj d).

Definition T_ok (payload : T) : T := TL [TZ 0; payload].
Definition T_err (e : err) : T := TL [TZ (err_code e); TL []].
Definition T_unit {A} (r : res A) : T := match r with Ok _ => T_ok (TL []) | Err e => T_err e end.
Definition T_res {A} (f : A -> T) (r : res A) : T := match r with Ok a => T_ok (f a) | Err e => T_err e end.

Definition id_leb (a b : obj) : bool := bleb (object_id a) (object_id b).

(* canonical form of a sort key, so that compare-equal keys render identically: integral numbers
   within 2^53 as integers whatever their Go kind, times without their zone offset; recursively *)
Fixpoint canon_key (v : value) {struct v} : T :=
  match v with
  | VInt z | VUint z => if (Z.abs z <=? two53) then TL [TZ 1; TZ z] else T_of_value v
  | VFloat b =>
      if is_nan b || is_inf b then T_of_value v
      else
        let d := fden b in
        if (d mod scale1074 =? 0) && (Z.abs (d / scale1074) <=? two53) then TL [TZ 1; TZ (d / scale1074)]
        else T_of_value v
  | VTime s n _ => TL [TZ 6; TZ s; TZ n]
  | VArr l => TL [TZ 7; TL (map canon_key l)]
  | VObj o => TL [TZ 8; TL ((fix go (o : list (bytes * value)) : list T :=
                               match o with [] => [] | (k, x) :: t => TL [TB k; canon_key x] :: go t end) o)]
  | _ => T_of_value v
  end.

Definition key_tuple (sort : list (bytes * Z)) (d : obj) : T :=
  (* an absent field orders together with nil (they are tied: either may come first) *)
  TL (map (fun o => match doc_get (fst o) d with
                    | VNil => TL [TZ 0]
                    | v => TL [TZ 1; canon_key v]
                    end) sort).

(* how a result list is rendered:
   no sort, mode 2 : documents exactly in result order
   no sort, else   : documents ordered by _id (the result as a set)
   sort, mode 1    : [key tuples in result order; number of documents]
   sort, else      : [key tuples in result order; documents ordered by _id] *)
Definition T_of_docs (sort : list (bytes * Z)) (mode : Z) (l : list obj) : T :=
  match sort with
  | [] => if mode =? 2 then TL (map T_of_doc l) else TL (map T_of_doc (msort id_leb l))
  | _ => TL [TL (map (key_tuple sort) l);
             if mode =? 1 then TZ (Z.of_nat (length l)) else TL (map T_of_doc (msort id_leb l))]
  end.

Definition T_of_opt_doc (o : option obj) : T :=
  match o with Some d => TL [T_of_doc d] | None => TL [] end.

Definition T_of_sval (v : sval) : T :=
  match v with
  | SDoc w => TL [TZ 1; T_of_doc (doc_decode w)]
  | SMeta n l => TL [TZ 2; TZ n; TL (map TB l)]
  | SEmpty => TL [TZ 3]
  end.

Definition T_of_kv (s : kv) : T := TL (map (fun e => TL [TB (fst e); T_of_sval (snd e)]) s).

(* ---- Insert's id assignment (before any transaction) ---- *)
Definition needs_id (d : obj) : bool :=
  negb (doc_has id_field d) || match doc_get id_field d with VStr [] => true | _ => false end.

Fixpoint assign_ids (docs : list obj) (fresh : list bytes) : list obj :=
  match docs with
  | [] => []
  | d :: t =>
      if needs_id d then
        match fresh with
        | id :: fr => doc_set id_field (VStr id) d :: assign_ids t fr
        | [] => d :: assign_ids t []
        end
      else d :: assign_ids t fresh
  end.

(* countCollection arithmetic *)
Definition count_window (size skip limit : Z) : Z :=
  let s := Z.max 0 (size - skip) in
  if (0 <=? limit) && (limit <? s) then limit else s.

(* JSON typing of export/import: what a value becomes after json.Marshal and json.Unmarshal into interface{} *)
Section Json.
  Variable fmt_time : Z -> Z -> Z -> bytes.   (* RFC 3339 text of a time *)
  Fixpoint json_value (v : value) {struct v} : value :=
    match v with
    | VInt z | VUint z => VFloat (of_Z z)
    | VTime s n o => VStr (fmt_time s n o)
    | VArr l => VArr (map json_value l)
    | VObj o => VObj ((fix go (o : list (bytes * value)) : list (bytes * value) :=
                         match o with [] => [] | (k, x) :: t => (k, json_value x) :: go t end) o)
    | _ => v
    end.
End Json.

(* ---- executing one public operation ---- *)
Definition ret_op (t : T) (st : rstate) : T * rstate := (t, st).

Definition find_all_op (q : query) (st : rstate) : res (list obj) * rstate :=
  match normalize_query q with
  | None => (Err EOther, st)
  | Some nq => run_tx (find_all_tx nq) st
  end.

Definition insert_op (c : bytes) (docs : list obj) (st : rstate) : res unit * rstate :=
  run_tx (insert_tx c docs) st.

Definition exec_op (o : op) (st : rstate) : T * rstate :=
  match o with
  | OCreateCollection c => let '(r, st') := run_tx (create_collection_tx c) st in (T_unit r, st')
  | ODropCollection c => let '(r, st') := run_tx (drop_collection_tx c) st in (T_unit r, st')
  | OHasCollection c => let '(r, st') := run_tx (has_collection c) st in (T_res Tbool r, st')
  | OListCollections =>
      let '(r, st') := run_tx list_collections_tx st in (T_res (fun l => TL (map TB (msort bleb l))) r, st')
  | OInsert c docs fresh =>
      let '(r, st') := insert_op c (assign_ids docs fresh) st in (T_unit r, st')
  | OSave c d fresh =>
      if needs_id d then
        let '(r, st') := insert_op c (assign_ids [d] [fresh]) st in (T_unit r, st')
      else
        let '(r, st') := run_tx (update_by_id_tx c (object_id d) (UFunConst d)) st in (T_unit r, st')
  | OFindAll q mode =>
      let '(r, st') := find_all_op (mk_query q) st in
      (T_res (T_of_docs (q_sort (mk_query q)) mode) r, st')
  | OFindFirst q =>
      let '(r, st') := find_all_op (q_apply (mk_query q) (QLimit 1)) st in
      (T_res (fun l => T_of_opt_doc (hd_error l)) r, st')
  | OExists q =>
      let '(r, st') := find_all_op (q_apply (mk_query q) (QLimit 1)) st in
      (T_res (fun l => Tbool (match l with [] => false | _ => true end)) r, st')
  | OCount q =>
      match normalize_query (mk_query q) with
      | None => (T_err EOther, st)
      | Some nq =>
          match nq_crit nq with
          | None =>
              let '(r, st') := run_tx (collection_size_tx (nq_coll nq)) st in
              (T_res (fun n => TZ (count_window n (nq_skip nq) (nq_limit nq))) r, st')
          | Some _ =>
              let '(r, st') := run_tx (iterate_docs nq count_cons 0) st in (T_res TZ r, st')
          end
      end
  | OForEach q n mode =>
      match normalize_query (mk_query q) with
      | None => (T_err EOther, st)
      | Some nq =>
          let '(r, st') := run_tx (iterate_docs nq (foreach_cons n) []) st in
          (T_res (fun l => T_of_docs (nq_sort nq) mode (rev l)) r, st')
      end
  | OFindById c id => let '(r, st') := run_tx (find_by_id_tx c id) st in (T_res T_of_opt_doc r, st')
  | ODeleteById c id => let '(r, st') := run_tx (delete_by_id_tx c id) st in (T_unit r, st')
  | OUpdateById c id u => let '(r, st') := run_tx (update_by_id_tx c id u) st in (T_unit r, st')
  | OReplaceById c id d =>
      if negb (beqb (object_id d) id) then (T_err EOther, st)
      else let '(r, st') := run_tx (update_by_id_tx c id (UFunConst d)) st in (T_unit r, st')
  | OUpdate q kvs =>
      match normalize_query (mk_query q) with
      | None => (T_err EOther, st)
      | Some nq => let '(r, st') := run_tx (update_tx nq (USetAll kvs)) st in (T_unit r, st')
      end
  | OUpdateFunc q u =>
      (* UpdateFunc begins the transaction before normalising *)
      match normalize_query (mk_query q) with
      | None => let '(r, st') := run_tx (fail EOther : M unit) st in (T_unit r, st')
      | Some nq => let '(r, st') := run_tx (update_tx nq u) st in (T_unit r, st')
      end
  | ODelete q =>
      match normalize_query (mk_query q) with
      | None => (T_err EOther, st)
      | Some nq => let '(r, st') := run_tx (update_tx nq UFunNil) st in (T_unit r, st')
      end
  | OCreateIndex c f => let '(r, st') := run_tx (create_index_tx c f) st in (T_unit r, st')
  | ODropIndex c f => let '(r, st') := run_tx (drop_index_tx c f) st in (T_unit r, st')
  | OHasIndex c f => let '(r, st') := run_tx (has_index_tx c f) st in (T_res Tbool r, st')
  | OListIndexes c =>
      let '(r, st') := run_tx (list_indexes_tx c) st in (T_res (fun l => TL (map TB (msort bleb l))) r, st')
  | OExport c =>
      let '(r, st1) := run_tx (has_collection c) st in
      match r with
      | Err e => (T_err e, st1)
      | Ok false => (T_err ECollNotExist, st1)
      | Ok true =>
          let '(r2, st2) := find_all_op (new_query c) st1 in
          (T_res (T_of_docs [] 0) r2, st2)
      end
  | OImport c file =>
      match file with
      | FUnreadable => (T_err EOther, st)
      | _ =>
          let '(r, st1) := run_tx (create_collection_tx c) st in
          match r with
          | Err e => (T_err e, st1)
          | Ok _ =>
              match file with
              | FElems l =>
                  if forallb (fun o => match o with Some _ => true | None => false end) l then
                    let docs := flat_map (fun o => match o with Some d => [d] | None => [] end) l in
                    (* imported documents carry their ids; a missing one would be generated, which the
                       harness never does *)
                    let '(r2, st2) := insert_op c docs st1 in (T_unit r2, st2)
                  else (T_err EOther, st1)
              | _ => (T_err EOther, st1)
              end
          end
      end
  | OCreateByQuery c q =>
      let '(r, st1) := run_tx (create_collection_tx c) st in
      match r with
      | Err e => (T_err e, st1)
      | Ok _ =>
          let '(r2, st2) := find_all_op (mk_query q) st1 in
          match r2 with
          | Err e => (T_err e, st2)
          | Ok [] => (T_ok (TL []), st2)
          | Ok docs => let '(r3, st3) := insert_op c docs st2 in (T_unit r3, st3)
          end
      end
  | OClose => (T_ok (TL []), mkR (mkDb (durable (r_db st)) true) (r_fault st) (r_calls st) (r_fired st))
  | OReopen => (T_ok (TL []), mkR (mkDb (durable (r_db st)) false) (r_fault st) (r_calls st) (r_fired st))
  end.

Definition empty_db : dbst := mkDb [] false.
Definition fresh_rstate (db : dbst) (flt : option nat) : rstate := mkR db flt 0 false.

(* run one operation without faults on a database *)
Definition step (db : dbst) (o : op) : T * dbst :=
  let '(t, st) := exec_op o (fresh_rstate db None) in (t, r_db st).

Fixpoint run_ops (db : dbst) (ops : list op) : list T * dbst :=
  match ops with
  | [] => ([], db)
  | o :: t =>
      let '(x, db') := step db o in
      let '(xs, db'') := run_ops db' t in
      (x :: xs, db'')
  end.

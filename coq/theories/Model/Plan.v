(* plan.go — query plan construction and execution (repaired sortNode.Finish). Definitions only. *)
From Clover Require Export Index.
Open Scope Z_scope.

(* compareDocuments *)
Fixpoint compare_docs (opts : list (bytes * Z)) (a b : obj) : comparison :=
  match opts with
  | [] => Eq
  | (f, dir) :: t =>
      let ha := doc_has f a in
      let hb := doc_has f b in
      if negb ha && hb then (if dir <? 0 then Gt else Lt)
      else if ha && negb hb then (if dir <? 0 then Lt else Gt)
      else if ha && hb then
        match compare (doc_get f a) (doc_get f b) with
        | Eq => compare_docs t a b
        | c => if dir <? 0 then CompOpp c else c
        end
      else compare_docs t a b
  end.

Definition docs_leb (opts : list (bytes * Z)) (a b : obj) : bool := negb (is_gt (compare_docs opts a b)).

Definition sort_docs (opts : list (bytes * Z)) (l : list obj) : list obj := msort (docs_leb opts) l.

Definition sat_opt (c : option ncrit) (d : obj) : bool :=
  match c with None => true | Some c' => sat c' d end.

Definition decode_sval (v : sval) : obj :=
  match v with SDoc w => doc_decode w | _ => [] end.

(* getDocumentById *)
Definition get_doc (c id : bytes) : M (option obj) :=
  v <- tx_get (doc_key c id) ;;
  ret (match v with Some x => Some (decode_sval x) | None => None end).

Section Exec.
  Context {A : Type}.
  (* the consumer: folds a state, [false] = ErrStopIteration *)
  Variable cons : obj -> A -> M (A * bool).

  (* skipLimitNode followed by the consumer *)
  Record dstate : Type := mkD { d_skipped : Z; d_consumed : Z; d_acc : A }.

  Definition down (skip limit : Z) (d : obj) (st : dstate) : M (dstate * bool) :=
    if (0 <? skip) || (0 <=? limit) then
      if d_skipped st <? skip then ret (mkD (d_skipped st + 1) (d_consumed st) (d_acc st), true)
      else if (limit <? 0) || (d_consumed st <? limit) then
        r <- cons d (d_acc st) ;;
        ret (mkD (d_skipped st) (d_consumed st + 1) (fst r), snd r)
      else ret (st, false)
    else
      r <- cons d (d_acc st) ;;
      ret (mkD (d_skipped st) (d_consumed st) (fst r), snd r).

  (* iteratePrefix over the document keys of a collection *)
  Fixpoint full_scan_loop {B : Type} (p : bytes) (flt : option ncrit)
           (f : obj -> B -> M (B * bool)) (c : cursor) (b : B) : M B :=
    match c with
    | [] => ret b
    | e :: t =>
        it <- cursor_item e ;;
        if negb (is_prefix p (fst it)) then ret b
        else
          let d := decode_sval (snd it) in
          if sat_opt flt d then
            r <- f d b ;;
            if snd r then full_scan_loop p flt f t (fst r) else ret (fst r)
          else full_scan_loop p flt f t b
    end.

  Definition full_scan {B : Type} (c : bytes) (flt : option ncrit) (f : obj -> B -> M (B * bool)) (b : B) : M B :=
    cur <- tx_cursor true ;;
    full_scan_loop (doc_prefix c) flt f (cursor_seek true (doc_prefix c) cur) b.

  (* iterNode.iterateIndex's per-id function *)
  Definition on_index_id {B : Type} (c : bytes) (flt : option ncrit) (f : obj -> B -> M (B * bool))
             (id : bytes) (b : B) : M (B * bool) :=
    od <- get_doc c id ;;
    match od with
    | None => ret (b, true)
    | Some d => if sat_opt flt d then f d b else ret (b, true)
    end.

  Definition run_input {B : Type} (c : bytes) (flt : option ncrit) (iq : option idx_query)
             (f : obj -> B -> M (B * bool)) (b : B) : M B :=
    match iq with
    | None => full_scan c flt f b
    | Some (IQRange fld r rv) => idx_iterate_range (on_index_id c flt f) c fld r rv b
    | Some (IQAll fld rv) => idx_iterate (on_index_id c flt f) c fld rv b
    end.

  (* sortNode.Finish: forward the sorted documents until the consumer stops *)
  Fixpoint feed (skip limit : Z) (l : list obj) (st : dstate) : M dstate :=
    match l with
    | [] => ret st
    | d :: t =>
        r <- down skip limit d st ;;
        if snd r then feed skip limit t (fst r) else ret (fst r)
    end.

  (* buildQueryPlan + execPlan *)
  Definition exec_plan (c : bytes) (crit : option ncrit) (sort : list (bytes * Z)) (skip limit : Z)
             (idx : list bytes) (a0 : A) : M A :=
    let '(iq, sorted) := try_select_index crit sort idx in
    let st0 := mkD 0 0 a0 in
    match sort, sorted with
    | _ :: _, false =>
        docs <- run_input c crit iq (fun d (acc : list obj) => ret (d :: acc, true)) [] ;;
        st <- feed skip limit (sort_docs sort (rev docs)) st0 ;;
        ret (d_acc st)
    | _, _ =>
        st <- run_input c crit iq (down skip limit) st0 ;;
        ret (d_acc st)
    end.
End Exec.

(* db.go and json.go — every public DB operation as the store-call sequence the Go code makes
   (repaired versions). Definitions only. *)
From Clover Require Export Plan.
Open Scope Z_scope.

(* ---- metadata ---- *)
Definition get_meta (c : bytes) : M (Z * list bytes) :=
  v <- tx_get (coll_key c) ;;
  match v with
  | Some (SMeta n l) => ret (n, l)
  | Some _ => fail EOther
  | None => fail ECollNotExist
  end.

Definition save_meta (c : bytes) (n : Z) (l : list bytes) : M unit := tx_set (coll_key c) (SMeta n l).

Definition has_collection (c : bytes) : M bool :=
  v <- tx_get (coll_key c) ;; ret (match v with Some _ => true | None => false end).

(* addDocToIndexes / deleteDocFromIndexes *)
Fixpoint add_to_indexes (c : bytes) (idx : list bytes) (d : obj) : M unit :=
  match idx with
  | [] => ret tt
  | f :: t => idx_add c f (object_id d) (doc_get f d) ;;; add_to_indexes c t d
  end.

Fixpoint del_from_indexes (c : bytes) (idx : list bytes) (d : obj) : M unit :=
  match idx with
  | [] => ret tt
  | f :: t => idx_remove c f (object_id d) (doc_get f d) ;;; del_from_indexes c t d
  end.

(* saveDocument *)
Definition save_document (key : bytes) (d : obj) : M unit :=
  if validate d then tx_set key (SDoc (doc_encode d)) else fail EOther.

(* ---- updater menu (twin definitions exist in the Go harness) ---- *)
Inductive updater : Type :=
| USetAll (kvs : list (bytes * goval))   (* Update(q, map): copy, then SetAll *)
| UFunSet (f : bytes) (v : value)        (* mutates its argument in place and returns it *)
| UFunCopySet (f : bytes) (v : value)    (* returns a modified copy *)
| UFunNil                                (* returns nil *)
| UFunId                                 (* returns its argument *)
| UFunIncr (f : bytes)                   (* in place: int field + 1 (other types: sets 1) *)
| UFunConst (d : obj).                   (* returns a fixed document (ReplaceById) *)

Definition apply_updater (u : updater) (d : obj) : option obj :=
  match u with
  | USetAll kvs => Some (fold_left (fun d kv => doc_set_go (fst kv) (snd kv) d) kvs d)
  | UFunSet f v | UFunCopySet f v => Some (doc_set f v d)
  | UFunNil => None
  | UFunId => Some d
  | UFunIncr f =>
      Some (doc_set f (match doc_get f d with
                       | VInt z => VInt (if z <? 9223372036854775807 then z + 1 else z)
                       | _ => VInt 1
                       end) d)
  | UFunConst d' => Some d'
  end.

(* ---- normalised view of a query ---- *)
Record nquery : Type := mkNQ { nq_coll : bytes; nq_crit : option ncrit; nq_limit : Z; nq_skip : Z; nq_sort : list (bytes * Z) }.

(* normalizeCriteria: None = normalisation error *)
Definition normalize_query (q : query) : option nquery :=
  match q_crit q with
  | None => Some (mkNQ (q_coll q) None (q_limit q) (q_skip q) (q_sort q))
  | Some c =>
      match norm_crit c with
      | Some c' => Some (mkNQ (q_coll q) (Some c') (q_limit q) (q_skip q) (q_sort q))
      | None => None
      end
  end.

(* iterateDocs *)
Definition iterate_docs {A : Type} (q : nquery) (cons : obj -> A -> M (A * bool)) (a0 : A) : M A :=
  m <- get_meta (nq_coll q) ;;
  exec_plan cons (nq_coll q) (nq_crit q) (nq_sort q) (nq_skip q) (nq_limit q) (snd m) a0.

Definition collect (d : obj) (acc : list obj) : M (list obj * bool) := ret (d :: acc, true).

Definition find_all_tx (q : nquery) : M (list obj) :=
  l <- iterate_docs q collect [] ;; ret (rev l).

(* ---- write operations (transaction bodies) ---- *)
Definition create_collection_tx (c : bytes) : M unit :=
  ok <- has_collection c ;;
  if ok then fail ECollExist
  else save_meta c 0 [] ;;; tx_commit.

Fixpoint insert_docs (c : bytes) (idx : list bytes) (docs : list obj) : M unit :=
  match docs with
  | [] => ret tt
  | d :: t =>
      add_to_indexes c idx d ;;;
      v <- tx_get (doc_key c (object_id d)) ;;
      match v with
      | Some _ => fail EDupKey
      | None => save_document (doc_key c (object_id d)) d ;;; insert_docs c idx t
      end
  end.

Definition insert_tx (c : bytes) (docs : list obj) : M unit :=
  m <- get_meta c ;;
  insert_docs c (snd m) docs ;;;
  save_meta c (fst m + Z.of_nat (length docs)) (snd m) ;;;
  tx_commit.

(* getDocAndDeleteFromIndexes *)
Definition get_doc_and_del_idx (c : bytes) (idx : list bytes) (id : bytes) : M unit :=
  match idx with
  | [] => ret tt
  | _ =>
      od <- get_doc c id ;;
      match od with
      | None => ret tt
      | Some d => del_from_indexes c idx d
      end
  end.

Definition delete_by_id_tx (c id : bytes) : M unit :=
  m <- get_meta c ;;
  v <- tx_get (doc_key c id) ;;
  match v with
  | None => ret tt                       (* repaired: an absent id changes nothing *)
  | Some _ =>
      get_doc_and_del_idx c (snd m) id ;;;
      tx_delete (doc_key c id) ;;;
      save_meta c (fst m - 1) (snd m) ;;;
      tx_commit
  end.

(* the shared tail of UpdateById and replaceDocs for one document (repaired: old index entries are
   removed before the updater runs; a changed _id and a nil result of UpdateById are errors) *)
Definition update_by_id_tx (c id : bytes) (u : updater) : M unit :=
  m <- get_meta c ;;
  v <- tx_get (doc_key c id) ;;
  match v with
  | None => fail EDocNotExist
  | Some x =>
      let d := decode_sval x in
      del_from_indexes c (snd m) d ;;;
      match apply_updater u d with
      | None => fail EOther
      | Some d' =>
          if negb (beqb (object_id d') id) then fail EOther
          else
            add_to_indexes c (snd m) d' ;;;
            save_document (doc_key c id) d' ;;;
            tx_commit
      end
  end.

Fixpoint replace_loop (c : bytes) (idx : list bytes) (u : updater) (docs : list obj) (deleted : Z) : M Z :=
  match docs with
  | [] => ret deleted
  | d :: t =>
      let key := doc_key c (object_id d) in
      del_from_indexes c idx d ;;;
      match apply_updater u d with
      | None => tx_delete key ;;; replace_loop c idx u t (deleted + 1)
      | Some d' =>
          if negb (beqb (object_id d') (object_id d)) then fail EOther
          else
            add_to_indexes c idx d' ;;;
            save_document key d' ;;;
            replace_loop c idx u t deleted
      end
  end.

(* replaceDocs (repaired: the selected documents are collected before any is rewritten) *)
Definition replace_docs (q : nquery) (u : updater) : M unit :=
  m <- get_meta (nq_coll q) ;;
  docs <- find_all_tx q ;;
  deleted <- replace_loop (nq_coll q) (snd m) u docs 0 ;;
  if 0 <? deleted then save_meta (nq_coll q) (fst m - deleted) (snd m) else ret tt.

Definition update_tx (q : nquery) (u : updater) : M unit := replace_docs q u ;;; tx_commit.

Definition drop_collection_tx (c : bytes) : M unit :=
  replace_docs (mkNQ c None (-1) 0 []) UFunNil ;;;
  tx_delete (coll_key c) ;;;
  tx_commit.

Definition index_doc (c f : bytes) (d : obj) (_ : unit) : M (unit * bool) :=
  idx_add c f (object_id d) (doc_get f d) ;;; ret (tt, true).

Definition create_index_tx (c f : bytes) : M unit :=
  m <- get_meta c ;;
  if has_field f (snd m) then fail EIdxExist
  else
    iterate_docs (mkNQ c None (-1) 0 []) (index_doc c f) tt ;;;
    save_meta c (fst m) (snd m ++ [f]) ;;;
    tx_commit.

(* DropIndex's slice surgery: slot j (the last match) takes slot 0's entry, slot 0 is dropped *)
Fixpoint last_index_of (f : bytes) (l : list bytes) (i : nat) (found : option nat) : option nat :=
  match l with
  | [] => found
  | x :: t => last_index_of f t (S i) (if beqb x f then Some i else found)
  end.

Fixpoint set_nth {A} (n : nat) (x : A) (l : list A) : list A :=
  match l, n with
  | [], _ => []
  | _ :: t, O => x :: t
  | h :: t, S n' => h :: set_nth n' x t
  end.

Definition drop_slot (j : nat) (l : list bytes) : list bytes :=
  match l with
  | [] => []
  | h :: _ => tl (set_nth j h l)
  end.

Definition drop_index_tx (c f : bytes) : M unit :=
  m <- get_meta c ;;
  match last_index_of f (snd m) 0 None with
  | None => fail EIdxNotExist
  | Some j =>
      idx_drop c f ;;;
      save_meta c (fst m) (drop_slot j (snd m)) ;;;
      tx_commit
  end.

(* ---- read operations (transaction bodies; never commit) ---- *)
Definition find_by_id_tx (c id : bytes) : M (option obj) :=
  ok <- has_collection c ;;
  if ok then get_doc c id else fail ECollNotExist.

Definition has_index_tx (c f : bytes) : M bool := m <- get_meta c ;; ret (has_field f (snd m)).
Definition list_indexes_tx (c : bytes) : M (list bytes) := m <- get_meta c ;; ret (snd m).
Definition collection_size_tx (c : bytes) : M Z := m <- get_meta c ;; ret (fst m).

Fixpoint list_coll_loop (c : cursor) (acc : list bytes) : M (list bytes) :=
  match c with
  | [] => ret (rev acc)
  | e :: t =>
      it <- cursor_item e ;;
      if is_prefix coll_prefix (fst it) then list_coll_loop t (drop_prefix coll_prefix (fst it) :: acc)
      else ret (rev acc)
  end.

Definition list_collections_tx : M (list bytes) :=
  cur <- tx_cursor true ;; list_coll_loop (cursor_seek true coll_prefix cur) [].

(* ForEach consumer: visit, then stop after [n] documents have been visited (n < 0: never) *)
Definition foreach_cons (n : Z) (d : obj) (acc : list obj) : M (list obj * bool) :=
  ret (d :: acc, negb (Z.of_nat (length acc) + 1 =? n)).

Definition count_cons (_ : obj) (n : Z) : M (Z * bool) := ret (n + 1, true).

(* internal/compare.go — the total order on values. Definitions only.
   Models the repaired comparator (fix: compare integers and times without subtraction). *)
From Clover Require Export Value.
Open Scope Z_scope.

(* util.ToFloat64 on a canonical number *)
Definition to_float (v : value) : Z :=
  match v with
  | VInt z => of_Z z
  | VUint z => of_Z z
  | VFloat b => b
  | _ => 0
  end.

Definition is_float (v : value) : bool := match v with VFloat _ => true | _ => false end.

Definition int_val (v : value) : Z := match v with VInt z | VUint z => z | _ => 0 end.

Definition compare_numbers (a b : value) : comparison :=
  if is_float a || is_float b then fcmp (to_float a) (to_float b)
  else Z.compare (int_val a) (int_val b).

Definition compare_bool (a b : bool) : comparison :=
  match a, b with
  | false, true => Lt
  | true, false => Gt
  | _, _ => Eq
  end.

Definition compare_time (s1 n1 s2 n2 : Z) : comparison :=
  cmp_then (Z.compare s1 s2) (Z.compare n1 n2).

Fixpoint compare (a b : value) {struct a} : comparison :=
  match Z.compare (type_id a) (type_id b) with
  | Eq =>
      match a, b with
      | VStr s1, VStr s2 => lex s1 s2
      | VBool b1, VBool b2 => compare_bool b1 b2
      | VTime s1 n1 _, VTime s2 n2 _ => compare_time s1 n1 s2 n2
      | VArr l1, VArr l2 =>
          (fix cl (l1 l2 : list value) {struct l1} : comparison :=
             match l1, l2 with
             | [], [] => Eq
             | [], _ :: _ => Lt
             | _ :: _, [] => Gt
             | x :: t1, y :: t2 => cmp_then (compare x y) (cl t1 t2)
             end) l1 l2
      | VObj o1, VObj o2 =>
          (fix co (o1 o2 : list (bytes * value)) {struct o1} : comparison :=
             match o1, o2 with
             | [], [] => Eq
             | [], _ :: _ => Lt
             | _ :: _, [] => Gt
             | (k1, x) :: t1, (k2, y) :: t2 =>
                 cmp_then (lex k1 k2) (cmp_then (compare x y) (co t1 t2))
             end) o1 o2
      | VNil, VNil => Eq
      | _, _ => if is_number a && is_number b then compare_numbers a b else Eq
      end
  | c => c
  end.

Definition veq (a b : value) : bool := is_eq (compare a b).

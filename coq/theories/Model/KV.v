(* The store contract: an ordered byte-string key/value map with transactions, cursors,
   an explicit fault position and a store-call counter. Definitions only. *)
From Clover Require Export Wire Visit.
Open Scope Z_scope.

Inductive sval : Type :=
| SDoc (w : wire)                         (* msgpack-encoded document *)
| SMeta (size : Z) (idxs : list bytes)    (* JSON collection metadata {Size, Indexes} *)
| SEmpty.                                 (* index entries carry an empty value *)

Definition kv := list (bytes * sval).     (* kept sorted by key, without duplicates *)

Fixpoint kv_get (k : bytes) (s : kv) : option sval :=
  match s with
  | [] => None
  | (k', v) :: t => if beqb k k' then Some v else kv_get k t
  end.

Fixpoint kv_set (k : bytes) (v : sval) (s : kv) : kv :=
  match s with
  | [] => [(k, v)]
  | (k', v') :: t =>
      match lex k k' with
      | Lt => (k, v) :: s
      | Eq => (k, v) :: t
      | Gt => (k', v') :: kv_set k v t
      end
  end.

Fixpoint kv_del (k : bytes) (s : kv) : kv :=
  match s with
  | [] => []
  | (k', v') :: t => if beqb k k' then kv_del k t else (k', v') :: kv_del k t
  end.

(* ---- errors and results ---- *)
Inductive err : Type :=
| ECollExist | ECollNotExist | EIdxExist | EIdxNotExist | EDocNotExist | EDupKey
| EOther          (* any non-sentinel error: invalid document, id mismatch, bad literal, closed store *)
| EStore.         (* injected store failure *)

Inductive res (A : Type) : Type := Ok (a : A) | Err (e : err).
Arguments Ok {A} a.
Arguments Err {A} e.

(* ---- transaction state ---- *)
Record txst : Type := mkTx {
  view : kv;                 (* the transaction's view *)
  fault : option nat;        (* Some n: the (n+1)-th store call from now fails *)
  calls : nat;               (* store calls made so far by this operation *)
  committed : option kv;     (* set by a successful Commit *)
  fired : bool               (* the injected fault has fired *)
}.

Definition M (A : Type) : Type := txst -> res A * txst.

Definition ret {A} (a : A) : M A := fun s => (Ok a, s).
Definition fail {A} (e : err) : M A := fun s => (Err e, s).
Definition bind {A B} (m : M A) (f : A -> M B) : M B :=
  fun s => match m s with
           | (Ok a, s') => f a s'
           | (Err e, s') => (Err e, s')
           end.

Notation "x <- m ;; f" := (bind m (fun x => f)) (at level 61, m at next level, right associativity).
Notation "m ;;; f" := (bind m (fun _ => f)) (at level 61, right associativity).

(* every fallible store call goes through tick *)
Definition tick : M unit :=
  fun s =>
    match fault s with
    | Some O => (Err EStore, mkTx (view s) None (S (calls s)) (committed s) true)
    | Some (S n) => (Ok tt, mkTx (view s) (Some n) (S (calls s)) (committed s) (fired s))
    | None => (Ok tt, mkTx (view s) None (S (calls s)) (committed s) (fired s))
    end.

Definition get_view : M kv := fun s => (Ok (view s), s).
Definition put_view (v : kv) : M unit :=
  fun s => (Ok tt, mkTx v (fault s) (calls s) (committed s) (fired s)).

Definition tx_get (k : bytes) : M (option sval) := tick ;;; v <- get_view ;; ret (kv_get k v).
Definition tx_set (k : bytes) (x : sval) : M unit := tick ;;; v <- get_view ;; put_view (kv_set k x v).
Definition tx_delete (k : bytes) : M unit := tick ;;; v <- get_view ;; put_view (kv_del k v).
Definition tx_commit : M unit :=
  tick ;;; fun s => (Ok tt, mkTx (view s) (fault s) (calls s) (Some (view s)) (fired s)).

(* cursors: a snapshot of the view in iteration order *)
Definition cursor := list (bytes * sval).

Definition tx_cursor (forward : bool) : M cursor :=
  tick ;;; v <- get_view ;; ret (if forward then v else rev v).

(* Seek: forward -> first key >= target; reverse -> last key <= target *)
Fixpoint seek_fwd (target : bytes) (c : cursor) : cursor :=
  match c with
  | [] => []
  | (k, v) :: t => if bltb k target then seek_fwd target t else c
  end.

Fixpoint seek_rev (target : bytes) (c : cursor) : cursor :=
  match c with
  | [] => []
  | (k, v) :: t => if bltb target k then seek_rev target t else c
  end.

Definition cursor_seek (forward : bool) (target : bytes) (c : cursor) : cursor :=
  if forward then seek_fwd target c else seek_rev target c.

(* Item(): a fallible read of the entry under the cursor *)
Definition cursor_item (e : bytes * sval) : M (bytes * sval) := tick ;;; ret e.

(* ---- the database handle: durable store + closed flag ---- *)
Record dbst : Type := mkDb { durable : kv; closed : bool }.

(* run a transaction body: Begin, body, and the deferred Rollback.
   The result carries the number of store calls made and whether the fault fired. *)
Record txout (A : Type) : Type := mkOut { o_res : res A; o_db : dbst; o_calls : nat; o_fired : bool }.
Arguments mkOut {A} _ _ _ _.
Arguments o_res {A} _.
Arguments o_db {A} _.
Arguments o_calls {A} _.
Arguments o_fired {A} _.

Definition with_tx {A} (body : M A) (fault0 : option nat) (db : dbst) : txout A :=
  if closed db then mkOut (Err EOther) db 0 false
  else
    let s0 := mkTx (durable db) fault0 0 None false in
    match (tick ;;; body) s0 with
    | (r, s) =>
        let d := match committed s with Some v => v | None => durable db end in
        mkOut r (mkDb d false) (calls s) (fired s)
    end.

(* Byte level of a stored document.  Two third-party codecs sit between a document and the bytes in the store:
     - vmihailenco/msgpack v5 as clover drives it: msgpack.Marshal(replaceTimes(doc)) (encode.go, encode_map.go,
       encode_slice.go, encode_number.go, ext.go) and msgpack.Unmarshal into *map[string]interface{} (decode.go,
       decode_map.go, decode_slice.go, decode_string.go, ext.go);
     - time.Time.MarshalBinary / UnmarshalBinary of Go 1.23 (time/time.go), reached through GobEncode/GobDecode from
       internal/time.go's LocalizedTime (msgpack ext type 1).
   Both are transcribed byte for byte, including what they do outside their intended domain (uint32 truncation of
   lengths, the unsigned read of the signed seconds byte of a zone offset).  Definitions only. *)
From Clover Require Export Wire OrderedCode.
Open Scope Z_scope.

(* What msgpack is actually handed: a wire value together with the two things the wire value does not determine —
   the order in which Go happened to range over each map, and for every time whether its Location was time.UTC. *)
Inductive bwire : Type :=
| BNil | BInt (z : Z) | BUint (z : Z) | BFloat (b : Z) | BStr (s : bytes) | BBool (b : bool)
| BLTime (sec nsec off : Z) (utc : bool)
| BArr (l : list bwire)
| BObj (l : list (bytes * bwire)).

(* ---- integers on the wire ---- *)
Definition be_dec (s : bytes) : Z := fold_left (fun a x => a * 256 + Z.of_N x) s 0.   (* big-endian read *)
Definition wrapu (bits z : Z) : Z := z mod 2 ^ bits.                                  (* uintN(z) *)
Definition signed (bits u : Z) : Z := if u <? 2 ^ (bits - 1) then u else u - 2 ^ bits. (* intN(u) for 0 <= u < 2^N *)
Definition blen (s : bytes) : Z := Z.of_nat (length s).

(* ---- time.Time.MarshalBinary / UnmarshalBinary ---- *)
Definition unix_to_internal : Z := 62135596800.   (* seconds from year 1 to 1970: Time.sec() = unix + this *)

(* [utc] = (t.Location() == time.UTC).  Go's / and % truncate towards zero: Z.quot, Z.rem. *)
Definition gob_time_encode (sec nsec off : Z) (utc : bool) : option bytes :=
  let offsec := if utc then 0 else Z.rem off 60 in
  let offmin := if utc then -1 else Z.quot off 60 in
  let v2 := negb (offsec =? 0) in
  if negb utc && ((offmin <? -32768) || (offmin =? -1) || (32767 <? offmin)) then None
  else Some ((if v2 then 2%N else 1%N)
               :: be_bytes 8 (wrapu 64 (sec + unix_to_internal))
               ++ be_bytes 4 (wrapu 32 nsec)
               ++ be_bytes 2 (wrapu 16 offmin)
               ++ (if v2 then [Z.to_N (wrapu 8 offsec)] else [])).

(* result: unix seconds, nanoseconds, zone offset, Location == UTC.  The nanosecond word is required to be a
   nanosecond count (UnmarshalBinary itself stores any 32-bit pattern into Time.wall; MarshalBinary never writes
   another one). *)
Definition gob_time_decode (b : bytes) : option (Z * Z * Z * bool) :=
  match b with
  | [] => None
  | v :: r =>
      if ((N.eqb v 1) && (blen r =? 14)) || ((N.eqb v 2) && (blen r =? 15)) then
        let sec := signed 64 (be_dec (firstn 8 r)) in
        let nsec := signed 32 (be_dec (firstn 4 (skipn 8 r))) in
        let offmin := signed 16 (be_dec (firstn 2 (skipn 12 r))) in
        let off := offmin * 60 + (if N.eqb v 2 then Z.of_N (nth 14 r 0%N) else 0) in   (* int(buf[2]): unsigned *)
        if (nsec <? 0) || (1000000000 <=? nsec) then None
        else if off =? -60 then Some (sec - unix_to_internal, nsec, 0, true)
        else Some (sec - unix_to_internal, nsec, off, false)
      else None
  end.

(* ---- msgpack headers (msgpcode: fixstr a0.., str8 d9, str16 da, str32 db; fixarray 90.., dc, dd; fixmap 80.., de,
        df; fixext d4..d8, ext8 c7, ext16 c8, ext32 c9; nil c0, false c2, true c3, double cb, uint64 cf, int64 d3) ---- *)
Definition mp_str_hdr (n : Z) : bytes :=
  if n <? 32 then [Z.to_N (160 + n)]
  else if n <? 256 then 217%N :: be_bytes 1 n
  else if n <=? 65535 then 218%N :: be_bytes 2 n
  else 219%N :: be_bytes 4 (wrapu 32 n).

Definition mp_arr_hdr (n : Z) : bytes :=
  if n <? 16 then [Z.to_N (144 + n)]
  else if n <=? 65535 then 220%N :: be_bytes 2 n
  else 221%N :: be_bytes 4 (wrapu 32 n).

Definition mp_map_hdr (n : Z) : bytes :=
  if n <? 16 then [Z.to_N (128 + n)]
  else if n <=? 65535 then 222%N :: be_bytes 2 n
  else 223%N :: be_bytes 4 (wrapu 32 n).

Definition mp_ext_hdr (id n : Z) : bytes :=
  (if n =? 1 then [212%N] else if n =? 2 then [213%N] else if n =? 4 then [214%N]
   else if n =? 8 then [215%N] else if n =? 16 then [216%N]
   else if n <=? 255 then 199%N :: be_bytes 1 n
   else if n <=? 65535 then 200%N :: be_bytes 2 n
   else 201%N :: be_bytes 4 (wrapu 32 n))
  ++ [Z.to_N (wrapu 8 id)].

(* ---- Encoder.Encode on the values replaceTimes hands over (the compact-int/float flags are off in Marshal) ---- *)
Fixpoint bw_encode (t : bwire) : option bytes :=
  match t with
  | BNil => Some [192%N]
  | BBool b => Some [if b then 195%N else 194%N]
  | BInt z => Some (211%N :: be_bytes 8 (wrapu 64 z))
  | BUint z => Some (207%N :: be_bytes 8 (wrapu 64 z))
  | BFloat b => Some (203%N :: be_bytes 8 (wrapu 64 b))
  | BStr s => Some (mp_str_hdr (blen s) ++ s)
  | BLTime sec nsec off utc =>
      match gob_time_encode sec nsec off utc with
      | None => None                                   (* MarshalMsgpack's error aborts Marshal *)
      | Some g => Some (mp_ext_hdr 1 (blen g) ++ g)
      end
  | BArr l =>
      match (fix go (l : list bwire) : option bytes :=
               match l with
               | [] => Some []
               | x :: r => match bw_encode x, go r with
                           | Some e, Some t => Some (e ++ t)
                           | _, _ => None
                           end
               end) l with
      | Some body => Some (mp_arr_hdr (Z.of_nat (length l)) ++ body)
      | None => None
      end
  | BObj l =>
      match (fix go (l : list (bytes * bwire)) : option bytes :=
               match l with
               | [] => Some []
               | (k, x) :: r => match bw_encode x, go r with
                                | Some e, Some t => Some (mp_str_hdr (blen k) ++ k ++ e ++ t)
                                | _, _ => None
                                end
               end) l with
      | Some body => Some (mp_map_hdr (Z.of_nat (length l)) ++ body)
      | None => None
      end
  end.

(* ---- Decoder ---- *)
Definition take (n : Z) (b : bytes) : option (bytes * bytes) :=
  if (n <? 0) || (blen b <? n) then None else Some (firstn (Z.to_nat n) b, skipn (Z.to_nat n) b).

Definition take_be (n : Z) (b : bytes) : option (Z * bytes) :=
  match take n b with Some (h, r) => Some (be_dec h, r) | None => None end.

(* Decoder.bytesLen as DecodeString uses it: nil reads as the empty string; fixstr, str8/16/32 and bin8/16/32 *)
Definition dec_str_len (c : N) (r : bytes) : option (Z * bytes) :=
  let cz := Z.of_N c in
  if N.eqb c 192 then Some (0, r)
  else if (160 <=? cz) && (cz <=? 191) then Some (cz - 160, r)
  else if N.eqb c 217 || N.eqb c 196 then take_be 1 r
  else if N.eqb c 218 || N.eqb c 197 then take_be 2 r
  else if N.eqb c 219 || N.eqb c 198 then take_be 4 r
  else None.

Definition dec_string (b : bytes) : option (bytes * bytes) :=
  match b with
  | [] => None
  | c :: r => match dec_str_len c r with
              | Some (n, r') => take n r'
              | None => None
              end
  end.

(* n items with the element decoder d; n is bounded by the bytes left before it is turned into a nat *)
Fixpoint dec_seq {A : Type} (d : bytes -> option (A * bytes)) (n : nat) (b : bytes) : option (list A * bytes) :=
  match n with
  | O => Some ([], b)
  | S n' => match d b with
            | None => None
            | Some (x, r) => match dec_seq d n' r with
                             | None => None
                             | Some (l, r') => Some (x :: l, r')
                             end
            end
  end.

Definition dec_entry (d : bytes -> option (bwire * bytes)) (b : bytes) : option ((bytes * bwire) * bytes) :=
  match dec_string b with
  | None => None
  | Some (k, r) => match d r with Some (x, r') => Some ((k, x), r') | None => None end
  end.

Definition dec_count (n : Z) (r : bytes) : option nat :=
  if blen r <? n then None else Some (Z.to_nat n).   (* every item takes at least one byte: Go fails with EOF *)

(* DecodeInterface (decodeInterfaceCond with the loose flag off), restricted to the codes clover's own encoder
   emits for values: nil, bool, int64, uint64, double, strings, arrays, maps, ext.  Every other code (fixnum, int8 …
   uint32, float32, bin) would come back as a Go type outside clover's value universe: None = "not written by
   clover".  fuel bounds the nesting depth; blen b always suffices. *)
Fixpoint bw_decode (fuel : nat) (b : bytes) : option (bwire * bytes) :=
  match fuel with
  | O => None
  | S f =>
      match b with
      | [] => None
      | c :: r =>
          let cz := Z.of_N c in
          let arr (n : Z) (r : bytes) :=
            match dec_count n r with
            | None => None
            | Some k => match dec_seq (bw_decode f) k r with
                        | Some (l, r') => Some (BArr l, r')
                        | None => None
                        end
            end in
          let map_ (n : Z) (r : bytes) :=
            match dec_count n r with
            | None => None
            | Some k => match dec_seq (dec_entry (bw_decode f)) k r with
                        | Some (l, r') => Some (BObj l, r')
                        | None => None
                        end
            end in
          let ext (n : Z) (r : bytes) :=
            match r with
            | [] => None
            | id :: r1 =>
                if N.eqb id 1 then
                  match take n r1 with
                  | None => None
                  | Some (g, r2) =>
                      match gob_time_decode g with
                      | Some (s, ns, o, u) => Some (BLTime s ns o u, r2)
                      | None => None
                      end
                  end
                else None                                    (* msgpack: unknown ext id *)
            end in
          if N.eqb c 192 then Some (BNil, r)
          else if N.eqb c 194 then Some (BBool false, r)
          else if N.eqb c 195 then Some (BBool true, r)
          else if N.eqb c 211 then match take_be 8 r with Some (u, r') => Some (BInt (signed 64 u), r') | None => None end
          else if N.eqb c 207 then match take_be 8 r with Some (u, r') => Some (BUint u, r') | None => None end
          else if N.eqb c 203 then match take_be 8 r with Some (u, r') => Some (BFloat u, r') | None => None end
          else if ((160 <=? cz) && (cz <=? 191)) || N.eqb c 217 || N.eqb c 218 || N.eqb c 219 then
            match dec_string b with Some (s, r') => Some (BStr s, r') | None => None end
          else if (144 <=? cz) && (cz <=? 159) then arr (cz - 144) r
          else if N.eqb c 220 then match take_be 2 r with Some (n, r') => arr n r' | None => None end
          else if N.eqb c 221 then match take_be 4 r with Some (n, r') => arr n r' | None => None end
          else if (128 <=? cz) && (cz <=? 143) then map_ (cz - 128) r
          else if N.eqb c 222 then match take_be 2 r with Some (n, r') => map_ n r' | None => None end
          else if N.eqb c 223 then match take_be 4 r with Some (n, r') => map_ n r' | None => None end
          else if N.eqb c 212 then ext 1 r
          else if N.eqb c 213 then ext 2 r
          else if N.eqb c 214 then ext 4 r
          else if N.eqb c 215 then ext 8 r
          else if N.eqb c 216 then ext 16 r
          else if N.eqb c 199 then match take_be 1 r with Some (n, r') => ext n r' | None => None end
          else if N.eqb c 200 then match take_be 2 r with Some (n, r') => ext n r' | None => None end
          else if N.eqb c 201 then match take_be 4 r with Some (n, r') => ext n r' | None => None end
          else None
      end
  end.

(* msgpack.Unmarshal(data, *map[string]interface{}): DecodeMap — the top level must be a map (trailing bytes are
   not looked at) *)
Definition mp_unmarshal (b : bytes) : option bwire :=
  match bw_decode (S (length b)) b with
  | Some (BObj l, _) => Some (BObj l)
  | _ => None
  end.

(* what Go holds afterwards: m[k] = v (a later duplicate key overwrites), then removeLocalizedTimes *)
Fixpoint bw_value (t : bwire) : value :=
  match t with
  | BNil => VNil | BInt z => VInt z | BUint z => VUint z | BFloat b => VFloat b
  | BStr s => VStr s | BBool b => VBool b
  | BLTime s n o _ => VTime s n o
  | BArr l => VArr (map bw_value l)
  | BObj l => VObj (obj_of_list ((fix go (l : list (bytes * bwire)) : list (bytes * value) :=
                                    match l with [] => [] | (k, x) :: t => (k, bw_value x) :: go t end) l))
  end.

(* internal.Encode with the canonical choices (sorted maps, no time in Location UTC) and internal.Decode *)
Fixpoint bw_of_value (v : value) : bwire :=
  match v with
  | VNil => BNil | VInt z => BInt z | VUint z => BUint z | VFloat b => BFloat b
  | VStr s => BStr s | VBool b => BBool b
  | VTime s n o => BLTime s n o false
  | VArr l => BArr (map bw_of_value l)
  | VObj o => BObj ((fix go (o : list (bytes * value)) : list (bytes * bwire) :=
                       match o with [] => [] | (k, x) :: t => (k, bw_of_value x) :: go t end) o)
  end.

Definition doc_of_bytes (b : bytes) : option obj :=
  match mp_unmarshal b with
  | Some t => match bw_value t with VObj o => Some o | _ => None end
  | None => None
  end.

(* forgetting the order and the UTC flag gives the wire value of Wire.v *)
Fixpoint bw_erase (t : bwire) : wire :=
  match t with
  | BNil => WNil | BInt z => WInt z | BUint z => WUint z | BFloat b => WFloat b
  | BStr s => WStr s | BBool b => WBool b
  | BLTime s n o _ => WLTime s n o
  | BArr l => WArr (map bw_erase l)
  | BObj l => WObj ((fix go (l : list (bytes * bwire)) : list (bytes * wire) :=
                       match l with [] => [] | (k, x) :: t => (k, bw_erase x) :: go t end) l)
  end.

(* The tree Go handed to msgpack for the value v, reconstructed from a tree t read back from the bytes: the maps of v
   in the key order of t, a zero-offset time with the Location flag of t.  Where the shapes differ, the canonical
   choices.  (Used by the correspondence check to compare the encoder's output with the stored bytes.) *)
Fixpoint bw_align (v : value) (t : bwire) {struct v} : bwire :=
  match v, t with
  | VTime s n o, BLTime _ _ _ u => BLTime s n o (u && (o =? 0))
  | VArr l, BArr l' =>
      BArr ((fix go (l : list value) (l' : list bwire) : list bwire :=
               match l, l' with
               | [], _ => []
               | x :: r, [] => bw_of_value x :: go r []
               | x :: r, y :: r' => bw_align x y :: go r r'
               end) l l')
  | VObj o, BObj l' =>
      let aligned : list (bytes * (bwire -> bwire)) :=
        (fix go (o : list (bytes * value)) : list (bytes * (bwire -> bwire)) :=
           match o with [] => [] | (k, x) :: r => (k, bw_align x) :: go r end) o in
      let find (k : bytes) :=
        (fix f (a : list (bytes * (bwire -> bwire))) : option (bwire -> bwire) :=
           match a with [] => None | (k', g) :: r => if beqb k k' then Some g else f r end) aligned in
      let ordered :=
        (fix go (l' : list (bytes * bwire)) : list (bytes * bwire) :=
           match l' with
           | [] => []
           | (k, y) :: r => match find k with Some g => (k, g y) :: go r | None => go r end
           end) l' in
      if Nat.eqb (length ordered) (length o) then BObj ordered else bw_of_value v
  | _, _ => bw_of_value v
  end.

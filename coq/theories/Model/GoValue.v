(* Go values as reflect sees them, and internal.Normalize. Definitions only. *)
From Clover Require Export Document.
Open Scope Z_scope.

Inductive goval : Type :=
| GNil                                   (* untyped nil *)
| GInt (bits : Z) (z : Z)                (* int (bits 0), int8/16/32/64 *)
| GUint (bits : Z) (z : Z)               (* uint (bits 0), uint8/16/32/64 *)
| GFloat32 (b : Z)                       (* the float32 value widened to float64, as float64 bits *)
| GFloat64 (b : Z)
| GString (s : bytes)
| GBool (b : bool)
| GTime (sec nsec off : Z)
| GPtr (p : option goval)                (* typed pointer: nil or pointing to a value *)
| GStruct (fields : list gfield)
| GMap (string_keys : bool) (entries : list (bytes * goval))
| GSlice (elem_uint8 : bool) (l : list goval)   (* slices and arrays *)
| GUnsupported                           (* chan, func, complex, uintptr *)
| GCanon (v : value)                     (* an already canonical value passed through interface{} *)
with gfield : Type :=
| GField (name : bytes) (exported : bool) (tag : bytes) (anonymous : bool) (iface_typed : bool) (v : goval).

(* processStructTag *)
Definition ch_comma : N := 44.
Definition omitempty_s : bytes := [111; 109; 105; 116; 101; 109; 112; 116; 121]%N.

Definition tag_name (tag : bytes) : bytes :=
  match split_on ch_comma tag with h :: _ => h | [] => [] end.
Definition tag_omitempty (tag : bytes) : bool :=
  match split_on ch_comma tag with _ :: o :: _ => beqb o omitempty_s | _ => false end.

(* isEmptyValue on the field's static kind *)
Definition is_empty_value (iface_typed : bool) (g : goval) : bool :=
  if iface_typed then match g with GNil => true | _ => false end
  else
  match g with
  | GNil => true
  | GSlice _ l => match l with [] => true | _ => false end
  | GMap _ l => match l with [] => true | _ => false end
  | GString s => match s with [] => true | _ => false end
  | GBool b => negb b
  | GInt _ z => z =? 0
  | GUint _ z => z =? 0
  | GFloat32 b | GFloat64 b => (fbits_mag b =? 0)
  | GPtr None => true
  | GCanon VNil => true
  | _ => false
  end.

Inductive nres : Type := NOk (v : value) | NErr | NBytes. (* NBytes: []uint8 passed through un-normalised *)

Definition merge_obj (into from : obj) : obj :=
  fold_left (fun o kv => obj_set (fst kv) (snd kv) o) from into.

(* internal.Normalize. [ptr_time_followed] models the repaired code where *time.Time is followed. *)
Fixpoint normalize (g : goval) {struct g} : nres :=
  match g with
  | GNil => NOk VNil
  | GInt _ z => NOk (VInt z)
  | GUint _ z => NOk (VUint z)
  | GFloat32 b | GFloat64 b => NOk (VFloat b)
  | GString s => NOk (VStr s)
  | GBool b => NOk (VBool b)
  | GTime s n o => NOk (VTime s n o)
  | GPtr None => NOk VNil
  | GPtr (Some g') => normalize g'
  | GCanon v => NOk v
  | GUnsupported => NErr
  | GSlice true _ => NBytes
  | GSlice false l =>
      (fix go (l : list goval) (acc : list value) : nres :=
         match l with
         | [] => NOk (VArr (rev acc))
         | x :: t => match normalize x with NOk v => go t (v :: acc) | r => match r with NBytes => go t (VNil :: acc) | _ => NErr end end
         end) l []
  | GMap false _ => NErr
  | GMap true es =>
      (fix go (es : list (bytes * goval)) (acc : obj) : nres :=
         match es with
         | [] => NOk (VObj acc)
         | (k, x) :: t => match normalize x with NOk v => go t (obj_set k v acc) | NBytes => go t (obj_set k VNil acc) | NErr => NErr end
         end) es []
  | GStruct fs =>
      (fix go (fs : list gfield) (acc : obj) : nres :=
         match fs with
         | [] => NOk (VObj acc)
         | GField name exported tag anon iface x :: t =>
             if negb exported then go t acc
             else
               let fname := match tag_name tag with [] => name | n => n end in
               if tag_omitempty tag && is_empty_value iface x then go t acc
               else match normalize x with
                    | NErr => NErr
                    | NBytes => go t (obj_set fname VNil acc)
                    | NOk v =>
                        if anon then
                          match v with
                          | VObj o => go t (merge_obj acc o)
                          | _ => go t (obj_set fname v acc)
                          end
                        else go t (obj_set fname v acc)
                    end
         end) fs []
  end.

(* Document.Set(name, g): no change when normalisation fails *)
Definition doc_set_go (name : bytes) (g : goval) (d : obj) : obj :=
  match normalize g with
  | NOk v => doc_set name v d
  | _ => d
  end.

(* NewDocumentOf(g): None when the value does not normalise to a map *)
Definition new_document_of (g : goval) : option obj :=
  match normalize g with
  | NOk (VObj o) => Some o
  | _ => None
  end.

Definition goval_of_value (v : value) : goval := GCanon v.

(* google/orderedcode primitives used by clover, re-implemented byte for byte. Definitions only. *)
From Clover Require Export Bytes Float64.
Open Scope Z_scope.

(* string escape: 00 -> 00 ff, ff -> ff 00, terminator 00 01 *)
Fixpoint esc (s : bytes) : bytes :=
  match s with
  | [] => []
  | x :: t =>
      (if N.eqb x 0 then [0; 255]%N else if N.eqb x 255 then [255; 0]%N else [x]) ++ esc t
  end.

Definition oc_string (s : bytes) : bytes := esc s ++ [0; 1]%N.

(* n big-endian bytes of x *)
Fixpoint be_bytes (n : nat) (x : Z) : bytes :=
  match n with
  | O => []
  | S n' => be_bytes n' (x / 256) ++ [Z.to_N (x mod 256)]
  end.

(* number of bytes of the minimal big-endian representation (0 for 0) *)
Definition ulen (x : Z) : nat :=
  if x <=? 0 then O else Z.to_nat (Z.log2 x / 8 + 1).

Definition oc_uint64 (x : Z) : bytes :=
  N.of_nat (ulen x) :: be_bytes (ulen x) x.

(* int64: L leading one bits, a zero bit, then 7L-1 payload bits; L minimal *)
Definition ilen (x : Z) : nat :=
  if x <=? 0 then 1%nat else Z.to_nat ((Z.log2 x + 1) / 7 + 1).

Definition oc_int64_nonneg (x : Z) : bytes :=
  let L := Z.of_nat (ilen x) in
  be_bytes (ilen x) (2 ^ (8 * L) - 2 ^ (7 * L) + x).

Definition invert (s : bytes) : bytes := map (fun b => (255 - b)%N) s.

Definition oc_int64 (x : Z) : bytes :=
  if 0 <=? x then oc_int64_nonneg x else invert (oc_int64_nonneg (- x - 1)).

Definition oc_float64 (b : Z) : bytes := oc_int64 (fkey_int b).

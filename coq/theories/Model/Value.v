(* clover's canonical value universe. Definitions only. *)
From Clover Require Export Bytes Float64.
Open Scope Z_scope.

Inductive value : Type :=
| VNil
| VInt (z : Z)                      (* int64 *)
| VUint (z : Z)                     (* uint64 *)
| VFloat (b : Z)                    (* float64 bit pattern *)
| VStr (s : bytes)
| VBool (b : bool)
| VTime (sec nsec off : Z)          (* unix seconds, nanoseconds in [0,1e9), zone offset in seconds *)
| VArr (l : list value)
| VObj (l : list (bytes * value)).  (* sorted by key, no duplicate keys *)

Definition obj := list (bytes * value).

Definition int64_ok (z : Z) : bool := (- two63 <=? z) && (z <? two63).
Definition uint64_ok (z : Z) : bool := (0 <=? z) && (z <? two64).

Fixpoint keys_sorted (l : list (bytes * value)) : bool :=
  match l with
  | [] => true
  | (k, _) :: t =>
      match t with
      | [] => true
      | (k', _) :: _ => bltb k k' && keys_sorted t
      end
  end.

Fixpoint wf_value (v : value) : bool :=
  match v with
  | VNil => true
  | VInt z => int64_ok z
  | VUint z => uint64_ok z
  | VFloat b => uint64_ok b && negb (is_nan b)
  | VStr _ => true
  | VBool _ => true
  | VTime sec nsec off => (0 <=? nsec) && (nsec <? 1000000000)
  | VArr l => forallb wf_value l
  | VObj l => keys_sorted l && (fix wfl (l : list (bytes * value)) : bool :=
                                  match l with [] => true | (_, x) :: t => wf_value x && wfl t end) l
  end.

(* type rank: nil 0 < number 1 < string 2 < map 3 < slice 4 < bool 5 < time 6 *)
Definition type_id (v : value) : Z :=
  match v with
  | VNil => 0
  | VInt _ | VUint _ | VFloat _ => 1
  | VStr _ => 2
  | VObj _ => 3
  | VArr _ => 4
  | VBool _ => 5
  | VTime _ _ _ => 6
  end.

Definition is_number (v : value) : bool :=
  match v with VInt _ | VUint _ | VFloat _ => true | _ => false end.

(* association-list object helpers (sorted insert keeps the canonical form) *)
Fixpoint obj_get (k : bytes) (o : obj) : option value :=
  match o with
  | [] => None
  | (k', v) :: t => if beqb k k' then Some v else obj_get k t
  end.

Fixpoint obj_set (k : bytes) (v : value) (o : obj) : obj :=
  match o with
  | [] => [(k, v)]
  | (k', v') :: t =>
      match lex k k' with
      | Lt => (k, v) :: o
      | Eq => (k, v) :: t
      | Gt => (k', v') :: obj_set k v t
      end
  end.

Fixpoint obj_del (k : bytes) (o : obj) : obj :=
  match o with
  | [] => []
  | (k', v') :: t => if beqb k k' then t else (k', v') :: obj_del k t
  end.

Definition obj_of_list (l : list (bytes * value)) : obj :=
  fold_left (fun o kv => obj_set (fst kv) (snd kv) o) l [].

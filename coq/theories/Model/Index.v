(* index/range_index.go and the key layout of db.go (repaired versions). Definitions only. *)
From Clover Require Export KV Code.
Open Scope Z_scope.

(* "coll:" ++ name *)
Definition coll_prefix : bytes := [ch_c; ch_o; ch_l; ch_l; ch_colon].
Definition coll_key (c : bytes) : bytes := coll_prefix ++ c.

(* "c:" ++ c ++ ";d:" *)
Definition doc_prefix (c : bytes) : bytes := [ch_c; ch_colon] ++ c ++ [ch_semi; ch_d; ch_colon].
Definition doc_key (c id : bytes) : bytes := doc_prefix c ++ id.

(* "c:" ++ c ++ ";i:" ++ f ++ ";"   (repaired: ends with the separator) *)
Definition idx_prefix (c f : bytes) : bytes :=
  [ch_c; ch_colon] ++ c ++ [ch_semi; ch_i; ch_colon] ++ f ++ [ch_semi].

(* idx_prefix ++ "t:<d>;v:" *)
Definition idx_type_prefix (c f : bytes) (tid : Z) : bytes :=
  idx_prefix c f ++ [ch_t; ch_colon; Z.to_N (48 + tid); ch_semi; ch_v; ch_colon].

(* getKey(v) *)
Definition idx_value_key (c f : bytes) (v : value) : bytes :=
  idx_type_prefix c f (type_id v) ++ value_code v.

Definition idx_key (c f : bytes) (v : value) (id : bytes) : bytes :=
  idx_value_key c f v ++ id.

Definition idx_add (c f : bytes) (id : bytes) (v : value) : M unit := tx_set (idx_key c f v id) SEmpty.
Definition idx_remove (c f : bytes) (id : bytes) (v : value) : M unit := tx_delete (idx_key c f v id).

(* extractDocId: the last 36 bytes *)
Definition key_split_id (k : bytes) : bytes * bytes :=
  let n := (length k - 36)%nat in (firstn n k, skipn n k).

(* Drop(): delete every key with the index prefix *)
Fixpoint idx_drop_loop (p : bytes) (c : cursor) : M unit :=
  match c with
  | [] => ret tt
  | e :: t =>
      it <- cursor_item e ;;
      if is_prefix p (fst it) then tx_delete (fst it) ;;; idx_drop_loop p t
      else ret tt
  end.

Definition idx_drop (c f : bytes) : M unit :=
  cur <- tx_cursor true ;;
  idx_drop_loop (idx_prefix c f) (cursor_seek true (idx_prefix c f) cur).

(* the consumer protocol: fold a state through the visited ids; [false] = stop *)
Section Scan.
  Context {A : Type}.
  Variable on_id : bytes -> A -> M (A * bool).

  (* skip entries that carry the excluded bound's key as a prefix *)
  Fixpoint skip_bound (bkey : bytes) (c : cursor) : M cursor :=
    match c with
    | [] => ret []
    | e :: t =>
        it <- cursor_item e ;;
        if is_prefix bkey (fst it) then skip_bound bkey t else ret c
    end.

  (* main loop of IterateRange; [stop_key]/[check]/[stop_inc]: the far bound *)
  Fixpoint range_loop (p : bytes) (reverse : bool) (check : bool) (far : bytes) (far_inc : bool)
           (c : cursor) (a : A) : M A :=
    match c with
    | [] => ret a
    | e :: t =>
        it <- cursor_item e ;;
        let k := fst it in
        if negb (is_prefix p k) then ret a
        else
          let '(pk, id) := key_split_id k in
          let cmp := lex pk far in
          let past :=
            check && (if reverse then (is_lt cmp || (is_eq cmp && negb far_inc))
                      else (is_gt cmp || (is_eq cmp && negb far_inc))) in
          if past then ret a
          else
            r <- on_id id a ;;
            if snd r then range_loop p reverse check far far_inc t (fst r) else ret (fst r)
    end.

  (* IterateRange (repaired: a reverse scan with an inclusive upper bound starts after that bound's entries) *)
  Definition idx_iterate_range (c f : bytes) (r : range) (reverse : bool) (a : A) : M A :=
    if range_is_empty r then ret a
    else
      let nilr := range_is_nil r in
      let has_start := nilr || negb (is_nilv (r_start r)) in
      let has_end := nilr || negb (is_nilv (r_end r)) in
      let start_key := idx_value_key c f (r_start r) in
      let end_key := idx_value_key c f (r_end r) in
      let p := idx_prefix c f in
      let seek :=
        if reverse then
          (if has_end then (if r_einc r then end_key ++ [255%N] else end_key) else p ++ [255%N])
        else
          (if has_start then start_key else p) in
      cur <- tx_cursor (negb reverse) ;;
      let c0 := cursor_seek (negb reverse) seek cur in
      c1 <- (if reverse
             then (if negb (is_nilv (r_end r)) && negb (r_einc r) then skip_bound end_key c0 else ret c0)
             else (if negb (is_nilv (r_start r)) && negb (r_sinc r) then skip_bound start_key c0 else ret c0)) ;;
      if reverse then range_loop p true has_start start_key (r_sinc r) c1 a
      else range_loop p false has_end end_key (r_einc r) c1 a.

  (* Iterate: the whole index *)
  Definition idx_iterate (c f : bytes) (reverse : bool) (a : A) : M A :=
    let p := idx_prefix c f in
    cur <- tx_cursor (negb reverse) ;;
    let c0 := cursor_seek (negb reverse) (if reverse then p ++ [255%N] else p) cur in
    range_loop p reverse false [] false c0 a.
End Scan.

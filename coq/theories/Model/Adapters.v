(* store/bbolt/bbolt.go and store/badger/badger.go — the cursor adapters, over the documented behaviour
   of the libraries' own cursors (modelled by contract). Definitions only.

   A library cursor over the sorted key list [ks] is a position [option nat] (None = exhausted/invalid).
   bbolt:  Seek(t) -> first key >= t, or none;  Next / Prev step;  Last -> last key.
   badger: iterator with Reverse option: Seek(t) -> first key >= t (forward), last key <= t (reverse). *)
From Clover Require Export KV.
Open Scope nat_scope.

Section Lib.
  Variable ks : list bytes.          (* the keys of the bucket, sorted strictly ascending *)

  Fixpoint first_ge (t : bytes) (l : list bytes) (i : nat) : option nat :=
    match l with
    | [] => None
    | k :: r => if bltb k t then first_ge t r (S i) else Some i
    end.

  Definition lib_seek (t : bytes) : option nat := first_ge t ks 0.
  Definition lib_next (p : option nat) : option nat :=
    match p with Some i => if Nat.ltb (S i) (length ks) then Some (S i) else None | None => None end.
  Definition lib_prev (p : option nat) : option nat :=
    match p with Some (S i) => Some i | _ => None end.
  Definition lib_last : option nat :=
    match ks with [] => None | _ => Some (length ks - 1) end.
  Definition key_at (p : option nat) : option bytes :=
    match p with Some i => nth_error ks i | None => None end.

  (* ---- bbolt adapter (boltCursor), repaired version ---- *)
  Definition bolt_seek (forward : bool) (t : bytes) : option nat :=
    let p := lib_seek t in
    if forward then p
    else match p with
         | None => lib_last                                   (* every key is smaller than t *)
         | Some _ =>
             match key_at p with
             | Some k => if beqb k t then p else lib_prev p   (* not an exact hit: step back once *)
             | None => None
             end
         end.
  Definition bolt_next (forward : bool) (p : option nat) : option nat :=
    if forward then lib_next p else lib_prev p.
  Definition bolt_valid (p : option nat) : bool := match key_at p with Some _ => true | None => false end.

  (* the keys an iteration "Seek(t); for ; Valid(); Next()" visits; fuel = number of keys *)
  Fixpoint bolt_iter (fuel : nat) (forward : bool) (p : option nat) : list bytes :=
    match fuel with
    | O => []
    | S n => match key_at p with
             | Some k => k :: bolt_iter n forward (bolt_next forward p)
             | None => []
             end
    end.
  Definition bolt_scan (forward : bool) (t : bytes) : list bytes :=
    bolt_iter (S (length ks)) forward (bolt_seek forward t).

  (* ---- badger adapter (badgerCursor): a pass-through of the library iterator ---- *)
  Fixpoint last_le (t : bytes) (l : list bytes) (i : nat) (best : option nat) : option nat :=
    match l with
    | [] => best
    | k :: r => if bltb t k then best else last_le t r (S i) (Some i)
    end.
  Definition badger_seek (forward : bool) (t : bytes) : option nat :=
    if forward then first_ge t ks 0 else last_le t ks 0 None.
  Definition badger_scan (forward : bool) (t : bytes) : list bytes :=
    bolt_iter (S (length ks)) forward (badger_seek forward t).
End Lib.

(* the contract both must meet: the model's own cursor over the same keys *)
Definition contract_scan (ks : list bytes) (forward : bool) (t : bytes) : list bytes :=
  let s : kv := map (fun k => (k, SEmpty)) ks in
  map fst (cursor_seek forward t (if forward then s else rev s)).

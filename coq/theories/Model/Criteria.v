(* query/criteria.go and query/query.go — criteria AST, satisfaction, query builder. Definitions only. *)
From Clover Require Export GoValue.
Open Scope Z_scope.

Inductive cmpop : Type := OEq | OGt | OGtEq | OLt | OLtEq.

Inductive operand (L : Type) : Type :=
| OLit (l : L)
| ORef (f : bytes).            (* query.Field(name) used as an operand *)
Arguments OLit {L} l.
Arguments ORef {L} f.

Inductive crit (L : Type) : Type :=
| CCmp (o : cmpop) (f : bytes) (v : operand L)
| CExists (f : bytes)
| CLike (f : bytes) (pat : bytes)
| CIn (f : bytes) (vs : list (operand L))
| CContains (f : bytes) (vs : list (operand L))
| CFun (m : Z)                 (* MatchFunc: index into the fixed predicate menu *)
| CNot (c : crit L)
| CAnd (c1 c2 : crit L)
| COr (c1 c2 : crit L).
Arguments CCmp {L} o f v.
Arguments CExists {L} f.
Arguments CLike {L} f pat.
Arguments CIn {L} f vs.
Arguments CContains {L} f vs.
Arguments CFun {L} m.
Arguments CNot {L} c.
Arguments CAnd {L} c1 c2.
Arguments COr {L} c1 c2.

Definition gcrit := crit goval.   (* as built by the caller *)
Definition ncrit := crit value.   (* after CriteriaNormalizeVisitor *)

(* ---- Like: the regexp sub-language  ^? (literal | .* )* $?  (unanchored search otherwise) ---- *)
Inductive ratom : Type := RLit (c : N) | RAnyStar.

Fixpoint parse_atoms (p : bytes) : list ratom :=
  match p with
  | [] => []
  | 46%N :: 42%N :: t => RAnyStar :: parse_atoms t
  | c :: t => RLit c :: parse_atoms t
  end.

(* does s have a prefix matched by atoms, (with [to_end]: the whole of s) *)
Fixpoint match_here (atoms : list ratom) (to_end : bool) (s : bytes) {struct atoms} : bool :=
  match atoms with
  | [] => if to_end then match s with [] => true | _ => false end else true
  | RLit c :: rest =>
      match s with
      | x :: t => N.eqb x c && match_here rest to_end t
      | [] => false
      end
  | RAnyStar :: rest =>
      (fix try (s : bytes) : bool :=
         match_here rest to_end s ||
         match s with
         | [] => false
         | _ :: t => try t
         end) s
  end.

Fixpoint match_anywhere (atoms : list ratom) (to_end : bool) (s : bytes) : bool :=
  match_here atoms to_end s ||
  match s with
  | [] => false
  | _ :: t => match_anywhere atoms to_end t
  end.

(* patterns regexp.Compile rejects (like() then answers false for every document): an unclosed or unopened
   group or class, a repetition operator with nothing to repeat *)
Definition pat_malformed (pat : bytes) : bool :=
  (mem_byte 40 pat && negb (mem_byte 41 pat)) || (mem_byte 41 pat && negb (mem_byte 40 pat)) ||
  (mem_byte 91 pat && negb (mem_byte 93 pat)) ||
  match pat with 42%N :: _ | 43%N :: _ | 63%N :: _ => true | _ => false end.

Definition like_match (pat s : bytes) : bool :=
  if pat_malformed pat then false else
  let '(anch_start, p1) := match pat with 94%N :: t => (true, t) | _ => (false, pat) end in
  let '(anch_end, p2) :=
    match rev p1 with
    | 36%N :: r => (true, rev r)
    | _ => (false, p1)
    end in
  let atoms := parse_atoms p2 in
  if anch_start then match_here atoms anch_end s else match_anywhere atoms anch_end s.

(* ---- MatchFunc menu (twin definitions exist in the Go harness) ---- *)
Definition fa : bytes := [97]%N.
Definition fb : bytes := [98]%N.
Definition fun_menu (m : Z) (d : obj) : bool :=
  match m with
  | 0 => true
  | 1 => false
  | 2 => doc_has fa d
  | 3 => is_gt (compare (doc_get fa d) (doc_get fb d))
  | 4 => match doc_get fa d with VInt z => Z.even z | _ => false end
  | _ => match doc_get fb d with VStr _ => true | _ => false end
  end.

(* ---- satisfaction on normalised criteria ---- *)
Fixpoint trim_dollars (s : bytes) : bytes :=
  match s with
  | 36%N :: t => trim_dollars t
  | _ => s
  end.

(* getFieldOrValue *)
Definition field_or_value (d : obj) (v : operand value) : value :=
  match v with
  | ORef f => doc_get f d
  | OLit (VStr (36%N :: t)) => doc_get (trim_dollars t) d
  | OLit x => x
  end.

Definition cmp_holds (o : cmpop) (c : comparison) : bool :=
  match o with
  | OEq => is_eq c
  | OGt => is_gt c
  | OGtEq => is_ge c
  | OLt => is_lt c
  | OLtEq => is_le c
  end.

Definition sat_cmp (o : cmpop) (f : bytes) (v : operand value) (d : obj) : bool :=
  match o with
  | OEq => doc_has f d && is_eq (compare (doc_get f d) (field_or_value d v))
  | _ => cmp_holds o (compare (doc_get f d) (field_or_value d v))
  end.

Definition sat_in (f : bytes) (vs : list (operand value)) (d : obj) : bool :=
  existsb (fun v => is_eq (compare (field_or_value d v) (doc_get f d))) vs.

Definition sat_contains (f : bytes) (vs : list (operand value)) (d : obj) : bool :=
  match doc_get f d with
  | VArr l => forallb (fun v => existsb (fun x => is_eq (compare (field_or_value d v) x)) l) vs
  | _ => false
  end.

Definition sat_like (f pat : bytes) (d : obj) : bool :=
  match doc_get f d with
  | VStr s => like_match pat s
  | _ => false
  end.

Fixpoint sat (c : ncrit) (d : obj) : bool :=
  match c with
  | CCmp o f v => sat_cmp o f v d
  | CExists f => doc_has f d
  | CLike f pat => sat_like f pat d
  | CIn f vs => sat_in f vs d
  | CContains f vs => sat_contains f vs d
  | CFun m => fun_menu m d
  | CNot c' => negb (sat c' d)
  | CAnd c1 c2 => sat c1 d && sat c2 d
  | COr c1 c2 => sat c1 d || sat c2 d
  end.

(* ---- CriteriaNormalizeVisitor (repaired: In/Contains operands normalised one by one) ---- *)
Definition norm_operand (v : operand goval) : option (operand value) :=
  match v with
  | ORef f => Some (ORef f)
  | OLit g => match normalize g with NOk x => Some (OLit x) | _ => None end
  end.

Fixpoint norm_operands (vs : list (operand goval)) : option (list (operand value)) :=
  match vs with
  | [] => Some []
  | v :: t =>
      match norm_operand v, norm_operands t with
      | Some x, Some r => Some (x :: r)
      | _, _ => None
      end
  end.

Fixpoint norm_crit (c : gcrit) : option ncrit :=
  match c with
  | CCmp o f v => match norm_operand v with Some x => Some (CCmp o f x) | None => None end
  | CExists f => Some (CExists f)
  | CLike f p => Some (CLike f p)
  | CIn f vs => match norm_operands vs with Some r => Some (CIn f r) | None => None end
  | CContains f vs => match norm_operands vs with Some r => Some (CContains f r) | None => None end
  | CFun m => Some (CFun m)
  | CNot c' => match norm_crit c' with Some r => Some (CNot r) | None => None end
  | CAnd c1 c2 => match norm_crit c1, norm_crit c2 with Some a, Some b => Some (CAnd a b) | _, _ => None end
  | COr c1 c2 => match norm_crit c1, norm_crit c2 with Some a, Some b => Some (COr a b) | _, _ => None end
  end.

(* ---- query builder (query/query.go) ---- *)
Record query : Type := mkQuery {
  q_coll : bytes;
  q_crit : option gcrit;
  q_limit : Z;
  q_skip : Z;
  q_sort : list (bytes * Z)     (* field, direction (+1 / -1 after normalisation) *)
}.

Definition new_query (c : bytes) : query := mkQuery c None (-1) 0 [].

Inductive qstep : Type :=
| QWhere (c : gcrit)
| QMatchFunc (m : Z)
| QSkip (n : Z)
| QLimit (n : Z)
| QSort (opts : list (bytes * Z)).

Definition norm_sort_opts (opts : list (bytes * Z)) : list (bytes * Z) :=
  map (fun o => (fst o, if 0 <=? snd o then 1 else -1)) opts.

Definition q_apply (q : query) (s : qstep) : query :=
  match s with
  | QWhere c => mkQuery (q_coll q) (Some c) (q_limit q) (q_skip q) (q_sort q)
  | QMatchFunc m => mkQuery (q_coll q) (Some (CFun m)) (q_limit q) (q_skip q) (q_sort q)
  | QSkip n => if 0 <=? n then mkQuery (q_coll q) (q_crit q) (q_limit q) n (q_sort q) else q
  | QLimit n => mkQuery (q_coll q) (q_crit q) n (q_skip q) (q_sort q)
  | QSort opts =>
      mkQuery (q_coll q) (q_crit q) (q_limit q) (q_skip q)
        (match opts with [] => [(id_field, 1)] | _ => norm_sort_opts opts end)
  end.

Definition build_query (c : bytes) (steps : list qstep) : query := fold_left q_apply steps (new_query c).

(* internal/time.go + Encode/Decode — msgpack wire form with localized times. Definitions only.
   msgpack and gob themselves are taken as identities on these structured values. *)
From Clover Require Export Value.
Open Scope Z_scope.

Inductive wire : Type :=
| WNil | WInt (z : Z) | WUint (z : Z) | WFloat (b : Z) | WStr (s : bytes) | WBool (b : bool)
| WTime (sec nsec off : Z)            (* a bare time.Time (never produced by replaceTimes) *)
| WLTime (sec nsec off : Z)           (* *LocalizedTime, msgpack ext 1 *)
| WArr (l : list wire)
| WObj (l : list (bytes * wire)).

(* replaceTimes: value as held by a document -> what is handed to msgpack *)
Fixpoint replace_times (v : value) : wire :=
  match v with
  | VNil => WNil | VInt z => WInt z | VUint z => WUint z | VFloat b => WFloat b
  | VStr s => WStr s | VBool b => WBool b
  | VTime s n o => WLTime s n o
  | VArr l => WArr (map replace_times l)
  | VObj o => WObj ((fix go (o : list (bytes * value)) : list (bytes * wire) :=
                       match o with [] => [] | (k, x) :: t => (k, replace_times x) :: go t end) o)
  end.

(* removeLocalizedTimes (repaired: recurses with itself in the slice branch) *)
Fixpoint remove_localized (w : wire) : value :=
  match w with
  | WNil => VNil | WInt z => VInt z | WUint z => VUint z | WFloat b => VFloat b
  | WStr s => VStr s | WBool b => VBool b
  | WTime s n o => VTime s n o
  | WLTime s n o => VTime s n o
  | WArr l => VArr (map remove_localized l)
  | WObj o => VObj ((fix go (o : list (bytes * wire)) : list (bytes * value) :=
                       match o with [] => [] | (k, x) :: t => (k, remove_localized x) :: go t end) o)
  end.

Definition doc_encode (d : obj) : wire := replace_times (VObj d).
Definition doc_decode (w : wire) : obj :=
  match remove_localized w with VObj o => o | _ => [] end.

(* document/document.go — dotted-path access, ids, validation. Definitions only. *)
From Clover Require Export Compare.
Open Scope Z_scope.

(* strings.Split(name, ".") *)
Fixpoint split_on (sep : N) (s : bytes) : list bytes :=
  match s with
  | [] => [[]]
  | x :: t =>
      if N.eqb x sep then [] :: split_on sep t
      else match split_on sep t with
           | [] => [[x]]
           | h :: r => (x :: h) :: r
           end
  end.

Definition split_dot (s : bytes) : list bytes := split_on ch_dot s.

(* lookupField with force = false: Some v iff the path exists *)
Fixpoint lookup_path (path : list bytes) (o : obj) : option value :=
  match path with
  | [] => None
  | [k] => obj_get k o
  | k :: rest =>
      match obj_get k o with
      | Some (VObj o') => lookup_path rest o'
      | _ => None
      end
  end.

Definition doc_lookup (name : bytes) (d : obj) : option value := lookup_path (split_dot name) d.
Definition doc_has (name : bytes) (d : obj) : bool :=
  match doc_lookup name d with Some _ => true | None => false end.
Definition doc_get (name : bytes) (d : obj) : value :=
  match doc_lookup name d with Some v => v | None => VNil end.

(* lookupField with force = true, then the assignment *)
Fixpoint set_path (path : list bytes) (v : value) (o : obj) : obj :=
  match path with
  | [] => o
  | [k] => obj_set k v o
  | k :: rest =>
      let sub := match obj_get k o with Some (VObj o') => o' | _ => [] end in
      obj_set k (VObj (set_path rest v sub)) o
  end.

Definition doc_set (name : bytes) (v : value) (d : obj) : obj := set_path (split_dot name) v d.

Definition doc_set_all (upd : list (bytes * value)) (d : obj) : obj :=
  fold_left (fun d kv => doc_set (fst kv) (snd kv) d) upd d.

Definition id_field : bytes := [95; 105; 100]%N.                                   (* "_id" *)
Definition expires_field : bytes := [95; 101; 120; 112; 105; 114; 101; 115; 65; 116]%N. (* "_expiresAt" *)

(* ObjectId(): "" unless _id is a string *)
Definition object_id (d : obj) : bytes :=
  match doc_get id_field d with VStr s => s | _ => [] end.

(* gofrs/uuid FromString accepted textual forms *)
Definition is_hex (c : N) : bool :=
  ((48 <=? c) && (c <=? 57) || (97 <=? c) && (c <=? 102) || (65 <=? c) && (c <=? 70))%N.

Definition ch_dash : N := 45.

Fixpoint canonical_from (i : nat) (s : bytes) : bool :=
  match s with
  | [] => true
  | c :: t =>
      (if (Nat.eqb i 8 || Nat.eqb i 13 || Nat.eqb i 18 || Nat.eqb i 23)%bool
       then N.eqb c ch_dash else is_hex c) && canonical_from (S i) t
  end.

Definition uuid_body_ok (s : bytes) : bool :=
  if Nat.eqb (length s) 36 then canonical_from 0 s else forallb is_hex s.

Definition urn_prefix : bytes := [117; 114; 110; 58; 117; 117; 105; 100; 58]%N. (* "urn:uuid:" *)

Definition valid_id (s : bytes) : bool :=
  let n := length s in
  if (Nat.eqb n 32 || Nat.eqb n 36)%bool then uuid_body_ok s
  else if (Nat.eqb n 34 || Nat.eqb n 38)%bool then
    match s with
    | c :: t => N.eqb c 123 && N.eqb (last s 0%N) 125 && uuid_body_ok (removelast t)
    | [] => false
    end
  else if (Nat.eqb n 41 || Nat.eqb n 45)%bool then
    is_prefix urn_prefix s && uuid_body_ok (skipn 9 s)
  else false.

Definition canonical_id (s : bytes) : bool := Nat.eqb (length s) 36 && canonical_from 0 s.

(* document.Validate *)
Definition validate (d : obj) : bool :=
  valid_id (object_id d) &&
  match doc_lookup expires_field d with
  | None => true
  | Some (VTime _ _ _) => true
  | Some _ => false
  end.

(* util.MapKeys(m, true, includeSubKeys) — Fields(): dotted leaf paths, sorted *)
Fixpoint leaf_paths (v : value) {struct v} : list bytes :=
  match v with
  | VObj o =>
      (fix go (o : list (bytes * value)) : list bytes :=
         match o with
         | [] => []
         | (k, x) :: t =>
             (match x with
              | VObj _ => map (fun s => k ++ [ch_dot] ++ s) (leaf_paths x)
              | _ => [k]
              end) ++ go t
         end) o
  | _ => []
  end.

Definition fields_of (sub : bool) (d : obj) : list bytes :=
  if sub then msort bleb (leaf_paths (VObj d)) else map fst d.

(* internal/code.go — order-preserving encoding of values for index keys. Definitions only. *)
From Clover Require Export Compare OrderedCode.
Open Scope Z_scope.

Definition billion : Z := 1000000000.

(* uint64(t.UnixNano()): wraps modulo 2^64 *)
Definition unix_nano_u64 (sec nsec : Z) : Z := (sec * billion + nsec) mod two64.

(* encoding of a primitive after the optional type prefix *)
Definition oc_prim_body (v : value) : bytes :=
  match v with
  | VNil => []
  | VInt _ | VUint _ | VFloat _ => oc_float64 (to_float v)
  | VBool b => oc_uint64 (if b then 1 else 0)
  | VTime sec nsec _ => oc_uint64 (unix_nano_u64 sec nsec)
  | VStr s => oc_string s
  | _ => []
  end.

Fixpoint ordered_code (v : value) (include_type : bool) {struct v} : bytes :=
  match v with
  | VArr l =>
      oc_uint64 4 ++
      oc_string ((fix go (l : list value) : bytes :=
                    match l with [] => [] | x :: t => ordered_code x true ++ go t end) l)
  | VObj o =>
      oc_uint64 3 ++
      oc_string ((fix go (o : list (bytes * value)) : bytes :=
                    match o with
                    | [] => []
                    | (k, x) :: t => oc_string k ++ ordered_code x true ++ go t
                    end) o)
  | _ => (if include_type then oc_uint64 (type_id v) else []) ++ oc_prim_body v
  end.

Definition value_code (v : value) : bytes := ordered_code v false.

(* visit.go — negation push-down, index selection, range derivation (repaired versions). Definitions only. *)
From Clover Require Export Range.
Open Scope Z_scope.

(* NotFlattenVisitor: [flat c] pushes negations inward, [flat_neg c] is the flattening of Not(c). *)
Fixpoint flat (c : ncrit) : ncrit :=
  match c with
  | CNot c' => flat_neg c'
  | CAnd a b => CAnd (flat a) (flat b)
  | COr a b => COr (flat a) (flat b)
  | _ => c
  end
with flat_neg (c : ncrit) : ncrit :=
  match c with
  | CCmp OEq f v => COr (CCmp OLt f v) (CCmp OGt f v)
  | CCmp OLt f v => CCmp OGtEq f v
  | CCmp OLtEq f v => CCmp OGt f v
  | CCmp OGt f v => CCmp OLtEq f v
  | CCmp OGtEq f v => CCmp OLt f v
  | CAnd a b => COr (flat_neg a) (flat_neg b)
  | COr a b => CAnd (flat_neg a) (flat_neg b)
  | CNot c' => flat c'
  | _ => CNot c
  end.

(* the field an unary criteria carries (MatchFunc has the empty field name) *)
Definition has_field (f : bytes) (idx : list bytes) : bool := existsb (beqb f) idx.

(* IndexSelectVisitor: list of candidate indexed fields *)
Fixpoint index_select (idx : list bytes) (c : ncrit) : list bytes :=
  match c with
  | CCmp _ f _ | CExists f | CLike f _ | CIn f _ | CContains f _ =>
      if has_field f idx then [f] else []
  | CFun _ => if has_field [] idx then [[]] else []
  | CNot _ => []
  | CAnd a b =>
      let l := index_select idx a in
      let r := index_select idx b in
      if (Nat.ltb 0 (length l) && Nat.ltb (length l) (length r))%bool then l else r
  | COr a b =>
      let l := index_select idx a in
      let r := index_select idx b in
      match l, r with
      | [], _ | _, [] => []
      | _, _ => l ++ r
      end
  end.

Definition is_ref_operand (v : operand value) : bool :=
  match v with
  | ORef _ => true
  | OLit (VStr (36%N :: _)) => true
  | _ => false
  end.

(* unaryCriteriaToRange (repaired: no range for reference operands, nor for a nil operand unless Eq) *)
Definition unary_range (o : cmpop) (v : operand value) : option range :=
  match v with
  | OLit x =>
      if is_ref_operand v then None
      else
      match o with
      | OEq => Some (mkRange x x true true)
      | OLt => if is_nilv x then None else Some (mkRange VNil x false false)
      | OLtEq => if is_nilv x then None else Some (mkRange VNil x false true)
      | OGt => if is_nilv x then None else Some (mkRange x VNil false false)
      | OGtEq => if is_nilv x then None else Some (mkRange x VNil true false)
      end
  | ORef _ => None
  end.

(* FieldRangeVisitor for one field (repaired: Or and Not contribute no range) *)
Fixpoint field_range (fld : bytes) (c : ncrit) : option range :=
  match c with
  | CCmp o f v => if beqb f fld then unary_range o v else None
  | CAnd a b =>
      match field_range fld a, field_range fld b with
      | Some r1, Some r2 => Some (range_intersect r1 r2)
      | Some r1, None => Some r1
      | None, r2 => r2
      end
  | _ => None
  end.

(* what the planner feeds the input node *)
Inductive idx_query : Type :=
| IQRange (fld : bytes) (r : range) (reverse : bool)
| IQAll (fld : bytes) (reverse : bool).

(* getIndexQueries: at most one (field, range) *)
Definition get_index_query (crit : option ncrit) (idx : list bytes) : option (bytes * range) :=
  match crit, idx with
  | None, _ | _, [] => None
  | Some c, _ =>
      let c' := flat c in
      match index_select idx c' with
      | [] => None
      | f :: _ => match field_range f c' with Some r => Some (f, r) | None => None end
      end
  end.

(* tryToSelectIndex: the index query (if any) and whether its output is already sorted *)
Definition try_select_index (crit : option ncrit) (sort : list (bytes * Z)) (idx : list bytes)
  : option idx_query * bool :=
  match get_index_query crit idx with
  | Some (f, r) =>
      match sort with
      | [(sf, dir)] => if beqb sf f then (Some (IQRange f r (dir <? 0)), true)
                        else (Some (IQRange f r false), false)
      | _ => (Some (IQRange f r false), false)
      end
  | None =>
      match sort with
      | [(sf, dir)] => if has_field sf idx then (Some (IQAll sf (dir <? 0)), true) else (None, false)
      | _ => (None, false)
      end
  end.

(* C02 core — planner soundness (Model/Visit.v): the range the planner derives for the selected
   indexed field contains the field value of every document satisfying the criteria, so that
   scanning only that range (and re-checking the criteria) loses no document. *)
From Coq Require Import Lia ZArith Bool List.
From Clover Require Import Visit ScanSpec Domains BytesProofs CompareProofs RangeProofs.
Import ListNotations.
Open Scope Z_scope.

Arguments compare : simpl never.

(* ------------------------------------------------------------------ *)
(** * Literal operands *)

(* a literal that is not a "$field" reference denotes itself *)
Lemma not_ref_field_or_value : forall d x,
  is_ref_operand (OLit x) = false -> field_or_value d (OLit x) = x.
Proof.
  intros d x H. destruct x as [ | z | z | b | s | b | s n o | l | l ]; try reflexivity.
  destruct s as [ | c t]; try reflexivity.
  unfold is_ref_operand in H. unfold field_or_value.
  destruct c as [ | p]; try reflexivity.
  repeat (destruct p as [p | p | ]; try reflexivity; try discriminate H).
Qed.

Lemma unary_range_some : forall o v r,
  unary_range o v = Some r -> exists x, v = OLit x /\ is_ref_operand (OLit x) = false.
Proof.
  intros o v r H. destruct v as [x | g]; [ | discriminate H].
  exists x. split; [reflexivity | ].
  unfold unary_range in H. destruct (is_ref_operand (OLit x)); [discriminate H | reflexivity].
Qed.

Lemma unary_range_field_or_value : forall o x r d,
  unary_range o (OLit x) = Some r -> field_or_value d (OLit x) = x.
Proof.
  intros o x r d H. destruct (unary_range_some o (OLit x) r H) as (y & E & R).
  inversion E; subst y. apply not_ref_field_or_value; exact R.
Qed.

Lemma in_range_mk : forall s e si ei v,
  is_nilv s && is_nilv e && si && ei = false ->
  in_range (mkRange s e si ei) v = above s si v && below e ei v.
Proof.
  intros s e si ei v H. unfold in_range, range_is_nil. simpl. rewrite H. reflexivity.
Qed.

(* ------------------------------------------------------------------ *)
(** * B1 — the range of a unary criteria *)

Theorem unary_range_sound : forall o f x r d,
  unary_range o (OLit x) = Some r ->
  sat (CCmp o f (OLit x)) d = true ->
  in_range r (doc_get f d) = true.
Proof.
  intros o f x r d U S.
  change (sat_cmp o f (OLit x) d = true) in S.
  pose proof (unary_range_field_or_value o x r d U) as FV.
  unfold unary_range in U.
  destruct (is_ref_operand (OLit x)); [discriminate U | ].
  unfold sat_cmp in S. rewrite FV in S.
  destruct o.
  - (* Eq *)
    apply andb_true_iff in S as [_ S]. apply is_eq_iff in S.
    inversion U; subst r. clear U.
    unfold in_range, range_is_nil. simpl.
    destruct (is_nilv x) eqn:N; simpl.
    + apply is_nilv_true in N. subst x. rewrite S. reflexivity.
    + unfold above, below. rewrite N, S. reflexivity.
  - (* Gt *)
    destruct (is_nilv x) eqn:N; [discriminate U | ].
    inversion U; subst r. clear U.
    rewrite in_range_mk by (simpl; rewrite N; reflexivity).
    unfold above, below. rewrite N. simpl. simpl in S. rewrite S. reflexivity.
  - (* GtEq *)
    destruct (is_nilv x) eqn:N; [discriminate U | ].
    inversion U; subst r. clear U.
    rewrite in_range_mk by (simpl; rewrite N; reflexivity).
    unfold above, below. rewrite N. simpl. simpl in S. rewrite S. reflexivity.
  - (* Lt *)
    destruct (is_nilv x) eqn:N; [discriminate U | ].
    inversion U; subst r. clear U.
    rewrite in_range_mk by (simpl; rewrite N; reflexivity).
    unfold above, below. rewrite N. simpl. simpl in S. rewrite S. reflexivity.
  - (* LtEq *)
    destruct (is_nilv x) eqn:N; [discriminate U | ].
    inversion U; subst r. clear U.
    rewrite in_range_mk by (simpl; rewrite N; reflexivity).
    unfold above, below. rewrite N. simpl. simpl in S. rewrite S. reflexivity.
Qed.

(* ------------------------------------------------------------------ *)
(** * Negation push-down only moves literals around *)

Lemma lits_flat_both : forall P c, crit_lits_ok P c = true ->
  crit_lits_ok P (flat c) = true /\ crit_lits_ok P (flat_neg c) = true.
Proof.
  intros P c. induction c as [o f v | f | f p | f vs | f vs | k | c IH | a IHa b IHb | a IHa b IHb];
    intros H; try (split; exact H).
  - (* CCmp *)
    split; [exact H | ]. simpl in H.
    destruct o; simpl; try exact H. rewrite H. reflexivity.
  - (* CNot *)
    simpl in H. destruct (IH H) as [H1 H2]. split; simpl; assumption.
  - (* CAnd *)
    simpl in H. apply andb_true_iff in H as [Ha Hb].
    destruct (IHa Ha) as [A1 A2]. destruct (IHb Hb) as [B1 B2].
    split; simpl; apply andb_true_iff; split; assumption.
  - (* COr *)
    simpl in H. apply andb_true_iff in H as [Ha Hb].
    destruct (IHa Ha) as [A1 A2]. destruct (IHb Hb) as [B1 B2].
    split; simpl; apply andb_true_iff; split; assumption.
Qed.

Lemma lits_flat : forall P c, crit_lits_ok P c = true -> crit_lits_ok P (flat c) = true.
Proof. intros P c H. apply (lits_flat_both P c H). Qed.

Lemma lits_flat_neg : forall P c, crit_lits_ok P c = true -> crit_lits_ok P (flat_neg c) = true.
Proof. intros P c H. apply (lits_flat_both P c H). Qed.

(* ------------------------------------------------------------------ *)
(** * The bounds of a derived range are literals of the criteria, or VNil *)

Lemma unary_range_bounds : forall m o v r,
  operand_lit_ok (regime m) v = true -> unary_range o v = Some r ->
  regime m (r_start r) = true /\ regime m (r_end r) = true.
Proof.
  intros m o v r L U. destruct v as [x | g]; [ | discriminate U].
  simpl in L. unfold unary_range in U.
  destruct (is_ref_operand (OLit x)); [discriminate U | ].
  destruct o.
  - inversion U; subst r. simpl. auto.
  - destruct (is_nilv x); [discriminate U | ]. inversion U; subst r. simpl.
    split; [exact L | apply regime_nil].
  - destruct (is_nilv x); [discriminate U | ]. inversion U; subst r. simpl.
    split; [exact L | apply regime_nil].
  - destruct (is_nilv x); [discriminate U | ]. inversion U; subst r. simpl.
    split; [apply regime_nil | exact L].
  - destruct (is_nilv x); [discriminate U | ]. inversion U; subst r. simpl.
    split; [apply regime_nil | exact L].
Qed.

Lemma field_range_bounds : forall m fld c r,
  crit_lits_ok (regime m) c = true -> field_range fld c = Some r ->
  regime m (r_start r) = true /\ regime m (r_end r) = true.
Proof.
  intros m fld c.
  induction c as [o f v | f | f p | f vs | f vs | k | c IH | a IHa b IHb | a IHa b IHb];
    intros r L F; try discriminate F.
  - simpl in F. simpl in L. destruct (beqb f fld); [ | discriminate F].
    apply unary_range_bounds with o v; assumption.
  - simpl in L. apply andb_true_iff in L as [La Lb]. simpl in F.
    destruct (field_range fld a) as [r1 | ] eqn:FA.
    + destruct (field_range fld b) as [r2 | ] eqn:FB.
      * inversion F; subst r.
        destruct (IHa r1 La eq_refl) as [A1 A2]. destruct (IHb r2 Lb eq_refl) as [B1 B2].
        apply (intersect_bounds (fun x => regime m x = true)); assumption.
      * inversion F; subst r. apply IHa; [exact La | reflexivity].
    + apply IHb; [exact Lb | exact F].
Qed.

(* ------------------------------------------------------------------ *)
(** * Conjunction: intersect, or keep the only range there is *)

Lemma and_range_sound : forall m fld A B r v,
  regime m v = true ->
  crit_lits_ok (regime m) A = true -> crit_lits_ok (regime m) B = true ->
  (forall r1, field_range fld A = Some r1 -> in_range r1 v = true) ->
  (forall r2, field_range fld B = Some r2 -> in_range r2 v = true) ->
  field_range fld (CAnd A B) = Some r -> in_range r v = true.
Proof.
  intros m fld A B r v Rv LA LB HA HB F. simpl in F.
  destruct (field_range fld A) as [r1 | ] eqn:FA.
  - destruct (field_range fld B) as [r2 | ] eqn:FB.
    + inversion F; subst r.
      destruct (field_range_bounds m fld A r1 LA FA) as [A1 A2].
      destruct (field_range_bounds m fld B r2 LB FB) as [B1 B2].
      apply intersect_sound with m; auto.
    + inversion F; subst r. apply HA. reflexivity.
  - apply HB. exact F.
Qed.

(* ------------------------------------------------------------------ *)
(** * B2 — negation push-down is sound for planning *)

(* the flattening of Not(f o v), for an order comparison o, is the complementary comparison *)
Lemma sat_cmp_compl : forall f v d,
  (sat_cmp OLt f v d = false -> sat_cmp OGtEq f v d = true) /\
  (sat_cmp OLtEq f v d = false -> sat_cmp OGt f v d = true) /\
  (sat_cmp OGt f v d = false -> sat_cmp OLtEq f v d = true) /\
  (sat_cmp OGtEq f v d = false -> sat_cmp OLt f v d = true).
Proof.
  intros f v d. unfold sat_cmp, cmp_holds.
  destruct (compare (doc_get f d) (field_or_value d v)); cbv; auto.
Qed.

Lemma cmp_range_sound : forall o fld f v r d,
  field_range fld (CCmp o f v) = Some r -> sat (CCmp o f v) d = true ->
  in_range r (doc_get fld d) = true.
Proof.
  intros o fld f v r d F S. simpl in F.
  destruct (beqb f fld) eqn:E; [ | discriminate F].
  apply beqb_true_iff in E. subst fld.
  destruct (unary_range_some o v r F) as (x & Ev & _). subst v.
  apply unary_range_sound with o x; assumption.
Qed.

Lemma flat_sound_both : forall c m fld d,
  regime m (doc_get fld d) = true -> crit_lits_ok (regime m) c = true ->
  (forall r, field_range fld (flat c) = Some r -> sat c d = true ->
             in_range r (doc_get fld d) = true) /\
  (forall r, field_range fld (flat_neg c) = Some r -> sat c d = false ->
             in_range r (doc_get fld d) = true).
Proof.
  intros c m fld d Rv.
  induction c as [o f v | f | f p | f vs | f vs | k | c IH | a IHa b IHb | a IHa b IHb];
    intros L; try (split; intros r F S; discriminate F).
  - (* CCmp *)
    split; intros r F S.
    + apply cmp_range_sound with o f v; assumption.
    + change (sat_cmp o f v d = false) in S.
      destruct (sat_cmp_compl f v d) as (C1 & C2 & C3 & C4).
      destruct o.
      * discriminate F.
      * apply cmp_range_sound with OLtEq f v; [exact F | apply C3; exact S].
      * apply cmp_range_sound with OLt f v; [exact F | apply C4; exact S].
      * apply cmp_range_sound with OGtEq f v; [exact F | apply C1; exact S].
      * apply cmp_range_sound with OGt f v; [exact F | apply C2; exact S].
  - (* CNot *)
    simpl in L. destruct (IH L) as [I1 I2]. split; intros r F S.
    + change (flat (CNot c)) with (flat_neg c) in F.
      apply I2; [exact F | ]. simpl in S. apply negb_true_iff in S. exact S.
    + change (flat_neg (CNot c)) with (flat c) in F.
      apply I1; [exact F | ]. simpl in S. apply negb_false_iff in S. exact S.
  - (* CAnd *)
    simpl in L. apply andb_true_iff in L as [La Lb].
    destruct (IHa La) as [A1 _]. destruct (IHb Lb) as [B1 _].
    split; intros r F S; [ | discriminate F].
    change (flat (CAnd a b)) with (CAnd (flat a) (flat b)) in F.
    simpl in S. apply andb_true_iff in S as [Sa Sb].
    apply and_range_sound with m fld (flat a) (flat b); try assumption.
    + apply lits_flat; exact La.
    + apply lits_flat; exact Lb.
    + intros r1 F1. apply A1; assumption.
    + intros r2 F2. apply B1; assumption.
  - (* COr *)
    simpl in L. apply andb_true_iff in L as [La Lb].
    destruct (IHa La) as [_ A2]. destruct (IHb Lb) as [_ B2].
    split; intros r F S; [discriminate F | ].
    change (flat_neg (COr a b)) with (CAnd (flat_neg a) (flat_neg b)) in F.
    simpl in S. apply orb_false_iff in S as [Sa Sb].
    apply and_range_sound with m fld (flat_neg a) (flat_neg b); try assumption.
    + apply lits_flat_neg; exact La.
    + apply lits_flat_neg; exact Lb.
    + intros r1 F1. apply A2; assumption.
    + intros r2 F2. apply B2; assumption.
Qed.

Theorem field_range_flat_sound : forall c m fld r d,
  regime m (doc_get fld d) = true -> crit_lits_ok (regime m) c = true ->
  field_range fld (flat c) = Some r -> sat c d = true ->
  in_range r (doc_get fld d) = true.
Proof.
  intros c m fld r d Rv L F S.
  destruct (flat_sound_both c m fld d Rv L) as [H _]. apply H; assumption.
Qed.

Theorem field_range_flat_neg_sound : forall c m fld r d,
  regime m (doc_get fld d) = true -> crit_lits_ok (regime m) c = true ->
  field_range fld (flat_neg c) = Some r -> sat c d = false ->
  in_range r (doc_get fld d) = true.
Proof.
  intros c m fld r d Rv L F S.
  destruct (flat_sound_both c m fld d Rv L) as [_ H]. apply H; assumption.
Qed.

(* ------------------------------------------------------------------ *)
(** * B3 — the index query *)

Lemma get_index_query_inv : forall c idx f r,
  get_index_query (Some c) idx = Some (f, r) ->
  In f (index_select idx (flat c)) /\ field_range f (flat c) = Some r.
Proof.
  intros c idx f r H. unfold get_index_query in H.
  destruct idx as [ | i idx']; [discriminate H | ].
  destruct (index_select (i :: idx') (flat c)) as [ | g l] eqn:S; [discriminate H | ].
  destruct (field_range g (flat c)) as [r' | ] eqn:F; [ | discriminate H].
  inversion H; subst g r'. split; [left; reflexivity | exact F].
Qed.

Theorem get_index_query_none : forall idx, get_index_query None idx = None.
Proof. reflexivity. Qed.

Theorem get_index_query_sound : forall m c idx f r d,
  get_index_query (Some c) idx = Some (f, r) ->
  crit_lits_ok (regime m) c = true ->
  regime m (doc_get f d) = true ->
  sat c d = true ->
  in_range r (doc_get f d) = true.
Proof.
  intros m c idx f r d G L Rv S.
  destruct (get_index_query_inv c idx f r G) as [_ F].
  apply field_range_flat_sound with c m; assumption.
Qed.

Lemma try_select_index_range : forall crit sort idx f r rv b,
  try_select_index crit sort idx = (Some (IQRange f r rv), b) ->
  get_index_query crit idx = Some (f, r).
Proof.
  intros crit sort idx f r rv b H. unfold try_select_index in H.
  destruct (get_index_query crit idx) as [[g r'] | ].
  - destruct sort as [ | [sf dir] [ | s2 rest]].
    + inversion H; reflexivity.
    + destruct (beqb sf g); inversion H; reflexivity.
    + inversion H; reflexivity.
  - destruct sort as [ | [sf dir] [ | s2 rest]]; try discriminate H.
    destruct (has_field sf idx); discriminate H.
Qed.

Theorem try_select_index_sound : forall m c sort idx f r rv b d,
  try_select_index (Some c) sort idx = (Some (IQRange f r rv), b) ->
  crit_lits_ok (regime m) c = true ->
  regime m (doc_get f d) = true ->
  sat c d = true ->
  in_range r (doc_get f d) = true.
Proof.
  intros m c sort idx f r rv b d T L Rv S.
  apply get_index_query_sound with m c idx; try assumption.
  apply try_select_index_range with sort rv b. exact T.
Qed.

(* ------------------------------------------------------------------ *)
(** * The planner and range_is_empty
   RangeProofs.empty_sound_refuted: a range with a VNil end bound may be reported empty although its
   scan set is not, and the planner does derive such ranges (ex_empty_reachable below).  The index scan
   returns nothing for a range reported empty, so planner soundness additionally needs: whenever the
   derived range is reported empty, no document satisfies the criteria.  That holds. *)

Lemma unary_range_nil_end : forall o v r,
  unary_range o v = Some r -> nil_end r = true -> range_is_nil r = true.
Proof.
  intros o v r U E. destruct v as [x | g]; [ | discriminate U].
  unfold unary_range in U. destruct (is_ref_operand (OLit x)); [discriminate U | ].
  unfold nil_end in E. unfold range_is_nil.
  destruct o.
  - inversion U; subst r. simpl in *. apply andb_true_iff in E as [N _]. rewrite N. reflexivity.
  - destruct (is_nilv x); [discriminate U | ]. inversion U; subst r. simpl in E. discriminate E.
  - destruct (is_nilv x); [discriminate U | ]. inversion U; subst r. simpl in E. discriminate E.
  - destruct (is_nilv x) eqn:N; [discriminate U | ]. inversion U; subst r. simpl in E.
    rewrite N in E. discriminate E.
  - destruct (is_nilv x) eqn:N; [discriminate U | ]. inversion U; subst r. simpl in E.
    rewrite N in E. discriminate E.
Qed.

Lemma unary_range_start_ok : forall o v r, unary_range o v = Some r -> start_ok r = true.
Proof.
  intros o v r U. destruct v as [x | g]; [ | discriminate U].
  unfold unary_range in U. destruct (is_ref_operand (OLit x)); [discriminate U | ].
  unfold start_ok.
  destruct o.
  - inversion U; subst r. simpl. rewrite orb_true_r. apply implb_true_r.
  - destruct (is_nilv x) eqn:N; [discriminate U | ]. inversion U; subst r. simpl.
    rewrite N. reflexivity.
  - destruct (is_nilv x) eqn:N; [discriminate U | ]. inversion U; subst r. simpl.
    rewrite N. reflexivity.
  - destruct (is_nilv x) eqn:N; [discriminate U | ]. inversion U; subst r. simpl.
    rewrite N. reflexivity.
  - destruct (is_nilv x) eqn:N; [discriminate U | ]. inversion U; subst r. simpl.
    rewrite N. reflexivity.
Qed.

Lemma field_range_start_ok : forall fld c r, field_range fld c = Some r -> start_ok r = true.
Proof.
  intros fld c.
  induction c as [o f v | f | f p | f vs | f vs | k | c IH | a IHa b IHb | a IHa b IHb];
    intros r F; try discriminate F.
  - simpl in F. destruct (beqb f fld); [ | discriminate F].
    apply unary_range_start_ok with o v. exact F.
  - simpl in F.
    destruct (field_range fld a) as [r1 | ] eqn:FA.
    + destruct (field_range fld b) as [r2 | ] eqn:FB.
      * inversion F; subst r. apply intersect_start_ok; [apply IHa | apply IHb]; reflexivity.
      * inversion F; subst r. apply IHa. reflexivity.
    + apply IHb. exact F.
Qed.

(* a comparison whose range has an inclusive VNil end bound is "== nil": the field value is nil *)
Lemma cmp_nil_end_sound : forall o fld f v r d,
  field_range fld (CCmp o f v) = Some r -> nil_end r = true -> sat (CCmp o f v) d = true ->
  doc_get fld d = VNil.
Proof.
  intros o fld f v r d F E S.
  pose proof (cmp_range_sound o fld f v r d F S) as I.
  simpl in F. destruct (beqb f fld); [ | discriminate F].
  pose proof (unary_range_nil_end o v r F E) as N.
  apply compare_nil_eq. apply (in_range_nil r _ N). exact I.
Qed.

Lemma and_nil_end_sound : forall fld A B r v,
  (forall r1, field_range fld A = Some r1 -> nil_end r1 = true -> v = VNil) ->
  (forall r2, field_range fld B = Some r2 -> nil_end r2 = true -> v = VNil) ->
  field_range fld (CAnd A B) = Some r -> nil_end r = true -> v = VNil.
Proof.
  intros fld A B r v HA HB F E. simpl in F.
  destruct (field_range fld A) as [r1 | ] eqn:FA.
  - destruct (field_range fld B) as [r2 | ] eqn:FB.
    + inversion F; subst r.
      destruct (intersect_nil_end r1 r2 E) as [E1 | E2].
      * apply HA with r1; [reflexivity | exact E1].
      * apply HB with r2; [reflexivity | exact E2].
    + inversion F; subst r. apply HA with r1; [reflexivity | exact E].
  - apply HB with r; assumption.
Qed.

Lemma nil_end_both : forall c fld d,
  (forall r, field_range fld (flat c) = Some r -> nil_end r = true -> sat c d = true ->
             doc_get fld d = VNil) /\
  (forall r, field_range fld (flat_neg c) = Some r -> nil_end r = true -> sat c d = false ->
             doc_get fld d = VNil).
Proof.
  intros c fld d.
  induction c as [o f v | f | f p | f vs | f vs | k | c IH | a IHa b IHb | a IHa b IHb];
    try (split; intros r F E S; discriminate F).
  - (* CCmp *)
    split; intros r F E S.
    + apply cmp_nil_end_sound with o f v r; assumption.
    + change (sat_cmp o f v d = false) in S.
      destruct (sat_cmp_compl f v d) as (C1 & C2 & C3 & C4).
      destruct o.
      * discriminate F.
      * apply cmp_nil_end_sound with OLtEq f v r; [exact F | exact E | apply C3; exact S].
      * apply cmp_nil_end_sound with OLt f v r; [exact F | exact E | apply C4; exact S].
      * apply cmp_nil_end_sound with OGtEq f v r; [exact F | exact E | apply C1; exact S].
      * apply cmp_nil_end_sound with OGt f v r; [exact F | exact E | apply C2; exact S].
  - (* CNot *)
    destruct IH as [I1 I2]. split; intros r F E S.
    + change (flat (CNot c)) with (flat_neg c) in F.
      apply I2 with r; [exact F | exact E | ]. simpl in S. apply negb_true_iff in S. exact S.
    + change (flat_neg (CNot c)) with (flat c) in F.
      apply I1 with r; [exact F | exact E | ]. simpl in S. apply negb_false_iff in S. exact S.
  - (* CAnd *)
    destruct IHa as [A1 _]. destruct IHb as [B1 _].
    split; intros r F E S; [ | discriminate F].
    change (flat (CAnd a b)) with (CAnd (flat a) (flat b)) in F.
    simpl in S. apply andb_true_iff in S as [Sa Sb].
    apply and_nil_end_sound with fld (flat a) (flat b) r; try assumption.
    + intros r1 F1 E1. apply A1 with r1; assumption.
    + intros r2 F2 E2. apply B1 with r2; assumption.
  - (* COr *)
    destruct IHa as [_ A2]. destruct IHb as [_ B2].
    split; intros r F E S; [discriminate F | ].
    change (flat_neg (COr a b)) with (CAnd (flat_neg a) (flat_neg b)) in F.
    simpl in S. apply orb_false_iff in S as [Sa Sb].
    apply and_nil_end_sound with fld (flat_neg a) (flat_neg b) r; try assumption.
    + intros r1 F1 E1. apply A2 with r1; assumption.
    + intros r2 F2 E2. apply B2 with r2; assumption.
Qed.

Theorem field_range_flat_empty_sound : forall m c fld r d,
  regime m (doc_get fld d) = true -> crit_lits_ok (regime m) c = true ->
  field_range fld (flat c) = Some r ->
  range_is_empty r = true -> sat c d = false.
Proof.
  intros m c fld r d Rv L F Em.
  destruct (sat c d) eqn:S; [exfalso | reflexivity].
  pose proof (field_range_flat_sound c m fld r d Rv L F S) as I.
  destruct (field_range_bounds m fld (flat c) r (lits_flat _ c L) F) as [Rs Re].
  rewrite (empty_in_range_char m r _ Rv Rs Re Em) in I.
  apply andb_true_iff in I as [Ne Ab].
  pose proof (field_range_start_ok fld (flat c) r F) as SO.
  destruct (nil_end_both c fld d) as [NE _]. specialize (NE r F).
  destruct r as [s e si ei]. unfold nil_end, start_ok in *. simpl in *.
  apply is_nilv_true in Ne. subst e. simpl in *.
  destruct (is_nilv s) eqn:Ns.
  - (* {nil, nil, _, incl} is never reported empty *)
    apply is_nilv_true in Ns. subst s. simpl in SO. subst ei.
    destruct si; vm_compute in Em; discriminate Em.
  - destruct ei.
    + (* the field value is nil, which is not above a non-nil start bound *)
      rewrite (NE eq_refl S) in Ab. unfold above in Ab.
      rewrite Ns, compare_nil_l, Ns in Ab. destruct si; discriminate Ab.
    + (* {s, nil, _, excl} is never reported empty *)
      unfold range_is_empty in Em. simpl in Em. rewrite Ns in Em.
      rewrite andb_false_l in Em. simpl in Em. discriminate Em.
Qed.

Theorem get_index_query_empty_sound : forall m c idx f r d,
  get_index_query (Some c) idx = Some (f, r) ->
  crit_lits_ok (regime m) c = true ->
  regime m (doc_get f d) = true ->
  range_is_empty r = true -> sat c d = false.
Proof.
  intros m c idx f r d G L Rv Em.
  destruct (get_index_query_inv c idx f r G) as [_ F].
  apply field_range_flat_empty_sound with m f r; assumption.
Qed.

Theorem try_select_index_empty_sound : forall m c sort idx f r rv b d,
  try_select_index (Some c) sort idx = (Some (IQRange f r rv), b) ->
  crit_lits_ok (regime m) c = true ->
  regime m (doc_get f d) = true ->
  range_is_empty r = true -> sat c d = false.
Proof.
  intros m c sort idx f r rv b d T L Rv Em.
  apply get_index_query_empty_sound with m idx f r; try assumption.
  apply try_select_index_range with sort rv b. exact T.
Qed.

(* ------------------------------------------------------------------ *)
(** * B4 — the selected field is an indexed field *)

Theorem index_select_indexed : forall idx c f,
  In f (index_select idx c) -> has_field f idx = true.
Proof.
  intros idx c.
  induction c as [o g v | g | g p | g vs | g vs | k | c IH | a IHa b IHb | a IHa b IHb];
    intros f H; simpl in H.
  - destruct (has_field g idx) eqn:E; [ | contradiction H].
    destruct H as [H | []]. subst f. exact E.
  - destruct (has_field g idx) eqn:E; [ | contradiction H].
    destruct H as [H | []]. subst f. exact E.
  - destruct (has_field g idx) eqn:E; [ | contradiction H].
    destruct H as [H | []]. subst f. exact E.
  - destruct (has_field g idx) eqn:E; [ | contradiction H].
    destruct H as [H | []]. subst f. exact E.
  - destruct (has_field g idx) eqn:E; [ | contradiction H].
    destruct H as [H | []]. subst f. exact E.
  - destruct (has_field [] idx) eqn:E; [ | contradiction H].
    destruct H as [H | []]. subst f. exact E.
  - contradiction H.
  - destruct (Nat.ltb 0 (length (index_select idx a)) &&
              Nat.ltb (length (index_select idx a)) (length (index_select idx b)))%bool.
    + apply IHa; exact H.
    + apply IHb; exact H.
  - revert H IHa IHb.
    destruct (index_select idx a) as [ | x l]; [intros [] | ].
    destruct (index_select idx b) as [ | y l']; [intros [] | ].
    intros H IHa IHb.
    change (In f ((x :: l) ++ (y :: l'))) in H.
    apply in_app_or in H. destruct H as [H | H]; [apply IHa | apply IHb]; exact H.
Qed.

Theorem get_index_query_indexed : forall crit idx f r,
  get_index_query crit idx = Some (f, r) -> has_field f idx = true.
Proof.
  intros crit idx f r H. destruct crit as [c | ]; [ | discriminate H].
  destruct (get_index_query_inv c idx f r H) as [I _].
  apply index_select_indexed with (flat c). exact I.
Qed.

Definition iq_field (q : idx_query) : bytes :=
  match q with IQRange f _ _ => f | IQAll f _ => f end.

Theorem try_select_index_indexed : forall crit sort idx q b,
  try_select_index crit sort idx = (Some q, b) -> has_field (iq_field q) idx = true.
Proof.
  intros crit sort idx q b H. unfold try_select_index in H.
  destruct (get_index_query crit idx) as [[g r'] | ] eqn:G.
  - pose proof (get_index_query_indexed crit idx g r' G) as Hg.
    destruct sort as [ | [sf dir] [ | s2 rest]].
    + inversion H; subst q. exact Hg.
    + destruct (beqb sf g); inversion H; subst q; exact Hg.
    + inversion H; subst q. exact Hg.
  - destruct sort as [ | [sf dir] [ | s2 rest]]; try discriminate H.
    destruct (has_field sf idx) eqn:E; [ | discriminate H].
    inversion H; subst q. exact E.
Qed.

(* ------------------------------------------------------------------ *)
(** * B5 — non-vacuity *)

Definition ex_and_not : ncrit :=
  CAnd (CCmp OGt fa (OLit (VInt 2))) (CNot (CCmp OGtEq fa (OLit (VInt 7)))).

Definition ex_or : ncrit :=
  COr (CCmp OLt fa (OLit (VInt 3))) (CCmp OGt fa (OLit (VInt 5))).

Example ex_and_not_query :
  get_index_query (Some ex_and_not) [fa] = Some (fa, mkRange (VInt 2) (VInt 7) false false).
Proof. vm_compute. reflexivity. Qed.

Example ex_and_not_range :
  match get_index_query (Some ex_and_not) [fa] with
  | Some (f, r) => (beqb f fa && in_range r (VInt 5) && negb (in_range r (VInt 7)))%bool
  | None => false
  end = true.
Proof. vm_compute. reflexivity. Qed.

Example ex_and_not_select :
  try_select_index (Some ex_and_not) [(fa, -1)] [fb; fa]
  = (Some (IQRange fa (mkRange (VInt 2) (VInt 7) false false) true), true).
Proof. vm_compute. reflexivity. Qed.

Example ex_and_not_hyps :
  (crit_lits_ok (regime true) ex_and_not && regime true (doc_get fa [(fa, VInt 5)])
   && sat ex_and_not [(fa, VInt 5)] && negb (sat ex_and_not [(fa, VInt 7)]))%bool = true.
Proof. vm_compute. reflexivity. Qed.

Example ex_or_no_query : get_index_query (Some ex_or) [fa] = None.
Proof. vm_compute. reflexivity. Qed.

Example ex_or_select : try_select_index (Some ex_or) [] [fa] = (None, false).
Proof. vm_compute. reflexivity. Qed.

(* the planner derives a range that range_is_empty reports empty although its scan set is not *)
Definition ex_empty : ncrit :=
  CAnd (CAnd (CCmp OGtEq fa (OLit (VInt 3))) (CCmp OLtEq fa (OLit (VInt 7)))) (CCmp OEq fa (OLit VNil)).

Example ex_empty_reachable :
  get_index_query (Some ex_empty) [fa] = Some (fa, mkRange (VInt 3) VNil true true)
  /\ range_is_empty (mkRange (VInt 3) VNil true true) = true
  /\ in_range (mkRange (VInt 3) VNil true true) (VInt 5) = true.
Proof. vm_compute. repeat split. Qed.

(* ------------------------------------------------------------------ *)

Print Assumptions unary_range_field_or_value.
Print Assumptions unary_range_sound.
Print Assumptions flat_sound_both.
Print Assumptions field_range_flat_sound.
Print Assumptions field_range_flat_neg_sound.
Print Assumptions get_index_query_none.
Print Assumptions get_index_query_sound.
Print Assumptions try_select_index_sound.
Print Assumptions field_range_flat_empty_sound.
Print Assumptions get_index_query_empty_sound.
Print Assumptions try_select_index_empty_sound.
Print Assumptions index_select_indexed.
Print Assumptions get_index_query_indexed.
Print Assumptions try_select_index_indexed.
Print Assumptions ex_and_not_query.
Print Assumptions ex_and_not_range.
Print Assumptions ex_and_not_select.
Print Assumptions ex_and_not_hyps.
Print Assumptions ex_or_no_query.
Print Assumptions ex_or_select.
Print Assumptions ex_empty_reachable.

(* Property C18: path laws of Document.Get / Has / Set. *)
From Clover Require Import Document BytesProofs.
Open Scope Z_scope.

(* ------------------------------------------------------------------ *)
(** * B1: obj_get / obj_set (no sortedness hypothesis is needed) *)

Lemma lex_gt_beqb_false : forall a b, lex a b = Gt -> beqb a b = false.
Proof. intros a b H. unfold beqb. rewrite H. reflexivity. Qed.

Theorem obj_get_set_same : forall k v o, obj_get k (obj_set k v o) = Some v.
Proof.
  intros k v o. induction o as [ | [k0 v0] t IH ]; simpl.
  - rewrite beqb_refl. reflexivity.
  - destruct (lex k k0) eqn:E; simpl.
    + rewrite beqb_refl. reflexivity.
    + rewrite beqb_refl. reflexivity.
    + rewrite (lex_gt_beqb_false _ _ E). exact IH.
Qed.

Theorem obj_get_set_other : forall k k' v o, k <> k' -> obj_get k' (obj_set k v o) = obj_get k' o.
Proof.
  intros k k' v o Hne.
  assert (Hb : beqb k' k = false) by (apply beqb_false_iff; congruence).
  induction o as [ | [k0 v0] t IH ]; simpl.
  - rewrite Hb. reflexivity.
  - destruct (lex k k0) eqn:E; simpl.
    + apply lex_eq_iff in E. subst k0. rewrite Hb. reflexivity.
    + rewrite Hb. reflexivity.
    + rewrite IH. reflexivity.
Qed.

(* ------------------------------------------------------------------ *)
(** * B2: sorted insert keeps keys strictly sorted *)

Lemma keys_sorted_cons : forall k v t,
  keys_sorted ((k, v) :: t) =
  match t with [] => true | (k', _) :: _ => bltb k k' && keys_sorted t end.
Proof. reflexivity. Qed.

Lemma keys_sorted_tail : forall kv t, keys_sorted (kv :: t) = true -> keys_sorted t = true.
Proof.
  intros [k v] t H. rewrite keys_sorted_cons in H. destruct t as [ | [k' v'] t' ].
  - reflexivity.
  - apply andb_true_iff in H. apply H.
Qed.

Lemma bltb_of_lt : forall a b, lex a b = Lt -> bltb a b = true.
Proof. intros a b H. unfold bltb. rewrite H. reflexivity. Qed.

Lemma bltb_lt : forall a b, bltb a b = true -> lex a b = Lt.
Proof. intros a b H. unfold bltb in H. destruct (lex a b); congruence. Qed.

Theorem obj_set_sorted : forall k v o, keys_sorted o = true -> keys_sorted (obj_set k v o) = true.
Proof.
  intros k v o. induction o as [ | [k0 v0] t IH ]; intros Hs.
  - reflexivity.
  - simpl obj_set. destruct (lex k k0) eqn:E.
    + apply lex_eq_iff in E. subst k0. rewrite keys_sorted_cons in *. exact Hs.
    + rewrite keys_sorted_cons. rewrite (bltb_of_lt _ _ E). exact Hs.
    + assert (Ht : keys_sorted (obj_set k v t) = true)
        by (apply IH; eapply keys_sorted_tail; exact Hs).
      assert (H0k : bltb k0 k = true) by (apply bltb_of_lt, lex_gt_lt; exact E).
      rewrite keys_sorted_cons. rewrite keys_sorted_cons in Hs.
      destruct t as [ | [k1 v1] t' ].
      * simpl. rewrite H0k. reflexivity.
      * apply andb_true_iff in Hs. destruct Hs as [H01 Hs1].
        simpl obj_set in *. destruct (lex k k1) eqn:E1.
        -- rewrite H0k. exact Ht.
        -- rewrite H0k. exact Ht.
        -- rewrite H01. exact Ht.
Qed.

(* ------------------------------------------------------------------ *)
(** * Unfolding lemmas for the path functions *)

Lemma lookup_path_one : forall k o, lookup_path [k] o = obj_get k o.
Proof. reflexivity. Qed.

Lemma lookup_path_cons2 : forall k k2 r o,
  lookup_path (k :: k2 :: r) o =
  match obj_get k o with Some (VObj o') => lookup_path (k2 :: r) o' | _ => None end.
Proof. reflexivity. Qed.

Lemma set_path_one : forall k v o, set_path [k] v o = obj_set k v o.
Proof. reflexivity. Qed.

Lemma set_path_cons2 : forall k k2 r v o,
  set_path (k :: k2 :: r) v o =
  obj_set k (VObj (set_path (k2 :: r) v
                     (match obj_get k o with Some (VObj o') => o' | _ => [] end))) o.
Proof. reflexivity. Qed.

Lemma lookup_path_nil_obj : forall p, lookup_path p [] = None.
Proof. intros [ | k [ | k2 r ] ]; reflexivity. Qed.

(* Set always writes at the first segment *)
Lemma set_path_head : forall k rest v o, exists x, set_path (k :: rest) v o = obj_set k x o.
Proof.
  intros k [ | k2 r ] v o.
  - exists v. reflexivity.
  - eexists. apply set_path_cons2.
Qed.

(* lookup only looks at the binding of the first segment *)
Lemma lookup_path_get_ext : forall k rest o1 o2,
  obj_get k o1 = obj_get k o2 -> lookup_path (k :: rest) o1 = lookup_path (k :: rest) o2.
Proof.
  intros k [ | k2 r ] o1 o2 H.
  - rewrite !lookup_path_one. exact H.
  - rewrite !lookup_path_cons2, H. reflexivity.
Qed.

(* ------------------------------------------------------------------ *)
(** * B3: get after set on the same path *)

Theorem lookup_set_same : forall p v o, p <> [] -> lookup_path p (set_path p v o) = Some v.
Proof.
  induction p as [ | k rest IH ]; intros v o Hp.
  - congruence.
  - destruct rest as [ | k2 r ].
    + rewrite set_path_one, lookup_path_one. apply obj_get_set_same.
    + rewrite set_path_cons2, lookup_path_cons2, obj_get_set_same.
      apply IH. discriminate.
Qed.

(* ------------------------------------------------------------------ *)
(** * B4: frame *)

Definition prefix_related (p q : list bytes) : Prop :=
  exists r, q = p ++ r \/ p = q ++ r.

Lemma prefix_related_cons : forall k p q, prefix_related p q -> prefix_related (k :: p) (k :: q).
Proof.
  intros k p q [r [H | H]]; exists r; [left | right]; simpl; rewrite H; reflexivity.
Qed.

Lemma prefix_related_sym : forall p q, prefix_related p q -> prefix_related q p.
Proof. intros p q [r [H | H]]; exists r; [right | left]; exact H. Qed.

Theorem lookup_set_frame : forall p q v o,
  p <> [] -> q <> [] -> ~ prefix_related p q ->
  lookup_path q (set_path p v o) = lookup_path q o.
Proof.
  induction p as [ | k rest IH ]; intros q v o Hp Hq Hn.
  - congruence.
  - destruct q as [ | k' rest' ]; [congruence | ].
    destruct (beqb k k') eqn:E.
    + apply beqb_true_iff in E. subst k'.
      destruct rest as [ | k2 r2 ].
      { exfalso. apply Hn. exists rest'. left. reflexivity. }
      destruct rest' as [ | k3 r3 ].
      { exfalso. apply Hn. exists (k2 :: r2). right. reflexivity. }
      rewrite set_path_cons2, !lookup_path_cons2, obj_get_set_same.
      rewrite IH.
      * destruct (obj_get k o) as [ [ | | | | | | | | o' ] | ];
          try reflexivity; apply lookup_path_nil_obj.
      * discriminate.
      * discriminate.
      * intros Hr. apply Hn. apply prefix_related_cons. exact Hr.
    + apply beqb_false_iff in E.
      destruct (set_path_head k rest v o) as [x Hx]. rewrite Hx.
      apply lookup_path_get_ext. apply obj_get_set_other. exact E.
Qed.

(* the corner singled out in the task: an intermediate segment of p holds a non-object *)
Example frame_nonobject_intermediate :
  let a := [97%N] in let b := [98%N] in let c := [99%N] in
  let o := [(a, VInt 1)] in
  lookup_path [a; c] o = None /\
  set_path [a; b] (VInt 5) o = [(a, VObj [(b, VInt 5)])] /\
  lookup_path [a; c] (set_path [a; b] (VInt 5) o) = None.
Proof. vm_compute. repeat split. Qed.

(* the hypothesis cannot be dropped: writing below a leaf destroys it (q prefix of p),
   and writing a leaf replaces everything below it (p prefix of q) *)
Example frame_needs_unrelated_1 :
  let a := [97%N] in let b := [98%N] in
  let o := [(a, VInt 1)] in
  lookup_path [a] o = Some (VInt 1) /\
  lookup_path [a] (set_path [a; b] (VInt 5) o) = Some (VObj [(b, VInt 5)]).
Proof. vm_compute. split; reflexivity. Qed.

Example frame_needs_unrelated_2 :
  let a := [97%N] in let b := [98%N] in
  let o := [(a, VObj [(b, VInt 1)])] in
  lookup_path [a; b] o = Some (VInt 1) /\
  lookup_path [a; b] (set_path [a] (VInt 5) o) = None.
Proof. vm_compute. split; reflexivity. Qed.

(* ------------------------------------------------------------------ *)
(** * B5: document level *)

Lemma split_on_nonempty : forall sep s, split_on sep s <> [].
Proof.
  intros sep s. destruct s as [ | x t ]; simpl.
  - discriminate.
  - destruct (N.eqb x sep); [discriminate | ].
    destruct (split_on sep t); discriminate.
Qed.

Theorem split_dot_nonempty : forall s, split_dot s <> [].
Proof. intros s. apply split_on_nonempty. Qed.

Theorem doc_lookup_set : forall name v d, doc_lookup name (doc_set name v d) = Some v.
Proof.
  intros name v d. unfold doc_lookup, doc_set. apply lookup_set_same, split_dot_nonempty.
Qed.

Theorem doc_get_set : forall name v d, doc_get name (doc_set name v d) = v.
Proof. intros name v d. unfold doc_get. rewrite doc_lookup_set. reflexivity. Qed.

Theorem doc_has_set : forall name v d, doc_has name (doc_set name v d) = true.
Proof. intros name v d. unfold doc_has. rewrite doc_lookup_set. reflexivity. Qed.

Theorem doc_lookup_set_frame : forall name other v d,
  ~ prefix_related (split_dot name) (split_dot other) ->
  doc_lookup other (doc_set name v d) = doc_lookup other d.
Proof.
  intros name other v d Hn. unfold doc_lookup, doc_set.
  apply lookup_set_frame; auto using split_dot_nonempty.
Qed.

Theorem doc_set_frame : forall name other v d,
  ~ prefix_related (split_dot name) (split_dot other) ->
  doc_get other (doc_set name v d) = doc_get other d /\
  doc_has other (doc_set name v d) = doc_has other d.
Proof.
  intros name other v d Hn. unfold doc_get, doc_has.
  rewrite (doc_lookup_set_frame _ _ _ _ Hn). split; reflexivity.
Qed.

(* ------------------------------------------------------------------ *)
(** * B6: well-formedness is preserved *)

Definition wf_fields : list (bytes * value) -> bool :=
  fix wfl (l : list (bytes * value)) : bool :=
    match l with [] => true | (_, x) :: t => wf_value x && wfl t end.

Lemma wf_value_obj : forall l, wf_value (VObj l) = keys_sorted l && wf_fields l.
Proof. reflexivity. Qed.

Lemma wf_fields_cons : forall k x t, wf_fields ((k, x) :: t) = wf_value x && wf_fields t.
Proof. reflexivity. Qed.

Lemma obj_set_wf_fields : forall k v o,
  wf_fields o = true -> wf_value v = true -> wf_fields (obj_set k v o) = true.
Proof.
  intros k v o Ho Hv. induction o as [ | [k0 v0] t IH ].
  - simpl. rewrite Hv. reflexivity.
  - rewrite wf_fields_cons in Ho. apply andb_true_iff in Ho. destruct Ho as [H0 Ht].
    simpl obj_set. destruct (lex k k0); rewrite !wf_fields_cons.
    + rewrite Hv, Ht. reflexivity.
    + rewrite Hv, H0, Ht. reflexivity.
    + rewrite H0, (IH Ht). reflexivity.
Qed.

Lemma obj_get_wf_fields : forall k o x,
  wf_fields o = true -> obj_get k o = Some x -> wf_value x = true.
Proof.
  intros k o x. induction o as [ | [k0 v0] t IH ]; intros Ho Hg.
  - discriminate.
  - rewrite wf_fields_cons in Ho. apply andb_true_iff in Ho. destruct Ho as [H0 Ht].
    simpl in Hg. destruct (beqb k k0).
    + inversion Hg. subst. exact H0.
    + apply IH; assumption.
Qed.

Theorem obj_set_wf : forall k v o,
  wf_value (VObj o) = true -> wf_value v = true -> wf_value (VObj (obj_set k v o)) = true.
Proof.
  intros k v o Ho Hv. rewrite wf_value_obj in *. apply andb_true_iff in Ho.
  destruct Ho as [Hs Hf]. apply andb_true_iff. split.
  - apply obj_set_sorted. exact Hs.
  - apply obj_set_wf_fields; assumption.
Qed.

Theorem set_path_wf : forall p v o,
  wf_value (VObj o) = true -> wf_value v = true -> wf_value (VObj (set_path p v o)) = true.
Proof.
  induction p as [ | k rest IH ]; intros v o Ho Hv.
  - exact Ho.
  - destruct rest as [ | k2 r ].
    + rewrite set_path_one. apply obj_set_wf; assumption.
    + rewrite set_path_cons2. apply obj_set_wf; [exact Ho | ].
      apply IH; [ | exact Hv].
      destruct (obj_get k o) as [ x | ] eqn:Eg; [ | reflexivity ].
      assert (Hx : wf_value x = true).
      { rewrite wf_value_obj in Ho. apply andb_true_iff in Ho.
        eapply obj_get_wf_fields; [apply Ho | exact Eg]. }
      destruct x; try reflexivity. exact Hx.
Qed.

Theorem doc_set_wf : forall name v d,
  wf_value (VObj d) = true -> wf_value v = true -> wf_value (VObj (doc_set name v d)) = true.
Proof. intros name v d Hd Hv. unfold doc_set. apply set_path_wf; assumption. Qed.

(* ------------------------------------------------------------------ *)
(** * B7: non-vacuity on a nested document *)

Module Examples.
  Definition a : bytes := [97%N].
  Definition b : bytes := [98%N].
  Definition c : bytes := [99%N].
  Definition dot (x y : bytes) : bytes := x ++ [ch_dot] ++ y.

  (* { a: { b: 1, c: { a: "x" } }, b: 2, c: [ {a: 3} ] } *)
  Definition doc : obj :=
    [ (a, VObj [ (b, VInt 1); (c, VObj [ (a, VStr [120%N]) ]) ]);
      (b, VInt 2);
      (c, VArr [ VObj [ (a, VInt 3) ] ]) ].

  Example doc_wf : wf_value (VObj doc) = true.
  Proof. vm_compute. reflexivity. Qed.

  Example split_ex : split_dot (dot a (dot c a)) = [a; c; a].
  Proof. vm_compute. reflexivity. Qed.

  (* strings.Split corner cases: "", ".", "a." *)
  Example split_corners :
    split_dot [] = [[]] /\ split_dot [ch_dot] = [[]; []] /\ split_dot (a ++ [ch_dot]) = [a; []].
  Proof. vm_compute. repeat split. Qed.

  (* "a.b" and "a.c.a" are not prefix related; both exist before *)
  Example unrelated_1 : ~ prefix_related (split_dot (dot a b)) (split_dot (dot a (dot c a))).
  Proof. vm_compute. intros [r [H | H]]; destruct r; discriminate. Qed.

  Example frame_ex_1 :
    doc_get (dot a (dot c a)) doc = VStr [120%N] /\
    doc_set (dot a b) (VBool true) doc =
      [ (a, VObj [ (b, VBool true); (c, VObj [ (a, VStr [120%N]) ]) ]);
        (b, VInt 2); (c, VArr [ VObj [ (a, VInt 3) ] ]) ] /\
    doc_get (dot a (dot c a)) (doc_set (dot a b) (VBool true) doc) = VStr [120%N] /\
    doc_has (dot a (dot c a)) (doc_set (dot a b) (VBool true) doc) = true /\
    doc_get (dot a b) (doc_set (dot a b) (VBool true) doc) = VBool true.
  Proof. vm_compute. repeat split. Qed.

  (* the same through the theorem *)
  Example frame_ex_1_thm :
    doc_get (dot a (dot c a)) (doc_set (dot a b) (VBool true) doc) = doc_get (dot a (dot c a)) doc.
  Proof. apply doc_set_frame, unrelated_1. Qed.

  (* Set through a non-object intermediate ("b" holds 2): "b.a" := 7 replaces b by a fresh object;
     the unrelated path "b.c" is absent before and after, "a.b" is untouched *)
  Example unrelated_2 : ~ prefix_related (split_dot (dot b a)) (split_dot (dot b c)).
  Proof. vm_compute. intros [r [H | H]]; destruct r; discriminate. Qed.

  Example frame_ex_2 :
    doc_set (dot b a) (VInt 7) doc =
      [ (a, VObj [ (b, VInt 1); (c, VObj [ (a, VStr [120%N]) ]) ]);
        (b, VObj [ (a, VInt 7) ]); (c, VArr [ VObj [ (a, VInt 3) ] ]) ] /\
    doc_has (dot b c) doc = false /\
    doc_has (dot b c) (doc_set (dot b a) (VInt 7) doc) = false /\
    doc_get (dot a b) (doc_set (dot b a) (VInt 7) doc) = VInt 1 /\
    doc_has (dot b a) (doc_set (dot b a) (VInt 7) doc) = true /\
    wf_value (VObj (doc_set (dot b a) (VInt 7) doc)) = true.
  Proof. vm_compute. repeat split. Qed.

  (* related paths are genuinely affected: "b" is a prefix of "b.a" *)
  Example related_changes :
    doc_get b doc = VInt 2 /\ doc_get b (doc_set (dot b a) (VInt 7) doc) = VObj [ (a, VInt 7) ].
  Proof. vm_compute. split; reflexivity. Qed.

  (* paths do not descend into arrays: "c.a" is absent although c = [ {a:3} ] *)
  Example no_array_descent : doc_has (dot c a) doc = false.
  Proof. vm_compute. reflexivity. Qed.

  (* a fresh deep path creates the intermediate objects, in key order *)
  Example deep_create :
    doc_set (dot [65%N] (dot b c)) VNil doc =
      ([65%N], VObj [ (b, VObj [ (c, VNil) ]) ]) :: doc.
  Proof. vm_compute. reflexivity. Qed.
End Examples.

Print Assumptions obj_get_set_same.
Print Assumptions obj_get_set_other.
Print Assumptions obj_set_sorted.
Print Assumptions lookup_set_same.
Print Assumptions lookup_set_frame.
Print Assumptions split_dot_nonempty.
Print Assumptions doc_get_set.
Print Assumptions doc_has_set.
Print Assumptions doc_set_frame.
Print Assumptions obj_set_wf.
Print Assumptions set_path_wf.
Print Assumptions doc_set_wf.
Print Assumptions Examples.frame_ex_1_thm.

(* C01 and C09 at the level of the PUBLIC operations (Ops.v): the literal normalisation of the query, the
   transaction, and the rendering of the result as an observation term, for every state reached by a
   history of the domain (HistDom.v).

   Conventions: [h] an open handle whose durable store refines the well-formed abstract database [db];
   [q : qspec] a query as the caller builds it; [nq] its normalised form; [sc] the target collection. *)
From Coq Require Import Lia ZArith Bool List Permutation.
Import ListNotations.
From Clover Require Import HistDom HistoryProofs QueryProofs BulkProofs WriteProofs OpProofs RProofs.
Open Scope Z_scope.

(* ------------------------------------------------------------------------------------------ *)
(* normalisation only rewrites the criteria                                                    *)
(* ------------------------------------------------------------------------------------------ *)
Lemma normalize_query_fields : forall q nq, normalize_query q = Some nq ->
  nq_coll nq = q_coll q /\ nq_limit nq = q_limit q /\ nq_skip nq = q_skip q /\ nq_sort nq = q_sort q /\
  match q_crit q with
  | None => nq_crit nq = None
  | Some c => exists c', norm_crit c = Some c' /\ nq_crit nq = Some c'
  end.
Proof.
  intros q nq N. unfold normalize_query in N. destruct (q_crit q) as [c|].
  - destruct (norm_crit c) as [c'|] eqn:E; [|discriminate N]. injection N as <-.
    cbn [nq_coll nq_limit nq_skip nq_sort nq_crit]. repeat split. exists c'. split; reflexivity.
  - injection N as <-. cbn [nq_coll nq_limit nq_skip nq_sort nq_crit]. repeat split.
Qed.

Lemma normalize_query_sort : forall q nq, normalize_query q = Some nq -> q_sort q = nq_sort nq.
Proof. intros q nq N. destruct (normalize_query_fields q nq N) as (_ & _ & _ & H & _). symmetry. exact H. Qed.

(* Exists / FindFirst put Limit(1) on the un-normalised query: normalisation commutes with it *)
Lemma normalize_query_limit : forall q nq l, normalize_query q = Some nq ->
  normalize_query (q_apply q (QLimit l)) = Some (with_limit nq l).
Proof.
  intros q nq l N. unfold normalize_query in *. cbn [q_apply q_crit q_coll q_limit q_skip q_sort].
  destruct (q_crit q) as [c|].
  - destruct (norm_crit c) as [c'|]; [|discriminate N]. injection N as <-. reflexivity.
  - injection N as <-. reflexivity.
Qed.

Lemma normalize_query_limit_none : forall q l, normalize_query q = None ->
  normalize_query (q_apply q (QLimit l)) = None.
Proof.
  intros q l N. unfold normalize_query in *. cbn [q_apply q_crit q_coll q_limit q_skip q_sort].
  destruct (q_crit q) as [c|]; [|discriminate N]. destruct (norm_crit c); [discriminate N | reflexivity].
Qed.

(* the domain hypothesis for the limited query follows from the one for the query: same collection,
   criteria and skip *)
Lemma query_dom_limit : forall db q l, query_dom db q -> query_dom db (q_apply q (QLimit l)).
Proof.
  intros db q l (Hc & H). split; [exact Hc|].
  destruct (normalize_query q) as [nq|] eqn:N.
  - rewrite (normalize_query_limit q nq l N). exact H.
  - rewrite (normalize_query_limit_none q l N). exact I.
Qed.

(* ------------------------------------------------------------------------------------------ *)
(* histories: concatenation                                                                    *)
(* ------------------------------------------------------------------------------------------ *)
Lemma run_ops_app : forall l1 l2 h,
  run_ops h (l1 ++ l2) =
  (fst (run_ops h l1) ++ fst (run_ops (snd (run_ops h l1)) l2),
   snd (run_ops (snd (run_ops h l1)) l2)).
Proof.
  induction l1 as [|o t IH]; intros l2 h.
  - cbn [app run_ops fst snd]. destruct (run_ops h l2); reflexivity.
  - cbn [app run_ops]. destruct (step h o) as [x h1]. rewrite IH.
    destruct (run_ops h1 t) as [xs h2]. cbn [fst snd]. reflexivity.
Qed.

Lemma run_ops_app_snd : forall l1 l2 h,
  snd (run_ops h (l1 ++ l2)) = snd (run_ops (snd (run_ops h l1)) l2).
Proof. intros. rewrite run_ops_app. reflexivity. Qed.

Lemma hist_dom_app : forall l1 l2 h,
  hist_dom h (l1 ++ l2) <-> hist_dom h l1 /\ hist_dom (snd (run_ops h l1)) l2.
Proof.
  induction l1 as [|o t IH]; intros l2 h.
  - cbn [app hist_dom run_ops snd]. tauto.
  - cbn [app hist_dom]. rewrite HistoryProofs.run_ops_cons. rewrite IH. tauto.
Qed.

(* ------------------------------------------------------------------------------------------ *)
(* the result list of FindAll on a handle, as a function of the model (an error reads as [])   *)
(* ------------------------------------------------------------------------------------------ *)
Definition fa_result (h : dbst) (nq : nquery) : list obj :=
  match o_res (with_tx (find_all_tx nq) None h) with Ok r => r | Err _ => [] end.

Lemma fa_result_ok : forall h nq r,
  o_res (with_tx (find_all_tx nq) None h) = Ok r -> fa_result h nq = r.
Proof. intros h nq r E. unfold fa_result. rewrite E. reflexivity. Qed.

(* one fault-free transaction of an operation: result and handle *)
Lemma run_tx_fst : forall A (body : M A) h,
  fst (run_tx body (fresh_rstate h None)) = o_res (with_tx body None h).
Proof. intros. rewrite run_tx_with_tx. reflexivity. Qed.

Ltac one_tx_fst := rewrite run_tx_with_tx; cbn [fst].

(* ------------------------------------------------------------------------------------------ *)
(* G1 and G3 on one state                                                                      *)
(* ------------------------------------------------------------------------------------------ *)
Section OnState.
  Variables (db : sdb) (h : dbst).
  Hypothesis (W : wf_db db) (HR : R db (durable h)) (C : closed h = false).

  Lemma h_open : h = mkDb (durable h) false.
  Proof. exact (open_handle h C). Qed.

  (* ---- reads never change the handle ---- *)
  Theorem op_reads_pure : forall q mode n c id,
    snd (step h (OFindAll q mode)) = h /\ snd (step h (OCount q)) = h /\
    snd (step h (OForEach q n mode)) = h /\ snd (step h (OExists q)) = h /\
    snd (step h (OFindFirst q)) = h /\ snd (step h (OFindById c id)) = h.
  Proof. intros. repeat split; apply clover_read_pure; reflexivity. Qed.

  (* ---- error cases of FindAll ---- *)
  Theorem op_find_all_errors : forall q mode,
    (normalize_query (mk_query q) = None ->
       fst (step h (OFindAll q mode)) = T_err EOther /\ snd (step h (OFindAll q mode)) = h) /\
    (forall nq, normalize_query (mk_query q) = Some nq -> assoc (nq_coll nq) db = None ->
       fst (step h (OFindAll q mode)) = T_err ECollNotExist /\ snd (step h (OFindAll q mode)) = h).
  Proof.
    intros q mode. split.
    - intros N. split; [|apply clover_read_pure; reflexivity].
      rewrite step_fst. unfold exec_op, find_all_op. rewrite N. reflexivity.
    - intros nq N A. split; [|apply clover_read_pure; reflexivity].
      rewrite step_fst. unfold exec_op, find_all_op. rewrite N. one_tx_fst.
      destruct (find_all_missing db (durable h) nq W HR A) as (E & _).
      rewrite <- h_open in E. rewrite E. reflexivity.
  Qed.

  (* the same for the other query reads: they fail the same way *)
  Theorem op_reads_errors : forall q mode n,
    (normalize_query (mk_query q) = None ->
       fst (step h (OCount q)) = T_err EOther /\ fst (step h (OForEach q n mode)) = T_err EOther /\
       fst (step h (OExists q)) = T_err EOther /\ fst (step h (OFindFirst q)) = T_err EOther) /\
    (forall nq, normalize_query (mk_query q) = Some nq -> assoc (nq_coll nq) db = None ->
       fst (step h (OCount q)) = T_err ECollNotExist /\
       fst (step h (OForEach q n mode)) = T_err ECollNotExist /\
       fst (step h (OExists q)) = T_err ECollNotExist /\
       fst (step h (OFindFirst q)) = T_err ECollNotExist).
  Proof.
    intros q mode n. split.
    - intros N. pose proof (normalize_query_limit_none _ 1 N) as N1.
      repeat split; rewrite step_fst; unfold exec_op, find_all_op; rewrite ?N, ?N1; reflexivity.
    - intros nq N A. pose proof (normalize_query_limit _ nq 1 N) as N1.
      assert (Hmeta : forall B (k : Z * list bytes -> M B),
                 o_res (with_tx (m <- get_meta (nq_coll nq) ;; k m) None h) = Err ECollNotExist).
      { intros B k. pose proof (proj1 (with_tx_missing db (durable h) (nq_coll nq) B k W HR A)) as E.
        rewrite <- h_open in E. exact E. }
      repeat split; rewrite step_fst; unfold exec_op, find_all_op; rewrite ?N, ?N1.
      + destruct (nq_crit nq); one_tx_fst.
        * unfold iterate_docs. rewrite Hmeta. reflexivity.
        * unfold collection_size_tx. rewrite Hmeta. reflexivity.
      + one_tx_fst. unfold iterate_docs. rewrite Hmeta. reflexivity.
      + one_tx_fst.
        destruct (find_all_missing db (durable h) (with_limit nq 1) W HR A) as (E & _).
        rewrite <- h_open in E. rewrite E. reflexivity.
      + one_tx_fst.
        destruct (find_all_missing db (durable h) (with_limit nq 1) W HR A) as (E & _).
        rewrite <- h_open in E. rewrite E. reflexivity.
  Qed.

  (* ---- a query of the domain on an existing collection ---- *)
  Section OnQuery.
    Variables (q : qspec) (nq : nquery) (sc : scoll).
    Hypothesis (N : normalize_query (mk_query q) = Some nq)
               (A : assoc (nq_coll nq) db = Some sc)
               (QD : query_dom db (mk_query q)).

    Lemma dom_parts : 0 <= nq_skip nq /\ exists m, coll_dom m sc /\ crit_dom m (nq_crit nq).
    Proof. destruct QD as (_ & H). rewrite N in H. destruct H as (Hs & H). rewrite A in H. split; assumption. Qed.

    Lemma fa_ok :
      o_res (with_tx (find_all_tx nq) None (mkDb (durable h) false)) = Ok (fa_result h nq) /\
      find_ok' (map snd (sc_docs sc)) nq (fa_result h nq).
    Proof.
      destruct dom_parts as (Hs & m & CD & KD).
      destruct (find_all_refines m db (durable h) nq sc W HR A CD KD Hs) as (res & E & _ & F).
      assert (fa_result h nq = res) as ->.
      { apply fa_result_ok. rewrite <- h_open in E. exact E. }
      split; assumption.
    Qed.

    (* G1, with the result named *)
    Theorem op_find_all_result : forall mode,
      fst (step h (OFindAll q mode)) = T_ok (T_of_docs (nq_sort nq) mode (fa_result h nq)) /\
      find_ok' (map snd (sc_docs sc)) nq (fa_result h nq) /\
      snd (step h (OFindAll q mode)) = h.
    Proof.
      intros mode. destruct fa_ok as (E & F).
      split; [|split; [exact F | apply clover_read_pure; reflexivity]].
      rewrite step_fst. unfold exec_op, find_all_op. rewrite N. one_tx_fst.
      rewrite <- h_open in E. rewrite E. cbn [T_res]. rewrite (normalize_query_sort _ _ N). reflexivity.
    Qed.

    (* G1 *)
    Theorem op_find_all : forall mode,
      exists res,
        fst (step h (OFindAll q mode)) = T_ok (T_of_docs (nq_sort nq) mode res) /\
        find_ok' (map snd (sc_docs sc)) nq res /\
        snd (step h (OFindAll q mode)) = h.
    Proof. intros mode. exists (fa_result h nq). exact (op_find_all_result mode). Qed.

    (* with no sort and no window the result is exactly the matching documents, each once *)
    Theorem op_find_all_exact : nq_sort nq = [] -> nq_skip nq = 0 -> nq_limit nq < 0 ->
      Permutation (fa_result h nq) (filter (sat_opt (nq_crit nq)) (map snd (sc_docs sc))).
    Proof.
      intros Hso Hsk Hl. destruct dom_parts as (Hs & m & CD & KD).
      destruct (find_all_exact m db (durable h) nq sc W HR A CD KD Hs Hso (conj Hsk Hl)) as (r & E & P).
      destruct fa_ok as (E' & _). rewrite E' in E. injection E as <-. exact P.
    Qed.

    (* G3: Count, both branches *)
    Theorem op_count :
      fst (step h (OCount q)) = T_ok (TZ (Z.of_nat (length (fa_result h nq)))) /\
      snd (step h (OCount q)) = h.
    Proof.
      split; [|apply clover_read_pure; reflexivity].
      destruct dom_parts as (Hs & m & CD & KD). destruct fa_ok as (E & _).
      rewrite step_fst. unfold exec_op. rewrite N. destruct (nq_crit nq) as [c|] eqn:Cr; rewrite <- Cr in KD.
      - (* counting consumer *)
        one_tx_fst.
        destruct (count_refines m db (durable h) nq sc _ W HR A CD KD E) as (Ec & _).
        rewrite <- h_open in Ec. rewrite Ec. reflexivity.
      - (* the stored counter *)
        one_tx_fst.
        destruct (count_counter_op_refines m db (durable h) nq sc _ W HR A CD KD E Cr Hs)
          as (n & En & _ & Hn).
        rewrite <- h_open in En. rewrite En. cbn [T_res]. rewrite Hn. reflexivity.
    Qed.

    (* which branch is taken is a function of the criteria alone; both are covered above *)
    Theorem op_count_uses_counter : nq_crit nq = None ->
      count_window (Z.of_nat (length (sc_docs sc))) (nq_skip nq) (nq_limit nq) =
      Z.of_nat (length (fa_result h nq)).
    Proof.
      intros Cr. destruct dom_parts as (Hs & m & CD & KD). destruct fa_ok as (E & _).
      exact (count_counter_refines m db (durable h) nq sc _ W HR A CD KD E Cr Hs).
    Qed.

    (* G3: ForEach *)
    Theorem op_foreach : forall n mode,
      fst (step h (OForEach q n mode)) =
        T_ok (T_of_docs (nq_sort nq) mode
                (if 0 <? n then firstn (Z.to_nat n) (fa_result h nq) else fa_result h nq)) /\
      snd (step h (OForEach q n mode)) = h.
    Proof.
      intros n mode. split; [|apply clover_read_pure; reflexivity].
      destruct dom_parts as (Hs & m & CD & KD). destruct fa_ok as (E & _).
      rewrite step_fst. unfold exec_op. rewrite N. one_tx_fst.
      destruct (foreach_refines m db (durable h) nq sc _ W HR A CD KD E n) as (Ef & _).
      rewrite <- h_open in Ef. rewrite Ef. cbn [T_res]. rewrite rev_involutive. reflexivity.
    Qed.

    (* G3: Exists *)
    Theorem op_exists : nq_limit nq <> 0 ->
      fst (step h (OExists q)) = T_ok (Tbool (match fa_result h nq with [] => false | _ => true end)) /\
      snd (step h (OExists q)) = h.
    Proof.
      intros Hl. split; [|apply clover_read_pure; reflexivity].
      destruct dom_parts as (Hs & m & CD & KD). destruct fa_ok as (E & _).
      rewrite step_fst. unfold exec_op, find_all_op. rewrite (normalize_query_limit _ nq 1 N).
      one_tx_fst.
      destruct (exists_refines m db (durable h) nq sc _ W HR A CD KD E Hl) as (r1 & E1 & _ & Hne).
      rewrite <- h_open in E1. rewrite E1. cbn [T_res]. unfold PlanProofs.nonempty in Hne. rewrite Hne. reflexivity.
    Qed.

    (* G3: FindFirst *)
    Theorem op_find_first : nq_limit nq <> 0 ->
      fst (step h (OFindFirst q)) = T_ok (T_of_opt_doc (hd_error (fa_result h nq))) /\
      snd (step h (OFindFirst q)) = h.
    Proof.
      intros Hl. split; [|apply clover_read_pure; reflexivity].
      destruct dom_parts as (Hs & m & CD & KD). destruct fa_ok as (E & _).
      rewrite step_fst. unfold exec_op, find_all_op. rewrite (normalize_query_limit _ nq 1 N).
      one_tx_fst.
      destruct (findfirst_refines m db (durable h) nq sc _ W HR A CD KD E Hl) as (r1 & E1 & _ & Hhd).
      rewrite <- h_open in E1. rewrite E1. cbn [T_res]. rewrite Hhd. reflexivity.
    Qed.

    (* G1 + G3 packaged: ONE result list [res], acceptable to the specification, that FindAll renders
       and that Count, ForEach, Exists and FindFirst all agree with; nothing changes the handle *)
    Theorem op_reads_agree :
      exists res,
        find_ok' (map snd (sc_docs sc)) nq res /\
        (forall mode, fst (step h (OFindAll q mode)) = T_ok (T_of_docs (nq_sort nq) mode res)) /\
        fst (step h (OCount q)) = T_ok (TZ (Z.of_nat (length res))) /\
        (forall n mode, fst (step h (OForEach q n mode)) =
           T_ok (T_of_docs (nq_sort nq) mode (if 0 <? n then firstn (Z.to_nat n) res else res))) /\
        (nq_limit nq <> 0 ->
           fst (step h (OExists q)) = T_ok (Tbool (match res with [] => false | _ => true end)) /\
           fst (step h (OFindFirst q)) = T_ok (T_of_opt_doc (hd_error res))) /\
        (forall mode n,
           snd (step h (OFindAll q mode)) = h /\ snd (step h (OCount q)) = h /\
           snd (step h (OForEach q n mode)) = h /\ snd (step h (OExists q)) = h /\
           snd (step h (OFindFirst q)) = h).
    Proof.
      exists (fa_result h nq).
      split; [exact (proj2 fa_ok)|].
      split; [intros mode; exact (proj1 (op_find_all_result mode))|].
      split; [exact (proj1 op_count)|].
      split; [intros n mode; exact (proj1 (op_foreach n mode))|].
      split; [intros Hl; split; [exact (proj1 (op_exists Hl)) | exact (proj1 (op_find_first Hl))]|].
      intros mode n. repeat split; apply clover_read_pure; reflexivity.
    Qed.
  End OnQuery.

  (* G3: FindById *)
  Theorem op_find_by_id : forall c id, no_semi c = true ->
    fst (step h (OFindById c id)) =
      match assoc c db with
      | None => T_err ECollNotExist
      | Some sc => T_ok (T_of_opt_doc (assoc id (sc_docs sc)))
      end /\
    snd (step h (OFindById c id)) = h.
  Proof.
    intros c id Hc. split; [|apply clover_read_pure; reflexivity].
    rewrite step_fst. unfold exec_op. one_tx_fst.
    destruct (find_by_id_refines db (durable h) c id W HR Hc) as (E & _).
    rewrite <- h_open in E. rewrite E. destruct (assoc c db); reflexivity.
  Qed.
End OnState.

(* ------------------------------------------------------------------------------------------ *)
(* G2: C01 (and C09) after ANY history of the domain                                           *)
(* ------------------------------------------------------------------------------------------ *)

(* the state after a history of the domain denotes a well-formed abstract database in whose domain the
   next operation is *)
Lemma history_state : forall ops o,
  hist_dom empty_db (ops ++ [o]) ->
  let h := snd (run_ops empty_db ops) in
  closed h = false ->
  exists db, wf_db db /\ R db (durable h) /\ op_dom db o.
Proof.
  intros ops o HD h C. apply hist_dom_app in HD. destruct HD as (HD1 & HD2).
  destruct (history_invariant ops HD1) as (db & W & HR). fold h in HR, HD2.
  exists db. split; [exact W|]. split; [exact HR|].
  destruct HD2 as (Ho & _). apply Ho; [exact W|]. split; assumption.
Qed.

Theorem history_find_all : forall ops q mode,
  hist_dom empty_db (ops ++ [OFindAll q mode]) ->
  let h := snd (run_ops empty_db ops) in
  closed h = false ->
  exists db, wf_db db /\ R db (durable h) /\
    match normalize_query (mk_query q) with
    | None => fst (step h (OFindAll q mode)) = T_err EOther
    | Some nq =>
        match assoc (nq_coll nq) db with
        | None => fst (step h (OFindAll q mode)) = T_err ECollNotExist
        | Some sc =>
            exists res,
              fst (step h (OFindAll q mode)) = T_ok (T_of_docs (nq_sort nq) mode res) /\
              find_ok' (map snd (sc_docs sc)) nq res
        end
    end /\
    snd (step h (OFindAll q mode)) = h.
Proof.
  intros ops q mode HD h C.
  destruct (history_state ops _ HD C) as (db & W & HR & D). fold h in HR. cbn [op_dom] in D.
  exists db. split; [exact W|]. split; [exact HR|].
  split; [|apply clover_read_pure; reflexivity].
  destruct (normalize_query (mk_query q)) as [nq|] eqn:N.
  - destruct (assoc (nq_coll nq) db) as [sc|] eqn:A.
    + destruct (op_find_all db h W HR C q nq sc N A D mode) as (res & E & F & _).
      exists res. split; assumption.
    + exact (proj1 (proj2 (op_find_all_errors db h W HR C q mode) nq N A)).
  - exact (proj1 (proj1 (op_find_all_errors db h W HR C q mode) N)).
Qed.

(* C01 in its sharpest form: with no sort and no window, every live document satisfying the criteria
   exactly once, and nothing else *)
Theorem history_find_all_exact : forall ops q mode nq,
  hist_dom empty_db (ops ++ [OFindAll q mode]) ->
  let h := snd (run_ops empty_db ops) in
  closed h = false ->
  normalize_query (mk_query q) = Some nq ->
  nq_sort nq = [] -> nq_skip nq = 0 -> nq_limit nq < 0 ->
  exists db, wf_db db /\ R db (durable h) /\
    forall sc, assoc (nq_coll nq) db = Some sc ->
      exists res,
        fst (step h (OFindAll q mode)) = T_ok (T_of_docs [] mode res) /\
        Permutation res (filter (sat_opt (nq_crit nq)) (map snd (sc_docs sc))).
Proof.
  intros ops q mode nq HD h C N Hso Hsk Hl.
  destruct (history_state ops _ HD C) as (db & W & HR & D). fold h in HR. cbn [op_dom] in D.
  exists db. split; [exact W|]. split; [exact HR|].
  intros sc A. exists (fa_result h nq). split.
  - rewrite <- Hso. exact (proj1 (op_find_all_result db h W HR C q nq sc N A D mode)).
  - exact (op_find_all_exact db h W HR C q nq sc N A D Hso Hsk Hl).
Qed.

(* C09 after any history: Count, ForEach, Exists, FindFirst of the SAME query on the SAME state agree
   with the FindAll result.  (The domain of all five operations is the same predicate of the query.) *)
Theorem history_reads_agree : forall ops q mode0 nq,
  hist_dom empty_db (ops ++ [OFindAll q mode0]) ->
  let h := snd (run_ops empty_db ops) in
  closed h = false ->
  normalize_query (mk_query q) = Some nq ->
  exists db, wf_db db /\ R db (durable h) /\
    forall sc, assoc (nq_coll nq) db = Some sc ->
      exists res,
        find_ok' (map snd (sc_docs sc)) nq res /\
        (forall mode, fst (step h (OFindAll q mode)) = T_ok (T_of_docs (nq_sort nq) mode res)) /\
        fst (step h (OCount q)) = T_ok (TZ (Z.of_nat (length res))) /\
        (forall n mode, fst (step h (OForEach q n mode)) =
           T_ok (T_of_docs (nq_sort nq) mode (if 0 <? n then firstn (Z.to_nat n) res else res))) /\
        (nq_limit nq <> 0 ->
           fst (step h (OExists q)) = T_ok (Tbool (match res with [] => false | _ => true end)) /\
           fst (step h (OFindFirst q)) = T_ok (T_of_opt_doc (hd_error res))).
Proof.
  intros ops q mode0 nq HD h C N.
  destruct (history_state ops _ HD C) as (db & W & HR & D). fold h in HR. cbn [op_dom] in D.
  exists db. split; [exact W|]. split; [exact HR|].
  intros sc A.
  destruct (op_reads_agree db h W HR C q nq sc N A D) as (res & F & H1 & H2 & H3 & H4 & _).
  exists res. repeat split; try assumption; apply H4; assumption.
Qed.

Theorem history_find_by_id : forall ops c id,
  hist_dom empty_db (ops ++ [OFindById c id]) ->
  let h := snd (run_ops empty_db ops) in
  closed h = false ->
  exists db, wf_db db /\ R db (durable h) /\
    fst (step h (OFindById c id)) =
      match assoc c db with
      | None => T_err ECollNotExist
      | Some sc => T_ok (T_of_opt_doc (assoc id (sc_docs sc)))
      end /\
    snd (step h (OFindById c id)) = h.
Proof.
  intros ops c id HD h C.
  destruct (history_state ops _ HD C) as (db & W & HR & D). fold h in HR. cbn [op_dom] in D.
  exists db. split; [exact W|]. split; [exact HR|].
  exact (op_find_by_id db h W HR C c id D).
Qed.

(* ------------------------------------------------------------------------------------------ *)
(* G4: the theorems are not vacuous -- a concrete history and concrete queries                 *)
(* ------------------------------------------------------------------------------------------ *)
(* the first six operations of HistoryProofs' example: collections "t" and "tt", an index on "a" of "t",
   documents {a:5} and {a:"x"} in "t", one document in "tt", then a := 9 in the second document of "t" *)
Definition oq_hist : list op := firstn 6 hx_history.
Local Notation oq_h := (snd (run_ops empty_db oq_hist)) (only parsing).
Definition oq_d2 : obj := doc_set RProofs.ex_f (VInt 9) ex_d2.

(* FindAll(t, a >= 1, sort by a descending) *)
Definition oq_q : qspec :=
  (RProofs.ex_c, [QWhere (CCmp OGtEq RProofs.ex_f (OLit (GInt 0 1))); QSort [(RProofs.ex_f, -1)]]).
Definition oq_nq : nquery :=
  mkNQ RProofs.ex_c (Some (CCmp OGtEq RProofs.ex_f (OLit (VInt 1)))) (-1) 0 [(RProofs.ex_f, -1)].
(* no criteria, a window: Count takes the counter shortcut *)
Definition oq_q2 : qspec := (RProofs.ex_c, [QSkip 1; QLimit 5]).
Definition oq_nq2 : nquery := mkNQ RProofs.ex_c None 5 1 [].

Example oq_in_domain : hist_dom empty_db (oq_hist ++ [OFindAll oq_q 2]).
Proof. apply hist_domb_sound. vm_compute. reflexivity. Qed.

Example oq_in_domain2 : hist_dom empty_db (oq_hist ++ [OFindAll oq_q2 0]).
Proof. apply hist_domb_sound. vm_compute. reflexivity. Qed.

Example oq_open : closed oq_h = false.
Proof. vm_compute. reflexivity. Qed.

Example oq_normalises :
  normalize_query (mk_query oq_q) = Some oq_nq /\ normalize_query (mk_query oq_q2) = Some oq_nq2.
Proof. split; vm_compute; reflexivity. Qed.

(* what the model computes *)
Example oq_computed :
  fa_result oq_h oq_nq = [oq_d2; ex_d1] /\
  fst (step oq_h (OFindAll oq_q 2)) = T_ok (T_of_docs [(RProofs.ex_f, -1)] 2 [oq_d2; ex_d1]) /\
  fst (step oq_h (OCount oq_q)) = T_ok (TZ 2) /\
  fst (step oq_h (OForEach oq_q 1 2)) = T_ok (T_of_docs [(RProofs.ex_f, -1)] 2 [oq_d2]) /\
  fst (step oq_h (OExists oq_q)) = T_ok (Tbool true) /\
  fst (step oq_h (OFindFirst oq_q)) = T_ok (T_of_opt_doc (Some oq_d2)) /\
  fst (step oq_h (OFindById RProofs.ex_c ex_id2)) = T_ok (T_of_opt_doc (Some oq_d2)) /\
  length (fa_result oq_h oq_nq2) = 1%nat /\
  fst (step oq_h (OCount oq_q2)) = T_ok (TZ 1).
Proof. repeat split; vm_compute; reflexivity. Qed.

(* G1/G3 instantiated on that state: the abstract database exists, holds collection "t", the computed
   result is acceptable to the specification, and the other reads agree with it *)
Example oq_reads_agree :
  exists db sc,
    wf_db db /\ R db (durable oq_h) /\ assoc RProofs.ex_c db = Some sc /\
    find_ok' (map snd (sc_docs sc)) oq_nq [oq_d2; ex_d1] /\
    (forall mode, fst (step oq_h (OFindAll oq_q mode)) = T_ok (T_of_docs (nq_sort oq_nq) mode [oq_d2; ex_d1])) /\
    fst (step oq_h (OCount oq_q)) = T_ok (TZ 2) /\
    fst (step oq_h (OExists oq_q)) = T_ok (Tbool true) /\
    fst (step oq_h (OFindFirst oq_q)) = T_ok (T_of_opt_doc (Some oq_d2)) /\
    fst (step oq_h (OFindById RProofs.ex_c ex_id2)) = T_ok (T_of_opt_doc (assoc ex_id2 (sc_docs sc))).
Proof.
  destruct (history_state oq_hist _ oq_in_domain oq_open) as (db & W & HR & D). cbn [op_dom] in D.
  assert (HD : hist_dom empty_db oq_hist) by (exact (proj1 (proj1 (hist_dom_app _ _ _) oq_in_domain))).
  assert (Hc : assoc RProofs.ex_c db <> None).
  { apply (history_catalog oq_hist db (durable oq_h) HD eq_refl W HR). vm_compute. discriminate. }
  destruct (assoc RProofs.ex_c db) as [sc|] eqn:A; [clear Hc | contradiction Hc; reflexivity].
  destruct oq_normalises as (N & _). destruct oq_computed as (Er & _).
  assert (A' : assoc (nq_coll oq_nq) db = Some sc) by exact A.
  exists db, sc. split; [exact W|]. split; [exact HR|]. split; [exact A|].
  destruct (op_find_all_result db oq_h W HR oq_open oq_q oq_nq sc N A' D 0) as (_ & F & _).
  rewrite Er in F. split; [exact F|].
  split.
  { intros mode. rewrite <- Er.
    exact (proj1 (op_find_all_result db oq_h W HR oq_open oq_q oq_nq sc N A' D mode)). }
  split.
  { pose proof (proj1 (op_count db oq_h W HR oq_open oq_q oq_nq sc N A' D)) as H. rewrite Er in H. exact H. }
  assert (Hl : nq_limit oq_nq <> 0) by (cbn; discriminate).
  split.
  { pose proof (proj1 (op_exists db oq_h W HR oq_open oq_q oq_nq sc N A' D Hl)) as H. rewrite Er in H. exact H. }
  split.
  { pose proof (proj1 (op_find_first db oq_h W HR oq_open oq_q oq_nq sc N A' D Hl)) as H. rewrite Er in H. exact H. }
  pose proof (proj1 (op_find_by_id db oq_h W HR oq_open RProofs.ex_c ex_id2 eq_refl)) as H.
  rewrite A in H. exact H.
Qed.

(* the side condition of op_exists / op_find_first is needed: with Limit(0) FindAll returns nothing, but
   Exists and FindFirst replace the limit by 1 and see the first document *)
Example oq_limit0 :
  fst (step oq_h (OFindAll (RProofs.ex_c, [QLimit 0]) 2)) = T_ok (TL []) /\
  fst (step oq_h (OExists (RProofs.ex_c, [QLimit 0]))) = T_ok (Tbool true) /\
  fst (step oq_h (OFindFirst (RProofs.ex_c, [QLimit 0]))) = T_ok (T_of_opt_doc (Some ex_d1)).
Proof. repeat split; vm_compute; reflexivity. Qed.

(* G2 instantiated *)
Example oq_history_find_all :
  exists db, wf_db db /\ R db (durable oq_h) /\
    forall sc, assoc RProofs.ex_c db = Some sc ->
      exists res, find_ok' (map snd (sc_docs sc)) oq_nq res /\
                  fst (step oq_h (OFindAll oq_q 2)) = T_ok (T_of_docs (nq_sort oq_nq) 2 res).
Proof.
  destruct (history_find_all oq_hist oq_q 2 oq_in_domain oq_open) as (db & W & HR & H & _).
  rewrite (proj1 oq_normalises) in H.
  exists db. split; [exact W|]. split; [exact HR|]. intros sc A.
  change (nq_coll oq_nq) with RProofs.ex_c in H. rewrite A in H.
  destruct H as (res & E & F). exists res. split; assumption.
Qed.

Print Assumptions normalize_query_fields.
Print Assumptions normalize_query_limit.
Print Assumptions query_dom_limit.
Print Assumptions run_ops_app.
Print Assumptions hist_dom_app.
Print Assumptions op_reads_pure.
Print Assumptions op_find_all.
Print Assumptions op_find_all_result.
Print Assumptions op_find_all_errors.
Print Assumptions op_reads_errors.
Print Assumptions op_find_all_exact.
Print Assumptions op_count.
Print Assumptions op_count_uses_counter.
Print Assumptions op_foreach.
Print Assumptions op_exists.
Print Assumptions op_find_first.
Print Assumptions op_find_by_id.
Print Assumptions op_reads_agree.
Print Assumptions history_find_all.
Print Assumptions history_find_all_exact.
Print Assumptions history_reads_agree.
Print Assumptions history_find_by_id.
Print Assumptions oq_computed.
Print Assumptions oq_reads_agree.
Print Assumptions oq_limit0.
Print Assumptions oq_history_find_all.

(* ADEQUACY OF THE ABSTRACT SPECIFICATION S (AbstractSpecProofs.v: astate, a_step, a_run).

   The refinement theorem [history_refines_spec] says that every history of the API is a run of S.  It is only
   as good as S: a specification that allowed anything would make it empty.  This file shows that S ALONE
   -- no model, no store, no refinement lemma: every statement below is about [a_step] / [a_run] and the
   abstract database -- is strong enough to imply the user-level properties C01, C03, C08, C09, C12, C13, C14,
   C19, C20.  Where S deliberately does not pin an outcome down, the two allowed outcomes are exhibited
   ([..._not_determined]), and where a statement needs a side condition the condition is explicit and its
   necessity is shown by a witness ([..._needs_...]).

   Q01 spec_find_all_exact (+ _members)
   Q03 spec_bulk_update_exact, spec_update_exact, spec_delete_exact (closed form: bulk_q_spec_exact)
   Q08 spec_find_all_sorted_window, spec_find_all_sorted_answers_tie
   Q09 spec_reads_agree (spec_count_agrees, spec_exists_agrees, spec_find_first_agrees, spec_for_each_agrees),
       spec_reads_errors
   Q12 spec_ids (spec_insert_ok, spec_insert_dup, spec_insert_missing, spec_update_by_id)
   Q13 spec_catalog, spec_frame, spec_names_kept
   Q14 spec_indexes, spec_index_write_keeps_docs, spec_doc_write_keeps_indexes
   Q19 spec_export_import
   Q20 spec_total (spec_total_unsorted, spec_total_dom), spec_answer_shape
   Q21 spec_closed, spec_close_reopen, spec_close_history_reopen
   Not pinned down by S / side conditions shown necessary:
       spec_find_all_order_not_determined, spec_find_first_not_determined, spec_bulk_windowed_not_determined,
       spec_exists_needs_limit_nonzero, spec_insert_dup_needs_valid, spec_sorted_ties_need_regime *)
From Coq Require Import Lia ZArith Bool List Permutation Sorted.
Import ListNotations.
From Clover Require Import CompositeSpec HistDom HistoryProofs RProofs WriteProofs BulkProofs QueryProofs
  OpProofs OpQueryProofs TxProofs IndexIndepProofs CompositeProofs ScanProofs SortProofs PlanProofs
  AbstractSpecProofs BytesProofs.
Open Scope Z_scope.

(* ========================================================================================== *)
(* 0. Reading one step of S                                                                    *)
(* ========================================================================================== *)
Lemma a_step_open_inv : forall o a t a', a_closed a = false -> handle_op o = false ->
  a_step o a t a' -> a_closed a' = false /\ open_spec o (a_db a) t (a_db a').
Proof.
  intros o a t a' C Ho S. unfold a_step in S. rewrite C in S.
  destruct o; try discriminate Ho; exact S.
Qed.

Lemma a_step_open_inv' : forall o a t a', a_step o a t a' -> a_closed a = false -> handle_op o = false ->
  a_closed a' = false /\ open_spec o (a_db a) t (a_db a').
Proof. intros o a t a' S C Ho. exact (a_step_open_inv o a t a' C Ho S). Qed.

Lemma a_step_open_intro : forall o db t db', handle_op o = false ->
  open_spec o db t db' -> a_step o (mkA db false) t (mkA db' false).
Proof.
  intros o db t db' Ho S. unfold a_step. cbn [a_closed a_db].
  destruct o; try discriminate Ho; (split; [reflexivity | exact S]).
Qed.

Lemma astate_same : forall a a', a_closed a = false -> a_closed a' = false -> a_db a' = a_db a -> a' = a.
Proof. intros a a' C C' E. apply astate_eq; congruence. Qed.

Lemma T_ok_inj : forall p q, T_ok p = T_ok q -> p = q.
Proof. intros p q H. unfold T_ok in H. injection H as H. exact H. Qed.

Lemma T_err_inj : forall e1 e2, T_err e1 = T_err e2 -> e1 = e2.
Proof. intros e1 e2 H. unfold T_err in H. destruct e1, e2; try reflexivity; discriminate H. Qed.

Lemma fun_spec_ok_inv : forall r db t db' p, fun_spec r db t db' -> t = T_ok p -> r = Ok db' /\ p = TL [].
Proof.
  intros r db t db' p F E. destruct r as [d|e]; cbn [fun_spec] in F; destruct F as (Et & Ed).
  - subst db'. rewrite Et in E. apply T_ok_inj in E. split; [reflexivity | symmetry; exact E].
  - rewrite Et in E. contradiction (T_err_not_ok _ _ E).
Qed.

Lemma fun_spec_err_inv : forall r db t db' e, fun_spec r db t db' -> t = T_err e -> r = Err e /\ db' = db.
Proof.
  intros r db t db' e F E. destruct r as [d|e0]; cbn [fun_spec] in F; destruct F as (Et & Ed).
  - rewrite Et in E. symmetry in E. contradiction (T_err_not_ok _ _ E).
  - rewrite Et in E. apply T_err_inj in E. subst e0. split; [reflexivity | exact Ed].
Qed.

(* ---- the collection a query names ---- *)
Lemma q_coll_apply : forall q s, q_coll (q_apply q s) = q_coll q.
Proof. intros q s. destruct s; cbn [q_apply]; try reflexivity. destruct (0 <=? n); reflexivity. Qed.

Lemma q_coll_fold : forall steps q, q_coll (fold_left q_apply steps q) = q_coll q.
Proof.
  induction steps as [|s t IH]; intros q; [reflexivity|]. cbn [fold_left]. rewrite IH. apply q_coll_apply.
Qed.

Lemma mk_query_coll : forall q, q_coll (mk_query q) = fst q.
Proof. intros q. unfold mk_query, build_query. rewrite q_coll_fold. reflexivity. Qed.

Lemma normalize_coll : forall q nq, normalize_query q = Some nq -> nq_coll nq = q_coll q.
Proof.
  intros q nq N. unfold normalize_query in N. destruct (q_crit q) as [c|].
  - destruct (norm_crit c); [|discriminate N]. injection N as <-. reflexivity.
  - injection N as <-. reflexivity.
Qed.

Lemma normalize_mk_coll : forall q nq, normalize_query (mk_query q) = Some nq -> nq_coll nq = fst q.
Proof. intros q nq N. rewrite (normalize_coll _ _ N). apply mk_query_coll. Qed.

Lemma normalize_limit1_coll : forall q nq, normalize_query (limit1 q) = Some nq -> nq_coll nq = fst q.
Proof.
  intros q nq N. rewrite (normalize_coll _ _ N). unfold limit1. rewrite q_coll_apply. apply mk_query_coll.
Qed.

(* ========================================================================================== *)
(* Q21 (C20): the closed handle                                                                *)
(* ========================================================================================== *)
Theorem spec_closed : forall o a t a', a_closed a = true -> handle_op o = false ->
  a_step o a t a' -> t = T_err EOther /\ a' = a.
Proof.
  intros o a t a' C Ho S. unfold a_step in S. rewrite C in S.
  destruct o; try discriminate Ho; exact S.
Qed.

(* Close, then Reopen: the abstract database is exactly the one before Close, whatever the handle was *)
Theorem spec_close_reopen : forall a t1 a1 t2 a2,
  a_step OClose a t1 a1 -> a_step OReopen a1 t2 a2 ->
  t1 = T_ok (TL []) /\ t2 = T_ok (TL []) /\ a_closed a1 = true /\ a_db a1 = a_db a /\
  a2 = mkA (a_db a) false.
Proof.
  intros [db cl] t1 a1 t2 a2 S1 S2. unfold a_step in S1. cbn [a_closed a_db] in *.
  destruct cl; destruct S1 as (-> & ->); unfold a_step in S2; cbn [a_closed a_db] in S2;
    destruct S2 as (-> & ->); repeat split; reflexivity.
Qed.

(* a whole history on the closed handle: every call fails with EOther, nothing changes *)
Definition no_handle_ops (ops : list op) : Prop := forall o, In o ops -> handle_op o = false.

Lemma a_run_closed : forall ops a ts a', a_closed a = true -> no_handle_ops ops ->
  a_run a ops ts a' -> a' = a /\ ts = map (fun _ => T_err EOther) ops.
Proof.
  induction ops as [|o r IH]; intros a ts a' C Hn H.
  - inversion H; subst. split; reflexivity.
  - inversion H as [|? ? t a1 ? ts1 ? S1 H1]; subst.
    destruct (spec_closed o a t a1 C (Hn o (or_introl eq_refl)) S1) as (-> & ->).
    destruct (IH a ts1 a' C (fun o' Ho' => Hn o' (or_intror Ho')) H1) as (-> & ->).
    split; reflexivity.
Qed.

Theorem spec_close_history_reopen : forall a ops t1 a1 ts a2 t3 a3,
  a_step OClose a t1 a1 -> no_handle_ops ops -> a_run a1 ops ts a2 -> a_step OReopen a2 t3 a3 ->
  ts = map (fun _ => T_err EOther) ops /\ t3 = T_ok (TL []) /\ a3 = mkA (a_db a) false.
Proof.
  intros a ops t1 a1 ts a2 t3 a3 S1 Hn Hr S3.
  assert (C1 : a_closed a1 = true /\ a_db a1 = a_db a).
  { destruct a as [db cl]. unfold a_step in S1. cbn [a_closed a_db] in *.
    destruct cl; destruct S1 as (_ & ->); split; reflexivity. }
  destruct C1 as (C1 & D1).
  destruct (a_run_closed ops a1 ts a2 C1 Hn Hr) as (-> & ->).
  unfold a_step in S3. rewrite C1 in S3. destruct S3 as (-> & ->). rewrite D1.
  repeat split; reflexivity.
Qed.

(* ========================================================================================== *)
(* Q13 (C13): the catalog, and the frame property of every operation                           *)
(* ========================================================================================== *)
(* the collection an operation names (for CreateCollectionByQuery the NEW collection) *)
Definition target (o : op) : option bytes :=
  match o with
  | OCreateCollection c | ODropCollection c | OHasCollection c | OInsert c _ _ | OSave c _ _
  | OFindById c _ | ODeleteById c _ | OUpdateById c _ _ | OReplaceById c _ _
  | OCreateIndex c _ | ODropIndex c _ | OHasIndex c _ | OListIndexes c
  | OExport c | OImport c _ | OCreateByQuery c _ => Some c
  | OFindAll q _ | OCount q | OExists q | OFindFirst q | OForEach q _ _
  | OUpdate q _ | OUpdateFunc q _ | ODelete q => Some (fst q)
  | OListCollections | OClose | OReopen => None
  end.

Definition frame (c : bytes) (db db' : sdb) : Prop :=
  forall c', c' <> c -> assoc c' db' = assoc c' db.

Lemma frame_refl : forall c db, frame c db db.
Proof. intros c db c' _. reflexivity. Qed.

Lemma frame_trans : forall c db1 db2 db3, frame c db1 db2 -> frame c db2 db3 -> frame c db1 db3.
Proof. intros c db1 db2 db3 F1 F2 c' Hn. rewrite (F2 c' Hn). exact (F1 c' Hn). Qed.

Lemma frame_set : forall c sc' db, frame c db (assoc_set c sc' db).
Proof. intros c sc' db c' Hn. apply assoc_set_frame. exact Hn. Qed.

Lemma frame_del : forall c db, frame c db (assoc_del c db).
Proof. intros c db c' Hn. apply assoc_del_frame. exact Hn. Qed.

Lemma frame_app : forall c sc' (db : sdb), frame c db (db ++ [(c, sc')]).
Proof. intros c sc' db c' Hn. apply assoc_app_other. congruence. Qed.

(* the two ways a collection is rewritten in place *)
Definition docs_changed (c : bytes) (db db' : sdb) : Prop :=
  db' = db \/ exists sc ds, assoc c db = Some sc /\ db' = assoc_set c (mkSC ds (sc_idx sc)) db.

Definition idx_changed (c : bytes) (db db' : sdb) : Prop :=
  db' = db \/ exists sc ix, assoc c db = Some sc /\ db' = assoc_set c (mkSC (sc_docs sc) ix) db.

Lemma docs_changed_frame : forall c db db', docs_changed c db db' -> frame c db db'.
Proof. intros c db db' [->|(sc & ds & _ & ->)]; [apply frame_refl | apply frame_set]. Qed.

Lemma idx_changed_frame : forall c db db', idx_changed c db db' -> frame c db db'.
Proof. intros c db db' [->|(sc & ds & _ & ->)]; [apply frame_refl | apply frame_set]. Qed.

Lemma docs_changed_names : forall c db db', docs_changed c db db' -> map fst db' = map fst db.
Proof.
  intros c db db' [->|(sc & ds & A & ->)]; [reflexivity|]. exact (assoc_set_keys_present _ c _ sc db A).
Qed.

Lemma idx_changed_names : forall c db db', idx_changed c db db' -> map fst db' = map fst db.
Proof.
  intros c db db' [->|(sc & ds & A & ->)]; [reflexivity|]. exact (assoc_set_keys_present _ c _ sc db A).
Qed.

(* a document write keeps every index list *)
Lemma docs_changed_idx : forall c db db', docs_changed c db db' ->
  forall c0, option_map sc_idx (assoc c0 db') = option_map sc_idx (assoc c0 db).
Proof.
  intros c db db' [->|(sc & ds & A & ->)] c0; [reflexivity|].
  destruct (bytes_dec c0 c) as [->|Hn].
  - rewrite assoc_set_same, A. reflexivity.
  - rewrite (assoc_set_frame db c _ c0 Hn). reflexivity.
Qed.

(* an index write keeps every document list *)
Lemma idx_changed_docs : forall c db db', idx_changed c db db' ->
  forall c0, option_map sc_docs (assoc c0 db') = option_map sc_docs (assoc c0 db).
Proof.
  intros c db db' [->|(sc & ds & A & ->)] c0; [reflexivity|].
  destruct (bytes_dec c0 c) as [->|Hn].
  - rewrite assoc_set_same, A. reflexivity.
  - rewrite (assoc_set_frame db c _ c0 Hn). reflexivity.
Qed.

(* ---- the functions of SpecDB.v ---- *)
Lemma s_insert_changed : forall c docs db db', s_insert c docs db = Ok db' -> docs_changed c db db'.
Proof.
  intros c docs db db' H. unfold s_insert in H. destruct (assoc c db) as [sc|] eqn:A; [|discriminate H].
  destruct (s_insert_docs docs (sc_docs sc)) as [ds|e]; [|discriminate H]. injection H as <-.
  right. exists sc, ds. split; [exact A | reflexivity].
Qed.

Lemma s_delete_by_id_changed : forall c id db db', s_delete_by_id c id db = Ok db' -> docs_changed c db db'.
Proof.
  intros c id db db' H. unfold s_delete_by_id in H. destruct (assoc c db) as [sc|] eqn:A; [|discriminate H].
  injection H as <-. right. exists sc, (assoc_del id (sc_docs sc)). split; [exact A | reflexivity].
Qed.

Lemma s_update_by_id_inv : forall c id u db db', s_update_by_id c id u db = Ok db' ->
  exists sc d d', assoc c db = Some sc /\ assoc id (sc_docs sc) = Some d /\ apply_updater u d = Some d' /\
    object_id d' = id /\ validate d' = true /\
    db' = assoc_set c (mkSC (assoc_set id d' (sc_docs sc)) (sc_idx sc)) db.
Proof.
  intros c id u db db' H. unfold s_update_by_id in H.
  destruct (assoc c db) as [sc|] eqn:A; [|discriminate H].
  destruct (assoc id (sc_docs sc)) as [d|] eqn:Ad; [|discriminate H].
  destruct (apply_updater u d) as [d'|] eqn:U; [|discriminate H].
  destruct (beqb (object_id d') id) eqn:B; cbn [negb] in H; [|discriminate H].
  destruct (validate d') eqn:V; [|discriminate H]. injection H as <-.
  exists sc, d, d'. apply beqb_true_iff in B. repeat split; assumption || reflexivity.
Qed.

Lemma s_update_by_id_changed : forall c id u db db', s_update_by_id c id u db = Ok db' -> docs_changed c db db'.
Proof.
  intros c id u db db' H. destruct (s_update_by_id_inv _ _ _ _ _ H) as (sc & d & d' & A & _ & _ & _ & _ & ->).
  right. exists sc, (assoc_set id d' (sc_docs sc)). split; [exact A | reflexivity].
Qed.

Lemma s_create_index_changed : forall c f db db', s_create_index c f db = Ok db' -> idx_changed c db db'.
Proof.
  intros c f db db' H. unfold s_create_index in H. destruct (assoc c db) as [sc|] eqn:A; [|discriminate H].
  destruct (has_field f (sc_idx sc)); [discriminate H|]. injection H as <-.
  right. exists sc, (sc_idx sc ++ [f]). split; [exact A | reflexivity].
Qed.

Lemma s_drop_index_changed : forall c f db db', s_drop_index c f db = Ok db' -> idx_changed c db db'.
Proof.
  intros c f db db' H. unfold s_drop_index in H. destruct (assoc c db) as [sc|] eqn:A; [|discriminate H].
  destruct (last_index_of f (sc_idx sc) 0 None) as [j|]; [|discriminate H]. injection H as <-.
  right. exists sc, (drop_slot j (sc_idx sc)). split; [exact A | reflexivity].
Qed.

Lemma fun_spec_rel : forall (P : sdb -> sdb -> Prop) r db t db',
  P db db -> (forall d, r = Ok d -> P db d) -> fun_spec r db t db' -> P db db'.
Proof.
  intros P r db t db' Hr Hok F. destruct r as [d|e]; cbn [fun_spec] in F; destruct F as (_ & ->).
  - apply Hok. reflexivity.
  - exact Hr.
Qed.

Lemma bulk_spec_changed : forall nq u db t db', bulk_spec nq u db t db' -> docs_changed (nq_coll nq) db db'.
Proof.
  intros nq u db t db' B. unfold bulk_spec in B. destruct (assoc (nq_coll nq) db) as [sc|] eqn:A.
  - destruct B as (sel & _ & _ & _ & B). destruct (s_apply_sel u sel (sc_docs sc)) as [ds|e].
    + destruct B as (_ & ->). right. exists sc, ds. split; [exact A | reflexivity].
    + destruct B as (_ & ->). left. reflexivity.
  - destruct B as (_ & ->). left. reflexivity.
Qed.

Lemma bulk_q_spec_changed : forall q u db t db', bulk_q_spec q u db t db' -> docs_changed (fst q) db db'.
Proof.
  intros q u db t db' B. unfold bulk_q_spec in B. destruct (normalize_query (mk_query q)) as [nq|] eqn:N.
  - rewrite <- (normalize_mk_coll q nq N). exact (bulk_spec_changed _ _ _ _ _ B).
  - destruct B as (_ & ->). left. reflexivity.
Qed.

(* ---- the document writes ---- *)
Definition doc_write (o : op) : bool :=
  match o with
  | OInsert _ _ _ | OSave _ _ _ | ODeleteById _ _ | OUpdateById _ _ _ | OReplaceById _ _ _
  | OUpdate _ _ | OUpdateFunc _ _ | ODelete _ => true
  | _ => false
  end.

Definition index_write (o : op) : bool :=
  match o with OCreateIndex _ _ | ODropIndex _ _ => true | _ => false end.

Lemma open_spec_doc_write : forall o db t db', doc_write o = true -> open_spec o db t db' ->
  exists c, target o = Some c /\ docs_changed c db db'.
Proof.
  intros o db t db' Hw S. destruct o; try discriminate Hw; cbn [open_spec target] in *; eexists;
    (split; [reflexivity|]).
  - (* Insert *) apply (fun_spec_rel (docs_changed c) _ _ _ _ (or_introl eq_refl) (s_insert_changed c _ db) S).
  - (* Save *) destruct (needs_id d).
    + apply (fun_spec_rel (docs_changed c) _ _ _ _ (or_introl eq_refl) (s_insert_changed c _ db) S).
    + apply (fun_spec_rel (docs_changed c) _ _ _ _ (or_introl eq_refl) (s_update_by_id_changed c _ _ db) S).
  - (* DeleteById *)
    apply (fun_spec_rel (docs_changed c) _ _ _ _ (or_introl eq_refl) (s_delete_by_id_changed c id db) S).
  - (* UpdateById *)
    apply (fun_spec_rel (docs_changed c) _ _ _ _ (or_introl eq_refl) (s_update_by_id_changed c id u db) S).
  - (* ReplaceById *) destruct (negb (beqb (object_id d) id)).
    + destruct S as (_ & ->). left. reflexivity.
    + apply (fun_spec_rel (docs_changed c) _ _ _ _ (or_introl eq_refl) (s_update_by_id_changed c id _ db) S).
  - exact (bulk_q_spec_changed _ _ _ _ _ S).
  - exact (bulk_q_spec_changed _ _ _ _ _ S).
  - exact (bulk_q_spec_changed _ _ _ _ _ S).
Qed.

Lemma open_spec_index_write : forall o db t db', index_write o = true -> open_spec o db t db' ->
  exists c, target o = Some c /\ idx_changed c db db'.
Proof.
  intros o db t db' Hw S. destruct o; try discriminate Hw; cbn [open_spec target] in *; eexists;
    (split; [reflexivity|]).
  - apply (fun_spec_rel (idx_changed c) _ _ _ _ (or_introl eq_refl) (s_create_index_changed c f db) S).
  - apply (fun_spec_rel (idx_changed c) _ _ _ _ (or_introl eq_refl) (s_drop_index_changed c f db) S).
Qed.

(* ---- the frame property at the level of [open_spec] ---- *)
Lemma s_create_frame : forall c db db', s_create c db = Ok db' -> frame c db db'.
Proof.
  intros c db db' H. unfold s_create in H. destruct (assoc c db); [discriminate H|]. injection H as <-.
  apply frame_app.
Qed.

Lemma s_drop_frame : forall c db db', s_drop c db = Ok db' -> frame c db db'.
Proof.
  intros c db db' H. unfold s_drop in H. destruct (assoc c db); [|discriminate H]. injection H as <-.
  apply frame_del.
Qed.

Lemma s_import_frame : forall c file db, frame c db (snd (s_import c file db)).
Proof.
  intros c file db. unfold s_import.
  destruct file as [| |l]; cbn [snd]; try apply frame_refl.
  - destruct (s_create c db) as [db1|e] eqn:Cr; cbn [snd]; [|apply frame_refl]. exact (s_create_frame _ _ _ Cr).
  - destruct (s_create c db) as [db1|e] eqn:Cr; cbn [snd]; [|apply frame_refl].
    pose proof (s_create_frame _ _ _ Cr) as F1.
    destruct (file_docs l) as [docs|]; cbn [snd]; [|exact F1].
    destruct (s_insert c docs db1) as [db2|e] eqn:I; cbn [snd]; [|exact F1].
    exact (frame_trans _ _ _ _ F1 (docs_changed_frame _ _ _ (s_insert_changed _ _ _ _ I))).
Qed.

Lemma open_spec_frame : forall o db t db', open_spec o db t db' ->
  match target o with Some c => frame c db db' | None => db' = db end.
Proof.
  intros o db t db' S.
  destruct (doc_write o) eqn:Dw.
  { destruct (open_spec_doc_write o db t db' Dw S) as (c & -> & Ch). exact (docs_changed_frame _ _ _ Ch). }
  destruct (index_write o) eqn:Iw.
  { destruct (open_spec_index_write o db t db' Iw S) as (c & -> & Ch). exact (idx_changed_frame _ _ _ Ch). }
  destruct o; try discriminate Dw; try discriminate Iw; cbn [open_spec target] in *;
    try (destruct S as (_ & ->); apply frame_refl); try contradiction.
  - (* Create *) exact (fun_spec_rel (frame c) _ _ _ _ (frame_refl c db) (s_create_frame c db) S).
  - (* Drop *) exact (fun_spec_rel (frame c) _ _ _ _ (frame_refl c db) (s_drop_frame c db) S).
  - (* ListCollections *) exact (proj2 S).
  - (* Import *) destruct S as (_ & ->). apply s_import_frame.
  - (* CreateByQuery *)
    destruct (s_create c db) as [db1|e] eqn:Cr; [|destruct S as (_ & ->); apply frame_refl].
    pose proof (s_create_frame _ _ _ Cr) as F1.
    destruct (normalize_query (mk_query q)) as [nq|]; [|destruct S as (_ & ->); exact F1].
    destruct (assoc (nq_coll nq) db1) as [sc|]; [|destruct S as (_ & ->); exact F1].
    destruct S as (res & _ & _ & ->). exact (frame_trans _ _ _ _ F1 (frame_set _ _ _)).
Qed.

(* FRAME: an operation changes at most the collection it names; an operation that names none changes no
   collection at all (Close/Reopen flip the handle's flag only).  On an open and on a closed handle. *)
Theorem spec_frame : forall o a t a', a_step o a t a' ->
  match target o with
  | Some c => forall c', c' <> c -> assoc c' (a_db a') = assoc c' (a_db a)
  | None => a_db a' = a_db a
  end.
Proof.
  intros o a t a' S. destruct (handle_op o) eqn:Ho.
  - destruct a as [db cl]. unfold a_step in S. cbn [a_closed a_db] in S.
    destruct o; try discriminate Ho; cbn [target]; destruct cl; destruct S as (_ & ->); reflexivity.
  - destruct (a_closed a) eqn:C.
    + destruct (spec_closed o a t a' C Ho S) as (_ & ->). destruct (target o); reflexivity.
    + destruct (a_step_open_inv o a t a' C Ho S) as (_ & S'). exact (open_spec_frame _ _ _ _ S').
Qed.

(* the names of the collections change only by Create / Drop / Import / CreateByQuery *)
Definition catalog_write (o : op) : bool :=
  match o with
  | OCreateCollection _ | ODropCollection _ | OImport _ _ | OCreateByQuery _ _ => true
  | _ => false
  end.

Theorem spec_names_kept : forall o a t a', catalog_write o = false -> a_step o a t a' ->
  map fst (a_db a') = map fst (a_db a).
Proof.
  intros o a t a' Cw S. destruct (handle_op o) eqn:Ho.
  - pose proof (spec_frame o a t a' S) as F. destruct o; try discriminate Ho; cbn [target] in F; rewrite F;
      reflexivity.
  - destruct (a_closed a) eqn:C.
    + destruct (spec_closed o a t a' C Ho S) as (_ & ->). reflexivity.
    + destruct (a_step_open_inv o a t a' C Ho S) as (_ & S').
      destruct (doc_write o) eqn:Dw.
      { destruct (open_spec_doc_write o _ t _ Dw S') as (c & _ & Ch). exact (docs_changed_names _ _ _ Ch). }
      destruct (index_write o) eqn:Iw.
      { destruct (open_spec_index_write o _ t _ Iw S') as (c & _ & Ch). exact (idx_changed_names _ _ _ Ch). }
      destruct o; try discriminate Dw; try discriminate Iw; try discriminate Cw; try discriminate Ho;
        cbn [open_spec] in S'; destruct S' as (_ & ->); reflexivity.
Qed.

(* ---- Create / Drop / HasCollection ---- *)
Lemma spec_create : forall c a t a', a_closed a = false -> a_step (OCreateCollection c) a t a' ->
  match assoc c (a_db a) with
  | Some _ => t = T_err ECollExist /\ a' = a
  | None => t = T_ok (TL []) /\ a_db a' = a_db a ++ [(c, mkSC [] [])] /\
            assoc c (a_db a') = Some (mkSC [] []) /\ a_closed a' = false
  end.
Proof.
  intros c a t a' C S. destruct (a_step_open_inv' _ a t a' S C eq_refl) as (C' & S').
  cbn [open_spec] in S'. unfold s_create in S'. destruct (assoc c (a_db a)) eqn:A; cbn [fun_spec] in S'.
  - destruct S' as (-> & E). split; [reflexivity|]. exact (astate_same a a' C C' E).
  - destruct S' as (-> & E). rewrite E. split; [reflexivity|]. split; [reflexivity|].
    split; [apply assoc_app_none; exact A | exact C'].
Qed.

Lemma spec_drop : forall c a t a', a_closed a = false -> a_step (ODropCollection c) a t a' ->
  assoc c (a_db a') = None /\ a_closed a' = false /\
  match assoc c (a_db a) with
  | Some _ => t = T_ok (TL []) /\ a_db a' = assoc_del c (a_db a)
  | None => t = T_err ECollNotExist /\ a' = a
  end.
Proof.
  intros c a t a' C S. destruct (a_step_open_inv' _ a t a' S C eq_refl) as (C' & S').
  cbn [open_spec] in S'. unfold s_drop in S'. destruct (assoc c (a_db a)) eqn:A; cbn [fun_spec] in S'.
  - destruct S' as (-> & E). rewrite E. split; [apply assoc_del_same|]. split; [exact C'|].
    split; reflexivity.
  - destruct S' as (-> & E). rewrite E. split; [exact A|]. split; [exact C'|]. split; [reflexivity|].
    exact (astate_same a a' C C' E).
Qed.

Lemma spec_has_collection : forall c a t a', a_closed a = false -> a_step (OHasCollection c) a t a' ->
  t = T_ok (Tbool (match assoc c (a_db a) with Some _ => true | None => false end)) /\ a' = a.
Proof.
  intros c a t a' C S. destruct (a_step_open_inv' _ a t a' S C eq_refl) as (C' & S').
  cbn [open_spec] in S'. destruct S' as (-> & E). split; [reflexivity|]. exact (astate_same a a' C C' E).
Qed.

Theorem spec_catalog : forall c a, a_closed a = false ->
  (* Create then Create: the second answers ECollExist and changes nothing *)
  (forall t1 a1 t2 a2, a_step (OCreateCollection c) a t1 a1 -> a_step (OCreateCollection c) a1 t2 a2 ->
     t2 = T_err ECollExist /\ a2 = a1) /\
  (* after a successful Create the collection is there, empty and without indexes *)
  (forall t1 a1 t2 a2, a_step (OCreateCollection c) a t1 a1 -> t1 = T_ok (TL []) ->
     a_step (OHasCollection c) a1 t2 a2 ->
     t2 = T_ok (Tbool true) /\ assoc c (a_db a1) = Some (mkSC [] [])) /\
  (* Drop (whatever it answers) then HasCollection: false; then Create succeeds with an empty collection
     without indexes *)
  (forall t1 a1 t2 a2 t3 a3, a_step (ODropCollection c) a t1 a1 -> a_step (OHasCollection c) a1 t2 a2 ->
     a_step (OCreateCollection c) a2 t3 a3 ->
     t2 = T_ok (Tbool false) /\ a2 = a1 /\ t3 = T_ok (TL []) /\ assoc c (a_db a3) = Some (mkSC [] [])) /\
  (* Drop answers ok exactly when the collection was there *)
  (forall t1 a1, a_step (ODropCollection c) a t1 a1 ->
     (t1 = T_ok (TL []) <-> assoc c (a_db a) <> None) /\ (t1 = T_err ECollNotExist <-> assoc c (a_db a) = None)).
Proof.
  intros c a C. split; [|split; [|split]].
  - intros t1 a1 t2 a2 S1 S2. pose proof (spec_create c a t1 a1 C S1) as H1.
    assert (X : a_closed a1 = false /\ assoc c (a_db a1) <> None).
    { destruct (assoc c (a_db a)) eqn:A.
      - destruct H1 as (_ & ->). split; [exact C | congruence].
      - destruct H1 as (_ & _ & E & C1). split; [exact C1 | congruence]. }
    destruct X as (C1 & A1). pose proof (spec_create c a1 t2 a2 C1 S2) as H2.
    destruct (assoc c (a_db a1)); [exact H2 | contradiction A1; reflexivity].
  - intros t1 a1 t2 a2 S1 Ok1 S2. pose proof (spec_create c a t1 a1 C S1) as H1.
    destruct (assoc c (a_db a)) eqn:A.
    + destruct H1 as (E & _). rewrite E in Ok1. contradiction (T_err_not_ok _ _ Ok1).
    + destruct H1 as (_ & _ & A1 & C1). destruct (spec_has_collection c a1 t2 a2 C1 S2) as (-> & _).
      rewrite A1. split; reflexivity.
  - intros t1 a1 t2 a2 t3 a3 S1 S2 S3. destruct (spec_drop c a t1 a1 C S1) as (A1 & C1 & _).
    destruct (spec_has_collection c a1 t2 a2 C1 S2) as (-> & ->). rewrite A1.
    split; [reflexivity|]. split; [reflexivity|].
    pose proof (spec_create c a1 t3 a3 C1 S3) as H3. rewrite A1 in H3.
    destruct H3 as (-> & _ & A3 & _). split; [reflexivity | exact A3].
  - intros t1 a1 S1. destruct (spec_drop c a t1 a1 C S1) as (_ & _ & H).
    destruct (assoc c (a_db a)) eqn:A; destruct H as (-> & _).
    + split; split; try congruence. intros E. contradiction (T_err_not_ok _ _ (eq_sym E)).
    + split; split; try congruence; intros E; try reflexivity. contradiction (T_err_not_ok _ _ E).
Qed.

(* ========================================================================================== *)
(* Q14 (C14): the index catalog                                                                *)
(* ========================================================================================== *)
Lemma spec_create_index : forall c f a t a', a_closed a = false -> a_step (OCreateIndex c f) a t a' ->
  a_closed a' = false /\
  match assoc c (a_db a) with
  | None => t = T_err ECollNotExist /\ a' = a
  | Some sc =>
      if has_field f (sc_idx sc) then t = T_err EIdxExist /\ a' = a
      else t = T_ok (TL []) /\ a_db a' = assoc_set c (mkSC (sc_docs sc) (sc_idx sc ++ [f])) (a_db a)
  end.
Proof.
  intros c f a t a' C S. destruct (a_step_open_inv' _ a t a' S C eq_refl) as (C' & S').
  split; [exact C'|]. cbn [open_spec] in S'. unfold s_create_index in S'.
  destruct (assoc c (a_db a)) as [sc|]; [destruct (has_field f (sc_idx sc))|]; cbn [fun_spec] in S';
    destruct S' as (-> & E); (split; [reflexivity|]); try exact (astate_same a a' C C' E). exact E.
Qed.

Lemma spec_drop_index : forall c f a t a', a_closed a = false -> a_step (ODropIndex c f) a t a' ->
  a_closed a' = false /\
  match assoc c (a_db a) with
  | None => t = T_err ECollNotExist /\ a' = a
  | Some sc =>
      match last_index_of f (sc_idx sc) 0 None with
      | None => t = T_err EIdxNotExist /\ a' = a
      | Some j => t = T_ok (TL []) /\ a_db a' = assoc_set c (mkSC (sc_docs sc) (drop_slot j (sc_idx sc))) (a_db a)
      end
  end.
Proof.
  intros c f a t a' C S. destruct (a_step_open_inv' _ a t a' S C eq_refl) as (C' & S').
  split; [exact C'|]. cbn [open_spec] in S'. unfold s_drop_index in S'.
  destruct (assoc c (a_db a)) as [sc|]; [destruct (last_index_of f (sc_idx sc) 0 None)|]; cbn [fun_spec] in S';
    destruct S' as (-> & E); (split; [reflexivity|]); try exact (astate_same a a' C C' E). exact E.
Qed.

Lemma spec_has_index : forall c f a t a', a_closed a = false -> a_step (OHasIndex c f) a t a' ->
  a' = a /\
  t = match assoc c (a_db a) with
      | None => T_err ECollNotExist
      | Some sc => T_ok (Tbool (has_field f (sc_idx sc)))
      end.
Proof.
  intros c f a t a' C S. destruct (a_step_open_inv' _ a t a' S C eq_refl) as (C' & S').
  cbn [open_spec] in S'. destruct S' as (-> & E). split; [exact (astate_same a a' C C' E) | reflexivity].
Qed.

Lemma spec_list_indexes : forall c a t a', a_closed a = false -> a_step (OListIndexes c) a t a' ->
  a' = a /\
  t = match assoc c (a_db a) with
      | None => T_err ECollNotExist
      | Some sc => T_ok (TL (map TB (msort bleb (sc_idx sc))))
      end.
Proof.
  intros c a t a' C S. destruct (a_step_open_inv' _ a t a' S C eq_refl) as (C' & S').
  cbn [open_spec] in S'. destruct S' as (-> & E). split; [exact (astate_same a a' C C' E) | reflexivity].
Qed.

Lemma has_field_app_same : forall f l, has_field f (l ++ [f]) = true.
Proof. intros f l. apply RProofs.has_field_In. apply in_or_app. right. left. reflexivity. Qed.

(* (1) CreateIndex / DropIndex change only the index list of their collection: every document list, and the
       list of collection names, stay as they are (open or closed handle, any answer) *)
Theorem spec_index_write_keeps_docs : forall o a t a', index_write o = true -> a_step o a t a' ->
  (forall c0, option_map sc_docs (assoc c0 (a_db a')) = option_map sc_docs (assoc c0 (a_db a))) /\
  map fst (a_db a') = map fst (a_db a) /\
  (forall c, target o = Some c -> forall c', c' <> c -> assoc c' (a_db a') = assoc c' (a_db a)).
Proof.
  intros o a t a' Iw S.
  assert (Ho : handle_op o = false) by (destruct o; try discriminate Iw; reflexivity).
  split; [|split].
  - destruct (a_closed a) eqn:C.
    + destruct (spec_closed o a t a' C Ho S) as (_ & ->). reflexivity.
    + destruct (a_step_open_inv o a t a' C Ho S) as (_ & S').
      destruct (open_spec_index_write o _ t _ Iw S') as (c & _ & Ch). exact (idx_changed_docs _ _ _ Ch).
  - apply (spec_names_kept o a t a'); [destruct o; try discriminate Iw; reflexivity | exact S].
  - intros c Tc. pose proof (spec_frame o a t a' S) as F. rewrite Tc in F. exact F.
Qed.

(* (2) no document write -- Insert, Save, DeleteById, UpdateById, ReplaceById, Update, UpdateFunc, Delete --
       changes any index list *)
Theorem spec_doc_write_keeps_indexes : forall o a t a', doc_write o = true -> a_step o a t a' ->
  forall c0, option_map sc_idx (assoc c0 (a_db a')) = option_map sc_idx (assoc c0 (a_db a)).
Proof.
  intros o a t a' Dw S.
  assert (Ho : handle_op o = false) by (destruct o; try discriminate Dw; reflexivity).
  destruct (a_closed a) eqn:C.
  - destruct (spec_closed o a t a' C Ho S) as (_ & ->). reflexivity.
  - destruct (a_step_open_inv o a t a' C Ho S) as (_ & S').
    destruct (open_spec_doc_write o _ t _ Dw S') as (c & _ & Ch). exact (docs_changed_idx _ _ _ Ch).
Qed.

(* (3) the answers *)
Theorem spec_indexes : forall c f a, a_closed a = false ->
  (* CreateIndex: ok appends f to the index list (documents untouched); on an indexed field EIdxExist *)
  (forall t1 a1 sc, a_step (OCreateIndex c f) a t1 a1 -> assoc c (a_db a) = Some sc ->
     (has_field f (sc_idx sc) = true -> t1 = T_err EIdxExist /\ a1 = a) /\
     (has_field f (sc_idx sc) = false ->
        t1 = T_ok (TL []) /\ assoc c (a_db a1) = Some (mkSC (sc_docs sc) (sc_idx sc ++ [f])))) /\
  (* CreateIndex twice on an existing collection: the second answers EIdxExist; HasIndex in between: true *)
  (forall t1 a1 t2 a2 t3 a3, assoc c (a_db a) <> None ->
     a_step (OCreateIndex c f) a t1 a1 -> a_step (OHasIndex c f) a1 t2 a2 -> a_step (OCreateIndex c f) a2 t3 a3 ->
     t2 = T_ok (Tbool true) /\ a2 = a1 /\ t3 = T_err EIdxExist /\ a3 = a1) /\
  (* DropIndex of a field that is not indexed: EIdxNotExist, nothing changes *)
  (forall t1 a1 sc, a_step (ODropIndex c f) a t1 a1 -> assoc c (a_db a) = Some sc ->
     has_field f (sc_idx sc) = false -> t1 = T_err EIdxNotExist /\ a1 = a) /\
  (* DropIndex of an indexed field: ok, f is gone, every other indexed field stays, documents untouched;
     HasIndex afterwards: false *)
  (forall t1 a1 t2 a2 sc, wf_db (a_db a) -> a_step (ODropIndex c f) a t1 a1 -> assoc c (a_db a) = Some sc ->
     has_field f (sc_idx sc) = true -> a_step (OHasIndex c f) a1 t2 a2 ->
     t1 = T_ok (TL []) /\ t2 = T_ok (Tbool false) /\
     exists sc', assoc c (a_db a1) = Some sc' /\ sc_docs sc' = sc_docs sc /\ NoDup (sc_idx sc') /\
       forall g, In g (sc_idx sc') <-> In g (sc_idx sc) /\ g <> f) /\
  (* on a missing collection all four answer ECollNotExist *)
  (forall t1 a1 t2 a2 t3 a3 t4 a4, assoc c (a_db a) = None ->
     a_step (OCreateIndex c f) a t1 a1 -> a_step (ODropIndex c f) a t2 a2 ->
     a_step (OHasIndex c f) a t3 a3 -> a_step (OListIndexes c) a t4 a4 ->
     t1 = T_err ECollNotExist /\ t2 = T_err ECollNotExist /\ t3 = T_err ECollNotExist /\
     t4 = T_err ECollNotExist /\ a1 = a /\ a2 = a /\ a3 = a /\ a4 = a).
Proof.
  intros c f a C. split; [|split; [|split; [|split]]].
  - intros t1 a1 sc S1 A. destruct (spec_create_index c f a t1 a1 C S1) as (_ & H). rewrite A in H.
    split; intros Hf; rewrite Hf in H; [exact H|]. destruct H as (-> & E). split; [reflexivity|].
    rewrite E. apply assoc_set_same.
  - intros t1 a1 t2 a2 t3 a3 A S1 S2 S3.
    destruct (spec_create_index c f a t1 a1 C S1) as (C1 & H).
    assert (X : exists sc1, assoc c (a_db a1) = Some sc1 /\ has_field f (sc_idx sc1) = true).
    { destruct (assoc c (a_db a)) as [sc|] eqn:Ac; [|contradiction A; reflexivity].
      destruct (has_field f (sc_idx sc)) eqn:Hf.
      - destruct H as (_ & ->). exists sc. split; assumption.
      - destruct H as (_ & E). rewrite E, assoc_set_same. eexists. split; [reflexivity|].
        cbn [sc_idx]. apply has_field_app_same. }
    destruct X as (sc1 & A1 & Hf1).
    destruct (spec_has_index c f a1 t2 a2 C1 S2) as (-> & ->). rewrite A1, Hf1.
    split; [reflexivity|]. split; [reflexivity|].
    destruct (spec_create_index c f a1 t3 a3 C1 S3) as (_ & H3). rewrite A1, Hf1 in H3. exact H3.
  - intros t1 a1 sc S1 A Hf. destruct (spec_drop_index c f a t1 a1 C S1) as (_ & H). rewrite A in H.
    apply has_field_false in Hf. apply last_index_of_none in Hf. rewrite Hf in H. exact H.
  - intros t1 a1 t2 a2 sc W S1 A Hf S2. destruct (spec_drop_index c f a t1 a1 C S1) as (C1 & H).
    rewrite A in H. pose proof (wf_idx_NoDup _ c sc W A) as ND.
    destruct (last_index_of f (sc_idx sc) 0 None) as [j|] eqn:L.
    + destruct H as (-> & E). split; [reflexivity|].
      assert (A1 : assoc c (a_db a1) = Some (mkSC (sc_docs sc) (drop_slot j (sc_idx sc)))).
      { rewrite E. apply assoc_set_same. }
      destruct (drop_slot_NoDup f _ j L ND) as (ND' & Hnf).
      destruct (spec_has_index c f a1 t2 a2 C1 S2) as (_ & ->). rewrite A1. cbn [sc_idx].
      apply has_field_false in Hnf. rewrite Hnf. split; [reflexivity|].
      eexists. split; [reflexivity|]. cbn [sc_docs sc_idx]. split; [reflexivity|]. split; [exact ND'|].
      intros g. exact (drop_slot_In_iff f _ j g L ND).
    + apply last_index_of_none in L. apply RProofs.has_field_In in Hf. contradiction.
  - intros t1 a1 t2 a2 t3 a3 t4 a4 A S1 S2 S3 S4.
    destruct (spec_create_index c f a t1 a1 C S1) as (_ & H1). rewrite A in H1.
    destruct (spec_drop_index c f a t2 a2 C S2) as (_ & H2). rewrite A in H2.
    destruct (spec_has_index c f a t3 a3 C S3) as (E3 & H3). rewrite A in H3.
    destruct (spec_list_indexes c a t4 a4 C S4) as (E4 & H4). rewrite A in H4.
    destruct H1 as (-> & ->), H2 as (-> & ->). subst. repeat split; reflexivity.
Qed.

(* ========================================================================================== *)
(* The query reads                                                                             *)
(* ========================================================================================== *)
(* the matching documents of a collection *)
Definition matching (nq : nquery) (sc : scoll) : list obj :=
  filter (sat_opt (nq_crit nq)) (map snd (sc_docs sc)).

Lemma read_spec_inv : forall q render db t nq sc,
  normalize_query q = Some nq -> assoc (nq_coll nq) db = Some sc ->
  read_spec (normalize_query q) render db t ->
  exists res, find_ok' (map snd (sc_docs sc)) nq res /\ t = T_ok (render nq res).
Proof. intros q render db t nq sc N A R. unfold read_spec in R. rewrite N, A in R. exact R. Qed.

Lemma find_ok'_length : forall sc nq res, find_ok' (map snd (sc_docs sc)) nq res ->
  length res = length (window (nq_skip nq) (nq_limit nq) (matching nq sc)).
Proof.
  intros sc nq res (l0 & P & _ & ->). apply window_length_eq. exact (Permutation_length P).
Qed.

Lemma find_ok'_members : forall sc nq res d, find_ok' (map snd (sc_docs sc)) nq res -> In d res ->
  In d (map snd (sc_docs sc)) /\ sat_opt (nq_crit nq) d = true.
Proof.
  intros sc nq res d (l0 & P & _ & ->) Hin. apply window_incl in Hin.
  apply (Permutation_in d P) in Hin. apply filter_In in Hin. exact Hin.
Qed.

Lemma find_ok'_each_once : forall db sc nq res, wf_db db -> assoc (nq_coll nq) db = Some sc ->
  find_ok' (map snd (sc_docs sc)) nq res -> NoDup (map object_id res) /\ NoDup res.
Proof.
  intros db sc nq res W A (l0 & P & _ & ->).
  assert (ND : NoDup (map object_id (window (nq_skip nq) (nq_limit nq) l0))).
  { apply window_NoDup_map.
    apply (Permutation_NoDup (Permutation_sym (Permutation_map object_id P))).
    apply NoDup_map_filter. exact (wf_ids_NoDup db _ sc W A). }
  split; [exact ND | exact (NoDup_map_inv _ _ ND)].
Qed.

(* ---- Q01 (C01): FindAll of an unsorted, unwindowed query answers exactly the matching documents ---- *)
Theorem spec_find_all_exact : forall a q mode t a' nq sc,
  a_closed a = false -> a_step (OFindAll q mode) a t a' ->
  normalize_query (mk_query q) = Some nq -> nq_sort nq = [] -> nq_skip nq = 0 -> nq_limit nq < 0 ->
  assoc (nq_coll nq) (a_db a) = Some sc ->
  a' = a /\
  exists res, t = T_ok (T_of_docs [] mode res) /\
    Permutation res (filter (sat_opt (nq_crit nq)) (map snd (sc_docs sc))).
Proof.
  intros a q mode t a' nq sc C S N Hs Hk Hl A.
  destruct (a_step_open_inv' _ a t a' S C eq_refl) as (C' & S'). cbn [open_spec] in S'.
  destruct S' as (R & E). split; [exact (astate_same a a' C C' E)|].
  destruct (read_spec_inv _ _ _ _ nq sc N A R) as (res & (l0 & P & _ & W) & ->).
  rewrite Hk, (window_all _ _ Hl) in W. subst l0. exists res. rewrite Hs. split; [reflexivity | exact P].
Qed.

(* with a well-formed database: each matching document once and nothing else; and unless the caller asked
   for the raw order (mode 2) the rendered answer itself is determined *)
Corollary spec_find_all_exact_members : forall a q mode t a' nq sc,
  a_closed a = false -> wf_db (a_db a) -> a_step (OFindAll q mode) a t a' ->
  normalize_query (mk_query q) = Some nq -> nq_sort nq = [] -> nq_skip nq = 0 -> nq_limit nq < 0 ->
  assoc (nq_coll nq) (a_db a) = Some sc ->
  a' = a /\
  (exists res, t = T_ok (T_of_docs [] mode res) /\ NoDup res /\ NoDup (map object_id res) /\
     length res = length (matching nq sc) /\
     forall d, In d res <-> In d (map snd (sc_docs sc)) /\ sat_opt (nq_crit nq) d = true) /\
  (mode <> 2 -> t = T_ok (T_of_docs [] mode (matching nq sc))).
Proof.
  intros a q mode t a' nq sc C W S N Hs Hk Hl A.
  destruct (spec_find_all_exact a q mode t a' nq sc C S N Hs Hk Hl A) as (E & res & -> & P).
  split; [exact E|].
  assert (ND : NoDup (map object_id res)).
  { apply (Permutation_NoDup (Permutation_sym (Permutation_map object_id P))).
    apply NoDup_map_filter. exact (wf_ids_NoDup _ _ sc W A). }
  split.
  - exists res. split; [reflexivity|]. split; [exact (NoDup_map_inv _ _ ND)|]. split; [exact ND|].
    split; [exact (Permutation_length P)|].
    intros d. rewrite <- filter_In. split; intros H.
    + exact (Permutation_in d P H).
    + exact (Permutation_in d (Permutation_sym P) H).
  - intros Hm. unfold T_of_docs. destruct (mode =? 2) eqn:M; [lia|].
    unfold matching. rewrite (msort_id_leb_perm _ _ P ND). reflexivity.
Qed.

(* ---- Q08 (C08): FindAll of a sorted query, with any window ---- *)
Theorem spec_find_all_sorted_window : forall a q mode t a' nq sc,
  a_closed a = false -> a_step (OFindAll q mode) a t a' ->
  normalize_query (mk_query q) = Some nq -> nq_sort nq <> [] ->
  assoc (nq_coll nq) (a_db a) = Some sc ->
  a' = a /\
  exists res l0, t = T_ok (T_of_docs (nq_sort nq) mode res) /\
    res = window (nq_skip nq) (nq_limit nq) l0 /\
    Permutation l0 (filter (sat_opt (nq_crit nq)) (map snd (sc_docs sc))) /\
    StronglySorted (docs_le_nil (nq_sort nq)) l0.
Proof.
  intros a q mode t a' nq sc C S N Hs A.
  destruct (a_step_open_inv' _ a t a' S C eq_refl) as (C' & S'). cbn [open_spec] in S'.
  destruct S' as (R & E). split; [exact (astate_same a a' C C' E)|].
  destruct (read_spec_inv _ _ _ _ nq sc N A R) as (res & (l0 & P & Hsort & W) & ->).
  exists res, l0. split; [reflexivity|]. split; [exact W|]. split; [exact P | exact (Hsort Hs)].
Qed.

(* two acceptable results of one sorted query differ only inside groups of documents that tie on all sort
   keys: same length and, position by position, each is <= the other.  The comparison of values is
   transitive inside one numeric regime only, hence the premise (coll_dom m sc implies it for every sort). *)
Lemma find_ok'_sorted_tie : forall m sc nq r1 r2, nq_sort nq <> [] ->
  (forall d, In d (map snd (sc_docs sc)) -> sat_opt (nq_crit nq) d = true -> doc_regime m (nq_sort nq) d) ->
  find_ok' (map snd (sc_docs sc)) nq r1 -> find_ok' (map snd (sc_docs sc)) nq r2 ->
  tie_equal' (nq_sort nq) r1 r2.
Proof.
  intros m sc nq r1 r2 Hs Hreg (l1 & P1 & S1 & ->) (l2 & P2 & S2 & ->).
  unfold tie_equal'. apply window_Forall2.
  apply (sorted_perm_tie_equal m); [|exact (S1 Hs)|exact (S2 Hs)|].
  - apply Forall_forall. intros d Hd. apply regb_doc_regime.
    apply (Permutation_in d P1) in Hd. apply filter_In in Hd. destruct Hd as (Hd & Hsat).
    exact (Hreg d Hd Hsat).
  - exact (Permutation_trans P1 (Permutation_sym P2)).
Qed.

Lemma Forall2_same_length : forall (A B : Type) (Q : A -> B -> Prop) l1 l2, Forall2 Q l1 l2 -> length l1 = length l2.
Proof. intros A B Q l1 l2 H. induction H; [reflexivity|]. cbn [length]. rewrite IHForall2. reflexivity. Qed.

Theorem spec_find_all_sorted_answers_tie : forall m a q mode1 mode2 t1 a1 t2 a2 nq sc,
  a_closed a = false -> a_step (OFindAll q mode1) a t1 a1 -> a_step (OFindAll q mode2) a t2 a2 ->
  normalize_query (mk_query q) = Some nq -> nq_sort nq <> [] ->
  assoc (nq_coll nq) (a_db a) = Some sc ->
  (forall d, In d (map snd (sc_docs sc)) -> sat_opt (nq_crit nq) d = true -> doc_regime m (nq_sort nq) d) ->
  exists res1 res2,
    t1 = T_ok (T_of_docs (nq_sort nq) mode1 res1) /\ t2 = T_ok (T_of_docs (nq_sort nq) mode2 res2) /\
    length res1 = length res2 /\
    Forall2 (fun x y => docs_le_nil (nq_sort nq) x y /\ docs_le_nil (nq_sort nq) y x) res1 res2.
Proof.
  intros m a q mode1 mode2 t1 a1 t2 a2 nq sc C S1 S2 N Hs A Hreg.
  destruct (a_step_open_inv' _ a t1 a1 S1 C eq_refl) as (_ & S1'). cbn [open_spec] in S1'.
  destruct (a_step_open_inv' _ a t2 a2 S2 C eq_refl) as (_ & S2'). cbn [open_spec] in S2'.
  destruct (read_spec_inv _ _ _ _ nq sc N A (proj1 S1')) as (res1 & F1 & ->).
  destruct (read_spec_inv _ _ _ _ nq sc N A (proj1 S2')) as (res2 & F2 & ->).
  exists res1, res2. split; [reflexivity|]. split; [reflexivity|].
  pose proof (find_ok'_sorted_tie m sc nq res1 res2 Hs Hreg F1 F2) as Tie.
  split; [exact (Forall2_same_length _ _ _ _ _ Tie) | exact Tie].
Qed.

Lemma coll_dom_doc_regime : forall m sc sort d, coll_dom m sc -> In d (map snd (sc_docs sc)) ->
  doc_regime m sort d.
Proof. intros m sc sort d CD Hin f dir _. exact (in_docs_regime m sc d f CD Hin). Qed.

(* ---- Q09 (C09): Count, Exists, FindFirst, ForEach against FindAll, on one open state ---- *)
Section ReadsAgree.
  Variables (a : astate) (q : qspec) (nq : nquery) (sc : scoll).
  Hypothesis (C : a_closed a = false).
  Hypothesis (N : normalize_query (mk_query q) = Some nq).
  Hypothesis (A : assoc (nq_coll nq) (a_db a) = Some sc).

  Local Notation docs := (map snd (sc_docs sc)).

  (* Count is DETERMINED, and it is the length of EVERY acceptable FindAll result *)
  Lemma spec_count_agrees : forall t a', a_step (OCount q) a t a' ->
    a' = a /\
    t = T_ok (TZ (Z.of_nat (length (window (nq_skip nq) (nq_limit nq) (matching nq sc))))) /\
    forall res, find_ok' docs nq res -> t = T_ok (TZ (Z.of_nat (length res))).
  Proof.
    intros t a' S. destruct (a_step_open_inv' _ a t a' S C eq_refl) as (C' & S'). cbn [open_spec] in S'.
    destruct S' as (R & E). split; [exact (astate_same a a' C C' E)|].
    destruct (read_spec_inv _ _ _ _ nq sc N A R) as (res & F & ->).
    rewrite (find_ok'_length sc nq res F). split; [reflexivity|].
    intros res' F'. rewrite (find_ok'_length sc nq res' F'). reflexivity.
  Qed.

  Lemma limit1_step : forall render t,
    read_spec (normalize_query (limit1 q)) render (a_db a) t ->
    exists l0, Permutation l0 (matching nq sc) /\
      (nq_sort nq <> [] -> StronglySorted (docs_le_nil (nq_sort nq)) l0) /\
      t = T_ok (render (with_limit nq 1) (window (nq_skip nq) 1 l0)).
  Proof.
    intros render t R. apply (read_spec_limit1 q render (a_db a) t nq sc N A) in R.
    destruct R as (res1 & (l0 & P & Hs & ->) & ->). exists l0. split; [exact P|]. split; [exact Hs | reflexivity].
  Qed.

  (* Exists is DETERMINED: true iff something is left of the matching documents after the skip; and unless
     the limit is 0 it says whether ANY acceptable FindAll result is non-empty *)
  Lemma spec_exists_agrees : forall t a', a_step (OExists q) a t a' ->
    a' = a /\
    t = T_ok (Tbool (Z.to_nat (nq_skip nq) <? length (matching nq sc))%nat) /\
    t = T_ok (Tbool (nonempty (skipn (Z.to_nat (nq_skip nq)) (matching nq sc)))) /\
    (nq_limit nq <> 0 -> forall res, find_ok' docs nq res -> t = T_ok (Tbool (nonempty res))).
  Proof.
    intros t a' S. destruct (a_step_open_inv' _ a t a' S C eq_refl) as (C' & S'). cbn [open_spec] in S'.
    destruct S' as (R & E). split; [exact (astate_same a a' C C' E)|].
    destruct (limit1_step _ _ R) as (l0 & P & _ & ->).
    change (match window (nq_skip nq) 1 l0 with [] => false | _ :: _ => true end)
      with (nonempty (window (nq_skip nq) 1 l0)).
    rewrite (proj2 (exists_is_nonempty (nq_skip nq) l0)), (Permutation_length P).
    split; [reflexivity|]. split.
    - rewrite <- (proj2 (exists_is_nonempty (nq_skip nq) (matching nq sc))).
      rewrite (proj1 (exists_is_nonempty (nq_skip nq) (matching nq sc))). reflexivity.
    - intros Hl res (l1 & P1 & _ & ->).
      rewrite <- (exists_agrees (nq_skip nq) (nq_limit nq) l1 Hl).
      rewrite (proj2 (exists_is_nonempty (nq_skip nq) l1)), (Permutation_length P1). reflexivity.
  Qed.

  (* FindFirst answers the head of an acceptable result of the Limit(1) query; unless the limit is 0 that
     head is the head of SOME acceptable FindAll result of the query itself; and it answers a document
     exactly when Exists answers true *)
  Lemma spec_find_first_agrees : forall t a', a_step (OFindFirst q) a t a' ->
    a' = a /\
    exists res1, find_ok' docs (with_limit nq 1) res1 /\ t = T_ok (T_of_opt_doc (hd_error res1)) /\
      (nq_limit nq <> 0 -> exists res, find_ok' docs nq res /\ hd_error res = hd_error res1) /\
      (forall d, hd_error res1 = Some d -> In d docs /\ sat_opt (nq_crit nq) d = true) /\
      (match hd_error res1 with Some _ => true | None => false end =
       (Z.to_nat (nq_skip nq) <? length (matching nq sc))%nat).
  Proof.
    intros t a' S. destruct (a_step_open_inv' _ a t a' S C eq_refl) as (C' & S'). cbn [open_spec] in S'.
    destruct S' as (R & E). split; [exact (astate_same a a' C C' E)|].
    destruct (limit1_step _ _ R) as (l0 & P & Hs & ->).
    assert (F1 : find_ok' docs (with_limit nq 1) (window (nq_skip nq) 1 l0)).
    { exists l0. split; [exact P|]. split; [exact Hs | reflexivity]. }
    exists (window (nq_skip nq) 1 l0). split; [exact F1|]. split; [reflexivity|]. split; [|split].
    - intros Hl. exists (window (nq_skip nq) (nq_limit nq) l0). split.
      + exists l0. split; [exact P|]. split; [exact Hs | reflexivity].
      + symmetry. apply findfirst_agrees. exact Hl.
    - intros d Hd. apply (find_ok'_members sc (with_limit nq 1) _ d F1).
      destruct (window (nq_skip nq) 1 l0) as [|x r]; [discriminate Hd|]. injection Hd as ->. left. reflexivity.
    - rewrite <- nonempty_hd, (proj2 (exists_is_nonempty (nq_skip nq) l0)), (Permutation_length P). reflexivity.
  Qed.

  (* ForEach visits a prefix of an acceptable FindAll result (all of it when stop_after <= 0) *)
  Lemma spec_for_each_agrees : forall n mode t a', a_step (OForEach q n mode) a t a' ->
    a' = a /\
    exists res, find_ok' docs nq res /\
      t = T_ok (T_of_docs (nq_sort nq) mode (if 0 <? n then firstn (Z.to_nat n) res else res)).
  Proof.
    intros n mode t a' S. destruct (a_step_open_inv' _ a t a' S C eq_refl) as (C' & S'). cbn [open_spec] in S'.
    destruct S' as (R & E). split; [exact (astate_same a a' C C' E)|].
    exact (read_spec_inv _ _ _ _ nq sc N A R).
  Qed.

  Lemma spec_find_all_agrees : forall mode t a', a_step (OFindAll q mode) a t a' ->
    a' = a /\ exists res, find_ok' docs nq res /\ t = T_ok (T_of_docs (nq_sort nq) mode res).
  Proof.
    intros mode t a' S. destruct (a_step_open_inv' _ a t a' S C eq_refl) as (C' & S'). cbn [open_spec] in S'.
    destruct S' as (R & E). split; [exact (astate_same a a' C C' E)|].
    exact (read_spec_inv _ _ _ _ nq sc N A R).
  Qed.

  (* all five reads on one state *)
  Theorem spec_reads_agree : forall mode tA aA tC aC tE aE tF aF n modeE tV aV,
    a_step (OFindAll q mode) a tA aA -> a_step (OCount q) a tC aC -> a_step (OExists q) a tE aE ->
    a_step (OFindFirst q) a tF aF -> a_step (OForEach q n modeE) a tV aV ->
    aA = a /\ aC = a /\ aE = a /\ aF = a /\ aV = a /\
    exists resA, find_ok' docs nq resA /\ tA = T_ok (T_of_docs (nq_sort nq) mode resA) /\
      (* Count: the length of the FindAll answer at hand *)
      tC = T_ok (TZ (Z.of_nat (length resA))) /\
      (* Exists: is the FindAll answer at hand non-empty *)
      (nq_limit nq <> 0 -> tE = T_ok (Tbool (nonempty resA))) /\
      (* FindFirst: the head of some acceptable result; a document iff Exists says true *)
      (exists res1, find_ok' docs (with_limit nq 1) res1 /\ tF = T_ok (T_of_opt_doc (hd_error res1)) /\
         (nq_limit nq <> 0 -> exists res, find_ok' docs nq res /\ hd_error res = hd_error res1) /\
         tE = T_ok (Tbool (match hd_error res1 with Some _ => true | None => false end))) /\
      (* ForEach: a prefix of some acceptable result, of the same length as the FindAll answer at hand *)
      (exists resV, find_ok' docs nq resV /\ length resV = length resA /\
         tV = T_ok (T_of_docs (nq_sort nq) modeE (if 0 <? n then firstn (Z.to_nat n) resV else resV))).
  Proof.
    intros mode tA aA tC aC tE aE tF aF n modeE tV aV SA SC SE SF SV.
    destruct (spec_find_all_agrees mode tA aA SA) as (EA & resA & FA & HA).
    destruct (spec_count_agrees tC aC SC) as (EC & _ & HC).
    destruct (spec_exists_agrees tE aE SE) as (EE & HE1 & _ & HE).
    destruct (spec_find_first_agrees tF aF SF) as (EF & res1 & F1 & HF1 & HF2 & _ & HF3).
    destruct (spec_for_each_agrees n modeE tV aV SV) as (EV & resV & FV & HV).
    repeat (split; [assumption|]).
    exists resA. split; [exact FA|]. split; [exact HA|]. split; [exact (HC resA FA)|].
    split; [intros Hl; exact (HE Hl resA FA)|]. split.
    - exists res1. split; [exact F1|]. split; [exact HF1|]. split; [exact HF2|]. rewrite HF3. exact HE1.
    - exists resV. split; [exact FV|]. split; [|exact HV].
      rewrite (find_ok'_length sc nq resV FV), (find_ok'_length sc nq resA FA). reflexivity.
  Qed.
End ReadsAgree.

(* the reads on a query that does not normalise, or on a missing collection: all five answer the same error *)
Theorem spec_reads_errors : forall a q mode n modeE tA aA tC aC tE aE tF aF tV aV,
  a_closed a = false ->
  a_step (OFindAll q mode) a tA aA -> a_step (OCount q) a tC aC -> a_step (OExists q) a tE aE ->
  a_step (OFindFirst q) a tF aF -> a_step (OForEach q n modeE) a tV aV ->
  match normalize_query (mk_query q) with
  | None => tA = T_err EOther /\ tC = T_err EOther /\ tE = T_err EOther /\ tF = T_err EOther /\ tV = T_err EOther
  | Some nq =>
      assoc (nq_coll nq) (a_db a) = None ->
      tA = T_err ECollNotExist /\ tC = T_err ECollNotExist /\ tE = T_err ECollNotExist /\
      tF = T_err ECollNotExist /\ tV = T_err ECollNotExist
  end.
Proof.
  intros a q mode n modeE tA aA tC aC tE aE tF aF tV aV C SA SC SE SF SV.
  destruct (a_step_open_inv' _ a tA aA SA C eq_refl) as (_ & (RA & _)).
  destruct (a_step_open_inv' _ a tC aC SC C eq_refl) as (_ & (RC & _)).
  destruct (a_step_open_inv' _ a tE aE SE C eq_refl) as (_ & (RE & _)).
  destruct (a_step_open_inv' _ a tF aF SF C eq_refl) as (_ & (RF & _)).
  destruct (a_step_open_inv' _ a tV aV SV C eq_refl) as (_ & (RV & _)).
  rewrite normalize_limit1 in RE, RF. unfold read_spec in *.
  destruct (normalize_query (mk_query q)) as [nq|]; cbn [option_map] in RE, RF.
  - intros A0. change (nq_coll (with_limit nq 1)) with (nq_coll nq) in RE, RF.
    rewrite A0 in *. repeat split; assumption.
  - repeat split; assumption.
Qed.

(* ========================================================================================== *)
(* Q03 (C03): the bulk writes with an unwindowed query                                         *)
(* ========================================================================================== *)
(* what the rewrite does to ONE stored entry, and to the document list: selected entries are replaced by the
   updater's result IN PLACE (removed when the updater returns nil), the others stay *)
Definition rw1 (P : obj -> bool) (u : updater) (e : bytes * obj) : list (bytes * obj) :=
  if P (snd e) then match apply_updater u (snd e) with Some d' => [(fst e, d')] | None => [] end else [e].

Definition bulk_rewrite (P : obj -> bool) (u : updater) (docs : list (bytes * obj)) : list (bytes * obj) :=
  flat_map (rw1 P u) docs.

Lemma bulk_rewrite_cons : forall P u e r, bulk_rewrite P u (e :: r) = rw1 P u e ++ bulk_rewrite P u r.
Proof. reflexivity. Qed.

Lemma rw1_keys : forall P u e k, In k (map fst (rw1 P u e)) -> k = fst e.
Proof.
  intros P u e k H. unfold rw1 in H. destruct (P (snd e)).
  - destruct (apply_updater u (snd e)); [|destruct H]. destruct H as [<-|[]]. reflexivity.
  - destruct H as [<-|[]]. reflexivity.
Qed.

Lemma bulk_rewrite_keys_sub : forall P u docs k,
  In k (map fst (bulk_rewrite P u docs)) -> In k (map fst docs).
Proof.
  intros P u docs k. induction docs as [|e r IH]; [intros []|].
  rewrite bulk_rewrite_cons, map_app. intros H. apply in_app_or in H. destruct H as [H|H].
  - left. symmetry. exact (rw1_keys _ _ _ _ H).
  - right. exact (IH H).
Qed.

Lemma assoc_app_skip : forall (A : Type) k (l1 l2 : list (bytes * A)),
  ~ In k (map fst l1) -> assoc k (l1 ++ l2) = assoc k l2.
Proof.
  intros A k l1 l2. induction l1 as [|[k1 a1] t IH]; intros Hn; [reflexivity|].
  cbn [app assoc]. destruct (beqb k k1) eqn:E.
  - apply beqb_true_iff in E. subst k1. contradiction Hn. left. reflexivity.
  - apply IH. intros Hin. apply Hn. right. exact Hin.
Qed.

Lemma assoc_app_first : forall (A : Type) k (a : A) (l1 l2 : list (bytes * A)),
  assoc k l1 = Some a -> assoc k (l1 ++ l2) = Some a.
Proof.
  intros A k a l1 l2. induction l1 as [|[k1 a1] t IH]; intros H; [discriminate H|].
  cbn [app assoc] in *. destruct (beqb k k1); [exact H | exact (IH H)].
Qed.

Lemma bulk_rewrite_assoc : forall P u docs id d, NoDup (map fst docs) -> In (id, d) docs ->
  assoc id (bulk_rewrite P u docs) = if P d then apply_updater u d else Some d.
Proof.
  intros P u docs id d. induction docs as [|[k v] r IH]; intros ND Hin; [destruct Hin|].
  cbn [map fst] in ND. inversion ND as [|? ? Hk ND']; subst. rewrite bulk_rewrite_cons.
  destruct Hin as [E|Hin].
  - injection E as -> ->. unfold rw1. cbn [fst snd]. destruct (P d).
    + destruct (apply_updater u d) as [d'|].
      * cbn [app assoc]. rewrite beqb_refl. reflexivity.
      * cbn [app]. apply assoc_none_notin. intros H. apply Hk. exact (bulk_rewrite_keys_sub _ _ _ _ H).
    + cbn [app assoc]. rewrite beqb_refl. reflexivity.
  - rewrite assoc_app_skip; [exact (IH ND' Hin)|].
    intros H. apply rw1_keys in H. cbn [fst] in H. subst k. apply Hk.
    apply in_map_iff. exists (id, d). split; [reflexivity | exact Hin].
Qed.

Lemma bulk_rewrite_assoc_none : forall P u docs id, assoc id docs = None ->
  assoc id (bulk_rewrite P u docs) = None.
Proof.
  intros P u docs id H. apply assoc_none_notin. apply assoc_none_notin in H.
  intros Hin. apply H. exact (bulk_rewrite_keys_sub _ _ _ _ Hin).
Qed.

Lemma bulk_rewrite_keys_same : forall P u docs,
  (forall e, In e docs -> P (snd e) = true -> apply_updater u (snd e) <> None) ->
  map fst (bulk_rewrite P u docs) = map fst docs.
Proof.
  intros P u docs. induction docs as [|e r IH]; intros H; [reflexivity|].
  rewrite bulk_rewrite_cons, map_app, IH by (intros e' He'; apply H; right; exact He').
  unfold rw1. destruct (P (snd e)) eqn:Pe; [|reflexivity].
  destruct (apply_updater u (snd e)) eqn:U; [reflexivity|].
  contradiction (H e (or_introl eq_refl) Pe U).
Qed.

Lemma bulk_rewrite_nil : forall P docs,
  bulk_rewrite P UFunNil docs = filter (fun e => negb (P (snd e))) docs.
Proof.
  intros P docs. induction docs as [|e r IH]; [reflexivity|].
  rewrite bulk_rewrite_cons, IH. unfold rw1. cbn [filter apply_updater].
  destruct (P (snd e)); reflexivity.
Qed.

Lemma apply_updater_some : forall u d, u <> UFunNil -> apply_updater u d <> None.
Proof. intros u d H. destruct u; cbn [apply_updater]; try discriminate. contradiction H. reflexivity. Qed.

(* [assoc_set] / [assoc_del] at a key whose entry is known *)
Lemma assoc_set_mid : forall (A : Type) k (v v0 : A) pre rest, ~ In k (map fst pre) ->
  assoc_set k v (pre ++ (k, v0) :: rest) = pre ++ (k, v) :: rest.
Proof.
  intros A k v v0 pre rest. induction pre as [|[k1 a1] t IH]; intros Hn.
  - cbn [app assoc_set]. rewrite beqb_refl. reflexivity.
  - cbn [app assoc_set]. destruct (beqb k k1) eqn:E.
    + apply beqb_true_iff in E. subst k1. contradiction Hn. left. reflexivity.
    + rewrite IH; [reflexivity|]. intros Hin. apply Hn. right. exact Hin.
Qed.

Lemma assoc_del_mid : forall (A : Type) k (v0 : A) pre rest, ~ In k (map fst pre) -> ~ In k (map fst rest) ->
  assoc_del k (pre ++ (k, v0) :: rest) = pre ++ rest.
Proof.
  intros A k v0 pre rest. induction pre as [|[k1 a1] t IH]; intros Hn Hr.
  - cbn [app assoc_del]. rewrite beqb_refl. apply assoc_del_absent. apply assoc_none_notin. exact Hr.
  - cbn [app assoc_del]. destruct (beqb k k1) eqn:E.
    + apply beqb_true_iff in E. subst k1. contradiction Hn. left. reflexivity.
    + rewrite IH; [reflexivity| |exact Hr]. intros Hin. apply Hn. right. exact Hin.
Qed.

(* the fold of [s_apply_sel] over the matching documents, in closed form *)
Lemma fold_apply1_rewrite : forall P u rest pre,
  NoDup (map fst (pre ++ rest)) -> (forall id d, In (id, d) rest -> object_id d = id) ->
  fold_left (apply1 u) (filter P (map snd rest)) (pre ++ rest) = pre ++ bulk_rewrite P u rest.
Proof.
  intros P u rest. induction rest as [|[id d] r IH]; intros pre ND Hid.
  - reflexivity.
  - assert (Oid : object_id d = id) by (apply Hid; left; reflexivity).
    assert (Hid' : forall id0 d0, In (id0, d0) r -> object_id d0 = id0).
    { intros id0 d0 Hin. apply Hid. right. exact Hin. }
    rewrite map_app in ND. cbn [map fst] in ND.
    destruct (NoDup_remove _ _ _ ND) as (ND1 & Hni).
    assert (Hpre : ~ In id (map fst pre)) by (intros H; apply Hni; apply in_or_app; left; exact H).
    assert (Hr : ~ In id (map fst r)) by (intros H; apply Hni; apply in_or_app; right; exact H).
    assert (ND2 : forall x : obj, NoDup (map fst ((pre ++ [(id, x)]) ++ r))).
    { intros x. rewrite <- app_assoc, map_app. cbn [app map fst]. exact ND. }
    rewrite bulk_rewrite_cons. unfold rw1. cbn [map snd fst filter]. destruct (P d) eqn:Pd.
    + cbn [fold_left]. unfold apply1 at 2. rewrite Oid. destruct (apply_updater u d) as [d'|].
      * rewrite (assoc_set_mid _ id d' d pre r Hpre).
        change (pre ++ (id, d') :: r) with (pre ++ [(id, d')] ++ r). rewrite app_assoc.
        rewrite (IH (pre ++ [(id, d')]) (ND2 d') Hid'). rewrite <- app_assoc. reflexivity.
      * rewrite (assoc_del_mid _ id d pre r Hpre Hr). cbn [app].
        apply IH; [rewrite map_app; exact ND1 | exact Hid'].
    + change (pre ++ (id, d) :: r) with (pre ++ [(id, d)] ++ r). rewrite app_assoc.
      rewrite (IH (pre ++ [(id, d)]) (ND2 d) Hid'). rewrite <- app_assoc. reflexivity.
Qed.

(* THE EXACT OUTCOME of a bulk write with an unwindowed query: a function of the state *)
Lemma bulk_q_spec_exact : forall db q u t db' nq sc, wf_db db ->
  bulk_q_spec q u db t db' ->
  normalize_query (mk_query q) = Some nq -> nq_skip nq = 0 -> nq_limit nq < 0 ->
  assoc (nq_coll nq) db = Some sc ->
  if existsb (upd_bad u) (matching nq sc) then t = T_err EOther /\ db' = db
  else t = T_ok (TL []) /\
       db' = assoc_set (nq_coll nq) (mkSC (bulk_rewrite (sat_opt (nq_crit nq)) u (sc_docs sc)) (sc_idx sc)) db.
Proof.
  intros db q u t db' nq sc W B N Hk Hl A. unfold bulk_q_spec in B. rewrite N in B.
  unfold bulk_spec in B. rewrite A in B. destruct B as (sel & (l0 & P & _ & Ew) & Hst & ND & B).
  rewrite Hk, (window_all _ _ Hl) in Ew. subst l0.
  rewrite (s_apply_sel_perm u sel (matching nq sc) (sc_docs sc) P ND) in B.
  2:{ intros d Hd. rewrite (Hst d Hd). discriminate. }
  rewrite s_apply_sel_closed in B. destruct (existsb (upd_bad u) (matching nq sc)); [exact B|].
  destruct (wf_coll db _ sc W A) as (_ & NDk & Hdocs & _).
  unfold matching in B.
  assert (F : fold_left (apply1 u) (filter (sat_opt (nq_crit nq)) (map snd (sc_docs sc))) (sc_docs sc) =
             bulk_rewrite (sat_opt (nq_crit nq)) u (sc_docs sc)).
  { apply (fold_apply1_rewrite (sat_opt (nq_crit nq)) u (sc_docs sc) [] NDk).
    intros id d Hin. exact (proj1 (proj2 (Hdocs id d Hin))). }
  rewrite F in B. exact B.
Qed.

(* the user-level reading of that outcome *)
Definition bulk_outcome (nq : nquery) (u : updater) (sc : scoll) (a : astate) (t : T) (a' : astate) : Prop :=
  (* EITHER an error, nothing changed: some matching document's update is unacceptable (it changes the _id
     or fails validation) *)
  (t = T_err EOther /\ a' = a /\ exists d, In d (matching nq sc) /\ upd_bad u d = true) \/
  (* OR ok *)
  (t = T_ok (TL []) /\ (forall d, In d (matching nq sc) -> upd_bad u d = false) /\
   exists sc', assoc (nq_coll nq) (a_db a') = Some sc' /\
     (* same index list *)
     sc_idx sc' = sc_idx sc /\
     (* the document list, exactly: every matching entry rewritten in place or removed *)
     sc_docs sc' = bulk_rewrite (sat_opt (nq_crit nq)) u (sc_docs sc) /\
     (* document by document *)
     (forall id d, In (id, d) (sc_docs sc) ->
        assoc id (sc_docs sc') = if sat_opt (nq_crit nq) d then apply_updater u d else Some d) /\
     (forall id, assoc id (sc_docs sc) = None -> assoc id (sc_docs sc') = None) /\
     (* the same ids in the same order, unless the updater deletes *)
     (u <> UFunNil -> map fst (sc_docs sc') = map fst (sc_docs sc)) /\
     (* every other collection is unchanged, no collection appears or disappears *)
     (forall c', c' <> nq_coll nq -> assoc c' (a_db a') = assoc c' (a_db a)) /\
     map fst (a_db a') = map fst (a_db a)).

Lemma bulk_outcome_of_exact : forall a q u t a' nq sc,
  a_closed a = false -> wf_db (a_db a) -> a_closed a' = false ->
  bulk_q_spec q u (a_db a) t (a_db a') ->
  normalize_query (mk_query q) = Some nq -> nq_skip nq = 0 -> nq_limit nq < 0 ->
  assoc (nq_coll nq) (a_db a) = Some sc ->
  bulk_outcome nq u sc a t a'.
Proof.
  intros a q u t a' nq sc C W C' B N Hk Hl A.
  pose proof (bulk_q_spec_exact _ q u t _ nq sc W B N Hk Hl A) as H.
  destruct (existsb (upd_bad u) (matching nq sc)) eqn:Ex.
  - left. destruct H as (-> & E). split; [reflexivity|]. split; [exact (astate_same a a' C C' E)|].
    apply existsb_exists in Ex. exact Ex.
  - right. destruct H as (-> & E). split; [reflexivity|]. split.
    { intros d Hd. destruct (upd_bad u d) eqn:Bd; [|reflexivity].
      assert (X : existsb (upd_bad u) (matching nq sc) = true) by (apply existsb_exists; exists d; split; assumption).
      congruence. }
    destruct (wf_coll _ _ sc W A) as (_ & NDk & _).
    eexists. split; [rewrite E; apply assoc_set_same|]. cbn [sc_idx sc_docs].
    split; [reflexivity|]. split; [reflexivity|]. split.
    { intros id d Hin. exact (bulk_rewrite_assoc _ u _ id d NDk Hin). }
    split. { intros id Hn. exact (bulk_rewrite_assoc_none _ u _ id Hn). }
    split. { intros Hu. apply bulk_rewrite_keys_same. intros e _ _. exact (apply_updater_some u _ Hu). }
    split. { intros c' Hn. rewrite E. apply assoc_set_frame. exact Hn. }
    rewrite E. exact (assoc_set_keys_present _ _ _ sc _ A).
Qed.

Theorem spec_bulk_update_exact : forall a q u t a' nq sc,
  a_closed a = false -> wf_db (a_db a) -> a_step (OUpdateFunc q u) a t a' ->
  normalize_query (mk_query q) = Some nq -> nq_skip nq = 0 -> nq_limit nq < 0 ->
  assoc (nq_coll nq) (a_db a) = Some sc ->
  bulk_outcome nq u sc a t a'.
Proof.
  intros a q u t a' nq sc C W S N Hk Hl A.
  destruct (a_step_open_inv' _ a t a' S C eq_refl) as (C' & S'). cbn [open_spec] in S'.
  exact (bulk_outcome_of_exact a q u t a' nq sc C W C' S' N Hk Hl A).
Qed.

(* Update(q, map): the updater copies the document and sets the listed fields *)
Theorem spec_update_exact : forall a q kvs t a' nq sc,
  a_closed a = false -> wf_db (a_db a) -> a_step (OUpdate q kvs) a t a' ->
  normalize_query (mk_query q) = Some nq -> nq_skip nq = 0 -> nq_limit nq < 0 ->
  assoc (nq_coll nq) (a_db a) = Some sc ->
  bulk_outcome nq (USetAll kvs) sc a t a'.
Proof.
  intros a q kvs t a' nq sc C W S N Hk Hl A.
  destruct (a_step_open_inv' _ a t a' S C eq_refl) as (C' & S'). cbn [open_spec] in S'.
  exact (bulk_outcome_of_exact a q _ t a' nq sc C W C' S' N Hk Hl A).
Qed.

(* Delete(q): the updater returns nil.  It never fails, and what is left is exactly the documents that do
   not match, in their order *)
Theorem spec_delete_exact : forall a q t a' nq sc,
  a_closed a = false -> wf_db (a_db a) -> a_step (ODelete q) a t a' ->
  normalize_query (mk_query q) = Some nq -> nq_skip nq = 0 -> nq_limit nq < 0 ->
  assoc (nq_coll nq) (a_db a) = Some sc ->
  t = T_ok (TL []) /\
  exists sc', assoc (nq_coll nq) (a_db a') = Some sc' /\ sc_idx sc' = sc_idx sc /\
    sc_docs sc' = filter (fun e => negb (sat_opt (nq_crit nq) (snd e))) (sc_docs sc) /\
    (forall id d, In (id, d) (sc_docs sc) ->
       assoc id (sc_docs sc') = if sat_opt (nq_crit nq) d then None else Some d) /\
    (forall c', c' <> nq_coll nq -> assoc c' (a_db a') = assoc c' (a_db a)) /\
    map fst (a_db a') = map fst (a_db a).
Proof.
  intros a q t a' nq sc C W S N Hk Hl A.
  destruct (a_step_open_inv' _ a t a' S C eq_refl) as (C' & S'). cbn [open_spec] in S'.
  destruct (bulk_outcome_of_exact a q _ t a' nq sc C W C' S' N Hk Hl A) as [(_ & _ & d & _ & Bad)|H].
  - discriminate Bad.
  - destruct H as (-> & _ & sc' & A' & I' & D' & Hd & _ & _ & Fr & Nm). split; [reflexivity|].
    exists sc'. split; [exact A'|]. split; [exact I'|]. split; [rewrite D'; apply bulk_rewrite_nil|].
    split; [|split; assumption]. intros id d Hin. rewrite (Hd id d Hin). reflexivity.
Qed.

(* errors of the bulk writes on a query that does not normalise / a missing collection: nothing changes *)
Theorem spec_bulk_errors : forall a q u t a', a_closed a = false -> a_step (OUpdateFunc q u) a t a' ->
  match normalize_query (mk_query q) with
  | None => t = T_err EOther /\ a' = a
  | Some nq => assoc (nq_coll nq) (a_db a) = None -> t = T_err ECollNotExist /\ a' = a
  end.
Proof.
  intros a q u t a' C S. destruct (a_step_open_inv' _ a t a' S C eq_refl) as (C' & S'). cbn [open_spec] in S'.
  unfold bulk_q_spec in S'. destruct (normalize_query (mk_query q)) as [nq|].
  - intros A. unfold bulk_spec in S'. rewrite A in S'. destruct S' as (-> & E).
    split; [reflexivity | exact (astate_same a a' C C' E)].
  - destruct S' as (-> & E). split; [reflexivity | exact (astate_same a a' C C' E)].
Qed.

(* ========================================================================================== *)
(* Q12 (C12): identifiers                                                                      *)
(* ========================================================================================== *)
Lemma assoc_app_last_none : forall (A : Type) k k' (a : A) l,
  assoc k (l ++ [(k', a)]) = None -> k <> k' /\ assoc k l = None.
Proof.
  intros A k k' a l H. apply assoc_none_notin in H. rewrite map_app in H. cbn [map fst] in H. split.
  - intros ->. apply H. apply in_or_app. right. left. reflexivity.
  - apply assoc_none_notin. intros Hin. apply H. apply in_or_app. left. exact Hin.
Qed.

(* a successful batch: distinct ids, none stored, every document valid, appended in order *)
Lemma s_insert_docs_ok_inv : forall docs acc ds, s_insert_docs docs acc = Ok ds ->
  NoDup (map object_id docs) /\
  (forall d, In d docs -> assoc (object_id d) acc = None /\ validate d = true) /\
  ds = acc ++ map (fun d => (object_id d, d)) docs.
Proof.
  induction docs as [|d r IH]; intros acc ds H.
  - cbn [s_insert_docs] in H. injection H as <-. split; [constructor|]. split; [intros d []|].
    cbn [map]. rewrite app_nil_r. reflexivity.
  - cbn [s_insert_docs] in H. destruct (assoc (object_id d) acc) eqn:Ad; [discriminate H|].
    destruct (validate d) eqn:V; [|discriminate H].
    destruct (IH _ _ H) as (ND & Hall & E). split; [|split].
    + cbn [map]. constructor; [|exact ND]. intros Hin. apply in_map_iff in Hin.
      destruct Hin as (d1 & E1 & Hd1). destruct (Hall d1 Hd1) as (A1 & _).
      apply assoc_app_last_none in A1. destruct A1 as (Hne & _). contradiction.
    + intros d1 [<-|Hd1]; [split; assumption|]. destruct (Hall d1 Hd1) as (A1 & V1).
      apply assoc_app_last_none in A1. split; [exact (proj2 A1) | exact V1].
    + rewrite E, <- app_assoc. reflexivity.
Qed.

(* the only errors of a batch: a duplicate, or an invalid document *)
Lemma s_insert_docs_err_inv : forall docs acc e, s_insert_docs docs acc = Err e ->
  (e = EDupKey \/ e = EOther) /\ ((forall d, In d docs -> validate d = true) -> e = EDupKey).
Proof.
  induction docs as [|d r IH]; intros acc e H; [discriminate H|].
  cbn [s_insert_docs] in H. destruct (assoc (object_id d) acc).
  - injection H as <-. split; [left; reflexivity | intros _; reflexivity].
  - destruct (validate d) eqn:V.
    + destruct (IH _ _ H) as (H1 & H2). split; [exact H1|]. intros Hv. apply H2. intros d1 Hd1. apply Hv.
      right. exact Hd1.
    + injection H as <-. split; [right; reflexivity|]. intros Hv.
      rewrite (Hv d (or_introl eq_refl)) in V. discriminate V.
Qed.

Lemma assoc_of_ids : forall docs d, NoDup (map object_id docs) -> In d docs ->
  assoc (object_id d) (map (fun d => (object_id d, d)) docs) = Some d.
Proof.
  induction docs as [|d0 r IH]; intros d ND Hin; [destruct Hin|].
  cbn [map] in *. inversion ND as [|? ? Hn ND']; subst. cbn [assoc]. destruct Hin as [->|Hin].
  - rewrite beqb_refl. reflexivity.
  - destruct (beqb (object_id d) (object_id d0)) eqn:E; [|exact (IH d ND' Hin)].
    apply beqb_true_iff in E. contradiction Hn. rewrite <- E. apply in_map. exact Hin.
Qed.

Lemma spec_find_by_id : forall c id a t a', a_closed a = false -> a_step (OFindById c id) a t a' ->
  a' = a /\
  t = match assoc c (a_db a) with
      | None => T_err ECollNotExist
      | Some sc => T_ok (T_of_opt_doc (assoc id (sc_docs sc)))
      end.
Proof.
  intros c id a t a' C S. destruct (a_step_open_inv' _ a t a' S C eq_refl) as (C' & S').
  cbn [open_spec] in S'. destruct S' as (-> & E). split; [exact (astate_same a a' C C' E) | reflexivity].
Qed.

(* (a) a successful Insert *)
Theorem spec_insert_ok : forall c docs fresh a t a' p,
  a_closed a = false -> a_step (OInsert c docs fresh) a t a' -> t = T_ok p ->
  let ds := assign_ids docs fresh in
  exists sc,
    assoc c (a_db a) = Some sc /\
    (* the inserted ids are pairwise distinct and none was present *)
    NoDup (map object_id ds) /\
    (forall d, In d ds -> assoc (object_id d) (sc_docs sc) = None /\ validate d = true) /\
    (* the state afterwards: the batch appended, indexes and the other collections untouched *)
    a_closed a' = false /\
    a_db a' = assoc_set c (mkSC (sc_docs sc ++ map (fun d => (object_id d, d)) ds) (sc_idx sc)) (a_db a) /\
    (* FindById answers that very document for each of them *)
    (forall d t2 a2, In d ds -> a_step (OFindById c (object_id d)) a' t2 a2 ->
       t2 = T_ok (T_of_opt_doc (Some d)) /\ a2 = a') /\
    (* every previously stored document is unchanged *)
    (forall id d0 t2 a2, assoc id (sc_docs sc) = Some d0 -> a_step (OFindById c id) a' t2 a2 ->
       t2 = T_ok (T_of_opt_doc (Some d0)) /\ a2 = a') /\
    (* and nothing else is stored *)
    (forall id t2 a2, assoc id (sc_docs sc) = None -> ~ In id (map object_id ds) ->
       a_step (OFindById c id) a' t2 a2 -> t2 = T_ok (T_of_opt_doc None)).
Proof.
  intros c docs fresh a t a' p C S Hok ds.
  destruct (a_step_open_inv' _ a t a' S C eq_refl) as (C' & S'). cbn [open_spec] in S'. fold ds in S'.
  destruct (fun_spec_ok_inv _ _ _ _ _ S' Hok) as (R & _). unfold s_insert in R.
  destruct (assoc c (a_db a)) as [sc|] eqn:A; [|discriminate R].
  destruct (s_insert_docs ds (sc_docs sc)) as [r|e] eqn:I; [|discriminate R]. injection R as R.
  destruct (s_insert_docs_ok_inv _ _ _ I) as (ND & Hall & ->).
  exists sc. split; [reflexivity|]. split; [exact ND|]. split; [exact Hall|]. split; [exact C'|].
  split; [symmetry; exact R|].
  assert (A' : assoc c (a_db a') =
               Some (mkSC (sc_docs sc ++ map (fun d => (object_id d, d)) ds) (sc_idx sc))).
  { rewrite <- R. apply assoc_set_same. }
  split; [|split].
  - intros d t2 a2 Hd S2. destruct (spec_find_by_id c _ a' t2 a2 C' S2) as (-> & ->). rewrite A'.
    cbn [sc_docs]. split; [|reflexivity]. rewrite assoc_app_skip.
    + rewrite (assoc_of_ids ds d ND Hd). reflexivity.
    + apply assoc_none_notin. exact (proj1 (Hall d Hd)).
  - intros id d0 t2 a2 A0 S2. destruct (spec_find_by_id c _ a' t2 a2 C' S2) as (-> & ->). rewrite A'.
    cbn [sc_docs]. rewrite (assoc_app_first _ id d0 _ _ A0). split; reflexivity.
  - intros id t2 a2 A0 Hn S2. destruct (spec_find_by_id c _ a' t2 a2 C' S2) as (_ & ->). rewrite A'.
    cbn [sc_docs]. rewrite assoc_app_skip by (apply assoc_none_notin; exact A0).
    assert (X : assoc id (map (fun d => (object_id d, d)) ds) = None).
    { apply assoc_none_notin. rewrite map_map. cbn [fst]. exact Hn. }
    rewrite X. reflexivity.
Qed.

(* (b) a batch that repeats an id, or brings an id that is already stored, is refused as a whole.  The
   answer is EDupKey when every document of the batch is valid; in general the scan stops at the FIRST
   offending document, so an invalid document in front of the duplicate answers EOther
   ([spec_insert_dup_needs_valid] below) *)
Theorem spec_insert_dup : forall c docs fresh a t a' sc,
  a_closed a = false -> a_step (OInsert c docs fresh) a t a' ->
  assoc c (a_db a) = Some sc ->
  let ds := assign_ids docs fresh in
  (~ NoDup (map object_id ds) \/ exists d, In d ds /\ assoc (object_id d) (sc_docs sc) <> None) ->
  a' = a /\ (t = T_err EDupKey \/ t = T_err EOther) /\
  ((forall d, In d ds -> validate d = true) -> t = T_err EDupKey).
Proof.
  intros c docs fresh a t a' sc C S A ds Hdup.
  destruct (a_step_open_inv' _ a t a' S C eq_refl) as (C' & S'). cbn [open_spec] in S'. fold ds in S'.
  unfold s_insert in S'. rewrite A in S'.
  destruct (s_insert_docs ds (sc_docs sc)) as [r|e] eqn:I.
  - exfalso. destruct (s_insert_docs_ok_inv _ _ _ I) as (ND & Hall & _).
    destruct Hdup as [H|(d & Hd & H)]; [exact (H ND) | exact (H (proj1 (Hall d Hd)))].
  - cbn [fun_spec] in S'. destruct S' as (-> & E). split; [exact (astate_same a a' C C' E)|].
    destruct (s_insert_docs_err_inv _ _ _ I) as ([->| ->] & H2).
    + split; [left; reflexivity | intros _; reflexivity].
    + split; [right; reflexivity|]. intros Hv. rewrite (H2 Hv). reflexivity.
Qed.

(* Insert into a missing collection *)
Theorem spec_insert_missing : forall c docs fresh a t a',
  a_closed a = false -> a_step (OInsert c docs fresh) a t a' -> assoc c (a_db a) = None ->
  t = T_err ECollNotExist /\ a' = a.
Proof.
  intros c docs fresh a t a' C S A.
  destruct (a_step_open_inv' _ a t a' S C eq_refl) as (C' & S'). cbn [open_spec] in S'.
  unfold s_insert in S'. rewrite A in S'. destruct S' as (-> & E).
  split; [reflexivity | exact (astate_same a a' C C' E)].
Qed.

(* (c) UpdateById never changes the ids of its collection, nor their order; the document under id
   afterwards carries that id; an ok answer means the document is the updater's result *)
Theorem spec_update_by_id : forall c id u a t a',
  a_closed a = false -> wf_db (a_db a) -> a_step (OUpdateById c id u) a t a' ->
  a_closed a' = false /\
  (forall c0, option_map (fun sc => map fst (sc_docs sc)) (assoc c0 (a_db a')) =
              option_map (fun sc => map fst (sc_docs sc)) (assoc c0 (a_db a))) /\
  (forall sc' d', assoc c (a_db a') = Some sc' -> assoc id (sc_docs sc') = Some d' -> object_id d' = id) /\
  (forall p, t = T_ok p ->
     exists sc d d', assoc c (a_db a) = Some sc /\ assoc id (sc_docs sc) = Some d /\
       apply_updater u d = Some d' /\ object_id d' = id /\ validate d' = true /\
       a_db a' = assoc_set c (mkSC (assoc_set id d' (sc_docs sc)) (sc_idx sc)) (a_db a) /\
       (forall id0, id0 <> id ->
          assoc id0 (assoc_set id d' (sc_docs sc)) = assoc id0 (sc_docs sc))) /\
  (forall e, t = T_err e -> a' = a).
Proof.
  intros c id u a t a' C W S.
  destruct (a_step_open_inv' _ a t a' S C eq_refl) as (C' & S'). cbn [open_spec] in S'.
  split; [exact C'|].
  destruct (s_update_by_id c id u (a_db a)) as [d1|e] eqn:U; cbn [fun_spec] in S'; destruct S' as (-> & E).
  - destruct (s_update_by_id_inv _ _ _ _ _ U) as (sc & d & d' & A & Ad & Ud & Oid & V & Ed). rewrite Ed in E. clear Ed U.
    split; [|split; [|split]].
    + intros c0. rewrite E. destruct (bytes_dec c0 c) as [->|Hn].
      * rewrite assoc_set_same, A. cbn [option_map sc_docs]. f_equal.
        exact (assoc_set_keys_present _ id d' d _ Ad).
      * rewrite (assoc_set_frame _ c _ c0 Hn). reflexivity.
    + intros sc' d2 A1 Ad1. rewrite E, assoc_set_same in A1. injection A1 as <-. cbn [sc_docs] in Ad1.
      rewrite assoc_set_same in Ad1. injection Ad1 as <-. exact Oid.
    + intros p _. exists sc, d, d'. split; [exact A|]. split; [exact Ad|]. split; [exact Ud|].
      split; [exact Oid|]. split; [exact V|]. split; [exact E|].
      intros id0 Hn. apply assoc_set_other. congruence.
    + intros e0 Ee. symmetry in Ee. contradiction (T_err_not_ok _ _ Ee).
  - assert (Ea : a' = a) by exact (astate_same a a' C C' E). subst a'.
    split; [|split; [|split]].
    + intros c0. reflexivity.
    + intros sc' d1 A1 Ad1. destruct (wf_coll _ _ sc' W A1) as (_ & _ & Hdocs & _).
      exact (proj1 (proj2 (Hdocs id d1 (assoc_some_In _ _ _ Ad1)))).
    + intros p Ep. contradiction (T_err_not_ok _ _ Ep).
    + intros _ _. reflexivity.
Qed.

Theorem spec_ids : forall c a, a_closed a = false -> wf_db (a_db a) ->
  (* (a) *)
  (forall docs fresh t a' p, a_step (OInsert c docs fresh) a t a' -> t = T_ok p ->
     exists sc, assoc c (a_db a) = Some sc /\
       NoDup (map object_id (assign_ids docs fresh)) /\
       (forall d, In d (assign_ids docs fresh) -> assoc (object_id d) (sc_docs sc) = None) /\
       (forall d t2 a2, In d (assign_ids docs fresh) -> a_step (OFindById c (object_id d)) a' t2 a2 ->
          t2 = T_ok (T_of_opt_doc (Some d))) /\
       (forall id d0 t2 a2, assoc id (sc_docs sc) = Some d0 -> a_step (OFindById c id) a' t2 a2 ->
          t2 = T_ok (T_of_opt_doc (Some d0)))) /\
  (* (b) *)
  (forall docs fresh t a' sc, a_step (OInsert c docs fresh) a t a' -> assoc c (a_db a) = Some sc ->
     (forall d, In d (assign_ids docs fresh) -> validate d = true) ->
     (~ NoDup (map object_id (assign_ids docs fresh)) \/
      exists d, In d (assign_ids docs fresh) /\ assoc (object_id d) (sc_docs sc) <> None) ->
     t = T_err EDupKey /\ a' = a) /\
  (* (c) *)
  (forall id u t a' sc, a_step (OUpdateById c id u) a t a' -> assoc c (a_db a) = Some sc ->
     exists sc', assoc c (a_db a') = Some sc' /\ map fst (sc_docs sc') = map fst (sc_docs sc) /\
       forall d', assoc id (sc_docs sc') = Some d' -> object_id d' = id).
Proof.
  intros c a C W. split; [|split].
  - intros docs fresh t a' p S Hok.
    destruct (spec_insert_ok c docs fresh a t a' p C S Hok) as (sc & A & ND & Hall & _ & _ & F1 & F2 & _).
    exists sc. split; [exact A|]. split; [exact ND|]. split; [intros d Hd; exact (proj1 (Hall d Hd))|].
    split.
    + intros d t2 a2 Hd S2. exact (proj1 (F1 d t2 a2 Hd S2)).
    + intros id d0 t2 a2 A0 S2. exact (proj1 (F2 id d0 t2 a2 A0 S2)).
  - intros docs fresh t a' sc S A Hv Hdup.
    destruct (spec_insert_dup c docs fresh a t a' sc C S A Hdup) as (E & _ & H). split; [exact (H Hv) | exact E].
  - intros id u t a' sc S A.
    destruct (spec_update_by_id c id u a t a' C W S) as (_ & Hk & Hid & _).
    pose proof (Hk c) as Hc. rewrite A in Hc. destruct (assoc c (a_db a')) as [sc'|] eqn:A'; [|discriminate Hc].
    cbn [option_map] in Hc. injection Hc as Hc. exists sc'. split; [reflexivity|]. split; [exact Hc|].
    intros d' Hd'. exact (Hid sc' d' eq_refl Hd').
Qed.

(* ========================================================================================== *)
(* Q19 (C19): Export, then Import of the exported documents under a fresh name, from S alone   *)
(* ========================================================================================== *)
Lemma assoc_of_ids_f : forall (f : obj -> obj) docs d, NoDup (map object_id docs) -> In d docs ->
  assoc (object_id d) (map (fun d => (object_id d, f d)) docs) = Some (f d).
Proof.
  intros f. induction docs as [|d0 r IH]; intros d ND Hin; [destruct Hin|].
  cbn [map] in *. inversion ND as [|? ? Hn ND']; subst. cbn [assoc]. destruct Hin as [->|Hin].
  - rewrite beqb_refl. reflexivity.
  - destruct (beqb (object_id d) (object_id d0)) eqn:E; [|exact (IH d ND' Hin)].
    apply beqb_true_iff in E. contradiction Hn. rewrite <- E. apply in_map. exact Hin.
Qed.

Section ExportImport.
  Variable fmt : Z -> Z -> Z -> bytes.      (* the RFC 3339 rendering of a time, as in Ops.json_value *)

  (* [l]: the exported documents in ANY order (Export answers them as a set); the file holds their JSON
     typing.  No document carries an expiry (K-expires: JSON typing turns it into text, which Validate
     rejects -- CompositeProofs.export_import_expires_fails). *)
  Theorem spec_export_import : forall a c c' sc l t1 a1 t2 a2,
    a_closed a = false -> wf_db (a_db a) ->
    assoc c (a_db a) = Some sc -> assoc c' (a_db a) = None ->
    (forall id d, In (id, d) (sc_docs sc) -> doc_has expires_field d = false) ->
    Permutation l (map snd (sc_docs sc)) ->
    a_step (OExport c) a t1 a1 ->
    a_step (OImport c' (FElems (map (fun d => Some (json_doc fmt d)) l))) a1 t2 a2 ->
    (* Export answers the documents, changes nothing *)
    t1 = T_ok (T_of_docs [] 0 (map snd (sc_docs sc))) /\ t1 = T_ok (T_of_docs [] 0 l) /\ a1 = a /\
    (* Import succeeds *)
    t2 = T_ok (TL []) /\ a_closed a2 = false /\
    (* every other collection is as before *)
    (forall c0, c0 <> c' -> assoc c0 (a_db a2) = assoc c0 (a_db a)) /\
    (* the new collection: no indexes, the same ids (in the file's order), every document JSON-typed *)
    exists sc', assoc c' (a_db a2) = Some sc' /\ sc_idx sc' = [] /\
      sc_docs sc' = map (fun d => (object_id d, json_doc fmt d)) l /\
      Permutation (map fst (sc_docs sc')) (map fst (sc_docs sc)) /\
      (forall id d, assoc id (sc_docs sc) = Some d -> assoc id (sc_docs sc') = Some (json_doc fmt d)).
  Proof.
    intros a c c' sc l t1 a1 t2 a2 C W A A' X P S1 S2.
    destruct (a_step_open_inv' _ a t1 a1 S1 C eq_refl) as (C1 & S1'). cbn [open_spec] in S1'.
    rewrite A in S1'. destruct S1' as (-> & E1).
    assert (Ea : a1 = a) by exact (astate_same a a1 C C1 E1). subst a1.
    destruct (a_step_open_inv' _ a t2 a2 S2 C eq_refl) as (C2 & S2'). cbn [open_spec] in S2'.
    destruct (wf_coll _ c sc W A) as (_ & NDk & Hdocs & _).
    pose proof (wf_ids_NoDup _ c sc W A) as NDi.
    assert (NDl : NoDup (map object_id l)).
    { exact (Permutation_NoDup (Permutation_sym (Permutation_map object_id P)) NDi). }
    assert (Hok : forall d, In d l -> exists id, In (id, d) (sc_docs sc) /\ object_id d = id /\
                    object_id d <> [] /\ validate d = true).
    { intros d Hd. apply (Permutation_in d P) in Hd. destruct (in_docs_pair sc d Hd) as (id & Hin).
      destruct (Hdocs id d Hin) as (Ci & Oi & V). exists id. split; [exact Hin|]. split; [exact Oi|].
      split; [|exact V]. rewrite Oi. exact (canonical_id_nonempty id Ci). }
    set (docs := map (json_doc fmt) l).
    assert (Eids : map object_id docs = map object_id l).
    { unfold docs. rewrite map_map. apply map_ext_in. intros d Hd.
      destruct (Hok d Hd) as (id & _ & _ & Ne & _). exact (object_id_json_doc fmt d Ne). }
    assert (Eds : map (fun d => (object_id d, d)) docs = map (fun d => (object_id d, json_doc fmt d)) l).
    { unfold docs. rewrite map_map. apply map_ext_in. intros d Hd.
      destruct (Hok d Hd) as (id & _ & _ & Ne & _). rewrite (object_id_json_doc fmt d Ne). reflexivity. }
    assert (Hs : s_import c' (FElems (map (fun d => Some (json_doc fmt d)) l)) (a_db a) =
                 (Ok tt, assoc_set c' (mkSC (map (fun d => (object_id d, json_doc fmt d)) l) [])
                           (a_db a ++ [(c', mkSC [] [])]))).
    { unfold s_import, s_create. rewrite A'.
      rewrite (file_docs_all_some _ (json_doc fmt) l). fold docs.
      unfold s_insert. rewrite (assoc_app_none c' (mkSC [] []) (a_db a) A'). cbn [sc_docs sc_idx].
      rewrite s_insert_docs_succeeds.
      - cbn [app]. rewrite Eds. reflexivity.
      - rewrite Eids. exact NDl.
      - intros d Hd. split; [|reflexivity]. unfold docs in Hd. apply in_map_iff in Hd.
        destruct Hd as (d0 & <- & Hd0). destruct (Hok d0 Hd0) as (id & Hin & _ & Ne & V).
        exact (validate_json_doc fmt d0 Ne V (X id d0 Hin)). }
    rewrite Hs in S2'. cbn [fst snd T_unit] in S2'. destruct S2' as (-> & E2).
    split; [reflexivity|]. split.
    { unfold T_of_docs. change (0 =? 2) with false. cbv iota.
      rewrite (msort_id_leb_perm _ _ P NDl). reflexivity. }
    split; [reflexivity|]. split; [reflexivity|]. split; [exact C2|]. split.
    { intros c0 Hn. rewrite E2, (assoc_set_frame _ c' _ c0 Hn). apply assoc_app_other. congruence. }
    eexists. split; [rewrite E2; apply assoc_set_same|]. cbn [sc_idx sc_docs].
    split; [reflexivity|]. split; [reflexivity|]. split.
    { rewrite map_map. cbn [fst].
      assert (Ek : map object_id (map snd (sc_docs sc)) = map fst (sc_docs sc)).
      { rewrite map_map. apply map_ext_in. intros [id d] Hin. cbn [fst snd].
        exact (proj1 (proj2 (Hdocs id d Hin))). }
      rewrite <- Ek. exact (Permutation_map object_id P). }
    intros id d Ad. apply assoc_some_In in Ad.
    destruct (Hdocs id d Ad) as (_ & Oi & _). rewrite <- Oi.
    apply (assoc_of_ids_f (json_doc fmt) l d NDl).
    apply (Permutation_in d (Permutation_sym P)). apply in_map_iff. exists (id, d). split; [reflexivity | exact Ad].
  Qed.
End ExportImport.

(* ========================================================================================== *)
(* Q20 (C20): S never gets stuck, and every answer is ok or an error                           *)
(* ========================================================================================== *)
(* the matching documents of a sorted query live in one numeric regime (the comparison of values is
   transitive there; PlanProofs.docs_leb_trans).  Vacuous for a query without sort options. *)
Definition nq_regime (db : sdb) (nq : nquery) : Prop :=
  nq_sort nq = [] \/
  match assoc (nq_coll nq) db with
  | None => True
  | Some sc => exists m, forall d, In d (map snd (sc_docs sc)) -> sat_opt (nq_crit nq) d = true ->
                           doc_regime m (nq_sort nq) d
  end.

Definition sort_regime (db : sdb) (q : qspec) : Prop :=
  match normalize_query (mk_query q) with None => True | Some nq => nq_regime db nq end.

Definition total_dom (db : sdb) (o : op) : Prop :=
  match o with
  | OFindAll q _ | OCount q | OExists q | OFindFirst q | OForEach q _ _
  | OUpdate q _ | OUpdateFunc q _ | ODelete q | OCreateByQuery _ q => sort_regime db q
  | _ => True
  end.

(* a sorted permutation of the matching documents exists *)
Lemma find_ok'_inhabited : forall docs nq,
  (nq_sort nq = [] \/
   exists m, forall d, In d docs -> sat_opt (nq_crit nq) d = true -> doc_regime m (nq_sort nq) d) ->
  exists res, find_ok' docs nq res.
Proof.
  intros docs nq [Hs|(m & Hreg)].
  - exists (window (nq_skip nq) (nq_limit nq) (matches (nq_crit nq) docs)).
    exists (matches (nq_crit nq) docs). split; [apply Permutation_refl|]. split; [|reflexivity].
    intros Hne. contradiction.
  - set (l0 := msort (leb_in m (nq_sort nq)) (matches (nq_crit nq) docs)).
    exists (window (nq_skip nq) (nq_limit nq) l0), l0.
    assert (P : Permutation l0 (matches (nq_crit nq) docs)) by apply msort_perm.
    split; [exact P|]. split; [|reflexivity]. intros _.
    apply (SSorted_weaken (fun x y => leb_in m (nq_sort nq) x y = true)).
    + intros x y Hx Hy H.
      assert (Rx : regb m (nq_sort nq) x = true).
      { apply regb_doc_regime. apply (Permutation_in x P) in Hx. apply filter_In in Hx.
        exact (Hreg x (proj1 Hx) (proj2 Hx)). }
      assert (Ry : regb m (nq_sort nq) y = true).
      { apply regb_doc_regime. apply (Permutation_in y P) in Hy. apply filter_In in Hy.
        exact (Hreg y (proj1 Hy) (proj2 Hy)). }
      unfold leb_in in H. rewrite Rx, Ry in H. exact H.
    + exact (msort_sorted (leb_in m (nq_sort nq)) (leb_in_total m (nq_sort nq)) (leb_in_trans m (nq_sort nq)) _).
Qed.

Lemma find_ok'_inhabited_db : forall db nq sc, nq_regime db nq -> assoc (nq_coll nq) db = Some sc ->
  exists res, find_ok' (map snd (sc_docs sc)) nq res.
Proof.
  intros db nq sc Hr A. apply find_ok'_inhabited. destruct Hr as [Hs|Hr]; [left; exact Hs|].
  rewrite A in Hr. right. exact Hr.
Qed.

Lemma read_spec_total : forall onq render db,
  (forall nq, onq = Some nq -> nq_regime db nq) -> exists t, read_spec onq render db t.
Proof.
  intros onq render db H. unfold read_spec. destruct onq as [nq|]; [|eexists; reflexivity].
  destruct (assoc (nq_coll nq) db) as [sc|] eqn:A; [|eexists; reflexivity].
  destruct (find_ok'_inhabited_db db nq sc (H nq eq_refl) A) as (res & F).
  eexists. exists res. split; [exact F | reflexivity].
Qed.

Lemma fun_spec_total : forall r db, exists t db', fun_spec r db t db'.
Proof. intros r db. destruct r; do 2 eexists; split; reflexivity. Qed.

Lemma stored_of_listed : forall db c sc d, wf_db db -> assoc c db = Some sc ->
  In d (map snd (sc_docs sc)) -> assoc (object_id d) (sc_docs sc) = Some d.
Proof.
  intros db c sc d W A Hd. destruct (wf_coll db c sc W A) as (_ & NDk & Hdocs & _).
  destruct (in_docs_pair sc d Hd) as (id & Hin). rewrite (proj1 (proj2 (Hdocs id d Hin))).
  apply (assoc_In id d _ NDk). exact Hin.
Qed.

Lemma bulk_q_spec_total : forall q u db, wf_db db -> sort_regime db q -> exists t db', bulk_q_spec q u db t db'.
Proof.
  intros q u db W Hr. unfold bulk_q_spec. unfold sort_regime in Hr.
  destruct (normalize_query (mk_query q)) as [nq|]; [|do 2 eexists; split; reflexivity].
  unfold bulk_spec. destruct (assoc (nq_coll nq) db) as [sc|] eqn:A; [|do 2 eexists; split; reflexivity].
  destruct (find_ok'_inhabited_db db nq sc Hr A) as (res & F).
  assert (St : forall d, In d res -> assoc (object_id d) (sc_docs sc) = Some d).
  { intros d Hd. apply (stored_of_listed db _ sc d W A). exact (proj1 (find_ok'_members sc nq res d F Hd)). }
  pose proof (proj1 (find_ok'_each_once db sc nq res W A F)) as ND.
  destruct (s_apply_sel u res (sc_docs sc)) as [ds|e] eqn:Ap.
  - exists (T_ok (TL [])), (assoc_set (nq_coll nq) (mkSC ds (sc_idx sc)) db), res.
    split; [exact F|]. split; [exact St|]. split; [exact ND|]. rewrite Ap. split; reflexivity.
  - exists (T_err e), db, res.
    split; [exact F|]. split; [exact St|]. split; [exact ND|]. rewrite Ap. split; reflexivity.
Qed.

Lemma limit1_regime : forall db q, sort_regime db q ->
  forall nq, normalize_query (limit1 q) = Some nq -> nq_regime db nq.
Proof.
  intros db q Hr nq N. rewrite normalize_limit1 in N. unfold sort_regime in Hr.
  destruct (normalize_query (mk_query q)) as [nq0|]; [|discriminate N]. cbn [option_map] in N.
  injection N as <-. exact Hr.
Qed.

Lemma open_spec_total : forall o db, wf_db db -> total_dom db o -> handle_op o = false ->
  exists t db', open_spec o db t db'.
Proof.
  intros o db W D Ho.
  assert (Rd : forall q render, sort_regime db q ->
            exists t db', read_spec (normalize_query (mk_query q)) render db t /\ db' = db).
  { intros q render Hr. destruct (read_spec_total (normalize_query (mk_query q)) render db) as (t & R).
    - intros nq N. unfold sort_regime in Hr. rewrite N in Hr. exact Hr.
    - exists t, db. split; [exact R | reflexivity]. }
  assert (Rd1 : forall q render, sort_regime db q ->
            exists t db', read_spec (normalize_query (limit1 q)) render db t /\ db' = db).
  { intros q render Hr. destruct (read_spec_total (normalize_query (limit1 q)) render db) as (t & R).
    - exact (limit1_regime db q Hr).
    - exists t, db. split; [exact R | reflexivity]. }
  destruct o; try discriminate Ho; cbn [open_spec total_dom] in *;
    try apply fun_spec_total; try (apply bulk_q_spec_total; assumption);
    try (apply Rd; assumption); try (apply Rd1; assumption);
    try (do 2 eexists; split; reflexivity).
  - (* Save *) destruct (needs_id d); apply fun_spec_total.
  - (* ReplaceById *) destruct (negb (beqb (object_id d) id)); [do 2 eexists; split; reflexivity|].
    apply fun_spec_total.
  - (* CreateByQuery *)
    unfold s_create. destruct (assoc c db) as [sc0|] eqn:A0; [do 2 eexists; split; reflexivity|].
    unfold sort_regime in D.
    destruct (normalize_query (mk_query q)) as [nq|]; [|do 2 eexists; split; reflexivity].
    destruct (assoc (nq_coll nq) (db ++ [(c, mkSC [] [])])) as [sc|] eqn:A1; [|do 2 eexists; split; reflexivity].
    assert (F : exists res, find_ok' (map snd (sc_docs sc)) nq res).
    { destruct (bytes_dec c (nq_coll nq)) as [Eq|Hn].
      - rewrite <- Eq, (assoc_app_none c (mkSC [] []) db A0) in A1. injection A1 as <-.
        exists []. apply find_ok'_no_docs.
      - rewrite (assoc_app_other c (nq_coll nq) (mkSC [] []) db Hn) in A1.
        exact (find_ok'_inhabited_db db nq sc D A1). }
    destruct F as (res & F). do 2 eexists. exists res. split; [exact F|]. split; reflexivity.
Qed.

Theorem spec_total : forall o a, wf_db (a_db a) -> total_dom (a_db a) o -> exists t a', a_step o a t a'.
Proof.
  intros o [db cl] W D. cbn [a_db] in *. destruct (handle_op o) eqn:Ho.
  - unfold a_step. cbn [a_closed a_db]. destruct o; try discriminate Ho; destruct cl; do 2 eexists; split; reflexivity.
  - destruct cl.
    + exists (T_err EOther), (mkA db true). unfold a_step. cbn [a_closed].
      destruct o; try discriminate Ho; split; reflexivity.
    + destruct (open_spec_total o db W D Ho) as (t & db' & S).
      exists t, (mkA db' false). exact (a_step_open_intro o db t db' Ho S).
Qed.

(* the unsorted case needs no premise at all besides well-formedness *)
Definition unsorted_op (o : op) : Prop :=
  match o with
  | OFindAll q _ | OCount q | OExists q | OFindFirst q | OForEach q _ _
  | OUpdate q _ | OUpdateFunc q _ | ODelete q | OCreateByQuery _ q => q_sort (mk_query q) = []
  | _ => True
  end.

Lemma normalize_sort : forall q nq, normalize_query q = Some nq -> nq_sort nq = q_sort q.
Proof.
  intros q nq N. unfold normalize_query in N. destruct (q_crit q) as [c|].
  - destruct (norm_crit c); [|discriminate N]. injection N as <-. reflexivity.
  - injection N as <-. reflexivity.
Qed.

Lemma unsorted_total_dom : forall db o, unsorted_op o -> total_dom db o.
Proof.
  intros db o U.
  assert (H : forall q, q_sort (mk_query q) = [] -> sort_regime db q).
  { intros q Hs. unfold sort_regime. destruct (normalize_query (mk_query q)) as [nq|] eqn:N; [|exact I].
    left. rewrite (normalize_sort _ _ N). exact Hs. }
  destruct o; cbn [unsorted_op total_dom] in *; try exact I; apply H; exact U.
Qed.

Theorem spec_total_unsorted : forall o a, wf_db (a_db a) -> unsorted_op o -> exists t a', a_step o a t a'.
Proof. intros o a W U. exact (spec_total o a W (unsorted_total_dom (a_db a) o U)). Qed.

(* and the domain of the refinement theorem (every collection in one regime) implies the premise *)
Lemma coll_dom_total_dom : forall db o,
  (forall c sc, assoc c db = Some sc -> exists m, coll_dom m sc) -> total_dom db o.
Proof.
  intros db o H.
  assert (G : forall q, sort_regime db q).
  { intros q. unfold sort_regime. destruct (normalize_query (mk_query q)) as [nq|]; [|exact I].
    right. destruct (assoc (nq_coll nq) db) as [sc|] eqn:A; [|exact I].
    destruct (H _ sc A) as (m & CD). exists m. intros d Hd _. exact (coll_dom_doc_regime m sc _ d CD Hd). }
  destruct o; cbn [total_dom]; try exact I; apply G.
Qed.

Theorem spec_total_dom : forall o a, wf_db (a_db a) ->
  (forall c sc, assoc c (a_db a) = Some sc -> exists m, coll_dom m sc) -> exists t a', a_step o a t a'.
Proof. intros o a W H. exact (spec_total o a W (coll_dom_total_dom (a_db a) o H)). Qed.

(* ---- the shape of an answer ---- *)
Definition answer_shape (t : T) : Prop := (exists p, t = T_ok p) \/ (exists e, t = T_err e).

Lemma shape_ok : forall p, answer_shape (T_ok p).
Proof. intros p. left. exists p. reflexivity. Qed.

Lemma shape_err : forall e, answer_shape (T_err e).
Proof. intros e. right. exists e. reflexivity. Qed.

Lemma fun_spec_shape : forall r db t db', fun_spec r db t db' -> answer_shape t.
Proof. intros r db t db' F. destruct r; destruct F as (-> & _); [apply shape_ok | apply shape_err]. Qed.

Lemma read_spec_shape : forall onq render db t, read_spec onq render db t -> answer_shape t.
Proof.
  intros onq render db t R. unfold read_spec in R. destruct onq as [nq|]; [|rewrite R; apply shape_err].
  destruct (assoc (nq_coll nq) db); [|rewrite R; apply shape_err].
  destruct R as (res & _ & ->). apply shape_ok.
Qed.

Lemma bulk_q_spec_shape : forall q u db t db', bulk_q_spec q u db t db' -> answer_shape t.
Proof.
  intros q u db t db' B. unfold bulk_q_spec in B.
  destruct (normalize_query (mk_query q)) as [nq|]; [|destruct B as (-> & _); apply shape_err].
  unfold bulk_spec in B. destruct (assoc (nq_coll nq) db) as [sc|]; [|destruct B as (-> & _); apply shape_err].
  destruct B as (sel & _ & _ & _ & B). destruct (s_apply_sel u sel (sc_docs sc)); destruct B as (-> & _);
    [apply shape_ok | apply shape_err].
Qed.

Lemma open_spec_shape : forall o db t db', open_spec o db t db' -> answer_shape t.
Proof.
  intros o db t db' S. destruct o; cbn [open_spec] in S;
    try exact (fun_spec_shape _ _ _ _ S); try exact (bulk_q_spec_shape _ _ _ _ _ S);
    try exact (read_spec_shape _ _ _ _ (proj1 S)); try contradiction.
  - destruct S as (-> & _). apply shape_ok.
  - destruct S as (-> & _). apply shape_ok.
  - destruct (needs_id d); exact (fun_spec_shape _ _ _ _ S).
  - destruct S as (-> & _). destruct (assoc c db); [apply shape_ok | apply shape_err].
  - destruct (negb (beqb (object_id d) id)); [destruct S as (-> & _); apply shape_err|].
    exact (fun_spec_shape _ _ _ _ S).
  - destruct S as (-> & _). destruct (assoc c db); [apply shape_ok | apply shape_err].
  - destruct S as (-> & _). destruct (assoc c db); [apply shape_ok | apply shape_err].
  - destruct S as (-> & _). destruct (assoc c db); [apply shape_ok | apply shape_err].
  - destruct S as (-> & _). destruct (fst (s_import c file db)); [apply shape_ok | apply shape_err].
  - destruct (s_create c db); [|destruct S as (-> & _); apply shape_err].
    destruct (normalize_query (mk_query q)) as [nq|]; [|destruct S as (-> & _); apply shape_err].
    destruct (assoc (nq_coll nq) a); [|destruct S as (-> & _); apply shape_err].
    destruct S as (res & _ & -> & _). apply shape_ok.
Qed.

Theorem spec_answer_shape : forall o a t a', a_step o a t a' -> (exists p, t = T_ok p) \/ (exists e, t = T_err e).
Proof.
  intros o [db cl] t a' S. change (answer_shape t). destruct (handle_op o) eqn:Ho.
  - unfold a_step in S. cbn [a_closed a_db] in S.
    destruct o; try discriminate Ho; destruct cl; destruct S as (-> & _); apply shape_ok.
  - destruct cl.
    + destruct (spec_closed o (mkA db true) t a' eq_refl Ho S) as (-> & _). apply shape_err.
    + destruct (a_step_open_inv o (mkA db false) t a' eq_refl Ho S) as (_ & S'). exact (open_spec_shape _ _ _ _ S').
Qed.

(* ========================================================================================== *)
(* WHAT S DOES NOT PIN DOWN, AND WHY THE SIDE CONDITIONS ABOVE ARE THERE                       *)
(* ========================================================================================== *)
(* one collection "t" with two documents *)
Definition ns_sc : scoll := mkSC [(ex_id1, ex_d1); (ex_id2, ex_d2)] [].
Definition ns_db : sdb := [(RProofs.ex_c, ns_sc)].
Definition ns_a : astate := mkA ns_db false.

Lemma ns_wf : wf_db (a_db ns_a).
Proof.
  cbn [a_db ns_a]. split.
  - cbn [map fst ns_db]. constructor; [intros []|constructor].
  - intros c sc [E|[]]. injection E as <- <-. unfold coll_ok, ns_sc. cbn [sc_docs sc_idx map fst].
    split; [reflexivity|]. split.
    { constructor; [|constructor; [intros []|constructor]].
      intros [E|[]]. vm_compute in E. discriminate E. }
    split; [|split; [constructor | intros f []]].
    intros id d [E|[E|[]]]; injection E as <- <-; unfold doc_ok; repeat split; vm_compute; reflexivity.
Qed.

(* Q01/C01: the ORDER of an unsorted answer is not determined (only mode 2 shows it) *)
Theorem spec_find_all_order_not_determined :
  exists t1 t2, a_step (OFindAll (RProofs.ex_c, []) 2) ns_a t1 ns_a /\
                a_step (OFindAll (RProofs.ex_c, []) 2) ns_a t2 ns_a /\ t1 <> t2.
Proof.
  exists (T_ok (T_of_docs [] 2 [ex_d1; ex_d2])), (T_ok (T_of_docs [] 2 [ex_d2; ex_d1])).
  split; [|split].
  - apply a_step_open_intro; [reflexivity|]. cbn [open_spec]. split; [|reflexivity].
    exists [ex_d1; ex_d2]. split; [|reflexivity].
    exists [ex_d1; ex_d2]. split; [apply Permutation_refl|]. split; [intros H; contradiction H; reflexivity|].
    reflexivity.
  - apply a_step_open_intro; [reflexivity|]. cbn [open_spec]. split; [|reflexivity].
    exists [ex_d2; ex_d1]. split; [|reflexivity].
    exists [ex_d2; ex_d1]. split; [apply perm_swap|]. split; [intros H; contradiction H; reflexivity|].
    reflexivity.
  - intros E. vm_compute in E. discriminate E.
Qed.

(* Q09/C09: which document FindFirst answers for an unsorted query is not determined *)
Theorem spec_find_first_not_determined :
  exists t1 t2, a_step (OFindFirst (RProofs.ex_c, [])) ns_a t1 ns_a /\
                a_step (OFindFirst (RProofs.ex_c, [])) ns_a t2 ns_a /\ t1 <> t2.
Proof.
  exists (T_ok (T_of_opt_doc (Some ex_d1))), (T_ok (T_of_opt_doc (Some ex_d2))).
  split; [|split].
  - apply a_step_open_intro; [reflexivity|]. cbn [open_spec]. split; [|reflexivity].
    exists [ex_d1]. split; [|reflexivity].
    exists [ex_d1; ex_d2]. split; [apply Permutation_refl|]. split; [intros H; contradiction H; reflexivity|].
    reflexivity.
  - apply a_step_open_intro; [reflexivity|]. cbn [open_spec]. split; [|reflexivity].
    exists [ex_d2]. split; [|reflexivity].
    exists [ex_d2; ex_d1]. split; [apply perm_swap|]. split; [intros H; contradiction H; reflexivity|].
    reflexivity.
  - intros E. vm_compute in E. discriminate E.
Qed.

(* Q09/C09: the proviso "limit <> 0" for Exists is needed: with Limit(0) EVERY FindAll answer is empty and
   Count is 0, yet Exists -- which runs the query with Limit(1) -- answers true *)
Theorem spec_exists_needs_limit_nonzero :
  let q := (RProofs.ex_c, [QLimit 0]) in
  (forall mode t a', a_step (OFindAll q mode) ns_a t a' -> t = T_ok (T_of_docs [] mode [])) /\
  (forall t a', a_step (OCount q) ns_a t a' -> t = T_ok (TZ 0)) /\
  (forall t a', a_step (OExists q) ns_a t a' -> t = T_ok (Tbool true)) /\
  (exists t a', a_step (OExists q) ns_a t a').
Proof.
  intros q.
  assert (N : normalize_query (mk_query q) = Some (mkNQ RProofs.ex_c None 0 0 [])) by reflexivity.
  assert (A : assoc (nq_coll (mkNQ RProofs.ex_c None 0 0 [])) (a_db ns_a) = Some ns_sc) by reflexivity.
  split; [|split; [|split]].
  - intros mode t a' S.
    destruct (spec_find_all_agrees ns_a q _ ns_sc eq_refl N A mode t a' S) as (_ & res & (l0 & _ & _ & E) & ->).
    cbn [nq_skip nq_limit nq_sort] in *. unfold window in E. cbn in E. subst res. reflexivity.
  - intros t a' S. destruct (spec_count_agrees ns_a q _ ns_sc eq_refl N A t a' S) as (_ & -> & _). reflexivity.
  - intros t a' S. destruct (spec_exists_agrees ns_a q _ ns_sc eq_refl N A t a' S) as (_ & -> & _). reflexivity.
  - apply (spec_total_unsorted (OExists q) ns_a ns_wf). reflexivity.
Qed.

(* Q12/C12 (b): "EDupKey" needs the batch to be valid: the scan stops at the first offending document, and an
   invalid document (here: one without _id and without a generated id) in front of the duplicate answers
   EOther.  Nothing is stored either way. *)
Theorem spec_insert_dup_needs_valid :
  exists t, a_step (OInsert RProofs.ex_c [[]; ex_d1] []) ns_a t ns_a /\
    In ex_d1 (assign_ids [[]; ex_d1] []) /\ assoc (object_id ex_d1) (sc_docs ns_sc) <> None /\
    t = T_err EOther /\ t <> T_err EDupKey.
Proof.
  exists (T_err EOther). split; [|split; [|split; [|split]]].
  - apply a_step_open_intro; [reflexivity|]. cbn [open_spec].
    assert (E : s_insert RProofs.ex_c (assign_ids [[]; ex_d1] []) ns_db = Err EOther) by (vm_compute; reflexivity).
    rewrite E. split; reflexivity.
  - vm_compute. right. left. reflexivity.
  - vm_compute. discriminate.
  - reflexivity.
  - intros E. vm_compute in E. discriminate E.
Qed.

(* Q03/C03: with a window the outcome of a bulk write is not determined: Delete with Limit(1) on an unsorted
   query may remove either document *)
Theorem spec_bulk_windowed_not_determined :
  exists a1 a2, a_step (ODelete (RProofs.ex_c, [QLimit 1])) ns_a (T_ok (TL [])) a1 /\
                a_step (ODelete (RProofs.ex_c, [QLimit 1])) ns_a (T_ok (TL [])) a2 /\
                assoc RProofs.ex_c (a_db a1) = Some (mkSC [(ex_id2, ex_d2)] []) /\
                assoc RProofs.ex_c (a_db a2) = Some (mkSC [(ex_id1, ex_d1)] []) /\ a1 <> a2.
Proof.
  exists (mkA [(RProofs.ex_c, mkSC [(ex_id2, ex_d2)] [])] false), (mkA [(RProofs.ex_c, mkSC [(ex_id1, ex_d1)] [])] false).
  split; [|split; [|split; [|split]]].
  - apply a_step_open_intro; [reflexivity|]. cbn [open_spec]. unfold bulk_q_spec.
    change (normalize_query (mk_query (RProofs.ex_c, [QLimit 1]))) with (Some (mkNQ RProofs.ex_c None 1 0 [])).
    cbv iota. unfold bulk_spec. change (assoc (nq_coll (mkNQ RProofs.ex_c None 1 0 [])) ns_db) with (Some ns_sc).
    cbv iota. exists [ex_d1]. split; [|split; [|split]].
    + exists [ex_d1; ex_d2]. split; [apply Permutation_refl|]. split; [intros H; contradiction H; reflexivity|].
      reflexivity.
    + intros d [<-|[]]. vm_compute. reflexivity.
    + constructor; [intros []|constructor].
    + vm_compute. split; reflexivity.
  - apply a_step_open_intro; [reflexivity|]. cbn [open_spec]. unfold bulk_q_spec.
    change (normalize_query (mk_query (RProofs.ex_c, [QLimit 1]))) with (Some (mkNQ RProofs.ex_c None 1 0 [])).
    cbv iota. unfold bulk_spec. change (assoc (nq_coll (mkNQ RProofs.ex_c None 1 0 [])) ns_db) with (Some ns_sc).
    cbv iota. exists [ex_d2]. split; [|split; [|split]].
    + exists [ex_d2; ex_d1]. split; [apply perm_swap|]. split; [intros H; contradiction H; reflexivity|].
      reflexivity.
    + intros d [<-|[]]. vm_compute. reflexivity.
    + constructor; [intros []|constructor].
    + vm_compute. split; reflexivity.
  - reflexivity.
  - reflexivity.
  - intros E. vm_compute in E. discriminate E.
Qed.

(* Q08/C08: "two answers differ only inside groups of ties" needs the one-regime premise.  Across regimes the
   comparison of values is not transitive: 2^53 (int) = 2^53 (float) = 2^53+1 (int, compared as a float) but
   2^53 < 2^53+1 as integers.  Both orders below are sorted, yet at position 1 they hold documents that do
   NOT tie. *)
Definition tw_i : obj := [(id_field, VStr (ex_uuid 48%N)); (RProofs.ex_f, VInt two53)].
Definition tw_j : obj := [(id_field, VStr (ex_uuid 97%N)); (RProofs.ex_f, VInt (two53 + 1))].
Definition tw_f : obj := [(id_field, VStr (ex_uuid 98%N)); (RProofs.ex_f, VFloat (of_Z two53))].
Definition tw_sc : scoll := mkSC [(ex_uuid 48%N, tw_i); (ex_uuid 97%N, tw_j); (ex_uuid 98%N, tw_f)] [].
Definition tw_a : astate := mkA [(RProofs.ex_c, tw_sc)] false.
Definition tw_q : qspec := (RProofs.ex_c, [QSort [(RProofs.ex_f, 1)]]).

Lemma tw_wf : wf_db (a_db tw_a).
Proof.
  cbn [a_db tw_a]. split.
  - cbn [map fst]. constructor; [intros []|constructor].
  - intros c sc [E|[]]. injection E as <- <-. unfold coll_ok, tw_sc. cbn [sc_docs sc_idx map fst].
    split; [reflexivity|]. split.
    { repeat constructor; cbn [In]; intros H; repeat (destruct H as [H|H]; [vm_compute in H; discriminate H|]);
        exact H. }
    split; [|split; [constructor | intros f []]].
    intros id d [E|[E|[E|[]]]]; injection E as <- <-; unfold doc_ok; repeat split; vm_compute; reflexivity.
Qed.

Theorem spec_sorted_ties_need_regime :
  exists t1 t2 res1 res2,
    a_step (OFindAll tw_q 2) tw_a t1 tw_a /\ a_step (OFindAll tw_q 2) tw_a t2 tw_a /\
    t1 = T_ok (T_of_docs [(RProofs.ex_f, 1)] 2 res1) /\ t2 = T_ok (T_of_docs [(RProofs.ex_f, 1)] 2 res2) /\
    t1 <> t2 /\
    ~ Forall2 (fun x y => docs_le_nil [(RProofs.ex_f, 1)] x y /\ docs_le_nil [(RProofs.ex_f, 1)] y x) res1 res2.
Proof.
  exists (T_ok (T_of_docs [(RProofs.ex_f, 1)] 2 [tw_f; tw_i; tw_j])),
         (T_ok (T_of_docs [(RProofs.ex_f, 1)] 2 [tw_i; tw_j; tw_f])), [tw_f; tw_i; tw_j], [tw_i; tw_j; tw_f].
  split; [|split; [|split; [|split; [|split]]]].
  - apply a_step_open_intro; [reflexivity|]. cbn [open_spec]. split; [|reflexivity].
    exists [tw_f; tw_i; tw_j]. split; [|reflexivity].
    exists [tw_f; tw_i; tw_j]. split; [|split; [|reflexivity]].
    + change (Permutation [tw_f; tw_i; tw_j] [tw_i; tw_j; tw_f]).
      apply (@Permutation_cons_app _ [tw_i; tw_j] [tw_i; tw_j] [] tw_f). rewrite app_nil_r. apply Permutation_refl.
    + intros _. repeat constructor; vm_compute; reflexivity.
  - apply a_step_open_intro; [reflexivity|]. cbn [open_spec]. split; [|reflexivity].
    exists [tw_i; tw_j; tw_f]. split; [|reflexivity].
    exists [tw_i; tw_j; tw_f]. split; [apply Permutation_refl|]. split; [|reflexivity].
    intros _. repeat constructor; vm_compute; reflexivity.
  - reflexivity.
  - reflexivity.
  - intros E. vm_compute in E. discriminate E.
  - intros F. inversion F as [|? ? ? ? _ F1]; subst. inversion F1 as [|? ? ? ? (_ & H) _]; subst.
    vm_compute in H. discriminate H.
Qed.

(* ========================================================================================== *)
Print Assumptions spec_closed.
Print Assumptions spec_close_reopen.
Print Assumptions spec_close_history_reopen.
Print Assumptions spec_frame.
Print Assumptions spec_names_kept.
Print Assumptions spec_catalog.
Print Assumptions spec_index_write_keeps_docs.
Print Assumptions spec_doc_write_keeps_indexes.
Print Assumptions spec_indexes.
Print Assumptions spec_find_all_exact.
Print Assumptions spec_find_all_exact_members.
Print Assumptions spec_find_all_sorted_window.
Print Assumptions spec_find_all_sorted_answers_tie.
Print Assumptions spec_reads_errors.
Print Assumptions spec_bulk_update_exact.
Print Assumptions spec_update_exact.
Print Assumptions spec_delete_exact.
Print Assumptions spec_bulk_errors.
Print Assumptions spec_insert_ok.
Print Assumptions spec_insert_dup.
Print Assumptions spec_insert_missing.
Print Assumptions spec_update_by_id.
Print Assumptions spec_ids.
Print Assumptions spec_total.
Print Assumptions spec_total_unsorted.
Print Assumptions spec_total_dom.
Print Assumptions spec_answer_shape.
Print Assumptions spec_find_all_order_not_determined.
Print Assumptions spec_find_first_not_determined.
Print Assumptions spec_exists_needs_limit_nonzero.
Print Assumptions spec_insert_dup_needs_valid.
Print Assumptions spec_bulk_windowed_not_determined.
Print Assumptions spec_sorted_ties_need_regime.
Print Assumptions spec_count_agrees.
Print Assumptions spec_exists_agrees.
Print Assumptions spec_find_first_agrees.
Print Assumptions spec_for_each_agrees.
Print Assumptions spec_find_all_agrees.
Print Assumptions bulk_q_spec_exact.
Print Assumptions bulk_outcome_of_exact.
Print Assumptions find_ok'_inhabited.
Print Assumptions open_spec_total.
Print Assumptions open_spec_frame.
Print Assumptions spec_create.
Print Assumptions spec_drop.
Print Assumptions spec_has_collection.
Print Assumptions spec_create_index.
Print Assumptions spec_drop_index.
Print Assumptions spec_has_index.
Print Assumptions spec_list_indexes.
Print Assumptions spec_find_by_id.
Print Assumptions find_ok'_sorted_tie.
Print Assumptions a_run_closed.
Print Assumptions ns_wf.
Print Assumptions tw_wf.
Print Assumptions spec_reads_agree.
Print Assumptions spec_export_import.

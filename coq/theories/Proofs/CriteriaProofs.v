(* Property C16: criteria satisfaction (Model/Criteria.v, [sat]) obeys Boolean algebra,
   In/Contains are the expected bounded quantifiers, absent fields read as nil, the ordering
   operators are mutually consistent, and compare-equal literals are interchangeable. *)
From Coq Require Import Lia ZArith Bool List.
Import ListNotations.
From Clover Require Import Criteria Domains ScanSpec BytesProofs CompareProofs.
Open Scope Z_scope.

(* ------------------------------------------------------------------ *)
(** * 0. Helpers *)

Lemma is_eq_true : forall c, is_eq c = true <-> c = Eq.
Proof. intros [ | | ]; simpl; split; intros H; try reflexivity; discriminate. Qed.

Lemma is_eq_opp : forall c, is_eq (CompOpp c) = is_eq c.
Proof. intros [ | | ]; reflexivity. Qed.

Lemma is_eq_compare_sym : forall a b, is_eq (compare a b) = is_eq (compare b a).
Proof. intros a b. rewrite (compare_antisym b a). apply is_eq_opp. Qed.

(* an absent field reads as nil *)
Lemma doc_has_false_get : forall f d, doc_has f d = false -> doc_get f d = VNil.
Proof.
  intros f d H. unfold doc_has in H. unfold doc_get.
  destruct (doc_lookup f d); [discriminate | reflexivity].
Qed.

Lemma doc_has_true_lookup : forall f d, doc_has f d = true -> doc_lookup f d = Some (doc_get f d).
Proof.
  intros f d H. unfold doc_has in H. unfold doc_get.
  destruct (doc_lookup f d); [reflexivity | discriminate].
Qed.

(* ------------------------------------------------------------------ *)
(** * 1. And / Or / Not are the Boolean connectives *)

Theorem sat_not : forall c d, sat (CNot c) d = negb (sat c d).
Proof. reflexivity. Qed.

Theorem sat_and : forall a b d, sat (CAnd a b) d = sat a d && sat b d.
Proof. reflexivity. Qed.

Theorem sat_or : forall a b d, sat (COr a b) d = sat a d || sat b d.
Proof. reflexivity. Qed.

(* ------------------------------------------------------------------ *)
(** * 2. De Morgan, double negation *)

Theorem sat_demorgan_and : forall a b d,
  sat (CNot (CAnd a b)) d = sat (COr (CNot a) (CNot b)) d.
Proof. intros a b d. simpl. apply negb_andb. Qed.

Theorem sat_demorgan_or : forall a b d,
  sat (CNot (COr a b)) d = sat (CAnd (CNot a) (CNot b)) d.
Proof. intros a b d. simpl. apply negb_orb. Qed.

Theorem sat_dneg : forall c d, sat (CNot (CNot c)) d = sat c d.
Proof. intros c d. simpl. apply negb_involutive. Qed.

(* ------------------------------------------------------------------ *)
(** * 3. Neq is the negation of Eq *)

Definition CNeq (f : bytes) (v : operand value) : ncrit := CNot (CCmp OEq f v).

Theorem sat_neq : forall f v d, sat (CNeq f v) d = negb (sat (CCmp OEq f v) d).
Proof. reflexivity. Qed.

Theorem sat_eq_absent : forall f v d, doc_has f d = false -> sat (CCmp OEq f v) d = false.
Proof. intros f v d H. simpl. unfold sat_cmp. rewrite H. reflexivity. Qed.

Theorem sat_neq_absent : forall f v d, doc_has f d = false -> sat (CNeq f v) d = true.
Proof. intros f v d H. rewrite sat_neq, (sat_eq_absent f v d H). reflexivity. Qed.

(* ------------------------------------------------------------------ *)
(** * 4. In: disjunction of equalities, absent-as-nil *)

Theorem sat_in_exists : forall f vs d,
  sat (CIn f vs) d = true <->
  exists v, In v vs /\ compare (field_or_value d v) (doc_get f d) = Eq.
Proof.
  intros f vs d. simpl. unfold sat_in. rewrite existsb_exists.
  split; intros [v [Hin Hv]]; exists v; split; try exact Hin; apply is_eq_true; exact Hv.
Qed.

Theorem sat_in_nil : forall f d, sat (CIn f []) d = false.
Proof. reflexivity. Qed.

Theorem sat_in_app : forall f l1 l2 d,
  sat (CIn f (l1 ++ l2)) d = sat (CIn f l1) d || sat (CIn f l2) d.
Proof. intros f l1 l2 d. simpl. unfold sat_in. apply existsb_app. Qed.

Theorem sat_in_singleton : forall f v d, doc_has f d = true ->
  sat (CIn f [v]) d = sat (CCmp OEq f v) d.
Proof.
  intros f v d H. simpl. unfold sat_in, sat_cmp. simpl. rewrite H, orb_false_r. simpl.
  apply is_eq_compare_sym.
Qed.

(* without the presence hypothesis the two differ: In treats absent as nil, Eq does not *)
Example sat_in_singleton_absent_differs :
  sat (CIn fa [OLit VNil]) [] = true /\ sat (CCmp OEq fa (OLit VNil)) [] = false.
Proof. split; vm_compute; reflexivity. Qed.

(* ------------------------------------------------------------------ *)
(** * 5. Contains: every operand occurs in the array *)

Theorem sat_contains_forall : forall f vs d l, doc_get f d = VArr l ->
  (sat (CContains f vs) d = true <->
   forall v, In v vs -> exists x, In x l /\ compare (field_or_value d v) x = Eq).
Proof.
  intros f vs d l Hl. simpl. unfold sat_contains. rewrite Hl. rewrite forallb_forall.
  split; intros H v Hin.
  - specialize (H v Hin). apply existsb_exists in H as [x [Hx Hc]].
    exists x. split; [exact Hx | apply is_eq_true; exact Hc].
  - destruct (H v Hin) as [x [Hx Hc]]. apply existsb_exists.
    exists x. split; [exact Hx | apply is_eq_true; exact Hc].
Qed.

Theorem sat_contains_nonarray : forall f vs d, (forall l, doc_get f d <> VArr l) ->
  sat (CContains f vs) d = false.
Proof.
  intros f vs d H. simpl. unfold sat_contains.
  destruct (doc_get f d) eqn:E; try reflexivity. exfalso. apply (H l). reflexivity.
Qed.

Theorem sat_contains_app : forall f l1 l2 d,
  sat (CContains f (l1 ++ l2)) d = sat (CContains f l1) d && sat (CContains f l2) d.
Proof.
  intros f l1 l2 d. simpl. unfold sat_contains.
  destruct (doc_get f d); try reflexivity. apply forallb_app.
Qed.

Theorem sat_contains_nil : forall f d l, doc_get f d = VArr l -> sat (CContains f []) d = true.
Proof. intros f d l H. simpl. unfold sat_contains. rewrite H. reflexivity. Qed.

(* ------------------------------------------------------------------ *)
(** * 6. Exists / NotExists *)

Theorem sat_exists : forall f d, sat (CExists f) d = doc_has f d.
Proof. reflexivity. Qed.

Theorem sat_notexists : forall f d, sat (CNot (CExists f)) d = negb (doc_has f d).
Proof. reflexivity. Qed.

(* ------------------------------------------------------------------ *)
(** * 7. Ordering comparisons treat an absent field as nil *)

Lemma sat_cmp_ord : forall o f v d, o <> OEq ->
  sat (CCmp o f v) d = cmp_holds o (compare (doc_get f d) (field_or_value d v)).
Proof. intros o f v d Ho. destruct o; try reflexivity. contradiction Ho. reflexivity. Qed.

Theorem sat_cmp_absent : forall o f v d, o <> OEq -> doc_has f d = false ->
  sat (CCmp o f v) d = cmp_holds o (compare VNil (field_or_value d v)).
Proof.
  intros o f v d Ho H. rewrite (sat_cmp_ord o f v d Ho), (doc_has_false_get f d H). reflexivity.
Qed.

(* ------------------------------------------------------------------ *)
(** * 8. The four ordering operators are mutually consistent *)

Theorem sat_lt_ge : forall f v d, sat (CCmp OLt f v) d = negb (sat (CCmp OGtEq f v) d).
Proof. intros f v d. simpl. unfold is_ge. symmetry. apply negb_involutive. Qed.

Theorem sat_gt_le : forall f v d, sat (CCmp OGt f v) d = negb (sat (CCmp OLtEq f v) d).
Proof. intros f v d. simpl. unfold is_le. symmetry. apply negb_involutive. Qed.

Theorem sat_le_lt_or_eq : forall f v d,
  sat (CCmp OLtEq f v) d =
  sat (CCmp OLt f v) d || is_eq (compare (doc_get f d) (field_or_value d v)).
Proof. intros f v d. simpl. destruct (compare (doc_get f d) (field_or_value d v)); reflexivity. Qed.

Theorem sat_ge_gt_or_eq : forall f v d,
  sat (CCmp OGtEq f v) d =
  sat (CCmp OGt f v) d || is_eq (compare (doc_get f d) (field_or_value d v)).
Proof. intros f v d. simpl. destruct (compare (doc_get f d) (field_or_value d v)); reflexivity. Qed.

(* ------------------------------------------------------------------ *)
(** * 9. Literal normalisation, Go level *)

Theorem normalize_int_kinds : forall b1 b2 z, normalize (GInt b1 z) = normalize (GInt b2 z).
Proof. reflexivity. Qed.

Theorem normalize_uint_kinds : forall b1 b2 z, normalize (GUint b1 z) = normalize (GUint b2 z).
Proof. reflexivity. Qed.

Theorem normalize_float32_64 : forall b, normalize (GFloat32 b) = normalize (GFloat64 b).
Proof. reflexivity. Qed.

Theorem norm_crit_int_kinds : forall o f b1 b2 z,
  norm_crit (CCmp o f (OLit (GInt b1 z))) = norm_crit (CCmp o f (OLit (GInt b2 z))).
Proof. reflexivity. Qed.

Theorem norm_crit_uint_kinds : forall o f b1 b2 z,
  norm_crit (CCmp o f (OLit (GUint b1 z))) = norm_crit (CCmp o f (OLit (GUint b2 z))).
Proof. reflexivity. Qed.

Theorem norm_crit_float32_64 : forall o f b,
  norm_crit (CCmp o f (OLit (GFloat32 b))) = norm_crit (CCmp o f (OLit (GFloat64 b))).
Proof. reflexivity. Qed.

(* ------------------------------------------------------------------ *)
(** * 10. Literal normalisation, value level *)

(* x is not a string starting with '$' (which field_or_value reads as a field reference) *)
Definition lit_plain (x : value) : bool :=
  match x with
  | VStr (36%N :: _) => false
  | _ => true
  end.

Lemma field_or_value_plain : forall d x, lit_plain x = true -> field_or_value d (OLit x) = x.
Proof.
  intros d x H. destruct x as [ | | | | s | | | | ]; try reflexivity.
  destruct s as [|c t]; [reflexivity|].
  simpl in H. simpl.
  destruct c as [|p]; [reflexivity|].
  repeat (destruct p as [p|p|]; try reflexivity); discriminate H.
Qed.

(* compare-equal literals compare alike against any third value of the domain *)
Lemma compare_literal_cong : forall g x y, cmp_dom3 g x y = true -> compare x y = Eq ->
  compare g x = compare g y.
Proof.
  intros g x y Hd He.
  pose proof (compare_eq_cong x y g (cmp_dom3_rot g x y Hd) He) as H.
  rewrite (compare_antisym x g), (compare_antisym y g). f_equal. exact H.
Qed.

Theorem sat_cmp_literal_cong : forall o f x y d,
  lit_plain x = true -> lit_plain y = true ->
  cmp_dom3 (doc_get f d) x y = true -> compare x y = Eq ->
  sat (CCmp o f (OLit x)) d = sat (CCmp o f (OLit y)) d.
Proof.
  intros o f x y d Px Py Hd He. cbn [sat]. unfold sat_cmp.
  rewrite (field_or_value_plain d x Px), (field_or_value_plain d y Py).
  rewrite (compare_literal_cong _ x y Hd He). reflexivity.
Qed.

Theorem sat_in_literal_cong : forall f pre post x y d,
  lit_plain x = true -> lit_plain y = true ->
  cmp_dom3 (doc_get f d) x y = true -> compare x y = Eq ->
  sat (CIn f (pre ++ OLit x :: post)) d = sat (CIn f (pre ++ OLit y :: post)) d.
Proof.
  intros f pre post x y d Px Py Hd He. cbn [sat]. unfold sat_in.
  rewrite !existsb_app. cbn [existsb].
  rewrite (field_or_value_plain d x Px), (field_or_value_plain d y Py).
  rewrite (is_eq_compare_sym x), (is_eq_compare_sym y).
  rewrite (compare_literal_cong _ x y Hd He). reflexivity.
Qed.

Theorem sat_contains_literal_cong : forall f pre post x y d l,
  lit_plain x = true -> lit_plain y = true -> doc_get f d = VArr l ->
  (forall e, In e l -> cmp_dom3 e x y = true) -> compare x y = Eq ->
  sat (CContains f (pre ++ OLit x :: post)) d = sat (CContains f (pre ++ OLit y :: post)) d.
Proof.
  intros f pre post x y d l Px Py Hl Hd He. cbn [sat]. unfold sat_contains. rewrite Hl.
  rewrite !forallb_app. cbn [forallb].
  rewrite (field_or_value_plain d x Px), (field_or_value_plain d y Py).
  f_equal. f_equal. clear Hl.
  induction l as [|e l IH]; [reflexivity|]. cbn [existsb].
  rewrite IH by (intros e' He'; apply Hd; right; exact He').
  rewrite (is_eq_compare_sym x e), (is_eq_compare_sym y e).
  rewrite (compare_literal_cong e x y (Hd e (or_introl eq_refl)) He). reflexivity.
Qed.

(* The [lit_plain] hypotheses are in fact redundant: a '$' string is compare-equal only to itself
   (strings compare bytewise), so the congruence holds for arbitrary literal operands. *)
Lemma compare_nonplain_eq_inv : forall x y, lit_plain x = false -> compare x y = Eq -> y = x.
Proof.
  intros x y Hx He. destruct x as [ | | | | s | | | | ]; try discriminate Hx.
  destruct y as [ | | | | s' | | | | ]; try discriminate He.
  rewrite compare_string_bytewise in He. apply lex_eq_iff in He. subst. reflexivity.
Qed.

Theorem sat_cmp_literal_cong_any : forall o f x y d,
  cmp_dom3 (doc_get f d) x y = true -> compare x y = Eq ->
  sat (CCmp o f (OLit x)) d = sat (CCmp o f (OLit y)) d.
Proof.
  intros o f x y d Hd He.
  destruct (lit_plain x) eqn:Px.
  - destruct (lit_plain y) eqn:Py.
    + apply sat_cmp_literal_cong; assumption.
    + assert (Hyx : compare y x = Eq) by (rewrite compare_antisym, He; reflexivity).
      rewrite (compare_nonplain_eq_inv y x Py Hyx). reflexivity.
  - rewrite (compare_nonplain_eq_inv x y Px He). reflexivity.
Qed.

(* Concrete instances of the congruence: *)
Definition doc_a5 : obj := [(fa, VInt 5)].
Definition five_f : value := VFloat 4617315517961601024.   (* 5.0 *)

Example lit_int_uint_eq : compare (VInt 5) (VUint 5) = Eq.
Proof. vm_compute. reflexivity. Qed.
Example lit_int_float_eq : compare (VInt 5) five_f = Eq.
Proof. vm_compute. reflexivity. Qed.
Example lit_dom_5 : cmp_dom3 (doc_get fa doc_a5) (VInt 5) (VUint 5) = true /\
                    cmp_dom3 (doc_get fa doc_a5) (VInt 5) five_f = true.
Proof. split; vm_compute; reflexivity. Qed.

Example lit_eq_all_kinds :
  sat (CCmp OEq fa (OLit (VInt 5))) doc_a5 = true /\
  sat (CCmp OEq fa (OLit (VUint 5))) doc_a5 = true /\
  sat (CCmp OEq fa (OLit five_f)) doc_a5 = true.
Proof. repeat split; vm_compute; reflexivity. Qed.

Example lit_ord_all_kinds :
  map (fun o => map (fun x => sat (CCmp o fa (OLit x)) doc_a5) [VInt 5; VUint 5; five_f])
      [OEq; OGt; OGtEq; OLt; OLtEq]
  = [[true; true; true]; [false; false; false]; [true; true; true];
     [false; false; false]; [true; true; true]].
Proof. vm_compute. reflexivity. Qed.

Example lit_in_all_kinds :
  map (fun x => sat (CIn fa [OLit (VInt 7); OLit x; OLit (VStr fb)]) doc_a5)
      [VInt 5; VUint 5; five_f] = [true; true; true].
Proof. vm_compute. reflexivity. Qed.

(* the same via the general theorem *)
Example lit_cong_instance : forall o,
  sat (CCmp o fa (OLit (VInt 5))) doc_a5 = sat (CCmp o fa (OLit five_f)) doc_a5.
Proof.
  intros o. apply sat_cmp_literal_cong; try reflexivity; vm_compute; reflexivity.
Qed.

(* ------------------------------------------------------------------ *)
(** * 11. Field operands *)

Theorem field_or_value_ref : forall f d, field_or_value d (ORef f) = doc_get f d.
Proof. reflexivity. Qed.

Theorem field_or_value_dollar : forall f d,
  field_or_value d (OLit (VStr (36%N :: f))) = doc_get (trim_dollars f) d.
Proof. reflexivity. Qed.

Theorem sat_cmp_ref_absent : forall o f g d, o <> OEq -> doc_has g d = false ->
  sat (CCmp o f (ORef g)) d = cmp_holds o (compare (doc_get f d) VNil).
Proof.
  intros o f g d Ho H. rewrite (sat_cmp_ord o f (ORef g) d Ho). simpl.
  rewrite (doc_has_false_get g d H). reflexivity.
Qed.

(* a "$name" string literal and a reference to the trimmed name are the same operand *)
Theorem sat_cmp_dollar_ref : forall o f g d,
  sat (CCmp o f (OLit (VStr (36%N :: g)))) d = sat (CCmp o f (ORef (trim_dollars g))) d.
Proof. reflexivity. Qed.

(* ------------------------------------------------------------------ *)

(* 1-2 *)
Print Assumptions sat_not.
Print Assumptions sat_and.
Print Assumptions sat_or.
Print Assumptions sat_demorgan_and.
Print Assumptions sat_demorgan_or.
Print Assumptions sat_dneg.
(* 3 *)
Print Assumptions sat_neq.
Print Assumptions sat_neq_absent.
(* 4 *)
Print Assumptions sat_in_exists.
Print Assumptions sat_in_singleton.
Print Assumptions sat_in_app.
Print Assumptions sat_in_nil.
(* 5 *)
Print Assumptions sat_contains_forall.
Print Assumptions sat_contains_nonarray.
Print Assumptions sat_contains_app.
(* 6 *)
Print Assumptions sat_exists.
Print Assumptions sat_notexists.
(* 7 *)
Print Assumptions doc_has_false_get.
Print Assumptions sat_cmp_absent.
Print Assumptions sat_eq_absent.
(* 8 *)
Print Assumptions sat_lt_ge.
Print Assumptions sat_gt_le.
Print Assumptions sat_le_lt_or_eq.
(* 9 *)
Print Assumptions normalize_int_kinds.
Print Assumptions normalize_uint_kinds.
Print Assumptions normalize_float32_64.
Print Assumptions norm_crit_int_kinds.
(* 10 *)
Print Assumptions sat_cmp_literal_cong.
Print Assumptions sat_in_literal_cong.
Print Assumptions sat_contains_literal_cong.
Print Assumptions sat_cmp_literal_cong_any.
Print Assumptions lit_eq_all_kinds.
Print Assumptions lit_ord_all_kinds.
Print Assumptions lit_in_all_kinds.
(* 11 *)
Print Assumptions field_or_value_ref.
Print Assumptions field_or_value_dollar.
Print Assumptions sat_cmp_ref_absent.

(* Index independence at the level of histories: proofs of the statements of Spec/IndexIndep.v. *)
From Coq Require Import Lia ZArith Bool List Permutation Sorted.
Import ListNotations.
From Clover Require Import IndexIndep HistDom HistoryProofs RProofs WriteProofs BulkProofs QueryProofs OpProofs
  OpQueryProofs TxProofs SortProofs BytesProofs KeyProofs KVProofs WireProofs.
Open Scope Z_scope.

(* ------------------------------------------------------------------------------------------ *)
(* 1. docs_eq: an equivalence, and a congruence for the list surgery of the specification      *)
(* ------------------------------------------------------------------------------------------ *)
Lemma docs_eq_refl : forall db, docs_eq db db.
Proof. intros db. split; reflexivity. Qed.

Lemma docs_eq_sym : forall a b, docs_eq a b -> docs_eq b a.
Proof. intros a b [H1 H2]. split; [symmetry; exact H1 | intros c; symmetry; apply H2]. Qed.

Lemma docs_eq_trans : forall a b c, docs_eq a b -> docs_eq b c -> docs_eq a c.
Proof.
  intros a b c [H1 H2] [H3 H4]. split; [congruence|]. intros k. rewrite H2. apply H4.
Qed.

Lemma docs_eq_assoc : forall db1 db2 c, docs_eq db1 db2 ->
  match assoc c db1, assoc c db2 with
  | Some a, Some b => sc_docs a = sc_docs b
  | None, None => True
  | _, _ => False
  end.
Proof.
  intros db1 db2 c [_ H]. specialize (H c).
  destruct (assoc c db1), (assoc c db2); cbn [option_map] in H; try discriminate H; [|exact I].
  injection H as H. exact H.
Qed.

Lemma bytes_dec : forall a b : bytes, {a = b} + {a <> b}.
Proof.
  intros a b. destruct (beqb a b) eqn:E.
  - left. apply beqb_true_iff. exact E.
  - right. apply beqb_false_iff. exact E.
Qed.

Lemma assoc_set_keys_present : forall (A : Type) k (a a0 : A) l,
  assoc k l = Some a0 -> map fst (assoc_set k a l) = map fst l.
Proof.
  intros A k a a0 l. induction l as [|[k1 a1] t IH]; cbn [assoc assoc_set]; intros H; [discriminate H|].
  destruct (beqb k k1) eqn:E.
  - apply beqb_true_iff in E. subst k1. reflexivity.
  - cbn [map fst]. rewrite (IH H). reflexivity.
Qed.

Lemma assoc_del_keys : forall (A : Type) k (l : list (bytes * A)),
  map fst (assoc_del k l) = filter (fun k' => negb (beqb k k')) (map fst l).
Proof.
  intros A k l. induction l as [|[k1 a1] t IH]; cbn [assoc_del map fst filter]; [reflexivity|].
  destruct (beqb k k1); cbn [negb map fst]; rewrite IH; reflexivity.
Qed.

Lemma docs_eq_set : forall db1 db2 c a b a0 b0,
  docs_eq db1 db2 -> assoc c db1 = Some a0 -> assoc c db2 = Some b0 -> sc_docs a = sc_docs b ->
  docs_eq (assoc_set c a db1) (assoc_set c b db2).
Proof.
  intros db1 db2 c a b a0 b0 [H1 H2] A1 A2 E. split.
  - rewrite (assoc_set_keys_present _ c a a0 db1 A1), (assoc_set_keys_present _ c b b0 db2 A2). exact H1.
  - intros k. destruct (bytes_dec c k) as [->|Hne].
    + rewrite !assoc_set_same. cbn [option_map]. rewrite E. reflexivity.
    + rewrite !(assoc_set_other c k) by exact Hne. apply H2.
Qed.

Lemma docs_eq_del : forall db1 db2 c, docs_eq db1 db2 -> docs_eq (assoc_del c db1) (assoc_del c db2).
Proof.
  intros db1 db2 c [H1 H2]. split.
  - rewrite !assoc_del_keys, H1. reflexivity.
  - intros k. destruct (bytes_dec c k) as [->|Hne].
    + rewrite !assoc_del_same. reflexivity.
    + rewrite !(assoc_del_other c k) by exact Hne. apply H2.
Qed.

Lemma docs_eq_app : forall db1 db2 c a b,
  docs_eq db1 db2 -> assoc c db1 = None -> assoc c db2 = None -> sc_docs a = sc_docs b ->
  docs_eq (db1 ++ [(c, a)]) (db2 ++ [(c, b)]).
Proof.
  intros db1 db2 c a b [H1 H2] A1 A2 E. split.
  - rewrite !map_app, H1. reflexivity.
  - intros k. destruct (bytes_dec c k) as [<-|Hne].
    + rewrite !assoc_app_none by assumption. cbn [option_map]. rewrite E. reflexivity.
    + rewrite !(assoc_app_other c k) by exact Hne. apply H2.
Qed.

(* two outcomes of a specification-level operation: the same error, or databases with the same documents *)
Definition res_docs_eq (r1 r2 : res sdb) : Prop :=
  match r1, r2 with
  | Ok a, Ok b => docs_eq a b
  | Err e1, Err e2 => e1 = e2
  | _, _ => False
  end.

Lemma s_create_docs : forall c db1 db2, docs_eq db1 db2 -> res_docs_eq (s_create c db1) (s_create c db2).
Proof.
  intros c db1 db2 D. pose proof (docs_eq_assoc db1 db2 c D) as H. unfold s_create.
  destruct (assoc c db1) eqn:A1, (assoc c db2) eqn:A2; try contradiction; cbn [res_docs_eq]; [reflexivity|].
  apply docs_eq_app; try assumption. reflexivity.
Qed.

Lemma s_drop_docs : forall c db1 db2, docs_eq db1 db2 -> res_docs_eq (s_drop c db1) (s_drop c db2).
Proof.
  intros c db1 db2 D. pose proof (docs_eq_assoc db1 db2 c D) as H. unfold s_drop.
  destruct (assoc c db1) eqn:A1, (assoc c db2) eqn:A2; try contradiction; cbn [res_docs_eq]; [|reflexivity].
  apply docs_eq_del. exact D.
Qed.

Lemma s_insert_docs_eq' : forall c docs db1 db2, docs_eq db1 db2 ->
  res_docs_eq (s_insert c docs db1) (s_insert c docs db2).
Proof.
  intros c docs db1 db2 D. pose proof (docs_eq_assoc db1 db2 c D) as H. unfold s_insert.
  destruct (assoc c db1) as [a|] eqn:A1, (assoc c db2) as [b|] eqn:A2; try contradiction;
    cbn [res_docs_eq]; [|reflexivity].
  rewrite H. destruct (s_insert_docs docs (sc_docs b)) as [ds|e]; cbn [res_docs_eq]; [|reflexivity].
  apply (docs_eq_set db1 db2 c _ _ a b D A1 A2). reflexivity.
Qed.

Lemma s_delete_by_id_docs : forall c id db1 db2, docs_eq db1 db2 ->
  res_docs_eq (s_delete_by_id c id db1) (s_delete_by_id c id db2).
Proof.
  intros c id db1 db2 D. pose proof (docs_eq_assoc db1 db2 c D) as H. unfold s_delete_by_id.
  destruct (assoc c db1) as [a|] eqn:A1, (assoc c db2) as [b|] eqn:A2; try contradiction;
    cbn [res_docs_eq]; [|reflexivity].
  apply (docs_eq_set db1 db2 c _ _ a b D A1 A2). cbn [sc_docs]. rewrite H. reflexivity.
Qed.

Lemma s_update_by_id_docs : forall c id u db1 db2, docs_eq db1 db2 ->
  res_docs_eq (s_update_by_id c id u db1) (s_update_by_id c id u db2).
Proof.
  intros c id u db1 db2 D. pose proof (docs_eq_assoc db1 db2 c D) as H. unfold s_update_by_id.
  destruct (assoc c db1) as [a|] eqn:A1, (assoc c db2) as [b|] eqn:A2; try contradiction;
    cbn [res_docs_eq]; [|reflexivity].
  rewrite H. destruct (assoc id (sc_docs b)) as [d|]; cbn [res_docs_eq]; [|reflexivity].
  destruct (apply_updater u d) as [d'|]; cbn [res_docs_eq]; [|reflexivity].
  destruct (negb (beqb (object_id d') id)); cbn [res_docs_eq]; [reflexivity|].
  destruct (validate d'); cbn [res_docs_eq]; [|reflexivity].
  apply (docs_eq_set db1 db2 c _ _ a b D A1 A2). reflexivity.
Qed.

Lemma s_create_index_docs : forall c f db db', s_create_index c f db = Ok db' -> docs_eq db db'.
Proof.
  intros c f db db' H. unfold s_create_index in H.
  destruct (assoc c db) as [sc|] eqn:A; [|discriminate H].
  destruct (has_field f (sc_idx sc)); [discriminate H|]. injection H as <-.
  rewrite <- (assoc_set_id _ c sc db A) at 1.
  apply (docs_eq_set db db c _ _ sc sc (docs_eq_refl db) A A). reflexivity.
Qed.

Lemma s_drop_index_docs : forall c f db db', s_drop_index c f db = Ok db' -> docs_eq db db'.
Proof.
  intros c f db db' H. unfold s_drop_index in H.
  destruct (assoc c db) as [sc|] eqn:A; [|discriminate H].
  destruct (last_index_of f (sc_idx sc) 0 None); [|discriminate H]. injection H as <-.
  rewrite <- (assoc_set_id _ c sc db A) at 1.
  apply (docs_eq_set db db c _ _ sc sc (docs_eq_refl db) A A). reflexivity.
Qed.

(* ------------------------------------------------------------------------------------------ *)
(* 2. The bulk rewrite along two permutations of one duplicate-free selection                   *)
(* ------------------------------------------------------------------------------------------ *)
Definition upd_bad (u : updater) (d : obj) : bool :=
  match apply_updater u d with
  | None => false
  | Some d' => negb (beqb (object_id d') (object_id d)) || negb (validate d')
  end.

Definition apply1 (u : updater) (docs : list (bytes * obj)) (d : obj) : list (bytes * obj) :=
  match apply_updater u d with
  | None => assoc_del (object_id d) docs
  | Some d' => assoc_set (object_id d) d' docs
  end.

(* the only error of the rewrite is EOther, and it depends on the selection as a set *)
Lemma s_apply_sel_closed : forall u sel docs,
  s_apply_sel u sel docs =
  if existsb (upd_bad u) sel then Err EOther else Ok (fold_left (apply1 u) sel docs).
Proof.
  intros u sel. induction sel as [|d t IH]; intros docs; [reflexivity|].
  cbn [s_apply_sel existsb fold_left]. unfold upd_bad at 1, apply1 at 2.
  destruct (apply_updater u d) as [d'|].
  - destruct (negb (beqb (object_id d') (object_id d))); cbn [orb]; [reflexivity|].
    destruct (validate d'); cbn [negb orb]; [apply IH | reflexivity].
  - cbn [orb]. apply IH.
Qed.

Lemma existsb_perm : forall (A : Type) (f : A -> bool) l1 l2, Permutation l1 l2 -> existsb f l1 = existsb f l2.
Proof.
  intros A f l1 l2 P. induction P; cbn [existsb]; try congruence.
  destruct (f x), (f y); reflexivity.
Qed.

Lemma assoc_set_set_comm : forall (A : Type) a b (x y : A) l, a <> b -> assoc a l <> None ->
  assoc_set a x (assoc_set b y l) = assoc_set b y (assoc_set a x l).
Proof.
  intros A a b x y l Hne. induction l as [|[k v] t IH]; intros Hp; [contradiction Hp; reflexivity|].
  cbn [assoc] in Hp. cbn [assoc_set].
  destruct (beqb a k) eqn:Ea, (beqb b k) eqn:Eb.
  - apply beqb_true_iff in Ea, Eb. congruence.
  - cbn [assoc_set]. rewrite Ea.
    assert (beqb b a = false) as Eba by (apply beqb_false_iff; congruence). rewrite Eba. reflexivity.
  - cbn [assoc_set]. rewrite Eb.
    assert (beqb a b = false) as Eab by (apply beqb_false_iff; congruence). rewrite Eab. reflexivity.
  - cbn [assoc_set]. rewrite Ea, Eb. rewrite (IH Hp). reflexivity.
Qed.

Lemma assoc_del_del_comm : forall (A : Type) a b (l : list (bytes * A)),
  assoc_del a (assoc_del b l) = assoc_del b (assoc_del a l).
Proof.
  intros A a b l. induction l as [|[k v] t IH]; [reflexivity|]. cbn [assoc_del].
  destruct (beqb a k) eqn:Ea, (beqb b k) eqn:Eb; cbn [assoc_del]; rewrite ?Ea, ?Eb, IH; reflexivity.
Qed.

Lemma assoc_set_del_comm : forall (A : Type) a b (x : A) l, a <> b ->
  assoc_set a x (assoc_del b l) = assoc_del b (assoc_set a x l).
Proof.
  intros A a b x l Hne.
  assert (beqb b a = false) as Eba by (apply beqb_false_iff; congruence).
  induction l as [|[k v] t IH]; cbn [assoc_del assoc_set].
  - rewrite Eba. reflexivity.
  - destruct (beqb a k) eqn:Ea, (beqb b k) eqn:Eb; cbn [assoc_del assoc_set]; rewrite ?Ea, ?Eb, ?Eba.
    + apply beqb_true_iff in Ea, Eb. congruence.
    + reflexivity.
    + exact IH.
    + rewrite IH. reflexivity.
Qed.

Lemma apply1_other : forall u docs d id, id <> object_id d -> assoc id (apply1 u docs d) = assoc id docs.
Proof.
  intros u docs d id Hne. unfold apply1. destruct (apply_updater u d).
  - apply assoc_set_other. congruence.
  - apply assoc_del_other. congruence.
Qed.

Lemma apply1_comm : forall u docs x y, object_id x <> object_id y ->
  assoc (object_id x) docs <> None -> assoc (object_id y) docs <> None ->
  apply1 u (apply1 u docs y) x = apply1 u (apply1 u docs x) y.
Proof.
  intros u docs x y Hne Px Py. unfold apply1.
  destruct (apply_updater u x) as [x'|], (apply_updater u y) as [y'|].
  - apply assoc_set_set_comm; assumption.
  - apply assoc_set_del_comm. exact Hne.
  - symmetry. apply assoc_set_del_comm. congruence.
  - apply assoc_del_del_comm.
Qed.

Lemma fold_apply1_perm : forall u sel1 sel2, Permutation sel1 sel2 -> forall docs,
  NoDup (map object_id sel1) -> (forall d, In d sel1 -> assoc (object_id d) docs <> None) ->
  fold_left (apply1 u) sel1 docs = fold_left (apply1 u) sel2 docs.
Proof.
  intros u sel1 sel2 P. induction P as [|x l l' P IH|x y l|l l' l'' P1 IH1 P2 IH2]; intros docs ND Pr.
  - reflexivity.
  - cbn [fold_left]. cbn [map] in ND. inversion ND as [|? ? Hn ND']; subst. apply IH; [exact ND'|].
    intros d Hd. rewrite apply1_other; [apply Pr; right; exact Hd|].
    intros E. apply Hn. rewrite <- E. apply in_map. exact Hd.
  - cbn [fold_left]. cbn [map] in ND. inversion ND as [|? ? Hn ND']; subst.
    rewrite (apply1_comm u docs x y); [reflexivity| | |].
    + intros E. apply Hn. left. exact E.
    + apply Pr. right. left. reflexivity.
    + apply Pr. left. reflexivity.
  - rewrite (IH1 docs ND Pr). apply IH2.
    + apply (Permutation_NoDup (Permutation_map object_id P1)). exact ND.
    + intros d Hd. apply Pr. apply (Permutation_in d (Permutation_sym P1)). exact Hd.
Qed.

Theorem s_apply_sel_perm : forall u sel1 sel2 docs, Permutation sel1 sel2 ->
  NoDup (map object_id sel1) -> (forall d, In d sel1 -> assoc (object_id d) docs <> None) ->
  s_apply_sel u sel1 docs = s_apply_sel u sel2 docs.
Proof.
  intros u sel1 sel2 docs P ND Pr. rewrite !s_apply_sel_closed.
  rewrite (existsb_perm _ (upd_bad u) sel1 sel2 P).
  rewrite (fold_apply1_perm u sel1 sel2 P docs ND Pr). reflexivity.
Qed.

(* ------------------------------------------------------------------------------------------ *)
(* 3. ListCollections: the names of the abstract database, each once                            *)
(* ------------------------------------------------------------------------------------------ *)
Lemma runs_list_coll_loop : forall cur acc v cm,
  runs (list_coll_loop cur acc) v cm
       (Ok (rev acc ++ map (fun e => drop_prefix coll_prefix (fst e)) (take_prefix coll_prefix cur))) v cm.
Proof.
  induction cur as [|e t IH]; intros acc v cm.
  - cbn [list_coll_loop take_prefix map]. rewrite app_nil_r. apply runs_ret.
  - cbn [list_coll_loop take_prefix]. eapply runs_bind; [apply runs_cursor_item|].
    destruct (is_prefix coll_prefix (fst e)).
    + cbn [map]. specialize (IH (drop_prefix coll_prefix (fst e) :: acc) v cm).
      cbn [rev] in IH. rewrite <- app_assoc in IH. exact IH.
    + cbn [map]. rewrite app_nil_r. apply runs_ret.
Qed.

Lemma NoDup_map_inj_on : forall (A B : Type) (f : A -> B) l,
  (forall x y, In x l -> In y l -> f x = f y -> x = y) -> NoDup l -> NoDup (map f l).
Proof.
  intros A B f l. induction l as [|a t IH]; intros Hi ND; [constructor|].
  inversion ND as [|? ? Hn ND']; subst. cbn [map]. constructor.
  - intros Hin. apply in_map_iff in Hin. destruct Hin as (x & E & Hx).
    assert (x = a) by (apply Hi; [right; exact Hx | left; reflexivity | exact E]). subst x. contradiction.
  - apply IH; [|exact ND']. intros x y Hx Hy. apply Hi; right; assumption.
Qed.

Lemma list_collections_refines : forall db s, wf_db db -> R db s ->
  exists l, o_res (with_tx list_collections_tx None (mkDb s false)) = Ok l /\
            o_db (with_tx list_collections_tx None (mkDb s false)) = mkDb s false /\
            NoDup l /\ (forall c, In c l <-> assoc c db <> None).
Proof.
  intros db s W HR.
  pose (P := fun e : bytes * sval => is_prefix coll_prefix (fst e)).
  exists (map (fun e => drop_prefix coll_prefix (fst e)) (filter P s)).
  assert (Hrun : runs list_collections_tx s None
                   (Ok (map (fun e => drop_prefix coll_prefix (fst e)) (filter P s))) s None).
  { unfold list_collections_tx. eapply runs_bind; [apply runs_tx_cursor|]. cbn [cursor_seek].
    unfold P. rewrite <- (prefix_scan_spec _ _ (R_sorted db s HR)).
    exact (runs_list_coll_loop (seek_fwd coll_prefix s) [] s None). }
  destruct (runs_with_tx _ _ _ _ _ _ Hrun) as (Er & Ed). rewrite Er, Ed.
  split; [reflexivity|]. split; [reflexivity|].
  assert (Hent : forall e, In e (filter P s) -> exists c sc, assoc c db = Some sc /\
             e = (coll_key c, SMeta (Z.of_nat (length (sc_docs sc))) (sc_idx sc))).
  { intros e He. apply filter_In in He. destruct He as (He & Hp).
    exact (R_coll_prefix_entries db s HR W e He Hp). }
  split.
  - apply NoDup_map_inj_on.
    + intros x y Hx Hy E. destruct (Hent x Hx) as (c1 & sc1 & A1 & ->).
      destruct (Hent y Hy) as (c2 & sc2 & A2 & ->). cbn [fst] in E.
      rewrite !drop_coll_prefix in E. subst c2. rewrite A1 in A2. injection A2 as <-. reflexivity.
    + apply NoDup_filter. apply (NoDup_map_inv fst). apply kv_sorted_NoDup. exact (R_sorted db s HR).
  - intros c. split.
    + intros Hin. apply in_map_iff in Hin. destruct Hin as (e & E & He).
      destruct (Hent e He) as (c1 & sc1 & A1 & ->). cbn [fst] in E. rewrite drop_coll_prefix in E.
      subst c1. rewrite A1. discriminate.
    + intros Hc. destruct (assoc c db) as [sc|] eqn:A; [|contradiction Hc; reflexivity].
      destruct (R_coll_entry_in db s c sc HR A) as (Hin & Hp).
      apply in_map_iff. exists (coll_key c, SMeta (Z.of_nat (length (sc_docs sc))) (sc_idx sc)).
      cbn [fst]. split; [apply drop_coll_prefix|]. apply filter_In. split; [exact Hin | exact Hp].
Qed.

Lemma bleb_total : forall x y, bleb x y = true \/ bleb y x = true.
Proof.
  intros x y. unfold bleb. rewrite (lex_antisym x y). destruct (lex x y); cbn [CompOpp]; auto.
Qed.

Lemma bleb_trans : forall x y z, bleb x y = true -> bleb y z = true -> bleb x z = true.
Proof.
  intros x y z. unfold bleb. destruct (lex x y) eqn:E1; try discriminate; intros _;
    destruct (lex y z) eqn:E2; try discriminate; intros _.
  - apply lex_eq_iff in E1. subst y. rewrite E2. reflexivity.
  - apply lex_eq_iff in E1. subst y. rewrite E2. reflexivity.
  - apply lex_eq_iff in E2. subst z. rewrite E1. reflexivity.
  - rewrite (lex_lt_trans x y z E1 E2). reflexivity.
Qed.

Lemma bleb_antisym : forall x y, bleb x y = true -> bleb y x = true -> x = y.
Proof.
  intros x y. unfold bleb. rewrite (lex_antisym x y). destruct (lex x y) eqn:E; cbn [CompOpp]; try discriminate.
  intros _ _. apply lex_eq_iff. exact E.
Qed.

Lemma msort_bleb_perm : forall l1 l2 : list bytes, Permutation l1 l2 -> msort bleb l1 = msort bleb l2.
Proof.
  intros l1 l2 P.
  assert (F : Forall2 (fun x y => bleb x y = true /\ bleb y x = true) (msort bleb l1) (msort bleb l2)).
  { apply (sorted_perm_unique_keys bleb bleb_total bleb_trans).
    - apply (msort_sorted bleb bleb_total bleb_trans).
    - apply (msort_sorted bleb bleb_total bleb_trans).
    - eapply Permutation_trans; [apply msort_perm|].
      eapply Permutation_trans; [exact P|]. apply Permutation_sym. apply msort_perm. }
  induction F as [|x y t1 t2 [H1 H2] _ IH]; [reflexivity|].
  rewrite (bleb_antisym x y H1 H2), IH. reflexivity.
Qed.

(* ------------------------------------------------------------------------------------------ *)
(* 4. What one operation does, stated on the abstract database                                  *)
(* ------------------------------------------------------------------------------------------ *)
Definition fun_spec (r : res sdb) (db : sdb) (t : T) (db' : sdb) : Prop :=
  match r with
  | Ok d => t = T_ok (TL []) /\ db' = d
  | Err e => t = T_err e /\ db' = db
  end.

Definition bulk_spec (nq : nquery) (u : updater) (db : sdb) (t : T) (db' : sdb) : Prop :=
  match assoc (nq_coll nq) db with
  | None => t = T_err ECollNotExist /\ db' = db
  | Some sc =>
      exists sel, find_ok' (map snd (sc_docs sc)) nq sel /\
        (forall d, In d sel -> assoc (object_id d) (sc_docs sc) = Some d) /\
        NoDup (map object_id sel) /\
        match s_apply_sel u sel (sc_docs sc) with
        | Ok ds => t = T_ok (TL []) /\ db' = assoc_set (nq_coll nq) (mkSC ds (sc_idx sc)) db
        | Err e => t = T_err e /\ db' = db
        end
  end.

Definition bulk_q_spec (q : qspec) (u : updater) (db : sdb) (t : T) (db' : sdb) : Prop :=
  match normalize_query (mk_query q) with
  | None => t = T_err EOther /\ db' = db
  | Some nq => bulk_spec nq u db t db'
  end.

Definition step_spec (o : op) (db : sdb) (t : T) (db' : sdb) : Prop :=
  match o with
  | OCreateCollection c => fun_spec (s_create c db) db t db'
  | ODropCollection c => fun_spec (s_drop c db) db t db'
  | OInsert c docs fresh => fun_spec (s_insert c (assign_ids docs fresh) db) db t db'
  | OSave c d fresh =>
      if needs_id d then fun_spec (s_insert c (assign_ids [d] [fresh]) db) db t db'
      else fun_spec (s_update_by_id c (object_id d) (UFunConst d) db) db t db'
  | ODeleteById c id => fun_spec (s_delete_by_id c id db) db t db'
  | OUpdateById c id u => fun_spec (s_update_by_id c id u db) db t db'
  | OReplaceById c id d =>
      if negb (beqb (object_id d) id) then t = T_err EOther /\ db' = db
      else fun_spec (s_update_by_id c id (UFunConst d) db) db t db'
  | OUpdate q kvs => bulk_q_spec q (USetAll kvs) db t db'
  | OUpdateFunc q u => bulk_q_spec q u db t db'
  | ODelete q => bulk_q_spec q UFunNil db t db'
  | OCreateIndex c f => fun_spec (s_create_index c f db) db t db'
  | ODropIndex c f => fun_spec (s_drop_index c f db) db t db'
  | OHasCollection c =>
      t = T_ok (Tbool (match assoc c db with Some _ => true | None => false end)) /\ db' = db
  | OListCollections =>
      (exists l, t = T_ok (TL (map TB (msort bleb l))) /\ NoDup l /\ forall c, In c l <-> assoc c db <> None) /\
      db' = db
  | OFindById c id =>
      t = match assoc c db with
          | None => T_err ECollNotExist
          | Some sc => T_ok (T_of_opt_doc (assoc id (sc_docs sc)))
          end /\ db' = db
  | OClose | OReopen => t = T_ok (TL []) /\ db' = db
  | _ => db' = db
  end.

Ltac solve_same :=
  split; [assumption|]; split; [assumption|];
  first [reflexivity | split; reflexivity | cbn [fun_spec T_unit]; split; reflexivity].

(* the shape shared by the refinement theorems of the deterministic writes *)
Lemma fun_tx_spec : forall (body : M unit) db s (r : res sdb), wf_db db -> R db s ->
  match r with
  | Ok db' => o_res (with_tx body None (mkDb s false)) = Ok tt /\
              R db' (durable (o_db (with_tx body None (mkDb s false)))) /\ wf_db db'
  | Err e => o_res (with_tx body None (mkDb s false)) = Err e /\
             o_db (with_tx body None (mkDb s false)) = mkDb s false
  end ->
  exists db', wf_db db' /\ R db' (durable (o_db (with_tx body None (mkDb s false)))) /\
              fun_spec r db (T_unit (o_res (with_tx body None (mkDb s false)))) db'.
Proof.
  intros body db s r W HR H. destruct r as [db'|e].
  - destruct H as (Er & R' & W'). exists db'. rewrite Er. solve_same.
  - destruct H as (Er & Ed). exists db. rewrite Er, Ed. solve_same.
Qed.

Ltac one_step :=
  unfold step, exec_op, insert_op; rewrite run_tx_with_tx; cbn [fst snd r_db].

Section OpenStep.
  Variables (db : sdb) (s : kv).
  Hypothesis (W : wf_db db) (HR : R db s).

  Local Notation hh := (mkDb s false).

  Lemma spec_create : forall c, no_semi c = true ->
    exists db', wf_db db' /\ R db' (durable (snd (step hh (OCreateCollection c)))) /\
                step_spec (OCreateCollection c) db (fst (step hh (OCreateCollection c))) db'.
  Proof.
    intros c Hc. one_step. cbn [step_spec]. apply (fun_tx_spec _ db s _ W HR).
    destruct point_ops_preserve_refinement as (P & _).
    specialize (P db s c W HR Hc). cbv zeta in P. destruct (s_create c db).
    - destruct P as (P1 & P2 & _ & P3). split; [exact P1|]. split; [exact P2 | exact P3].
    - exact P.
  Qed.

  Lemma spec_drop : forall c, no_semi c = true ->
    exists db', wf_db db' /\ R db' (durable (snd (step hh (ODropCollection c)))) /\
                step_spec (ODropCollection c) db (fst (step hh (ODropCollection c))) db'.
  Proof.
    intros c Hc. one_step. cbn [step_spec]. apply (fun_tx_spec _ db s _ W HR).
    exact (drop_collection_refines db s c W HR Hc).
  Qed.

  Lemma spec_insert_tx : forall c docs, no_semi c = true -> docs_have_ids docs ->
    exists db', wf_db db' /\ R db' (durable (o_db (with_tx (insert_tx c docs) None hh))) /\
                fun_spec (s_insert c docs db) db (T_unit (o_res (with_tx (insert_tx c docs) None hh))) db'.
  Proof.
    intros c docs Hc Hd. apply (fun_tx_spec _ db s _ W HR).
    destruct point_ops_preserve_refinement as (_ & P & _). exact (P db s c docs W HR Hc Hd).
  Qed.

  Lemma spec_update_by_id_tx : forall c id u, no_semi c = true ->
    exists db', wf_db db' /\ R db' (durable (o_db (with_tx (update_by_id_tx c id u) None hh))) /\
                fun_spec (s_update_by_id c id u db) db
                  (T_unit (o_res (with_tx (update_by_id_tx c id u) None hh))) db'.
  Proof.
    intros c id u Hc. apply (fun_tx_spec _ db s _ W HR).
    destruct point_ops_preserve_refinement as (_ & _ & _ & P). exact (P db s c id u W HR Hc).
  Qed.

  Lemma spec_delete_by_id_tx : forall c id, no_semi c = true ->
    exists db', wf_db db' /\ R db' (durable (o_db (with_tx (delete_by_id_tx c id) None hh))) /\
                fun_spec (s_delete_by_id c id db) db
                  (T_unit (o_res (with_tx (delete_by_id_tx c id) None hh))) db'.
  Proof.
    intros c id Hc. apply (fun_tx_spec _ db s _ W HR).
    destruct point_ops_preserve_refinement as (_ & _ & P & _). exact (P db s c id W HR Hc).
  Qed.

  Lemma spec_bulk_tx : forall q nq u, query_dom db q -> normalize_query q = Some nq ->
    exists db', wf_db db' /\ R db' (durable (o_db (with_tx (update_tx nq u) None hh))) /\
                bulk_spec nq u db (T_unit (o_res (with_tx (update_tx nq u) None hh))) db'.
  Proof.
    intros q nq u (_ & QD) N. rewrite N in QD. destruct QD as (Hskip & QD). unfold bulk_spec.
    destruct (assoc (nq_coll nq) db) as [sc|] eqn:A.
    - destruct QD as (m & CD & KD).
      destruct (find_all_refines m db s nq sc W HR A CD KD Hskip) as (sel & E & _ & F).
      destruct (selection_stored m db s nq sc sel W HR A CD KD E) as (St & ND).
      pose proof (update_refines db s nq u sc sel W HR A E St ND) as P. cbv zeta in P.
      destruct (s_apply_sel u sel (sc_docs sc)) as [ds|e] eqn:Ea.
      + destruct P as (Er & R' & W'). eexists. split; [exact W'|]. split; [exact R'|].
        exists sel. split; [exact F|]. split; [exact St|]. split; [exact ND|].
        rewrite Ea, Er. split; reflexivity.
      + destruct P as (Er & Ed). exists db. rewrite Ed. split; [exact W|]. split; [exact HR|].
        exists sel. split; [exact F|]. split; [exact St|]. split; [exact ND|].
        rewrite Ea, Er. split; reflexivity.
    - destruct (update_no_collection db s nq u W HR A) as (Er & Ed).
      exists db. rewrite Er, Ed. solve_same.
  Qed.

  Ltac read_case :=
    match goal with |- context [step ?h ?o] => rewrite (clover_read_pure h o eq_refl) end;
    cbn [step_spec durable]; exists db; solve_same.

  (* every operation of the domain on an open handle *)
  Lemma step_open_spec : forall o, op_dom db o ->
    exists db', wf_db db' /\ R db' (durable (snd (step hh o))) /\ step_spec o db (fst (step hh o)) db'.
  Proof.
    intros o D. destruct o; cbn [op_dom] in D; try contradiction.
    - (* OCreateCollection *) exact (spec_create c D).
    - (* ODropCollection *) exact (spec_drop c D).
    - (* OHasCollection *) one_step. cbn [step_spec].
      destruct (has_collection_refines db s c W HR) as (Er & Ed). rewrite Er, Ed.
      exists db. solve_same.
    - (* OListCollections *) one_step. cbn [step_spec].
      destruct (list_collections_refines db s W HR) as (l & Er & Ed & ND & Hl). rewrite Er, Ed.
      exists db. split; [exact W|]. split; [exact HR|]. split; [|reflexivity].
      exists l. split; [reflexivity|]. split; [exact ND | exact Hl].
    - (* OInsert *) destruct D as (Hc & Hd). one_step. cbn [step_spec]. exact (spec_insert_tx c _ Hc Hd).
    - (* OSave *) destruct D as (Hc & Hd). unfold step, exec_op, insert_op. cbn [step_spec].
      destruct (needs_id d).
      + rewrite run_tx_with_tx; cbn [fst snd r_db]. exact (spec_insert_tx c _ Hc Hd).
      + rewrite run_tx_with_tx; cbn [fst snd r_db]. exact (spec_update_by_id_tx c _ _ Hc).
    - (* OFindAll *) read_case.
    - (* OCount *) read_case.
    - (* OExists *) read_case.
    - (* OFindFirst *) read_case.
    - (* OForEach *) read_case.
    - (* OFindById *) one_step. cbn [step_spec].
      destruct (find_by_id_refines db s c id W HR D) as (Er & Ed). rewrite Er, Ed.
      exists db. split; [exact W|]. split; [exact HR|]. split; [|reflexivity].
      destruct (assoc c db); reflexivity.
    - (* ODeleteById *) one_step. cbn [step_spec]. exact (spec_delete_by_id_tx c id D).
    - (* OUpdateById *) one_step. cbn [step_spec]. exact (spec_update_by_id_tx c id u D).
    - (* OReplaceById *) unfold step, exec_op. cbn [step_spec]. destruct (negb (beqb (object_id d) id)).
      + cbn [fst snd r_db fresh_rstate durable]. exists db. solve_same.
      + rewrite run_tx_with_tx; cbn [fst snd r_db]. exact (spec_update_by_id_tx c id _ D).
    - (* OUpdate *) unfold step, exec_op. cbn [step_spec]. unfold bulk_q_spec.
      destruct (normalize_query (mk_query q)) as [nq|] eqn:N.
      + rewrite run_tx_with_tx; cbn [fst snd r_db]. exact (spec_bulk_tx (mk_query q) nq _ D N).
      + cbn [fst snd r_db fresh_rstate durable]. exists db. solve_same.
    - (* OUpdateFunc *) unfold step, exec_op. cbn [step_spec]. unfold bulk_q_spec.
      destruct (normalize_query (mk_query q)) as [nq|] eqn:N.
      + rewrite run_tx_with_tx; cbn [fst snd r_db]. exact (spec_bulk_tx (mk_query q) nq _ D N).
      + rewrite run_tx_with_tx; cbn [fst snd r_db].
        destruct (runs_with_tx unit (fail EOther) s (Err EOther) s None (runs_fail unit EOther s None)) as (Er & Ed).
        rewrite Er, Ed. exists db. solve_same.
    - (* ODelete *) unfold step, exec_op. cbn [step_spec]. unfold bulk_q_spec.
      destruct (normalize_query (mk_query q)) as [nq|] eqn:N.
      + rewrite run_tx_with_tx; cbn [fst snd r_db]. exact (spec_bulk_tx (mk_query q) nq _ D N).
      + cbn [fst snd r_db fresh_rstate durable]. exists db. solve_same.
    - (* OCreateIndex *) destruct D as (Hc & Hf). one_step. cbn [step_spec].
      apply (fun_tx_spec _ db s _ W HR). exact (create_index_refines db s c f W HR Hc Hf).
    - (* ODropIndex *) destruct D as (Hc & Hf). one_step. cbn [step_spec].
      apply (fun_tx_spec _ db s _ W HR). exact (drop_index_refines db s c f W HR Hc Hf).
    - (* OHasIndex *) read_case.
    - (* OListIndexes *) read_case.
    - (* OClose *) unfold step, exec_op. cbn [fst snd r_db fresh_rstate durable step_spec].
      exists db. solve_same.
    - (* OReopen *) unfold step, exec_op. cbn [fst snd r_db fresh_rstate durable step_spec].
      exists db. solve_same.
  Qed.
End OpenStep.

(* ------------------------------------------------------------------------------------------ *)
(* 5. The abstract step is a function of the documents                                          *)
(* ------------------------------------------------------------------------------------------ *)
Lemma fun_spec_docs : forall r1 r2 db1 db2 t1 t2 db1' db2',
  docs_eq db1 db2 -> res_docs_eq r1 r2 -> fun_spec r1 db1 t1 db1' -> fun_spec r2 db2 t2 db2' ->
  t1 = t2 /\ docs_eq db1' db2'.
Proof.
  intros r1 r2 db1 db2 t1 t2 db1' db2' D Hr H1 H2.
  destruct r1 as [d1|e1], r2 as [d2|e2]; cbn [res_docs_eq fun_spec] in *; try contradiction;
    destruct H1 as (-> & ->), H2 as (-> & ->).
  - split; [reflexivity | exact Hr].
  - subst e2. split; [reflexivity | exact D].
Qed.

Lemma same_spec_docs : forall db1 db2 (t1 t2 : T) db1' db2' (x : T),
  docs_eq db1 db2 -> t1 = x /\ db1' = db1 -> t2 = x /\ db2' = db2 -> t1 = t2 /\ docs_eq db1' db2'.
Proof. intros db1 db2 t1 t2 db1' db2' x D (-> & ->) (-> & ->). split; [reflexivity | exact D]. Qed.

Lemma bulk_spec_docs : forall nq u db1 db2 t1 t2 db1' db2',
  docs_eq db1 db2 -> nq_skip nq = 0 -> nq_limit nq < 0 ->
  bulk_spec nq u db1 t1 db1' -> bulk_spec nq u db2 t2 db2' -> t1 = t2 /\ docs_eq db1' db2'.
Proof.
  intros nq u db1 db2 t1 t2 db1' db2' D Hsk Hlim H1 H2. unfold bulk_spec in H1, H2.
  pose proof (docs_eq_assoc db1 db2 (nq_coll nq) D) as HA.
  destruct (assoc (nq_coll nq) db1) as [a|] eqn:A1, (assoc (nq_coll nq) db2) as [b|] eqn:A2;
    try contradiction.
  - destruct H1 as (sel1 & (l1 & P1 & _ & E1) & St1 & ND1 & O1).
    destruct H2 as (sel2 & (l2 & P2 & _ & E2) & St2 & ND2 & O2).
    rewrite Hsk, (window_all _ _ Hlim) in E1. rewrite Hsk, (window_all _ _ Hlim) in E2. subst l1 l2.
    assert (P : Permutation sel1 sel2).
    { eapply Permutation_trans; [exact P1|]. rewrite HA. apply Permutation_sym. exact P2. }
    assert (Pr : forall d, In d sel1 -> assoc (object_id d) (sc_docs a) <> None).
    { intros d Hd. rewrite (St1 d Hd). discriminate. }
    rewrite (s_apply_sel_perm u sel1 sel2 (sc_docs a) P ND1 Pr), HA in O1.
    destruct (s_apply_sel u sel2 (sc_docs b)) as [ds|e].
    + destruct O1 as (-> & ->), O2 as (-> & ->). split; [reflexivity|].
      apply (docs_eq_set db1 db2 (nq_coll nq) _ _ a b D A1 A2). reflexivity.
    + destruct O1 as (-> & ->), O2 as (-> & ->). split; [reflexivity | exact D].
  - exact (same_spec_docs db1 db2 t1 t2 db1' db2' _ D H1 H2).
Qed.

Lemma bulk_q_spec_docs : forall q u db1 db2 t1 t2 db1' db2',
  docs_eq db1 db2 -> unwindowed_q q ->
  bulk_q_spec q u db1 t1 db1' -> bulk_q_spec q u db2 t2 db2' -> t1 = t2 /\ docs_eq db1' db2'.
Proof.
  intros q u db1 db2 t1 t2 db1' db2' D U H1 H2. unfold bulk_q_spec, unwindowed_q in *.
  destruct (normalize_query (mk_query q)) as [nq|].
  - destruct U as (Hsk & Hlim). exact (bulk_spec_docs nq u db1 db2 t1 t2 db1' db2' D Hsk Hlim H1 H2).
  - exact (same_spec_docs db1 db2 t1 t2 db1' db2' _ D H1 H2).
Qed.

(* the operations whose reported outcome is compared across index configurations *)
Definition outcome_op (o : op) : bool :=
  match o with
  | OCreateCollection _ | ODropCollection _ | OInsert _ _ _ | OSave _ _ _ | ODeleteById _ _
  | OUpdateById _ _ _ | OReplaceById _ _ _ | OUpdate _ _ | OUpdateFunc _ _ | ODelete _
  | OHasCollection _ | OListCollections | OFindById _ _ => true
  | _ => false
  end.

Lemma step_spec_docs : forall o db1 db2 t1 t2 db1' db2',
  docs_eq db1 db2 -> is_index_op o = false -> unwindowed_write o ->
  step_spec o db1 t1 db1' -> step_spec o db2 t2 db2' ->
  docs_eq db1' db2' /\ (outcome_op o = true -> t1 = t2).
Proof.
  intros o db1 db2 t1 t2 db1' db2' D NI U H1 H2.
  assert (Hgen : forall P : Prop, t1 = t2 /\ docs_eq db1' db2' -> docs_eq db1' db2' /\ (P -> t1 = t2)).
  { intros P (E & D'). split; [exact D' | intros _; exact E]. }
  assert (Hread : db1' = db1 -> db2' = db2 -> docs_eq db1' db2' /\ (false = true -> t1 = t2)).
  { intros -> ->. split; [exact D | discriminate]. }
  destruct o; cbn [step_spec outcome_op unwindowed_write] in *; try discriminate NI;
    try (exact (Hread H1 H2)); apply Hgen.
  - exact (fun_spec_docs _ _ db1 db2 _ _ _ _ D (s_create_docs c db1 db2 D) H1 H2).
  - exact (fun_spec_docs _ _ db1 db2 _ _ _ _ D (s_drop_docs c db1 db2 D) H1 H2).
  - (* OHasCollection *)
    pose proof (docs_eq_assoc db1 db2 c D) as HA.
    destruct (assoc c db1), (assoc c db2); try contradiction;
      exact (same_spec_docs db1 db2 t1 t2 db1' db2' _ D H1 H2).
  - (* OListCollections *)
    destruct H1 as ((l1 & -> & ND1 & M1) & ->), H2 as ((l2 & -> & ND2 & M2) & ->).
    split; [|exact D]. rewrite (msort_bleb_perm l1 l2); [reflexivity|].
    apply NoDup_Permutation; try assumption. intros c. rewrite M1, M2.
    pose proof (docs_eq_assoc db1 db2 c D) as HA.
    destruct (assoc c db1), (assoc c db2); try contradiction; split; intros H; try exact H; discriminate.
  - exact (fun_spec_docs _ _ db1 db2 _ _ _ _ D (s_insert_docs_eq' c _ db1 db2 D) H1 H2).
  - (* OSave *) destruct (needs_id d).
    + exact (fun_spec_docs _ _ db1 db2 _ _ _ _ D (s_insert_docs_eq' c _ db1 db2 D) H1 H2).
    + exact (fun_spec_docs _ _ db1 db2 _ _ _ _ D (s_update_by_id_docs c _ _ db1 db2 D) H1 H2).
  - (* OFindById *)
    pose proof (docs_eq_assoc db1 db2 c D) as HA.
    destruct (assoc c db1) as [a|], (assoc c db2) as [b|]; try contradiction.
    + rewrite HA in H1. exact (same_spec_docs db1 db2 t1 t2 db1' db2' _ D H1 H2).
    + exact (same_spec_docs db1 db2 t1 t2 db1' db2' _ D H1 H2).
  - exact (fun_spec_docs _ _ db1 db2 _ _ _ _ D (s_delete_by_id_docs c id db1 db2 D) H1 H2).
  - exact (fun_spec_docs _ _ db1 db2 _ _ _ _ D (s_update_by_id_docs c id u db1 db2 D) H1 H2).
  - (* OReplaceById *) destruct (negb (beqb (object_id d) id)).
    + exact (same_spec_docs db1 db2 t1 t2 db1' db2' _ D H1 H2).
    + exact (fun_spec_docs _ _ db1 db2 _ _ _ _ D (s_update_by_id_docs c id _ db1 db2 D) H1 H2).
  - exact (bulk_q_spec_docs q _ db1 db2 t1 t2 db1' db2' D U H1 H2).
  - exact (bulk_q_spec_docs q _ db1 db2 t1 t2 db1' db2' D U H1 H2).
  - exact (bulk_q_spec_docs q _ db1 db2 t1 t2 db1' db2' D U H1 H2).
  - exact (same_spec_docs db1 db2 t1 t2 db1' db2' _ D H1 H2).
  - exact (same_spec_docs db1 db2 t1 t2 db1' db2' _ D H1 H2).
Qed.

(* ------------------------------------------------------------------------------------------ *)
(* 6. The handle's closed flag                                                                  *)
(* ------------------------------------------------------------------------------------------ *)
Lemma closed_after_tx : forall h o, single_tx o = true -> closed (snd (step h o)) = closed h.
Proof. intros h o S. exact (step_keeps_closed_flag h (mkTxOp o S)). Qed.

Lemma op_dom_kind : forall db o, op_dom db o -> single_tx o = true \/ o = OClose \/ o = OReopen.
Proof. intros db o D. destruct o; cbn [op_dom] in D; try contradiction; auto. Qed.

Lemma not_handle_kind : forall o, handle_op o = false -> o <> OClose /\ o <> OReopen.
Proof. intros o H. split; intros ->; discriminate H. Qed.

(* ------------------------------------------------------------------------------------------ *)
(* I1: index operations do not change the documents                                            *)
(* ------------------------------------------------------------------------------------------ *)
Theorem index_op_keeps_docs : forall db h o, wf_db db -> R db (durable h) -> closed h = false -> op_dom db o ->
  is_index_op o = true ->
  exists db', wf_db db' /\ R db' (durable (snd (step h o))) /\ docs_eq db db' /\ closed (snd (step h o)) = false.
Proof.
  intros db [s cl] o W HR C D I. cbn [closed durable] in *. subst cl.
  destruct (step_open_spec db s W HR o D) as (db' & W' & R' & S).
  exists db'. split; [exact W'|]. split; [exact R'|].
  destruct o; try discriminate I; cbn [step_spec] in S.
  - split; [|apply closed_after_tx; reflexivity].
    destruct (s_create_index c f db) as [d|e] eqn:E; cbn [fun_spec] in S; destruct S as (_ & ->).
    + exact (s_create_index_docs c f db d E).
    + apply docs_eq_refl.
  - split; [|apply closed_after_tx; reflexivity].
    destruct (s_drop_index c f db) as [d|e] eqn:E; cbn [fun_spec] in S; destruct S as (_ & ->).
    + exact (s_drop_index_docs c f db d E).
    + apply docs_eq_refl.
Qed.

(* ------------------------------------------------------------------------------------------ *)
(* I2: every other operation acts on the documents as a function of the documents              *)
(* ------------------------------------------------------------------------------------------ *)
Lemma step_independent_both : forall db1 db2 h1 h2 o,
  wf_db db1 -> wf_db db2 -> R db1 (durable h1) -> R db2 (durable h2) -> closed h1 = closed h2 ->
  docs_eq db1 db2 -> is_index_op o = false -> unwindowed_write o ->
  (closed h1 = false -> op_dom db1 o) -> (closed h2 = false -> op_dom db2 o) ->
  exists db1' db2', wf_db db1' /\ wf_db db2' /\
    R db1' (durable (snd (step h1 o))) /\ R db2' (durable (snd (step h2 o))) /\
    closed (snd (step h1 o)) = closed (snd (step h2 o)) /\ docs_eq db1' db2' /\
    (outcome_op o = true -> fst (step h1 o) = fst (step h2 o)).
Proof.
  intros db1 db2 [s1 c1] [s2 c2] o W1 W2 R1 R2 C D NI U D1 D2. cbn [closed durable] in *. subst c2.
  destruct c1.
  - (* both handles closed *)
    destruct (handle_op o) eqn:Ho.
    + exists db1, db2.
      destruct o; try discriminate Ho; unfold step, exec_op; cbn [fst snd r_db fresh_rstate durable closed];
        (split; [exact W1|]; split; [exact W2|]; split; [exact R1|]; split; [exact R2|];
         split; [reflexivity|]; split; [exact D | intros _; reflexivity]).
    + rewrite (step_closed o (mkDb s1 true) eq_refl Ho), (step_closed o (mkDb s2 true) eq_refl Ho).
      cbn [fst snd durable closed].
      exists db1, db2. split; [exact W1|]. split; [exact W2|]. split; [exact R1|]. split; [exact R2|].
      split; [reflexivity|]. split; [exact D | intros _; reflexivity].
  - (* both open *)
    specialize (D1 eq_refl). specialize (D2 eq_refl).
    destruct (step_open_spec db1 s1 W1 R1 o D1) as (db1' & W1' & R1' & S1).
    destruct (step_open_spec db2 s2 W2 R2 o D2) as (db2' & W2' & R2' & S2).
    destruct (step_spec_docs o db1 db2 _ _ db1' db2' D NI U S1 S2) as (D' & Ho).
    exists db1', db2'. split; [exact W1'|]. split; [exact W2'|]. split; [exact R1'|]. split; [exact R2'|].
    split; [|split; [exact D' | exact Ho]].
    destruct (op_dom_kind db1 o D1) as [S|[->| ->]].
    + rewrite !closed_after_tx by exact S. reflexivity.
    + reflexivity.
    + reflexivity.
Qed.

Theorem step_docs_independent : forall db1 db2 h1 h2 o,
  wf_db db1 -> wf_db db2 -> R db1 (durable h1) -> R db2 (durable h2) -> closed h1 = closed h2 ->
  docs_eq db1 db2 -> is_index_op o = false -> unwindowed_write o ->
  (closed h1 = false -> op_dom db1 o) -> (closed h2 = false -> op_dom db2 o) ->
  exists db1' db2', wf_db db1' /\ wf_db db2' /\
    R db1' (durable (snd (step h1 o))) /\ R db2' (durable (snd (step h2 o))) /\
    closed (snd (step h1 o)) = closed (snd (step h2 o)) /\ docs_eq db1' db2'.
Proof.
  intros db1 db2 h1 h2 o W1 W2 R1 R2 C D NI U D1 D2.
  destruct (step_independent_both db1 db2 h1 h2 o W1 W2 R1 R2 C D NI U D1 D2)
    as (db1' & db2' & H1 & H2 & H3 & H4 & H5 & H6 & _).
  exists db1', db2'. split; [exact H1|]. split; [exact H2|]. split; [exact H3|]. split; [exact H4|].
  split; [exact H5 | exact H6].
Qed.

(* the reported outcome: in this model the outcomes are even equal (the only error of a bulk rewrite is
   EOther whichever document fails first), so [same_outcome] holds by its first disjunct *)
Theorem step_outcome_equal : forall db1 db2 h1 h2 o,
  wf_db db1 -> wf_db db2 -> R db1 (durable h1) -> R db2 (durable h2) -> closed h1 = closed h2 ->
  docs_eq db1 db2 -> unwindowed_write o ->
  (closed h1 = false -> op_dom db1 o) -> (closed h2 = false -> op_dom db2 o) ->
  outcome_op o = true -> fst (step h1 o) = fst (step h2 o).
Proof.
  intros db1 db2 h1 h2 o W1 W2 R1 R2 C D U D1 D2 Ho.
  assert (NI : is_index_op o = false) by (destruct o; try discriminate Ho; reflexivity).
  destruct (step_independent_both db1 db2 h1 h2 o W1 W2 R1 R2 C D NI U D1 D2)
    as (db1' & db2' & _ & _ & _ & _ & _ & _ & H). exact (H Ho).
Qed.

Theorem step_outcome_independent : forall db1 db2 h1 h2 o,
  wf_db db1 -> wf_db db2 -> R db1 (durable h1) -> R db2 (durable h2) -> closed h1 = closed h2 ->
  docs_eq db1 db2 -> unwindowed_write o ->
  (closed h1 = false -> op_dom db1 o) -> (closed h2 = false -> op_dom db2 o) ->
  outcome_op o = true -> same_outcome (fst (step h1 o)) (fst (step h2 o)).
Proof.
  intros db1 db2 h1 h2 o W1 W2 R1 R2 C D U D1 D2 Ho. left.
  exact (step_outcome_equal db1 db2 h1 h2 o W1 W2 R1 R2 C D U D1 D2 Ho).
Qed.

(* ------------------------------------------------------------------------------------------ *)
(* I3: histories that differ only by index operations hold the same documents                  *)
(* ------------------------------------------------------------------------------------------ *)
Lemma index_op_step : forall db h o, wf_db db -> R db (durable h) -> (closed h = false -> op_dom db o) ->
  is_index_op o = true ->
  exists db', wf_db db' /\ R db' (durable (snd (step h o))) /\ docs_eq db db' /\
              closed (snd (step h o)) = closed h.
Proof.
  intros db h o W HR D I. destruct (closed h) eqn:C.
  - assert (Ho : handle_op o = false) by (destruct o; try discriminate I; reflexivity).
    rewrite (step_closed o h C Ho). cbn [snd]. exists db.
    split; [exact W|]. split; [exact HR|]. split; [apply docs_eq_refl | exact C].
  - exact (index_op_keeps_docs db h o W HR C (D eq_refl) I).
Qed.

Theorem history_index_independent_from : forall ops1 ops2, idx_variant ops1 ops2 ->
  forall h1 h2 db1 db2,
    wf_db db1 -> wf_db db2 -> R db1 (durable h1) -> R db2 (durable h2) -> closed h1 = closed h2 ->
    docs_eq db1 db2 -> Forall unwindowed_write ops1 -> hist_dom h1 ops1 -> hist_dom h2 ops2 ->
    exists db1' db2', wf_db db1' /\ wf_db db2' /\
      R db1' (durable (snd (run_ops h1 ops1))) /\ R db2' (durable (snd (run_ops h2 ops2))) /\
      closed (snd (run_ops h1 ops1)) = closed (snd (run_ops h2 ops2)) /\ docs_eq db1' db2'.
Proof.
  intros ops1 ops2 V. induction V as [|o l1 l2 NI V IH|o l1 l2 I V IH|o l1 l2 I V IH];
    intros h1 h2 db1 db2 W1 W2 R1 R2 C D U HD1 HD2.
  - cbn [run_ops snd]. exists db1, db2.
    split; [exact W1|]. split; [exact W2|]. split; [exact R1|]. split; [exact R2|]. split; assumption.
  - rewrite !HistoryProofs.run_ops_cons. cbn [hist_dom] in HD1, HD2.
    destruct HD1 as (Ho1 & Ht1), HD2 as (Ho2 & Ht2). inversion U as [|? ? Uo Ut]; subst.
    destruct (step_docs_independent db1 db2 h1 h2 o W1 W2 R1 R2 C D NI Uo)
      as (db1' & db2' & W1' & W2' & R1' & R2' & C' & D').
    + intros C1. apply Ho1; [exact W1 | split; assumption].
    + intros C2. apply Ho2; [exact W2 | split; assumption].
    + exact (IH _ _ db1' db2' W1' W2' R1' R2' C' D' Ut Ht1 Ht2).
  - rewrite HistoryProofs.run_ops_cons. cbn [hist_dom] in HD1. destruct HD1 as (Ho1 & Ht1).
    inversion U as [|? ? Uo Ut]; subst.
    destruct (index_op_step db1 h1 o W1 R1) as (db1' & W1' & R1' & D1' & C1'); [|exact I|].
    + intros C1. apply Ho1; [exact W1 | split; assumption].
    + apply (IH _ h2 db1' db2 W1' W2 R1' R2); try assumption.
      * rewrite C1'. exact C.
      * exact (docs_eq_trans _ _ _ (docs_eq_sym _ _ D1') D).
  - rewrite (HistoryProofs.run_ops_cons h2). cbn [hist_dom] in HD2. destruct HD2 as (Ho2 & Ht2).
    destruct (index_op_step db2 h2 o W2 R2) as (db2' & W2' & R2' & D2' & C2'); [|exact I|].
    + intros C2. apply Ho2; [exact W2 | split; assumption].
    + apply (IH h1 _ db1 db2' W1 W2' R1 R2'); try assumption.
      * rewrite C2'. exact C.
      * exact (docs_eq_trans _ _ _ D D2').
Qed.

Theorem history_index_independent : forall ops1 ops2,
  idx_variant ops1 ops2 -> Forall unwindowed_write ops1 ->
  hist_dom empty_db ops1 -> hist_dom empty_db ops2 ->
  exists db1 db2, wf_db db1 /\ wf_db db2 /\
    R db1 (durable (snd (run_ops empty_db ops1))) /\ R db2 (durable (snd (run_ops empty_db ops2))) /\
    closed (snd (run_ops empty_db ops1)) = closed (snd (run_ops empty_db ops2)) /\ docs_eq db1 db2.
Proof.
  intros ops1 ops2 V U HD1 HD2.
  exact (history_index_independent_from ops1 ops2 V empty_db empty_db [] [] wf_empty wf_empty R_empty R_empty
           eq_refl (docs_eq_refl []) U HD1 HD2).
Qed.

(* ------------------------------------------------------------------------------------------ *)
(* I4: the same query afterwards                                                               *)
(* ------------------------------------------------------------------------------------------ *)

(* two acceptable results over the same documents *)
Lemma find_ok'_agree : forall m docs nq r1 r2,
  (forall d f, In d docs -> regime m (doc_get f d) = true) ->
  find_ok' docs nq r1 -> find_ok' docs nq r2 ->
  length r1 = length r2 /\
  (nq_sort nq <> [] -> tie_equal' (nq_sort nq) r1 r2) /\
  (nq_skip nq = 0 -> nq_limit nq < 0 -> Permutation r1 r2).
Proof.
  intros m docs nq r1 r2 Hreg (l1 & P1 & S1 & ->) (l2 & P2 & S2 & ->).
  assert (P : Permutation l1 l2).
  { eapply Permutation_trans; [exact P1|]. apply Permutation_sym. exact P2. }
  split; [|split].
  - apply window_length_eq. apply Permutation_length. exact P.
  - intros Hne. apply window_Forall2. apply (sorted_perm_tie_equal m); [|exact (S1 Hne)|exact (S2 Hne)|exact P].
    apply Forall_forall. intros d Hd. apply regb_doc_regime. intros f dir _. apply Hreg.
    apply (Permutation_in d P1) in Hd. unfold matches in Hd. apply filter_In in Hd. exact (proj1 Hd).
  - intros Hsk Hlim. rewrite Hsk, !(window_all _ _ Hlim). exact P.
Qed.

Lemma NoDup_map_inj : forall (A B : Type) (f : A -> B) l x y,
  NoDup (map f l) -> In x l -> In y l -> f x = f y -> x = y.
Proof.
  intros A B f l x y. induction l as [|a t IH]; intros ND Hx Hy E; [contradiction Hx|].
  cbn [map] in ND. inversion ND as [|? ? Hn ND']; subst.
  destruct Hx as [->|Hx], Hy as [->|Hy].
  - reflexivity.
  - exfalso. apply Hn. rewrite E. apply in_map. exact Hy.
  - exfalso. apply Hn. rewrite <- E. apply in_map. exact Hx.
  - exact (IH ND' Hx Hy E).
Qed.

Lemma Forall2_eq_on : forall (A : Type) (Q : A -> A -> Prop) a b,
  Forall2 Q a b -> (forall x y, In x a -> In y b -> Q x y -> x = y) -> a = b.
Proof.
  intros A Q a b F. induction F as [|x y t1 t2 H _ IH]; intros Hq; [reflexivity|].
  rewrite (Hq x y (or_introl eq_refl) (or_introl eq_refl) H). f_equal.
  apply IH. intros x' y' Hx Hy. apply Hq; right; assumption.
Qed.

Lemma msort_id_leb_perm : forall l1 l2, Permutation l1 l2 -> NoDup (map object_id l1) ->
  msort id_leb l1 = msort id_leb l2.
Proof.
  intros l1 l2 P ND.
  assert (Tot : forall x y, id_leb x y = true \/ id_leb y x = true) by (intros; apply bleb_total).
  assert (Tr : forall x y z, id_leb x y = true -> id_leb y z = true -> id_leb x z = true)
    by (intros x y z; apply bleb_trans).
  apply (Forall2_eq_on _ (fun x y => id_leb x y = true /\ id_leb y x = true)).
  - apply (sorted_perm_unique_keys id_leb Tot Tr).
    + apply (msort_sorted id_leb Tot Tr).
    + apply (msort_sorted id_leb Tot Tr).
    + eapply Permutation_trans; [apply msort_perm|].
      eapply Permutation_trans; [exact P|]. apply Permutation_sym. apply msort_perm.
  - intros x y Hx Hy (H1 & H2). apply (NoDup_map_inj _ _ object_id l1 x y ND).
    + apply (msort_in id_leb x l1). exact Hx.
    + apply (Permutation_in y (Permutation_sym P)). apply (msort_in id_leb y l2). exact Hy.
    + exact (bleb_antisym _ _ H1 H2).
Qed.

(* what the two runs answer to the query [q] (normal form [nq]): the same error, or results meeting the one
   specification over the same documents; Count agrees exactly; the results agree up to ties of the sort
   order, and as sets (hence in every rendering but the order-revealing mode 2) when there is no window *)
Definition query_agrees (db1 db2 : sdb) (h1 h2 : dbst) (q : qspec) (nq : nquery) : Prop :=
  match assoc (nq_coll nq) db1 with
  | None =>
      assoc (nq_coll nq) db2 = None /\
      (forall mode, fst (step h1 (OFindAll q mode)) = T_err ECollNotExist /\
                    fst (step h2 (OFindAll q mode)) = T_err ECollNotExist) /\
      fst (step h1 (OCount q)) = T_err ECollNotExist /\ fst (step h2 (OCount q)) = T_err ECollNotExist
  | Some sc1 =>
      exists sc2 res1 res2,
        assoc (nq_coll nq) db2 = Some sc2 /\ sc_docs sc2 = sc_docs sc1 /\
        find_ok' (map snd (sc_docs sc1)) nq res1 /\ find_ok' (map snd (sc_docs sc1)) nq res2 /\
        (forall mode, fst (step h1 (OFindAll q mode)) = T_ok (T_of_docs (nq_sort nq) mode res1)) /\
        (forall mode, fst (step h2 (OFindAll q mode)) = T_ok (T_of_docs (nq_sort nq) mode res2)) /\
        length res1 = length res2 /\
        fst (step h1 (OCount q)) = T_ok (TZ (Z.of_nat (length res1))) /\
        fst (step h2 (OCount q)) = fst (step h1 (OCount q)) /\
        (nq_sort nq <> [] -> tie_equal' (nq_sort nq) res1 res2) /\
        (nq_skip nq = 0 -> nq_limit nq < 0 ->
           Permutation res1 res2 /\
           (nq_sort nq = [] -> forall mode, mode <> 2 ->
              fst (step h1 (OFindAll q mode)) = fst (step h2 (OFindAll q mode))))
  end.

(* on two open handles whose stores hold the same documents, whatever the indexes *)
Theorem query_docs_transparent : forall db1 db2 h1 h2 q nq,
  wf_db db1 -> wf_db db2 -> R db1 (durable h1) -> R db2 (durable h2) ->
  closed h1 = false -> closed h2 = false -> docs_eq db1 db2 ->
  query_dom db1 (mk_query q) -> query_dom db2 (mk_query q) ->
  normalize_query (mk_query q) = Some nq ->
  query_agrees db1 db2 h1 h2 q nq.
Proof.
  intros db1 db2 h1 h2 q nq W1 W2 R1 R2 C1 C2 D QD1 QD2 N. unfold query_agrees.
  pose proof (docs_eq_assoc db1 db2 (nq_coll nq) D) as HA.
  destruct (assoc (nq_coll nq) db1) as [sc1|] eqn:A1, (assoc (nq_coll nq) db2) as [sc2|] eqn:A2;
    try contradiction.
  - destruct (op_reads_agree db1 h1 W1 R1 C1 q nq sc1 N A1 QD1) as (res1 & F1 & Hf1 & Hc1 & _).
    destruct (op_reads_agree db2 h2 W2 R2 C2 q nq sc2 N A2 QD2) as (res2 & F2 & Hf2 & Hc2 & _).
    rewrite <- HA in F2.
    assert (Hm : exists m, coll_dom m sc1).
    { destruct QD1 as (_ & Q). rewrite N in Q. destruct Q as (_ & Q). rewrite A1 in Q.
      destruct Q as (m & CD & _). exists m. exact CD. }
    destruct Hm as (m & CD).
    destruct (find_ok'_agree m (map snd (sc_docs sc1)) nq res1 res2
                (fun d f Hd => in_docs_regime m sc1 d f CD Hd) F1 F2) as (Hlen & Htie & Hperm).
    exists sc2, res1, res2. split; [reflexivity|]. split; [symmetry; exact HA|].
    split; [exact F1|]. split; [exact F2|]. split; [exact Hf1|]. split; [exact Hf2|].
    split; [exact Hlen|]. split; [exact Hc1|]. split; [rewrite Hc1, Hc2, Hlen; reflexivity|].
    split; [exact Htie|]. intros Hsk Hlim. split; [exact (Hperm Hsk Hlim)|].
    intros Hso mode Hmode. rewrite Hf1, Hf2, Hso. unfold T_of_docs.
    destruct (mode =? 2) eqn:Em; [apply Z.eqb_eq in Em; contradiction|].
    rewrite (msort_id_leb_perm res1 res2 (Hperm Hsk Hlim)); [reflexivity|].
    destruct F1 as (l1 & P1 & _ & E1). rewrite Hsk, (window_all _ _ Hlim) in E1. subst l1.
    apply (Permutation_NoDup (Permutation_sym (Permutation_map object_id P1))).
    unfold matches. apply NoDup_map_filter.
    rewrite (docs_object_ids db1 (nq_coll nq) sc1 W1 A1). exact (wf_docs_NoDup db1 (nq_coll nq) sc1 W1 A1).
  - split; [reflexivity|]. split; [|split].
    + intros mode. split.
      * exact (proj1 (proj2 (op_find_all_errors db1 h1 W1 R1 C1 q mode) nq N A1)).
      * exact (proj1 (proj2 (op_find_all_errors db2 h2 W2 R2 C2 q mode) nq N A2)).
    + exact (proj1 (proj2 (op_reads_errors db1 h1 W1 R1 C1 q 0 0) nq N A1)).
    + exact (proj1 (proj2 (op_reads_errors db2 h2 W2 R2 C2 q 0 0) nq N A2)).
Qed.

(* the abstract database is determined by the store up to the order in which a collection lists its
   documents (the order is not determined: R reads the document list through [assoc] and [length] only) *)
Theorem R_docs_determined : forall db db' s, wf_db db -> wf_db db' -> R db s -> R db' s ->
  forall c sc, assoc c db = Some sc ->
  exists sc', assoc c db' = Some sc' /\ Permutation (sc_docs sc) (sc_docs sc') /\ sc_idx sc = sc_idx sc'.
Proof.
  intros db db' s W W' HR HR' c sc A.
  pose proof (R_get_meta db s c HR W) as M. rewrite A in M.
  pose proof (R_get_meta db' s c HR' W') as M'. rewrite M in M'.
  destruct (assoc c db') as [sc'|] eqn:A'; [|discriminate M']. injection M' as _ Eidx.
  exists sc'. split; [reflexivity|]. split; [|exact Eidx].
  pose proof (wf_docs_NoDup db c sc W A) as ND. pose proof (wf_docs_NoDup db' c sc' W' A') as ND'.
  pose proof (wf_coll_name db c sc W A) as Hc.
  apply NoDup_Permutation; [exact (NoDup_map_inv fst _ ND) | exact (NoDup_map_inv fst _ ND') |].
  intros [id d]. rewrite (assoc_In id d _ ND), (assoc_In id d _ ND').
  pose proof (R_get_doc db s c id HR W Hc) as G. rewrite A in G.
  pose proof (R_get_doc db' s c id HR' W' Hc) as G'. rewrite A', G in G'.
  destruct (assoc id (sc_docs sc)) as [d1|], (assoc id (sc_docs sc')) as [d2|]; try discriminate G'.
  - assert (E : doc_encode d1 = doc_encode d2) by congruence.
    apply (f_equal doc_decode) in E. rewrite !decode_encode in E. subst d2. tauto.
  - split; intros H; discriminate H.
Qed.

Theorem history_index_transparent : forall ops1 ops2 q mode,
  idx_variant ops1 ops2 -> Forall unwindowed_write ops1 ->
  hist_dom empty_db (ops1 ++ [OFindAll q mode]) -> hist_dom empty_db (ops2 ++ [OFindAll q mode]) ->
  closed (snd (run_ops empty_db ops1)) = false ->
  forall nq, normalize_query (mk_query q) = Some nq ->
  exists db1 db2,
    wf_db db1 /\ wf_db db2 /\
    R db1 (durable (snd (run_ops empty_db ops1))) /\ R db2 (durable (snd (run_ops empty_db ops2))) /\
    docs_eq db1 db2 /\ closed (snd (run_ops empty_db ops2)) = false /\
    query_agrees db1 db2 (snd (run_ops empty_db ops1)) (snd (run_ops empty_db ops2)) q nq /\
    (* every abstract database of either final store lists the documents of db1, in some order *)
    (forall db, wf_db db ->
       R db (durable (snd (run_ops empty_db ops1))) \/ R db (durable (snd (run_ops empty_db ops2))) ->
       forall sc, assoc (nq_coll nq) db = Some sc ->
         exists sc1, assoc (nq_coll nq) db1 = Some sc1 /\ Permutation (sc_docs sc) (sc_docs sc1)).
Proof.
  intros ops1 ops2 q mode V U HD1 HD2 C1 nq N.
  apply hist_dom_app in HD1, HD2. destruct HD1 as (HDa1 & HDb1 & _), HD2 as (HDa2 & HDb2 & _).
  destruct (history_index_independent ops1 ops2 V U HDa1 HDa2) as (db1 & db2 & W1 & W2 & R1 & R2 & C & D).
  assert (C2 : closed (snd (run_ops empty_db ops2)) = false) by (rewrite <- C; exact C1).
  exists db1, db2. split; [exact W1|]. split; [exact W2|]. split; [exact R1|]. split; [exact R2|].
  split; [exact D|]. split; [exact C2|]. split.
  - apply (query_docs_transparent db1 db2 _ _ q nq W1 W2 R1 R2 C1 C2 D); [| |exact N].
    + exact (HDb1 db1 W1 (conj C1 R1)).
    + exact (HDb2 db2 W2 (conj C2 R2)).
  - intros db W [HR|HR] sc A.
    + destruct (R_docs_determined db db1 _ W W1 HR R1 _ sc A) as (sc1 & A1 & P & _).
      exists sc1. split; assumption.
    + destruct (R_docs_determined db db2 _ W W2 HR R2 _ sc A) as (sc2 & A2 & P & _).
      pose proof (docs_eq_assoc db1 db2 (nq_coll nq) D) as HA. rewrite A2 in HA.
      destruct (assoc (nq_coll nq) db1) as [sc1|]; [|contradiction].
      exists sc1. split; [reflexivity|]. rewrite HA. exact P.
Qed.

(* ------------------------------------------------------------------------------------------ *)
(* I5: the theorems are not vacuous; the window hypothesis is needed                            *)
(* ------------------------------------------------------------------------------------------ *)
(* collection "t"; three documents: field "a" absent, nil, 5; Update sets b = 1 everywhere (no window);
   Delete removes a >= 1.  The second history also creates the index on "a" before the inserts, and drops
   and re-creates it before the bulk writes. *)
Definition ii_b : bytes := [98%N].
Definition ii_id0 : bytes := ex_uuid 48%N.
Definition ii_ida : bytes := ex_uuid 97%N.
Definition ii_idb : bytes := ex_uuid 98%N.
Definition ii_da : obj := [(id_field, VStr ii_id0)].
Definition ii_dn : obj := [(id_field, VStr ii_ida); (ex_f, VNil)].
Definition ii_d5 : obj := [(id_field, VStr ii_idb); (ex_f, VInt 5)].
Definition ii_upd : op := OUpdate (ex_c, []) [(ii_b, GInt 0 1)].
Definition ii_del : op := ODelete (ex_c, [QWhere (CCmp OGtEq ex_f (OLit (GInt 0 1)))]).
Definition ii_ops1 : list op :=
  [OCreateCollection ex_c; OInsert ex_c [ii_da; ii_dn; ii_d5] []; ii_upd; ii_del].
Definition ii_ops2 : list op :=
  [OCreateCollection ex_c; OCreateIndex ex_c ex_f; OInsert ex_c [ii_da; ii_dn; ii_d5] [];
   ODropIndex ex_c ex_f; OCreateIndex ex_c ex_f; ii_upd; ii_del].

Ltac variant_steps :=
  repeat first [ apply iv_nil
               | apply iv_same; [reflexivity|]
               | apply iv_right; [reflexivity|]
               | apply iv_left; [reflexivity|] ].

Example ii_variant : idx_variant ii_ops1 ii_ops2.
Proof. unfold ii_ops1, ii_ops2. variant_steps. Qed.

Example ii_dom1 : hist_dom empty_db ii_ops1.
Proof. apply hist_domb_sound. vm_compute. reflexivity. Qed.

Example ii_dom2 : hist_dom empty_db ii_ops2.
Proof. apply hist_domb_sound. vm_compute. reflexivity. Qed.

Example ii_unwindowed : Forall unwindowed_write ii_ops1.
Proof.
  unfold ii_ops1. repeat (constructor; [vm_compute; first [exact I | split; reflexivity]|]). constructor.
Qed.

Example ii_independent :
  exists db1 db2, wf_db db1 /\ wf_db db2 /\
    R db1 (durable (snd (run_ops empty_db ii_ops1))) /\ R db2 (durable (snd (run_ops empty_db ii_ops2))) /\
    closed (snd (run_ops empty_db ii_ops1)) = closed (snd (run_ops empty_db ii_ops2)) /\ docs_eq db1 db2.
Proof. exact (history_index_independent ii_ops1 ii_ops2 ii_variant ii_unwindowed ii_dom1 ii_dom2). Qed.

(* every operation of both histories succeeds; the final stores hold the same two documents (both updated,
   the third deleted); the second one also holds the two index entries, both under the key of nil *)
Example ii_runs :
  fst (run_ops empty_db ii_ops1) = repeat (T_ok (TL [])) 4 /\
  fst (run_ops empty_db ii_ops2) = repeat (T_ok (TL [])) 7 /\
  durable (snd (run_ops empty_db ii_ops1)) =
    [ (doc_key ex_c ii_id0, SDoc (doc_encode (doc_set ii_b (VInt 1) ii_da)));
      (doc_key ex_c ii_ida, SDoc (doc_encode (doc_set ii_b (VInt 1) ii_dn)));
      (coll_key ex_c, SMeta 2 []) ] /\
  durable (snd (run_ops empty_db ii_ops2)) =
    [ (doc_key ex_c ii_id0, SDoc (doc_encode (doc_set ii_b (VInt 1) ii_da)));
      (doc_key ex_c ii_ida, SDoc (doc_encode (doc_set ii_b (VInt 1) ii_dn)));
      (idx_key ex_c ex_f VNil ii_id0, SEmpty);
      (idx_key ex_c ex_f VNil ii_ida, SEmpty);
      (coll_key ex_c, SMeta 2 [ex_f]) ].
Proof. repeat split; vm_compute; reflexivity. Qed.

(* the instantiated query corollary: FindAll sorted by "a" after both histories *)
Definition ii_q : qspec := (ex_c, [QSort [(ex_f, 1)]]).
Definition ii_nq : nquery := mkNQ ex_c None (-1) 0 [(ex_f, 1)].

Example ii_transparent :
  exists db1 db2, wf_db db1 /\ wf_db db2 /\ docs_eq db1 db2 /\
    query_agrees db1 db2 (snd (run_ops empty_db ii_ops1)) (snd (run_ops empty_db ii_ops2)) ii_q ii_nq.
Proof.
  assert (HD1 : hist_dom empty_db (ii_ops1 ++ [OFindAll ii_q 0])) by (apply hist_domb_sound; vm_compute; reflexivity).
  assert (HD2 : hist_dom empty_db (ii_ops2 ++ [OFindAll ii_q 0])) by (apply hist_domb_sound; vm_compute; reflexivity).
  assert (C : closed (snd (run_ops empty_db ii_ops1)) = false) by (vm_compute; reflexivity).
  assert (N : normalize_query (mk_query ii_q) = Some ii_nq) by (vm_compute; reflexivity).
  destruct (history_index_transparent ii_ops1 ii_ops2 ii_q 0 ii_variant ii_unwindowed HD1 HD2 C ii_nq N)
    as (db1 & db2 & W1 & W2 & _ & _ & D & _ & Q & _).
  exists db1, db2. split; [exact W1|]. split; [exact W2|]. split; [exact D | exact Q].
Qed.

(* ---- the window hypothesis is needed ---- *)
(* two documents that tie on the sort key "a" (nil under the smaller id, absent under the larger one); Delete
   with Sort(a) and Limit(1).  Without an index the in-memory sort puts the absent field first and the document
   without "a" is removed; with the index on "a" both entries carry the key of nil, the scan is ordered by id,
   and the document with a = nil is removed. *)
Definition iw_del : op := ODelete (ex_c, [QSort [(ex_f, 1)]; QLimit 1]).
Definition iw_ops1 : list op := [OCreateCollection ex_c; OInsert ex_c [na_dn; na_da] []; iw_del].
Definition iw_ops2 : list op :=
  [OCreateCollection ex_c; OCreateIndex ex_c ex_f; OInsert ex_c [na_dn; na_da] []; iw_del].

Example iw_variant : idx_variant iw_ops1 iw_ops2.
Proof. unfold iw_ops1, iw_ops2. variant_steps. Qed.

Example iw_dom1 : hist_dom empty_db iw_ops1.
Proof. apply hist_domb_sound. vm_compute. reflexivity. Qed.

Example iw_dom2 : hist_dom empty_db iw_ops2.
Proof. apply hist_domb_sound. vm_compute. reflexivity. Qed.

Example iw_windowed : ~ Forall unwindowed_write iw_ops1.
Proof.
  intros H. unfold iw_ops1 in H. inversion H as [|? ? _ H1]; subst. inversion H1 as [|? ? _ H2]; subst.
  inversion H2 as [|? ? U _]; subst. vm_compute in U. destruct U as (_ & U). discriminate U.
Qed.

Example iw_runs :
  fst (run_ops empty_db iw_ops1) = repeat (T_ok (TL [])) 3 /\
  fst (run_ops empty_db iw_ops2) = repeat (T_ok (TL [])) 4 /\
  durable (snd (run_ops empty_db iw_ops1)) =
    [ (doc_key ex_c ex_id1, SDoc (doc_encode na_dn)); (coll_key ex_c, SMeta 1 []) ] /\
  durable (snd (run_ops empty_db iw_ops2)) =
    [ (doc_key ex_c ex_id2, SDoc (doc_encode na_da));
      (idx_key ex_c ex_f VNil ex_id2, SEmpty);
      (coll_key ex_c, SMeta 1 [ex_f]) ].
Proof. repeat split; vm_compute; reflexivity. Qed.

Theorem history_index_independent_windowed_refuted :
  ~ (forall ops1 ops2, idx_variant ops1 ops2 -> hist_dom empty_db ops1 -> hist_dom empty_db ops2 ->
       exists db1 db2, wf_db db1 /\ wf_db db2 /\
         R db1 (durable (snd (run_ops empty_db ops1))) /\ R db2 (durable (snd (run_ops empty_db ops2))) /\
         closed (snd (run_ops empty_db ops1)) = closed (snd (run_ops empty_db ops2)) /\ docs_eq db1 db2).
Proof.
  intros H. destruct (H iw_ops1 iw_ops2 iw_variant iw_dom1 iw_dom2) as (db1 & db2 & W1 & W2 & R1 & R2 & _ & D).
  assert (E1 : kv_get (doc_key ex_c ex_id1) (durable (snd (run_ops empty_db iw_ops1))) <> None)
    by (vm_compute; discriminate).
  assert (E2 : kv_get (doc_key ex_c ex_id1) (durable (snd (run_ops empty_db iw_ops2))) = None)
    by (vm_compute; reflexivity).
  assert (Hc : no_semi ex_c = true) by reflexivity.
  rewrite (R_get_doc db1 _ ex_c ex_id1 R1 W1 Hc) in E1.
  rewrite (R_get_doc db2 _ ex_c ex_id1 R2 W2 Hc) in E2.
  pose proof (docs_eq_assoc db1 db2 ex_c D) as HA.
  destruct (assoc ex_c db1) as [a|], (assoc ex_c db2) as [b|];
    try contradiction; try (contradiction E1; reflexivity).
  rewrite HA in E1. destruct (assoc ex_id1 (sc_docs b)); [discriminate E2 | contradiction E1; reflexivity].
Qed.

(* ------------------------------------------------------------------------------------------ *)
(* I4 as literally stated (the document LIST of every abstract database of the final store is one *)
(* list) is false: the store does not determine the order in which a collection lists its documents. *)
(* [history_index_transparent] above states it with the databases of I3 and, for all others, up to a   *)
(* permutation ([R_docs_determined]).                                                              *)
(* ------------------------------------------------------------------------------------------ *)
Local Notation lx_dbB := ([(ex_c, mkSC [(ex_id2, ex_d2); (ex_id1, ex_d1)] [])] : sdb) (only parsing).

Lemma lx_ids21 : docs_have_ids [ex_d2; ex_d1].
Proof. intros d [E|[E|[]]]; subst d; vm_compute; reflexivity. Qed.

(* inserting the two documents in the other order gives the same store and the other document list *)
Lemma lx_R_swapped : R lx_dbB wx_s2 /\ wf_db lx_dbB.
Proof.
  destruct wx_create as (_ & _ & _ & _ & HR1 & Hwf1).
  assert (E1 : s_insert ex_c [ex_d2; ex_d1] wx_db1 = Ok lx_dbB) by (vm_compute; reflexivity).
  assert (E2 : o_db (with_tx (insert_tx ex_c [ex_d2; ex_d1]) None (mkDb wx_s1 false)) = mkDb wx_s2 false)
    by (vm_compute; reflexivity).
  pose proof (proj1 (proj2 point_ops_preserve_refinement) wx_db1 wx_s1 ex_c [ex_d2; ex_d1]
                Hwf1 HR1 eq_refl lx_ids21) as H.
  cbv zeta in H. rewrite E1, E2 in H. destruct H as (_ & H2 & H3). split; [exact H2 | exact H3].
Qed.

Definition lx_ops : list op := [OCreateCollection ex_c; OInsert ex_c [ex_d1; ex_d2] []].
Definition lx_q : qspec := (ex_c, []).
Definition lx_nq : nquery := mkNQ ex_c None (-1) 0 [].

Theorem history_index_transparent_literal_refuted :
  ~ (forall ops1 ops2 q mode,
       idx_variant ops1 ops2 -> Forall unwindowed_write ops1 ->
       hist_dom empty_db (ops1 ++ [OFindAll q mode]) -> hist_dom empty_db (ops2 ++ [OFindAll q mode]) ->
       closed (snd (run_ops empty_db ops1)) = false ->
       forall nq, normalize_query (mk_query q) = Some nq ->
       exists docs,
         (forall db1, wf_db db1 -> R db1 (durable (snd (run_ops empty_db ops1))) ->
            forall sc, assoc (nq_coll nq) db1 = Some sc -> map snd (sc_docs sc) = docs) /\
         (forall db2, wf_db db2 -> R db2 (durable (snd (run_ops empty_db ops2))) ->
            forall sc, assoc (nq_coll nq) db2 = Some sc -> map snd (sc_docs sc) = docs) /\
         True).
Proof.
  intros H.
  assert (V : idx_variant lx_ops lx_ops) by (unfold lx_ops; variant_steps).
  assert (U : Forall unwindowed_write lx_ops) by (unfold lx_ops; repeat constructor).
  assert (HD : hist_dom empty_db (lx_ops ++ [OFindAll lx_q 0])) by (apply hist_domb_sound; vm_compute; reflexivity).
  assert (C : closed (snd (run_ops empty_db lx_ops)) = false) by (vm_compute; reflexivity).
  assert (N : normalize_query (mk_query lx_q) = Some lx_nq) by (vm_compute; reflexivity).
  assert (E : durable (snd (run_ops empty_db lx_ops)) = wx_s2) by (vm_compute; reflexivity).
  destruct (H lx_ops lx_ops lx_q 0 V U HD HD C lx_nq N) as (docs & HA & _ & _).
  rewrite E in HA.
  destruct wx_insert as (_ & _ & _ & _ & RA & WA). destruct lx_R_swapped as (RB & WB).
  pose proof (HA wx_db2 WA RA _ eq_refl) as EA.
  pose proof (HA lx_dbB WB RB _ eq_refl) as EB.
  cbn [map snd sc_docs] in EA, EB. rewrite <- EB in EA. injection EA as EA _. discriminate EA.
Qed.

Print Assumptions s_apply_sel_perm.
Print Assumptions list_collections_refines.
Print Assumptions step_open_spec.
Print Assumptions step_spec_docs.
Print Assumptions index_op_keeps_docs.
Print Assumptions step_docs_independent.
Print Assumptions step_outcome_equal.
Print Assumptions step_outcome_independent.
Print Assumptions history_index_independent_from.
Print Assumptions history_index_independent.
Print Assumptions query_docs_transparent.
Print Assumptions R_docs_determined.
Print Assumptions history_index_transparent.
Print Assumptions history_index_transparent_literal_refuted.
Print Assumptions ii_variant.
Print Assumptions ii_dom1.
Print Assumptions ii_dom2.
Print Assumptions ii_unwindowed.
Print Assumptions ii_independent.
Print Assumptions ii_runs.
Print Assumptions ii_transparent.
Print Assumptions iw_variant.
Print Assumptions iw_dom1.
Print Assumptions iw_dom2.
Print Assumptions iw_windowed.
Print Assumptions iw_runs.
Print Assumptions history_index_independent_windowed_refuted.

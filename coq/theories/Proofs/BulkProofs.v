(* The bulk operations of the model refine the abstract database: CreateIndex, DropIndex, the bulk
   rewrite of a selection (Update / UpdateFunc / Delete), DropCollection. No fault is injected. *)
From Clover Require Import QueryDom BytesProofs SortProofs WireProofs RProofs ScanProofs WriteProofs KVProofs KeyProofs.
From Coq Require Import Lia.
Open Scope Z_scope.

Arguments idx_key : simpl never.
Arguments doc_key : simpl never.
Arguments coll_key : simpl never.
Arguments idx_value_key : simpl never.
Arguments idx_prefix : simpl never.
Arguments doc_prefix : simpl never.

(* ================================================================== *)
(* 0. More big-step runs (the [runs] layer of WriteProofs)              *)
(* ================================================================== *)

Lemma runs_get_view : forall v cm, runs get_view v cm (Ok v) v cm.
Proof. intros v cm n fr. exists n. reflexivity. Qed.

Lemma runs_cursor_item : forall e v cm, runs (cursor_item e) v cm (Ok e) v cm.
Proof. intros e v cm n fr. exists (S n). reflexivity. Qed.

Lemma runs_tx_cursor : forall fw v cm, runs (tx_cursor fw) v cm (Ok (if fw then v else rev v)) v cm.
Proof. intros fw v cm n fr. exists (S n). reflexivity. Qed.

(* the final database of a transaction on an open handle is an open handle *)
Lemma with_tx_open_db : forall A (body : M A) s,
  o_db (with_tx body None (mkDb s false)) =
  mkDb (durable (o_db (with_tx body None (mkDb s false)))) false.
Proof.
  intros A body s. unfold with_tx. cbn [closed durable].
  destruct ((tick ;;; body) (mkTx s None 0 None false)) as [r st]. reflexivity.
Qed.

(* a run is deterministic *)
Lemma runs_fun : forall A (m : M A) v cm r1 v1 cm1 r2 v2 cm2,
  runs m v cm r1 v1 cm1 -> runs m v cm r2 v2 cm2 -> r1 = r2 /\ v1 = v2 /\ cm1 = cm2.
Proof.
  intros A m v cm r1 v1 cm1 r2 v2 cm2 H1 H2.
  destruct (H1 0%nat false) as (n1 & E1). destruct (H2 0%nat false) as (n2 & E2).
  rewrite E1 in E2. injection E2 as E2 E3 E4 E5. repeat split; assumption.
Qed.

(* ================================================================== *)
(* 1. Read-only computations                                            *)
(* ================================================================== *)

(* m never writes: from any view it returns a result that depends on the view only, and leaves the
   view and the commit slot alone *)
Definition ro {A} (m : M A) : Prop := forall v, exists r, forall cm, runs m v cm r v cm.

Lemma ro_ret : forall A (a : A), ro (ret a).
Proof. intros A a v. exists (Ok a). intros cm. apply runs_ret. Qed.

Lemma ro_fail : forall A e, ro (@fail A e).
Proof. intros A e v. exists (Err e). intros cm. apply runs_fail. Qed.

Lemma ro_bind : forall A B (m : M A) (f : A -> M B), ro m -> (forall a, ro (f a)) -> ro (bind m f).
Proof.
  intros A B m f Hm Hf v. destruct (Hm v) as ([a|e] & H1).
  - destruct (Hf a v) as (r & H2). exists r. intros cm.
    eapply runs_bind; [apply H1 | apply H2].
  - exists (Err e). intros cm. apply runs_bind_err. apply H1.
Qed.

Lemma ro_tick : ro tick.
Proof. intros v. exists (Ok tt). intros cm. apply runs_tick. Qed.

Lemma ro_tx_get : forall k, ro (tx_get k).
Proof. intros k v. exists (Ok (kv_get k v)). intros cm. apply runs_tx_get. Qed.

Lemma ro_tx_cursor : forall fw, ro (tx_cursor fw).
Proof. intros fw v. eexists. intros cm. apply runs_tx_cursor. Qed.

Lemma ro_cursor_item : forall e, ro (cursor_item e).
Proof. intros e v. eexists. intros cm. apply runs_cursor_item. Qed.

Create HintDb rolift.

Ltac rstep :=
  match goal with
  | |- ro (ret _) => apply ro_ret
  | |- ro (fail _) => apply ro_fail
  | |- ro (tx_get _) => apply ro_tx_get
  | |- ro (tx_cursor _) => apply ro_tx_cursor
  | |- ro (cursor_item _) => apply ro_cursor_item
  | |- ro (bind _ _) => apply ro_bind; [|intro]
  | |- ro (match ?x with _ => _ end) => destruct x
  | |- ro (let '(_, _) := ?x in _) => destruct x
  | |- ro _ => solve [eauto with rolift]
  end.
Ltac rsolve := repeat rstep.

Lemma ro_get_meta : forall c, ro (get_meta c).
Proof. intros. unfold get_meta. rsolve. Qed.
Lemma ro_get_doc : forall c id, ro (get_doc c id).
Proof. intros. unfold get_doc. rsolve. Qed.
#[local] Hint Resolve ro_get_meta ro_get_doc : rolift.

Section RoScan.
  Context {A : Type}.
  Variable on_id : bytes -> A -> M (A * bool).
  Hypothesis H_on_id : forall id a, ro (on_id id a).
  Hint Resolve H_on_id : rolift.

  Lemma ro_skip_bound : forall bkey c, ro (skip_bound bkey c).
  Proof. intros bkey c. induction c as [|e t IH]; cbn [skip_bound]; rsolve. Qed.
  Hint Resolve ro_skip_bound : rolift.

  Lemma ro_range_loop : forall p rv chk far finc c a, ro (range_loop on_id p rv chk far finc c a).
  Proof.
    intros p rv chk far finc c. induction c as [|e t IH]; intro a; cbn [range_loop]; rsolve.
  Qed.
  Hint Resolve ro_range_loop : rolift.

  Lemma ro_idx_iterate_range : forall c f r rv a, ro (idx_iterate_range on_id c f r rv a).
  Proof. intros. unfold idx_iterate_range. rsolve. Qed.

  Lemma ro_idx_iterate : forall c f rv a, ro (idx_iterate on_id c f rv a).
  Proof. intros. unfold idx_iterate. rsolve. Qed.
End RoScan.
#[local] Hint Resolve ro_skip_bound ro_range_loop ro_idx_iterate_range ro_idx_iterate : rolift.

Section RoFeed.
  Context {B : Type}.
  Variable f : obj -> B -> M (B * bool).
  Hypothesis H_f : forall d b, ro (f d b).
  Hint Resolve H_f : rolift.

  Lemma ro_full_scan_loop : forall p flt c b, ro (full_scan_loop p flt f c b).
  Proof.
    intros p flt c. induction c as [|e t IH]; intro b; cbn [full_scan_loop]; rsolve.
  Qed.
  Hint Resolve ro_full_scan_loop : rolift.

  Lemma ro_full_scan : forall c flt b, ro (full_scan c flt f b).
  Proof. intros. unfold full_scan. rsolve. Qed.

  Lemma ro_on_index_id : forall c flt id b, ro (on_index_id c flt f id b).
  Proof. intros. unfold on_index_id. rsolve. Qed.
  Hint Resolve ro_full_scan ro_on_index_id : rolift.

  Lemma ro_run_input : forall c flt iq b, ro (run_input c flt iq f b).
  Proof. intros. unfold run_input. rsolve. Qed.
End RoFeed.
#[local] Hint Resolve ro_full_scan_loop ro_full_scan ro_on_index_id ro_run_input : rolift.

Section RoExec.
  Context {A : Type}.
  Variable cons : obj -> A -> M (A * bool).
  Hypothesis H_cons : forall d a, ro (cons d a).
  Hint Resolve H_cons : rolift.

  Lemma ro_down : forall skip limit d st, ro (down cons skip limit d st).
  Proof. intros. unfold down. rsolve. Qed.
  Hint Resolve ro_down : rolift.

  Lemma ro_feed : forall skip limit l st, ro (feed cons skip limit l st).
  Proof.
    intros skip limit l. induction l as [|d t IH]; intro st; cbn [feed]; rsolve.
  Qed.
  Hint Resolve ro_feed : rolift.

  Lemma ro_exec_plan : forall c crit sort skip limit idx a0,
    ro (exec_plan cons c crit sort skip limit idx a0).
  Proof.
    intros. unfold exec_plan.
    destruct (try_select_index crit sort idx) as [iq sorted].
    destruct sort as [|so sort']; [|destruct sorted]; rsolve;
      apply ro_run_input; intros; rsolve.
  Qed.
  Hint Resolve ro_exec_plan : rolift.

  Lemma ro_iterate_docs : forall q a0, ro (iterate_docs q cons a0).
  Proof. intros. unfold iterate_docs. rsolve. Qed.
End RoExec.
#[local] Hint Resolve ro_down ro_feed ro_exec_plan ro_iterate_docs : rolift.

Lemma ro_collect : forall d acc, ro (collect d acc).
Proof. intros. unfold collect. rsolve. Qed.
#[local] Hint Resolve ro_collect : rolift.

Theorem ro_find_all_tx : forall q, ro (find_all_tx q).
Proof. intros. unfold find_all_tx. rsolve. Qed.

(* the bridge: FindAll run inside a write transaction on view s returns what the standalone FindAll
   transaction on the store s returns, and leaves the view alone *)
Theorem find_all_in_tx : forall q s r,
  o_res (with_tx (find_all_tx q) None (mkDb s false)) = r ->
  forall cm, runs (find_all_tx q) s cm r s cm.
Proof.
  intros q s r Hr cm. destruct (ro_find_all_tx q s) as (r0 & H0).
  destruct (runs_with_tx _ _ _ _ _ _ (H0 None)) as (Er & _).
  rewrite Er in Hr. subst r0. apply H0.
Qed.

Theorem find_all_standalone : forall q s r cm,
  runs (find_all_tx q) s cm r s cm ->
  o_res (with_tx (find_all_tx q) None (mkDb s false)) = r /\
  o_db (with_tx (find_all_tx q) None (mkDb s false)) = mkDb s false.
Proof.
  intros q s r cm H. destruct (ro_find_all_tx q s) as (r0 & H0).
  destruct (runs_fun _ _ _ _ _ _ _ _ _ _ H (H0 cm)) as (E & _). subst r0.
  destruct (runs_with_tx _ _ _ _ _ _ (H0 None)) as (Er & Ed). split; assumption.
Qed.

(* ================================================================== *)
(* 2. Writing / deleting a list of keys                                 *)
(* ================================================================== *)

Fixpoint set_all (ks : list bytes) (x : sval) (s : kv) : kv :=
  match ks with
  | [] => s
  | k :: t => set_all t x (kv_set k x s)
  end.

Fixpoint del_all (ks : list bytes) (s : kv) : kv :=
  match ks with
  | [] => s
  | k :: t => del_all t (kv_del k s)
  end.

Lemma In_bytes_dec : forall (k : bytes) l, In k l \/ ~ In k l.
Proof.
  intros k l. induction l as [|x t IH].
  - right. intros [].
  - destruct (bytes_eq_dec x k) as [E|E]; [left; left; exact E|].
    destruct IH as [H|H]; [left; right; exact H|].
    right. intros [F|F]; [exact (E F) | exact (H F)].
Qed.

Lemma Rp_set_all : forall ks x D s, Rp D s ->
  Rp (fun k v => (In k ks /\ v = x) \/ (~ In k ks /\ D k v)) (set_all ks x s).
Proof.
  intros ks x. induction ks as [|k0 t IH]; intros D s H; cbn [set_all].
  - eapply Rp_equiv; [|exact H]. intros k v. split.
    + intros Hd. right. split; [intros []|exact Hd].
    + intros [([] & _) | (_ & Hd)]. exact Hd.
  - eapply Rp_equiv; [|apply IH; apply Rp_set; exact H].
    intros k v. cbv beta. split.
    + intros [(Hin & Ev) | (Hn & [(Ek & Ev) | (Ek & Hd)])].
      * left. split; [right; exact Hin | exact Ev].
      * left. split; [left; symmetry; exact Ek | exact Ev].
      * right. split; [|exact Hd]. intros [F|F]; [apply Ek; symmetry; exact F | exact (Hn F)].
    + intros [(Hin & Ev) | (Hn & Hd)].
      * destruct (In_bytes_dec k t) as [Ht|Ht].
        -- left. split; assumption.
        -- destruct Hin as [E|Hin]; [|contradiction (Ht Hin)].
           right. split; [exact Ht|]. left. split; [symmetry; exact E | exact Ev].
      * right. split; [intros F; apply Hn; right; exact F|].
        right. split; [intros E; apply Hn; left; symmetry; exact E | exact Hd].
Qed.

Lemma Rp_del_all : forall ks D s, Rp D s ->
  Rp (fun k v => ~ In k ks /\ D k v) (del_all ks s).
Proof.
  intros ks. induction ks as [|k0 t IH]; intros D s H; cbn [del_all].
  - eapply Rp_equiv; [|exact H]. intros k v. split.
    + intros Hd. split; [intros []|exact Hd].
    + intros (_ & Hd). exact Hd.
  - eapply Rp_equiv; [|apply IH; apply Rp_del; exact H].
    intros k v. cbv beta. split.
    + intros (Hn & Ek & Hd). split; [|exact Hd].
      intros [F|F]; [apply Ek; symmetry; exact F | exact (Hn F)].
    + intros (Hn & Hd). split; [intros F; apply Hn; right; exact F|].
      split; [intros E; apply Hn; left; symmetry; exact E | exact Hd].
Qed.

(* ================================================================== *)
(* 3. The collection scan with a consumer that writes                   *)
(* ================================================================== *)

(* The cursor is a snapshot taken before the loop: whatever the consumer does to the view, the loop
   visits exactly the entries of the snapshot that carry the prefix. The consumer must not fail and
   must not ask to stop. *)
Fixpoint fold_eff {B : Type} (g : obj -> B -> B) (l : list obj) (b : B) : B :=
  match l with
  | [] => b
  | d :: t => fold_eff g t (g d b)
  end.

Lemma full_scan_loop_eff : forall B (F : obj -> B -> M (B * bool)) (g : obj -> B -> B)
    (eff : obj -> kv -> kv) p flt,
  (forall d b v cm, runs (F d b) v cm (Ok (g d b, true)) (eff d v) cm) ->
  forall cur b v cm,
    let docs := filter (sat_opt flt) (map (fun e => decode_sval (snd e)) (take_prefix p cur)) in
    runs (full_scan_loop p flt F cur b) v cm (Ok (fold_eff g docs b)) (fold_eff eff docs v) cm.
Proof.
  intros B F g eff p flt HF cur. induction cur as [|e t IH]; intros b v cm; cbv zeta.
  - apply runs_ret.
  - cbn [full_scan_loop take_prefix].
    eapply runs_bind; [apply runs_cursor_item|].
    destruct (is_prefix p (fst e)) eqn:Ep; cbn [negb].
    + cbn [map filter]. destruct (sat_opt flt (decode_sval (snd e))) eqn:Es.
      * cbn [fold_eff]. eapply runs_bind; [apply HF|]. cbn [snd fst]. apply IH.
      * apply IH.
    + apply runs_ret.
Qed.

Lemma filter_true : forall {A} (l : list A), filter (fun _ => true) l = l.
Proof. intros A l. induction l as [|x t IH]; [reflexivity|]. cbn [filter]. rewrite IH. reflexivity. Qed.

Lemma sat_opt_none_filter : forall l, filter (sat_opt None) l = l.
Proof. intros l. apply filter_true. Qed.

(* over a store in relation R the snapshot's run of document records is the collection in id order *)
Lemma full_scan_eff : forall db c sc s B (F : obj -> B -> M (B * bool)) (g : obj -> B -> B)
    (eff : obj -> kv -> kv),
  wf_db db -> assoc c db = Some sc -> R db s ->
  (forall d b v cm, runs (F d b) v cm (Ok (g d b, true)) (eff d v) cm) ->
  forall b cm,
    runs (full_scan c None F b) s cm (Ok (fold_eff g (docs_by_id sc) b)) (fold_eff eff (docs_by_id sc) s) cm.
Proof.
  intros db c sc s B F g eff Hwf Ha HR HF b cm. unfold full_scan.
  eapply runs_bind; [apply runs_tx_cursor|]. cbn [cursor_seek].
  pose proof (full_scan_loop_eff B F g eff (doc_prefix c) None HF (seek_fwd (doc_prefix c) s) b s cm) as H.
  cbv zeta in H. rewrite sat_opt_none_filter in H.
  rewrite (prefix_scan_spec _ _ (R_sorted db s HR)), (doc_entries db c sc s Hwf Ha HR), map_map in H.
  replace (docs_by_id sc)
    with (map (fun x => decode_sval (snd (doc_ent c x))) (msort by_id_leb (sc_docs sc))); [exact H|].
  unfold docs_by_id. apply map_ext. intros [id d]. cbn. apply decode_encode.
Qed.

(* the documents in id order: stored, with pairwise distinct ids *)
Lemma docs_by_id_stored : forall db c sc d, wf_db db -> assoc c db = Some sc ->
  In d (docs_by_id sc) -> assoc (object_id d) (sc_docs sc) = Some d.
Proof.
  intros db c sc d Hwf Ha Hin. unfold docs_by_id in Hin. apply in_map_iff in Hin.
  destruct Hin as ([id d0] & E & Hin). cbn in E. subst d0.
  apply (Permutation_in _ (msort_perm by_id_leb (sc_docs sc))) in Hin.
  apply (assoc_In id d (sc_docs sc) (wf_docs_NoDup db c sc Hwf Ha)) in Hin.
  rewrite (wf_doc_object_id db c sc id d Hwf Ha Hin). exact Hin.
Qed.

Lemma docs_by_id_ids : forall db c sc, wf_db db -> assoc c db = Some sc ->
  map object_id (docs_by_id sc) = map fst (msort by_id_leb (sc_docs sc)).
Proof.
  intros db c sc Hwf Ha. unfold docs_by_id. rewrite map_map. apply map_ext_in.
  intros [id d] Hin. cbn.
  apply (Permutation_in _ (msort_perm by_id_leb (sc_docs sc))) in Hin.
  apply (assoc_In id d (sc_docs sc) (wf_docs_NoDup db c sc Hwf Ha)) in Hin.
  exact (wf_doc_object_id db c sc id d Hwf Ha Hin).
Qed.

Lemma docs_by_id_nodup : forall db c sc, wf_db db -> assoc c db = Some sc ->
  NoDup (map object_id (docs_by_id sc)).
Proof.
  intros db c sc Hwf Ha. rewrite (docs_by_id_ids db c sc Hwf Ha).
  apply (Permutation_NoDup (l := map fst (sc_docs sc))); [|exact (wf_docs_NoDup db c sc Hwf Ha)].
  apply Permutation_map. apply Permutation_sym. apply msort_perm.
Qed.

Lemma docs_by_id_In : forall db c sc id d, wf_db db -> assoc c db = Some sc ->
  assoc id (sc_docs sc) = Some d -> In d (docs_by_id sc).
Proof.
  intros db c sc id d Hwf Ha Hd. unfold docs_by_id. apply in_map_iff. exists (id, d).
  split; [reflexivity|]. apply (Permutation_in _ (Permutation_sym (msort_perm by_id_leb (sc_docs sc)))).
  apply assoc_some_In. exact Hd.
Qed.

(* ================================================================== *)
(* 4. B1: CreateIndex                                                   *)
(* ================================================================== *)

(* the plan of an unfiltered, unsorted, unwindowed query is the full scan *)
Lemma exec_plan_full : forall A (cons : obj -> A -> M (A * bool)) c idx a0,
  exec_plan cons c None [] 0 (-1) idx a0 =
  (st <- run_input c None None (down cons 0 (-1)) (mkD 0 0 a0) ;; ret (d_acc st)).
Proof. intros. reflexivity. Qed.

(* one step of the index-building consumer below the (inactive) skip/limit node *)
Lemma runs_down_index_doc : forall c f d (st : @dstate unit) v cm,
  runs (down (index_doc c f) 0 (-1) d st) v cm
       (Ok (mkD (d_skipped st) (d_consumed st) tt, true))
       (kv_set (ikey c d f) SEmpty v) cm.
Proof.
  intros c f d st v cm. unfold down. cbn [Z.ltb Z.leb Z.compare orb].
  eapply runs_bind.
  - unfold index_doc, idx_add. eapply runs_bind; [apply runs_tx_set|]. apply runs_ret.
  - cbn [fst snd]. apply runs_ret.
Qed.

Lemma fold_eff_set_all : forall (key : obj -> bytes) x l s,
  fold_eff (fun d v => kv_set (key d) x v) l s = set_all (map key l) x s.
Proof.
  intros key x l. induction l as [|d t IH]; intros s; [reflexivity|].
  cbn [fold_eff map set_all]. apply IH.
Qed.

(* the keys written by CreateIndex *)
Definition new_idx_keys (c f : bytes) (sc : scoll) : list bytes :=
  map (fun d => ikey c d f) (docs_by_id sc).

Lemma new_idx_keys_In : forall db c sc f k, wf_db db -> assoc c db = Some sc ->
  (In k (new_idx_keys c f sc) <->
   exists id d, assoc id (sc_docs sc) = Some d /\ k = idx_key c f (doc_get f d) id).
Proof.
  intros db c sc f k Hwf Ha. unfold new_idx_keys. rewrite in_map_iff. split.
  - intros (d & Ek & Hin). pose proof (docs_by_id_stored db c sc d Hwf Ha Hin) as Hd.
    exists (object_id d), d. split; [exact Hd | symmetry; exact Ek].
  - intros (id & d & Hd & Ek). exists d. split.
    + unfold ikey. rewrite (wf_doc_object_id db c sc id d Hwf Ha Hd). symmetry. exact Ek.
    + apply (docs_by_id_In db c sc id d Hwf Ha Hd).
Qed.

Lemma runs_iterate_index : forall db c sc f s cm, wf_db db -> assoc c db = Some sc -> R db s ->
  runs (iterate_docs (mkNQ c None (-1) 0 []) (index_doc c f) tt) s cm (Ok tt)
       (set_all (new_idx_keys c f sc) SEmpty s) cm.
Proof.
  intros db c sc f s cm Hwf Ha HR. unfold iterate_docs. cbn [nq_coll nq_crit nq_sort nq_skip nq_limit].
  pose proof (R_get_meta db s c HR Hwf) as Hg. rewrite Ha in Hg.
  eapply runs_bind; [apply (runs_get_meta_some _ _ _ _ _ Hg)|]. cbn [snd].
  rewrite exec_plan_full. cbn [run_input].
  pose proof (full_scan_eff db c sc s _ (down (index_doc c f) 0 (-1))
                (fun d st => mkD (d_skipped st) (d_consumed st) tt)
                (fun d v => kv_set (ikey c d f) SEmpty v) Hwf Ha HR
                (runs_down_index_doc c f) (mkD 0 0 tt) cm) as H.
  rewrite fold_eff_set_all in H. fold (new_idx_keys c f sc) in H.
  eapply runs_bind; [exact H|].
  assert (E : forall l (st : @dstate unit),
             d_acc (fold_eff (fun (d : obj) (st : @dstate unit) => mkD (d_skipped st) (d_consumed st) tt) l st) = d_acc st).
  { induction l as [|d t IH]; intros st; [reflexivity|]. cbn [fold_eff]. rewrite IH. destruct st as [a b []]. reflexivity. }
  rewrite E. cbn [d_acc]. apply runs_ret.
Qed.

(* the key-space effect of adding an index on f to collection c *)
Lemma create_index_spec : forall db c sc f, wf_db db -> assoc c db = Some sc ->
  no_semi f = true -> ~ In f (sc_idx sc) ->
  forall k v,
    ((k = coll_key c /\ v = SMeta (Z.of_nat (length (sc_docs sc))) (sc_idx sc ++ [f])) \/
     (k <> coll_key c /\
      ((In k (new_idx_keys c f sc) /\ v = SEmpty) \/
       (~ In k (new_idx_keys c f sc) /\ denotes db k v)))) <->
    denotes (assoc_set c (mkSC (sc_docs sc) (sc_idx sc ++ [f])) db) k v.
Proof.
  intros db c sc f Hwf Ha Hf Hnf k v.
  pose proof (wf_coll_name db c sc Hwf Ha) as Hc.
  set (sc2 := mkSC (sc_docs sc) (sc_idx sc ++ [f])).
  split.
  - intros [(Ek & Ev) | (Ekc & [(Hin & Ev) | (Hn & H)])].
    + subst k v. apply den_set_join. right. apply (sden_meta c sc2).
    + apply (new_idx_keys_In db c sc f k Hwf Ha) in Hin. destruct Hin as (id & d & Hd & Ek).
      subst k v. apply den_set_join. right. apply (sden_idx c sc2 id d f); [exact Hd|].
      cbn [sc_idx sc2]. apply in_or_app. right. left. reflexivity.
    + destruct (den_split db c k v Hwf Hc H) as [(Hk & _) | (sc0 & Ha0 & Hs)].
      * apply den_set_join. left. split; assumption.
      * rewrite Ha in Ha0. injection Ha0 as Ha0. subst sc0.
        apply den_set_join. right. apply sden_inv in Hs.
        destruct Hs as [(E1 & _) | [(id1 & d1 & Hd1 & E1 & Ev) | (id1 & d1 & f1 & Hd1 & Hf1 & E1 & Ev)]].
        -- contradiction (Ekc E1).
        -- subst k v. apply (sden_doc c sc2 id1 d1). exact Hd1.
        -- subst k v. apply (sden_idx c sc2 id1 d1 f1); [exact Hd1|].
           cbn [sc_idx sc2]. apply in_or_app. left. exact Hf1.
  - intros H. apply den_set_split in H; [|exact Hwf|exact Hc]. destruct H as [(Hk & H) | H].
    + right. split; [intros E; subst k; apply Hk; apply kic_coll|]. right. split; [|exact H].
      intros Hin. apply (new_idx_keys_In db c sc f k Hwf Ha) in Hin.
      destruct Hin as (id & d & _ & Ek). subst k. apply Hk. apply kic_idx.
    + apply sden_inv in H. cbn [sc_docs sc_idx sc2] in H.
      destruct H as [(E1 & Ev) | [(id1 & d1 & Hd1 & E1 & Ev) | (id1 & d1 & f1 & Hd1 & Hf1 & E1 & Ev)]].
      * left. split; assumption.
      * subst k v. right. split; [intros F; symmetry in F; exact (coll_key_not_doc _ _ _ F)|].
        right. split; [|apply (den_doc db c sc id1 d1); assumption].
        intros Hin. apply (new_idx_keys_In db c sc f _ Hwf Ha) in Hin.
        destruct Hin as (id & d & _ & Ek). exact (doc_key_not_idx _ _ _ _ _ _ Hc Hc Ek).
      * subst k v. right. split; [intros F; symmetry in F; exact (coll_key_not_idx _ _ _ _ _ F)|].
        apply in_app_or in Hf1. destruct Hf1 as [Hf1 | [Ef | []]].
        -- right. split; [|apply (den_idx db c sc id1 d1 f1); assumption].
           intros Hin. apply (new_idx_keys_In db c sc f _ Hwf Ha) in Hin.
           destruct Hin as (id & d & Hd & Ek).
           apply idx_key_inj in Ek; try assumption.
           ++ destruct Ek as (_ & Ef & _). subst f1. exact (Hnf Hf1).
           ++ exact (wf_idx_name db c sc f1 Hwf Ha Hf1).
           ++ exact (proj1 (wf_doc_id_ok db c sc id1 d1 Hwf Ha Hd1)).
           ++ exact (proj1 (wf_doc_id_ok db c sc id d Hwf Ha Hd)).
        -- subst f1. left. split; [|reflexivity].
           apply (new_idx_keys_In db c sc f _ Hwf Ha). exists id1, d1. split; [exact Hd1 | reflexivity].
Qed.

Theorem create_index_refines : forall db s c f, wf_db db -> R db s ->
  no_semi c = true -> no_semi f = true ->
  let out := with_tx (create_index_tx c f) None (mkDb s false) in
  match s_create_index c f db with
  | Ok db' => o_res out = Ok tt /\ R db' (durable (o_db out)) /\ wf_db db'
  | Err e => o_res out = Err e /\ o_db out = mkDb s false
  end.
Proof.
  intros db s c f Hwf HR Hc Hf. cbv zeta.
  pose proof (R_get_meta db s c HR Hwf) as Hg.
  pose proof (wf_s_create_index c f db) as Hwf'.
  unfold s_create_index in *. destruct (assoc c db) as [sc|] eqn:Ha.
  - destruct (has_field f (sc_idx sc)) eqn:Hh.
    + assert (Hrun : runs (create_index_tx c f) s None (Err EIdxExist) s None).
      { unfold create_index_tx. eapply runs_bind; [apply (runs_get_meta_some _ _ _ _ _ Hg)|].
        cbn [fst snd]. rewrite Hh. apply runs_fail. }
      destruct (runs_with_tx _ _ _ _ _ _ Hrun) as (Er & Ed). rewrite Er, Ed. split; reflexivity.
    + set (n := Z.of_nat (length (sc_docs sc))) in *.
      set (s1 := set_all (new_idx_keys c f sc) SEmpty s).
      set (s' := kv_set (coll_key c) (SMeta n (sc_idx sc ++ [f])) s1).
      assert (Hrun : runs (create_index_tx c f) s None (Ok tt) s' (Some s')).
      { unfold create_index_tx. eapply runs_bind; [apply (runs_get_meta_some _ _ _ _ _ Hg)|].
        cbn [fst snd]. rewrite Hh.
        eapply runs_bind; [apply (runs_iterate_index db c sc f s None Hwf Ha HR)|].
        eapply runs_bind; [apply runs_save_meta|]. apply runs_tx_commit. }
      destruct (runs_with_tx _ _ _ _ _ _ Hrun) as (Er & Ed). rewrite Er, Ed. cbn [durable].
      split; [reflexivity|]. split; [|apply (Hwf' _ Hwf Hf eq_refl)].
      apply R_Rp. apply has_field_false in Hh.
      eapply Rp_equiv; [apply (create_index_spec db c sc f Hwf Ha Hf Hh)|].
      apply Rp_set. apply Rp_set_all. apply R_Rp. exact HR.
  - assert (Hrun : runs (create_index_tx c f) s None (Err ECollNotExist) s None).
    { unfold create_index_tx. eapply runs_bind_err.
      pose proof (runs_get_meta c s None) as Hm. rewrite Hg in Hm. exact Hm. }
    destruct (runs_with_tx _ _ _ _ _ _ Hrun) as (Er & Ed). rewrite Er, Ed. split; reflexivity.
Qed.

(* what the new index holds: exactly one entry per document, under the document's current value of f *)
Corollary create_index_entries : forall db s c f sc, wf_db db -> R db s ->
  no_semi c = true -> no_semi f = true -> assoc c db = Some sc -> ~ In f (sc_idx sc) ->
  let s' := durable (o_db (with_tx (create_index_tx c f) None (mkDb s false))) in
  (forall id d, assoc id (sc_docs sc) = Some d -> In (idx_key c f (doc_get f d) id, SEmpty) s') /\
  (forall e, In e s' -> is_prefix (idx_prefix c f) (fst e) = true ->
     exists id d, assoc id (sc_docs sc) = Some d /\ e = (idx_key c f (doc_get f d) id, SEmpty)) /\
  (forall id d x, assoc id (sc_docs sc) = Some d ->
     In (idx_key c f x id, SEmpty) s' -> idx_value_key c f x = idx_value_key c f (doc_get f d)).
Proof.
  intros db s c f sc Hwf HR Hc Hf Ha Hnf. cbv zeta.
  pose proof (create_index_refines db s c f Hwf HR Hc Hf) as H. cbv zeta in H.
  unfold s_create_index in H. rewrite Ha in H.
  apply has_field_false in Hnf. rewrite Hnf in H. destruct H as (_ & HR' & Hwf').
  set (sc2 := mkSC (sc_docs sc) (sc_idx sc ++ [f])) in *.
  set (s' := durable (o_db (with_tx (create_index_tx c f) None (mkDb s false)))) in *.
  assert (Ha2 : assoc c (assoc_set c sc2 db) = Some sc2) by apply assoc_set_same.
  assert (Hf2 : In f (sc_idx sc2)) by (cbn; apply in_or_app; right; left; reflexivity).
  split; [|split].
  - intros id d Hd. exact (proj1 (R_idx_entry_in _ s' c sc2 f id d HR' Ha2 Hd Hf2)).
  - intros e Hin Hp.
    destruct (R_idx_prefix_entries _ s' c f HR' Hwf' Hc Hf e Hin Hp) as (sc0 & id & d & Ha0 & Hd & _ & E).
    rewrite Ha2 in Ha0. injection Ha0 as Ha0. subst sc0. exists id, d. split; assumption.
  - intros id d x Hd Hin.
    apply (kv_get_in _ _ s' (R_sorted _ s' HR')) in Hin.
    pose proof (wf_doc_id_ok _ c sc2 id d Hwf' Ha2 Hd) as (Hlen & _).
    apply (R_get_idx_iff _ s' c f x id SEmpty HR' Hwf' Hc Hf Hlen) in Hin.
    destruct Hin as (_ & sc0 & d0 & Ha0 & Hd0 & _ & E).
    rewrite Ha2 in Ha0. injection Ha0 as Ha0. subst sc0. cbn [sc_docs sc2] in Hd0.
    rewrite Hd in Hd0. injection Hd0 as Hd0. subst d0. exact E.
Qed.

(* ================================================================== *)
(* 5. B2: DropIndex                                                     *)
(* ================================================================== *)

Lemma runs_idx_drop_loop : forall p cur v cm,
  runs (idx_drop_loop p cur) v cm (Ok tt) (del_all (map fst (take_prefix p cur)) v) cm.
Proof.
  intros p cur. induction cur as [|e t IH]; intros v cm.
  - apply runs_ret.
  - cbn [idx_drop_loop take_prefix]. eapply runs_bind; [apply runs_cursor_item|].
    destruct (is_prefix p (fst e)) eqn:Ep.
    + cbn [map del_all]. eapply runs_bind; [apply runs_tx_delete|]. apply IH.
    + apply runs_ret.
Qed.

Lemma runs_idx_drop : forall c f v cm, kv_sorted v ->
  runs (idx_drop c f) v cm (Ok tt)
       (del_all (map fst (filter (fun e => is_prefix (idx_prefix c f) (fst e)) v)) v) cm.
Proof.
  intros c f v cm Hs. unfold idx_drop. eapply runs_bind; [apply runs_tx_cursor|]. cbn [cursor_seek].
  rewrite <- (prefix_scan_spec _ _ Hs). apply runs_idx_drop_loop.
Qed.

Lemma idx_key_has_prefix : forall c f x id, is_prefix (idx_prefix c f) (idx_key c f x id) = true.
Proof. intros. rewrite idx_key_tail. apply is_prefix_app. Qed.

(* a denoted key that carries the prefix of the index on (c, f) is an entry of that index *)
Lemma den_idx_prefix : forall db c f k v, wf_db db -> no_semi c = true -> no_semi f = true ->
  denotes db k v -> is_prefix (idx_prefix c f) k = true ->
  exists sc id d, assoc c db = Some sc /\ assoc id (sc_docs sc) = Some d /\ In f (sc_idx sc) /\
                  k = idx_key c f (doc_get f d) id /\ v = SEmpty.
Proof.
  intros db c f k v Hwf Hc Hf H Hp.
  destruct (den_cases_full db k v Hwf H)
    as [(c0 & sc & Ha & Hc0 & Ek & Ev) | [(c0 & sc & id0 & d & Ha & Hd & Hc0 & Hid & Hok & Ek & Ev)
       | (c0 & sc & id0 & d & f0 & Ha & Hd & Hf0 & Hc0 & Hf0' & Hid & Hok & Ek & Ev)]]; subst k v.
  - rewrite idx_prefix_coll in Hp. discriminate Hp.
  - rewrite (idx_prefix_doc c f c0 id0 Hc Hc0) in Hp. discriminate Hp.
  - apply (idx_prefix_idx c f c0 f0 _ id0 Hc Hc0 Hf Hf0') in Hp. destruct Hp as [E1 E2]. subst c0 f0.
    exists sc, id0, d. repeat split; assumption.
Qed.

(* the keys of the view after the loop of Drop(): everything but the keys with the index prefix *)
Lemma Rp_drop_prefix : forall db s p, R db s ->
  Rp (fun k v => is_prefix p k = false /\ denotes db k v)
     (del_all (map fst (filter (fun e => is_prefix p (fst e)) s)) s).
Proof.
  intros db s p HR. eapply Rp_equiv; [|apply Rp_del_all; apply R_Rp; exact HR].
  intros k v. cbv beta. split.
  - intros (Hn & H). split; [|exact H].
    destruct (is_prefix p k) eqn:Ep; [|reflexivity]. exfalso. apply Hn.
    apply in_map_iff. exists (k, v). split; [reflexivity|]. apply filter_In. split.
    + apply (R_In_iff db s k v HR). exact H.
    + exact Ep.
  - intros (Ep & H). split; [|exact H]. intros Hin. apply in_map_iff in Hin.
    destruct Hin as ([k0 v0] & Ek & Hin). cbn in Ek. subst k0. apply filter_In in Hin.
    destruct Hin as (_ & F). cbn in F. rewrite Ep in F. discriminate F.
Qed.

(* the key-space effect of removing the index on f from the catalog of c *)
Lemma drop_index_spec : forall db c sc f j, wf_db db -> assoc c db = Some sc ->
  no_semi f = true -> last_index_of f (sc_idx sc) 0 None = Some j ->
  forall k v,
    ((k = coll_key c /\ v = SMeta (Z.of_nat (length (sc_docs sc))) (drop_slot j (sc_idx sc))) \/
     (k <> coll_key c /\ is_prefix (idx_prefix c f) k = false /\ denotes db k v)) <->
    denotes (assoc_set c (mkSC (sc_docs sc) (drop_slot j (sc_idx sc))) db) k v.
Proof.
  intros db c sc f j Hwf Ha Hf Hj k v.
  pose proof (wf_coll_name db c sc Hwf Ha) as Hc.
  pose proof (wf_idx_NoDup db c sc Hwf Ha) as Hni.
  set (sc2 := mkSC (sc_docs sc) (drop_slot j (sc_idx sc))).
  split.
  - intros [(Ek & Ev) | (Ekc & Ep & H)].
    + subst k v. apply den_set_join. right. apply (sden_meta c sc2).
    + destruct (den_split db c k v Hwf Hc H) as [(Hk & _) | (sc0 & Ha0 & Hs)].
      * apply den_set_join. left. split; assumption.
      * rewrite Ha in Ha0. injection Ha0 as Ha0. subst sc0.
        apply den_set_join. right. apply sden_inv in Hs.
        destruct Hs as [(E1 & _) | [(id1 & d1 & Hd1 & E1 & Ev) | (id1 & d1 & f1 & Hd1 & Hf1 & E1 & Ev)]].
        -- contradiction (Ekc E1).
        -- subst k v. apply (sden_doc c sc2 id1 d1). exact Hd1.
        -- subst k v. apply (sden_idx c sc2 id1 d1 f1); [exact Hd1|]. cbn [sc_idx sc2].
           apply (drop_slot_In_iff f (sc_idx sc) j f1 Hj Hni). split; [exact Hf1|].
           intros E. subst f1. rewrite idx_key_has_prefix in Ep.
           discriminate Ep.
  - intros H. apply den_set_split in H; [|exact Hwf|exact Hc]. destruct H as [(Hk & H) | H].
    + right. split; [intros E; subst k; apply Hk; apply kic_coll|]. split; [|exact H].
      destruct (is_prefix (idx_prefix c f) k) eqn:Ep; [|reflexivity]. exfalso.
      destruct (den_idx_prefix db c f k v Hwf Hc Hf H Ep) as (_ & id & d & _ & _ & _ & Ek & _).
      subst k. apply Hk. apply kic_idx.
    + apply sden_inv in H. cbn [sc_docs sc_idx sc2] in H.
      destruct H as [(E1 & Ev) | [(id1 & d1 & Hd1 & E1 & Ev) | (id1 & d1 & f1 & Hd1 & Hf1 & E1 & Ev)]].
      * left. split; assumption.
      * subst k v. right. split; [intros F; symmetry in F; exact (coll_key_not_doc _ _ _ F)|].
        split; [apply (idx_prefix_doc c f c id1 Hc Hc)|]. apply (den_doc db c sc id1 d1); assumption.
      * apply (drop_slot_In_iff f (sc_idx sc) j f1 Hj Hni) in Hf1. destruct Hf1 as (Hf1 & Hne).
        subst k v. right. split; [intros F; symmetry in F; exact (coll_key_not_idx _ _ _ _ _ F)|].
        split; [|apply (den_idx db c sc id1 d1 f1); assumption].
        destruct (is_prefix (idx_prefix c f) (idx_key c f1 (doc_get f1 d1) id1)) eqn:Ep; [|reflexivity].
        exfalso. apply (idx_prefix_idx c f c f1 _ id1 Hc Hc Hf (wf_idx_name db c sc f1 Hwf Ha Hf1)) in Ep.
        destruct Ep as (_ & E). apply Hne. symmetry. exact E.
Qed.

Theorem drop_index_refines : forall db s c f, wf_db db -> R db s ->
  no_semi c = true -> no_semi f = true ->
  let out := with_tx (drop_index_tx c f) None (mkDb s false) in
  match s_drop_index c f db with
  | Ok db' => o_res out = Ok tt /\ R db' (durable (o_db out)) /\ wf_db db'
  | Err e => o_res out = Err e /\ o_db out = mkDb s false
  end.
Proof.
  intros db s c f Hwf HR Hc Hf. cbv zeta.
  pose proof (R_get_meta db s c HR Hwf) as Hg.
  pose proof (wf_s_drop_index c f db) as Hwf'.
  unfold s_drop_index in *. destruct (assoc c db) as [sc|] eqn:Ha.
  - destruct (last_index_of f (sc_idx sc) 0 None) as [j|] eqn:Hj.
    + set (n := Z.of_nat (length (sc_docs sc))) in *.
      set (s1 := del_all (map fst (filter (fun e => is_prefix (idx_prefix c f) (fst e)) s)) s).
      set (s' := kv_set (coll_key c) (SMeta n (drop_slot j (sc_idx sc))) s1).
      assert (Hrun : runs (drop_index_tx c f) s None (Ok tt) s' (Some s')).
      { unfold drop_index_tx. eapply runs_bind; [apply (runs_get_meta_some _ _ _ _ _ Hg)|].
        cbn [fst snd]. rewrite Hj.
        eapply runs_bind; [apply (runs_idx_drop c f s None (R_sorted db s HR))|].
        eapply runs_bind; [apply runs_save_meta|]. apply runs_tx_commit. }
      destruct (runs_with_tx _ _ _ _ _ _ Hrun) as (Er & Ed). rewrite Er, Ed. cbn [durable].
      split; [reflexivity|]. split; [|apply (Hwf' _ Hwf eq_refl)].
      apply R_Rp.
      eapply Rp_equiv; [apply (drop_index_spec db c sc f j Hwf Ha Hf Hj)|].
      apply Rp_set. apply Rp_drop_prefix. exact HR.
    + assert (Hrun : runs (drop_index_tx c f) s None (Err EIdxNotExist) s None).
      { unfold drop_index_tx. eapply runs_bind; [apply (runs_get_meta_some _ _ _ _ _ Hg)|].
        cbn [fst snd]. rewrite Hj. apply runs_fail. }
      destruct (runs_with_tx _ _ _ _ _ _ Hrun) as (Er & Ed). rewrite Er, Ed. split; reflexivity.
  - assert (Hrun : runs (drop_index_tx c f) s None (Err ECollNotExist) s None).
    { unfold drop_index_tx. eapply runs_bind_err.
      pose proof (runs_get_meta c s None) as Hm. rewrite Hg in Hm. exact Hm. }
    destruct (runs_with_tx _ _ _ _ _ _ Hrun) as (Er & Ed). rewrite Er, Ed. split; reflexivity.
Qed.

(* the catalog loses exactly f; entries of every other index (x / xy) stay *)
Corollary drop_index_catalog : forall db c f db' sc, wf_db db ->
  s_drop_index c f db = Ok db' -> assoc c db = Some sc ->
  exists sc', assoc c db' = Some sc' /\ sc_docs sc' = sc_docs sc /\
    forall g, In g (sc_idx sc') <-> In g (sc_idx sc) /\ g <> f.
Proof.
  intros db c f db' sc Hwf H Ha. unfold s_drop_index in H. rewrite Ha in H.
  destruct (last_index_of f (sc_idx sc) 0 None) as [j|] eqn:Hj; [|discriminate H].
  injection H as H. subst db'. eexists. split; [apply assoc_set_same|]. split; [reflexivity|].
  intros g. cbn [sc_idx]. apply (drop_slot_In_iff f (sc_idx sc) j g Hj (wf_idx_NoDup db c sc Hwf Ha)).
Qed.

Corollary drop_index_keeps_others : forall db s c f db' sc g id d, wf_db db -> R db s ->
  no_semi c = true -> no_semi f = true ->
  s_drop_index c f db = Ok db' -> assoc c db = Some sc ->
  In g (sc_idx sc) -> g <> f -> assoc id (sc_docs sc) = Some d ->
  In (idx_key c g (doc_get g d) id, SEmpty)
     (durable (o_db (with_tx (drop_index_tx c f) None (mkDb s false)))).
Proof.
  intros db s c f db' sc g id d Hwf HR Hc Hf Hs Ha Hg Hne Hd.
  pose proof (drop_index_refines db s c f Hwf HR Hc Hf) as H. cbv zeta in H. rewrite Hs in H.
  destruct H as (_ & HR' & _).
  destruct (drop_index_catalog db c f db' sc Hwf Hs Ha) as (sc' & Ha' & Hdocs & Hidx).
  apply (R_idx_entry_in db' _ c sc' g id d HR' Ha').
  - rewrite Hdocs. exact Hd.
  - apply Hidx. split; assumption.
Qed.

(* ================================================================== *)
(* 6. B3: the bulk rewrite of a selection                               *)
(* ================================================================== *)

(* ---- abstract-side facts (C03) ---- *)
Theorem apply_sel_untouched : forall u sel ds0 ds id,
  s_apply_sel u sel ds0 = Ok ds -> ~ In id (map object_id sel) -> assoc id ds = assoc id ds0.
Proof.
  intros u sel. induction sel as [|d t IH]; intros ds0 ds id H Hn; cbn [s_apply_sel] in H.
  - injection H as H. subst ds. reflexivity.
  - cbn [map] in Hn.
    assert (Hne : object_id d <> id) by (intros E; apply Hn; left; exact E).
    assert (Hnt : ~ In id (map object_id t)) by (intros F; apply Hn; right; exact F).
    destruct (apply_updater u d) as [d'|].
    + destruct (negb (beqb (object_id d') (object_id d))); [discriminate H|].
      destruct (validate d'); [|discriminate H].
      rewrite (IH _ _ _ H Hnt). apply assoc_set_other. exact Hne.
    + rewrite (IH _ _ _ H Hnt). apply assoc_del_other. exact Hne.
Qed.

Theorem apply_sel_updated : forall u sel ds0 ds d,
  s_apply_sel u sel ds0 = Ok ds -> In d sel -> NoDup (map object_id sel) ->
  assoc (object_id d) ds = apply_updater u d.
Proof.
  intros u sel. induction sel as [|d0 t IH]; intros ds0 ds d H Hin Hnd; [contradiction Hin|].
  cbn [map] in Hnd. inversion Hnd as [|x l Hnotin Hnd']; subst.
  cbn [s_apply_sel] in H. destruct Hin as [E|Hin].
  - subst d0. destruct (apply_updater u d) as [d'|].
    + destruct (negb (beqb (object_id d') (object_id d))); [discriminate H|].
      destruct (validate d'); [|discriminate H].
      rewrite (apply_sel_untouched _ _ _ _ _ H Hnotin). apply assoc_set_same.
    + rewrite (apply_sel_untouched _ _ _ _ _ H Hnotin). apply assoc_del_same.
  - destruct (apply_updater u d0) as [d'|].
    + destruct (negb (beqb (object_id d') (object_id d0))); [discriminate H|].
      destruct (validate d'); [|discriminate H]. exact (IH _ _ _ H Hin Hnd').
    + exact (IH _ _ _ H Hin Hnd').
Qed.

(* a successful rewrite keeps ids and produces valid documents *)
Lemma apply_sel_results : forall u sel ds0 ds d d',
  s_apply_sel u sel ds0 = Ok ds -> In d sel -> apply_updater u d = Some d' ->
  object_id d' = object_id d /\ validate d' = true.
Proof.
  intros u sel. induction sel as [|d0 t IH]; intros ds0 ds d d' H Hin Hu; [contradiction Hin|].
  cbn [s_apply_sel] in H. destruct Hin as [E|Hin].
  - subst d0. rewrite Hu in H.
    destruct (negb (beqb (object_id d') (object_id d))) eqn:Eb; [discriminate H|].
    destruct (validate d'); [|discriminate H]. split; [apply beqb_neg_false; exact Eb | reflexivity].
  - destruct (apply_updater u d0) as [d0'|].
    + destruct (negb (beqb (object_id d0') (object_id d0))); [discriminate H|].
      destruct (validate d0'); [|discriminate H]. exact (IH _ _ _ _ H Hin Hu).
    + exact (IH _ _ _ _ H Hin Hu).
Qed.

(* ---- one iteration of the loop, on the view with a stale Size counter ---- *)
Section Step.
  Variables (db : sdb) (c : bytes) (sc : scoll) (n : Z).
  Hypothesis Hwf : wf_db db.
  Hypothesis Ha : assoc c db = Some sc.

  Lemma Dm_delete_step : forall id d0, assoc id (sc_docs sc) = Some d0 ->
    forall k v,
      (k <> doc_key c id /\ (forall f, In f (sc_idx sc) -> k <> ikey c d0 f) /\
       Dm c n (sc_idx sc) db k v) <->
      Dm c n (sc_idx sc) (assoc_set c (mkSC (assoc_del id (sc_docs sc)) (sc_idx sc)) db) k v.
  Proof.
    intros id d0 Hd0 k v.
    pose proof (delete_spec db c sc Hwf Ha id d0 Hd0 k v) as H. unfold Dm.
    assert (E1 : coll_key c <> doc_key c id) by apply coll_key_not_doc.
    assert (E2 : forall f, In f (sc_idx sc) -> coll_key c <> ikey c d0 f)
      by (intros f _; apply coll_key_not_idx).
    destruct (bytes_eq_dec k (coll_key c)) as [E|E]; [subst k|]; tauto.
  Qed.

  Lemma Dm_update_step : forall id d0 d', assoc id (sc_docs sc) = Some d0 -> object_id d' = id ->
    forall k v,
      ((k = doc_key c id /\ v = SDoc (doc_encode d')) \/
       (k <> doc_key c id /\
        ((exists f, In f (sc_idx sc) /\ k = ikey c d' f /\ v = SEmpty) \/
         ((forall f, In f (sc_idx sc) -> k <> ikey c d' f) /\
          (forall f, In f (sc_idx sc) -> k <> ikey c d0 f) /\ Dm c n (sc_idx sc) db k v)))) <->
      Dm c n (sc_idx sc) (assoc_set c (mkSC (assoc_set id d' (sc_docs sc)) (sc_idx sc)) db) k v.
  Proof.
    intros id d0 d' Hd0 Hoid k v.
    pose proof (update_spec db c sc Hwf Ha id d0 d' Hd0 Hoid k v) as H. unfold Dm.
    assert (E1 : coll_key c <> doc_key c id) by apply coll_key_not_doc.
    assert (E2 : forall f, In f (sc_idx sc) -> coll_key c <> ikey c d0 f)
      by (intros f _; apply coll_key_not_idx).
    assert (E3 : forall f, In f (sc_idx sc) -> coll_key c <> ikey c d' f)
      by (intros f _; apply coll_key_not_idx).
    assert (E4 : ~ (exists f, In f (sc_idx sc) /\ coll_key c = ikey c d' f /\ v = SEmpty)).
    { intros (f & _ & F & _). exact (coll_key_not_idx _ _ _ _ _ F). }
    destruct (bytes_eq_dec k (coll_key c)) as [E|E]; [subst k|]; tauto.
  Qed.
End Step.

(* ---- the loop ---- *)
Lemma replace_loop_refines : forall c u sel db sc view n cm deleted,
  wf_db db -> assoc c db = Some sc ->
  (forall d, In d sel -> assoc (object_id d) (sc_docs sc) = Some d) ->
  NoDup (map object_id sel) ->
  Rp (Dm c n (sc_idx sc) db) view ->
  match s_apply_sel u sel (sc_docs sc) with
  | Ok ds =>
      exists view',
        runs (replace_loop c (sc_idx sc) u sel deleted) view cm
             (Ok (deleted + (Z.of_nat (length (sc_docs sc)) - Z.of_nat (length ds)))) view' cm /\
        Rp (Dm c n (sc_idx sc) (assoc_set c (mkSC ds (sc_idx sc)) db)) view' /\
        wf_db (assoc_set c (mkSC ds (sc_idx sc)) db) /\
        (length ds <= length (sc_docs sc))%nat
  | Err e => exists view', runs (replace_loop c (sc_idx sc) u sel deleted) view cm (Err e) view' cm
  end.
Proof.
  intros c u sel. induction sel as [|d t IH]; intros db sc view n cm deleted Hwf Ha Hst Hnd HRp.
  - cbn [s_apply_sel replace_loop]. exists view.
    destruct sc as [ds idx]. cbn [sc_docs sc_idx] in *. rewrite (assoc_set_id _ c _ db Ha).
    split; [|split; [exact HRp | split; [exact Hwf | lia]]].
    replace (deleted + (Z.of_nat (length ds) - Z.of_nat (length ds))) with deleted by lia.
    apply runs_ret.
  - pose proof (wf_coll_name db c sc Hwf Ha) as Hc.
    set (id := object_id d).
    assert (Hd0 : assoc id (sc_docs sc) = Some d) by (apply Hst; left; reflexivity).
    cbn [map] in Hnd. inversion Hnd as [|x l Hnotin Hnd']; subst x l. fold id in Hnotin.
    assert (Hst' : forall sc2, (forall id1, id1 <> id -> assoc id1 (sc_docs sc2) = assoc id1 (sc_docs sc)) ->
                     forall d1, In d1 t -> assoc (object_id d1) (sc_docs sc2) = Some d1).
    { intros sc2 Hfr d1 Hd1. rewrite Hfr; [apply Hst; right; exact Hd1|].
      intros E. apply Hnotin. rewrite <- E. apply in_map. exact Hd1. }
    set (v1 := del_view c (sc_idx sc) d view).
    pose proof (Rp_del_view c d (sc_idx sc) _ view HRp) as H1. fold v1 in H1.
    cbn [s_apply_sel replace_loop]. fold id. cbv zeta.
    destruct (apply_updater u d) as [d'|] eqn:Hu.
    + destruct (negb (beqb (object_id d') id)) eqn:Hidb.
      * exists v1. eapply runs_bind; [apply runs_del_from_indexes|]. fold v1. apply runs_fail.
      * pose proof (beqb_neg_false _ _ Hidb) as Hoid'.
        set (v2 := add_view c (sc_idx sc) d' v1).
        destruct (validate d') eqn:Hval.
        -- set (v3 := kv_set (doc_key c id) (SDoc (doc_encode d')) v2).
           set (sc2 := mkSC (assoc_set id d' (sc_docs sc)) (sc_idx sc)).
           set (db2 := assoc_set c sc2 db).
           assert (Hwf2 : wf_db db2).
           { apply (wf_s_update_by_id c id u db db2 Hwf). unfold s_update_by_id.
             rewrite Ha, Hd0, Hu, Hidb, Hval. reflexivity. }
           assert (Ha2 : assoc c db2 = Some sc2) by (apply assoc_set_same).
           assert (H3 : Rp (Dm c n (sc_idx sc2) db2) v3).
           { eapply Rp_equiv; [apply (Dm_update_step db c sc n Hwf Ha id d d' Hd0 Hoid')|].
             apply Rp_set. apply Rp_add_view. exact H1. }
           assert (Hst2 : forall d1, In d1 t -> assoc (object_id d1) (sc_docs sc2) = Some d1).
           { apply Hst'. intros id1 Hne. cbn [sc_docs sc2]. apply assoc_set_other.
             intros E. apply Hne. symmetry. exact E. }
           specialize (IH db2 sc2 v3 n cm deleted Hwf2 Ha2 Hst2 Hnd' H3).
           cbn [sc_docs sc_idx sc2] in IH.
           assert (Hlen : length (assoc_set id d' (sc_docs sc)) = length (sc_docs sc))
             by (apply (assoc_set_length_present id d' d); exact Hd0).
           destruct (s_apply_sel u t (assoc_set id d' (sc_docs sc))) as [ds|e].
           ++ destruct IH as (view' & Hr & HRp' & Hwf' & Hle). exists view'.
              unfold db2 in HRp', Hwf'. rewrite assoc_set_set in HRp', Hwf'. rewrite Hlen in Hr, Hle.
              split; [|split; [exact HRp' | split; [exact Hwf' | exact Hle]]].
              eapply runs_bind; [apply runs_del_from_indexes|]. fold v1.
              eapply runs_bind; [apply runs_add_to_indexes|]. fold v2.
              eapply runs_bind; [unfold save_document; rewrite Hval; apply runs_tx_set|]. exact Hr.
           ++ destruct IH as (view' & Hr). exists view'.
              eapply runs_bind; [apply runs_del_from_indexes|]. fold v1.
              eapply runs_bind; [apply runs_add_to_indexes|]. fold v2.
              eapply runs_bind; [unfold save_document; rewrite Hval; apply runs_tx_set|]. exact Hr.
        -- exists v2. eapply runs_bind; [apply runs_del_from_indexes|]. fold v1.
           eapply runs_bind; [apply runs_add_to_indexes|]. fold v2.
           eapply runs_bind_err. unfold save_document. rewrite Hval. apply runs_fail.
    + set (v2 := kv_del (doc_key c id) v1).
      set (sc2 := mkSC (assoc_del id (sc_docs sc)) (sc_idx sc)).
      set (db2 := assoc_set c sc2 db).
      assert (Hwf2 : wf_db db2).
      { apply (wf_s_delete_by_id c id db db2 Hwf). unfold s_delete_by_id. rewrite Ha. reflexivity. }
      assert (Ha2 : assoc c db2 = Some sc2) by (apply assoc_set_same).
      assert (H2 : Rp (Dm c n (sc_idx sc2) db2) v2).
      { eapply Rp_equiv; [apply (Dm_delete_step db c sc n Hwf Ha id d Hd0)|].
        apply Rp_del. exact H1. }
      assert (Hst2 : forall d1, In d1 t -> assoc (object_id d1) (sc_docs sc2) = Some d1).
      { apply Hst'. intros id1 Hne. cbn [sc_docs sc2]. apply assoc_del_other.
        intros E. apply Hne. symmetry. exact E. }
      specialize (IH db2 sc2 v2 n cm (deleted + 1) Hwf2 Ha2 Hst2 Hnd' H2).
      cbn [sc_docs sc_idx sc2] in IH.
      pose proof (assoc_del_length_present_S id d (sc_docs sc) (wf_docs_NoDup db c sc Hwf Ha) Hd0) as Hlen.
      destruct (s_apply_sel u t (assoc_del id (sc_docs sc))) as [ds|e].
      * destruct IH as (view' & Hr & HRp' & Hwf' & Hle). exists view'.
        unfold db2 in HRp', Hwf'. rewrite assoc_set_set in HRp', Hwf'.
        split; [|split; [exact HRp' | split; [exact Hwf' | lia]]].
        eapply runs_bind; [apply runs_del_from_indexes|]. fold v1.
        eapply runs_bind; [apply runs_tx_delete|]. fold v2.
        replace (deleted + (Z.of_nat (length (sc_docs sc)) - Z.of_nat (length ds)))
          with (deleted + 1 + (Z.of_nat (length (assoc_del id (sc_docs sc))) - Z.of_nat (length ds)))
          by (rewrite Hlen; lia).
        exact Hr.
      * destruct IH as (view' & Hr). exists view'.
        eapply runs_bind; [apply runs_del_from_indexes|]. fold v1.
        eapply runs_bind; [apply runs_tx_delete|]. exact Hr.
Qed.

(* ---- replaceDocs: selection, loop, metadata ---- *)
Lemma runs_replace_docs : forall db s q u sc sel cm,
  wf_db db -> R db s -> assoc (nq_coll q) db = Some sc ->
  (forall cm', runs (find_all_tx q) s cm' (Ok sel) s cm') ->
  (forall d, In d sel -> assoc (object_id d) (sc_docs sc) = Some d) ->
  NoDup (map object_id sel) ->
  match s_apply_sel u sel (sc_docs sc) with
  | Ok ds =>
      exists view',
        runs (replace_docs q u) s cm (Ok tt) view' cm /\
        Rp (denotes (assoc_set (nq_coll q) (mkSC ds (sc_idx sc)) db)) view' /\
        wf_db (assoc_set (nq_coll q) (mkSC ds (sc_idx sc)) db)
  | Err e => exists view', runs (replace_docs q u) s cm (Err e) view' cm
  end.
Proof.
  intros db s q u sc sel cm Hwf HR Ha Hfind Hst Hnd.
  set (c := nq_coll q) in *.
  pose proof (R_get_meta db s c HR Hwf) as Hg. rewrite Ha in Hg.
  set (n := Z.of_nat (length (sc_docs sc))) in *.
  assert (H0 : Rp (Dm c n (sc_idx sc) db) s).
  { eapply Rp_equiv; [apply (Dm_of_den db c sc Hwf Ha)|]. apply R_Rp. exact HR. }
  pose proof (replace_loop_refines c u sel db sc s n cm 0 Hwf Ha Hst Hnd H0) as Hloop.
  destruct (s_apply_sel u sel (sc_docs sc)) as [ds|e].
  - destruct Hloop as (view' & Hr & HRp' & Hwf' & Hle).
    set (db' := assoc_set c (mkSC ds (sc_idx sc)) db) in *.
    assert (Ha' : assoc c db' = Some (mkSC ds (sc_idx sc))) by (apply assoc_set_same).
    fold n in Hr. set (del := 0 + (n - Z.of_nat (length ds))) in *.
    destruct (0 <? del) eqn:Hdel.
    + exists (kv_set (coll_key c) (SMeta (n - del) (sc_idx sc)) view').
      split; [|split; [|exact Hwf']].
      * unfold replace_docs. fold c.
        eapply runs_bind; [apply (runs_get_meta_some _ _ _ _ _ Hg)|]. cbn [fst snd].
        eapply runs_bind; [apply Hfind|]. eapply runs_bind; [exact Hr|].
        rewrite Hdel. apply runs_save_meta.
      * eapply Rp_equiv; [|apply Rp_set; exact HRp'].
        intros k v. rewrite <- (Dm_fix db' c _ n Hwf' Ha' k v). cbn [sc_docs sc_idx].
        replace (n - del) with (Z.of_nat (length ds)) by (unfold del; lia). reflexivity.
    + exists view'. split; [|split; [|exact Hwf']].
      * unfold replace_docs. fold c.
        eapply runs_bind; [apply (runs_get_meta_some _ _ _ _ _ Hg)|]. cbn [fst snd].
        eapply runs_bind; [apply Hfind|]. eapply runs_bind; [exact Hr|].
        rewrite Hdel. apply runs_ret.
      * eapply Rp_equiv; [|exact HRp'].
        intros k v. rewrite (Dm_of_den db' c _ Hwf' Ha' k v). cbn [sc_docs sc_idx].
        replace (Z.of_nat (length ds)) with n; [reflexivity|].
        apply Z.ltb_ge in Hdel. unfold del, n in *. lia.
  - destruct Hloop as (view' & Hr). exists view'.
    unfold replace_docs. fold c.
    eapply runs_bind; [apply (runs_get_meta_some _ _ _ _ _ Hg)|]. cbn [fst snd].
    eapply runs_bind; [apply Hfind|]. eapply runs_bind_err. exact Hr.
Qed.

(* the same when the collection does not exist *)
Lemma runs_replace_docs_nocoll : forall db s q u cm, wf_db db -> R db s ->
  assoc (nq_coll q) db = None -> runs (replace_docs q u) s cm (Err ECollNotExist) s cm.
Proof.
  intros db s q u cm Hwf HR Ha. unfold replace_docs. eapply runs_bind_err.
  pose proof (runs_get_meta (nq_coll q) s cm) as Hm.
  rewrite (R_get_meta db s (nq_coll q) HR Hwf), Ha in Hm. exact Hm.
Qed.

Theorem update_refines : forall db s q u sc sel, wf_db db -> R db s ->
  assoc (nq_coll q) db = Some sc ->
  o_res (with_tx (find_all_tx q) None (mkDb s false)) = Ok sel ->
  forall (Hsel_stored : forall d, In d sel -> assoc (object_id d) (sc_docs sc) = Some d)
         (Hsel_nodup : NoDup (map object_id sel)),
  let out := with_tx (update_tx q u) None (mkDb s false) in
  match s_apply_sel u sel (sc_docs sc) with
  | Ok ds => o_res out = Ok tt /\
             R (assoc_set (nq_coll q) (mkSC ds (sc_idx sc)) db) (durable (o_db out)) /\
             wf_db (assoc_set (nq_coll q) (mkSC ds (sc_idx sc)) db)
  | Err e => o_res out = Err e /\ o_db out = mkDb s false
  end.
Proof.
  intros db s q u sc sel Hwf HR Ha Hfind Hst Hnd. cbv zeta.
  pose proof (runs_replace_docs db s q u sc sel None Hwf HR Ha (find_all_in_tx q s (Ok sel) Hfind) Hst Hnd) as H.
  destruct (s_apply_sel u sel (sc_docs sc)) as [ds|e].
  - destruct H as (view' & Hr & HRp' & Hwf').
    assert (Hrun : runs (update_tx q u) s None (Ok tt) view' (Some view')).
    { unfold update_tx. eapply runs_bind; [exact Hr|]. apply runs_tx_commit. }
    destruct (runs_with_tx _ _ _ _ _ _ Hrun) as (Er & Ed). rewrite Er, Ed. cbn [durable].
    split; [reflexivity|]. split; [apply R_Rp; exact HRp' | exact Hwf'].
  - destruct H as (view' & Hr).
    assert (Hrun : runs (update_tx q u) s None (Err e) view' None).
    { unfold update_tx. eapply runs_bind_err. exact Hr. }
    destruct (runs_with_tx _ _ _ _ _ _ Hrun) as (Er & Ed). rewrite Er, Ed. split; reflexivity.
Qed.

Theorem update_no_collection : forall db s q u, wf_db db -> R db s ->
  assoc (nq_coll q) db = None ->
  let out := with_tx (update_tx q u) None (mkDb s false) in
  o_res out = Err ECollNotExist /\ o_db out = mkDb s false.
Proof.
  intros db s q u Hwf HR Ha. cbv zeta.
  assert (Hrun : runs (update_tx q u) s None (Err ECollNotExist) s None).
  { unfold update_tx. eapply runs_bind_err. apply (runs_replace_docs_nocoll db s q u None Hwf HR Ha). }
  destruct (runs_with_tx _ _ _ _ _ _ Hrun) as (Er & Ed). rewrite Er, Ed. split; reflexivity.
Qed.

(* stated against the specification's relation: any selection FindAll may return is acceptable *)
Corollary update_refines_spec : forall db s q u sc sel, wf_db db -> R db s ->
  assoc (nq_coll q) db = Some sc ->
  o_res (with_tx (find_all_tx q) None (mkDb s false)) = Ok sel ->
  (forall d, In d sel -> assoc (object_id d) (sc_docs sc) = Some d) ->
  NoDup (map object_id sel) ->
  find_ok (map snd (sc_docs sc)) q sel ->
  let out := with_tx (update_tx q u) None (mkDb s false) in
  exists r, s_update_ok q u db r /\
    match r with
    | Ok db' => o_res out = Ok tt /\ R db' (durable (o_db out)) /\ wf_db db'
    | Err e => o_res out = Err e /\ o_db out = mkDb s false
    end.
Proof.
  intros db s q u sc sel Hwf HR Ha Hfind Hst Hnd Hok. cbv zeta.
  pose proof (update_refines db s q u sc sel Hwf HR Ha Hfind Hst Hnd) as H. cbv zeta in H.
  destruct (s_apply_sel u sel (sc_docs sc)) as [ds|e] eqn:Hs.
  - exists (Ok (assoc_set (nq_coll q) (mkSC ds (sc_idx sc)) db)). split; [|exact H].
    unfold s_update_ok. rewrite Ha. exists sel. split; [exact Hok|]. rewrite Hs. reflexivity.
  - exists (Err e). split; [|exact H].
    unfold s_update_ok. rewrite Ha. exists sel. split; [exact Hok|]. rewrite Hs. reflexivity.
Qed.

(* ================================================================== *)
(* 7. B4: DropCollection                                                *)
(* ================================================================== *)

Lemma runs_down_collect : forall d (st : @dstate (list obj)) v cm,
  runs (down collect 0 (-1) d st) v cm
       (Ok (mkD (d_skipped st) (d_consumed st) (d :: d_acc st), true)) v cm.
Proof.
  intros d st v cm. unfold down. cbn [Z.ltb Z.leb Z.compare orb].
  eapply runs_bind; [unfold collect; apply runs_ret|]. cbn [fst snd]. apply runs_ret.
Qed.

Lemma fold_eff_id : forall {B : Type} (l : list obj) (b : B), fold_eff (fun _ x => x) l b = b.
Proof. intros B l. induction l as [|d t IH]; intros b; [reflexivity | apply IH]. Qed.

Lemma fold_eff_collect : forall l (st : @dstate (list obj)),
  d_acc (fold_eff (fun d st => mkD (d_skipped st) (d_consumed st) (d :: d_acc st)) l st) = rev l ++ d_acc st.
Proof.
  induction l as [|d t IH]; intros st; [reflexivity|].
  cbn [fold_eff rev]. rewrite IH. cbn [d_acc]. rewrite <- app_assoc. reflexivity.
Qed.

(* FindAll of the whole collection: the documents in id order, the view untouched *)
Lemma runs_find_all_full : forall db c sc s cm, wf_db db -> assoc c db = Some sc -> R db s ->
  runs (find_all_tx (mkNQ c None (-1) 0 [])) s cm (Ok (docs_by_id sc)) s cm.
Proof.
  intros db c sc s cm Hwf Ha HR. unfold find_all_tx, iterate_docs.
  cbn [nq_coll nq_crit nq_sort nq_skip nq_limit].
  pose proof (R_get_meta db s c HR Hwf) as Hg. rewrite Ha in Hg.
  pose proof (full_scan_eff db c sc s _ (down collect 0 (-1))
                (fun d st => mkD (d_skipped st) (d_consumed st) (d :: d_acc st))
                (fun _ v => v) Hwf Ha HR runs_down_collect (mkD 0 0 []) cm) as H.
  rewrite fold_eff_id in H.
  eapply runs_bind.
  - eapply runs_bind; [apply (runs_get_meta_some _ _ _ _ _ Hg)|]. cbn [snd].
    rewrite exec_plan_full. cbn [run_input]. eapply runs_bind; [exact H|]. apply runs_ret.
  - rewrite fold_eff_collect. cbn [d_acc]. rewrite app_nil_r, rev_involutive. apply runs_ret.
Qed.

(* removing every document leaves an empty collection *)
Lemma apply_sel_nil_all : forall db c sc ds id, wf_db db -> assoc c db = Some sc ->
  s_apply_sel UFunNil (docs_by_id sc) (sc_docs sc) = Ok ds -> assoc id ds = None.
Proof.
  intros db c sc ds id Hwf Ha H.
  destruct (In_bytes_dec id (map object_id (docs_by_id sc))) as [Hin|Hn].
  - apply in_map_iff in Hin. destruct Hin as (d & E & Hin). subst id.
    rewrite (apply_sel_updated _ _ _ _ d H Hin (docs_by_id_nodup db c sc Hwf Ha)). reflexivity.
  - rewrite (apply_sel_untouched _ _ _ _ id H Hn).
    apply assoc_none_notin. intros F. apply Hn.
    rewrite (docs_by_id_ids db c sc Hwf Ha).
    apply (Permutation_in _ (Permutation_map fst (Permutation_sym (msort_perm by_id_leb (sc_docs sc))))).
    exact F.
Qed.

Lemma apply_sel_nil_ok : forall sel ds0, exists ds, s_apply_sel UFunNil sel ds0 = Ok ds.
Proof.
  induction sel as [|d t IH]; intros ds0; cbn [s_apply_sel apply_updater].
  - exists ds0. reflexivity.
  - apply IH.
Qed.

(* the key-space effect of removing the metadata key of an emptied collection *)
Lemma drop_spec : forall db c ds idx, wf_db db -> no_semi c = true ->
  (forall id, assoc id ds = None) ->
  forall k v,
    (k <> coll_key c /\ denotes (assoc_set c (mkSC ds idx) db) k v) <->
    denotes (assoc_del c db) k v.
Proof.
  intros db c ds idx Hwf Hc Hemp k v. rewrite (den_del_coll db c k v Hwf Hc). split.
  - intros (Ek & H). apply den_set_split in H; [|exact Hwf|exact Hc].
    destruct H as [(Hk & H) | H]; [split; assumption|].
    exfalso. apply sden_inv in H. cbn [sc_docs sc_idx] in H.
    destruct H as [(E1 & _) | [(id1 & d1 & Hd1 & _) | (id1 & d1 & f1 & Hd1 & _)]].
    + exact (Ek E1).
    + rewrite Hemp in Hd1. discriminate Hd1.
    + rewrite Hemp in Hd1. discriminate Hd1.
  - intros (H & Hk). split; [intros E; subst k; apply Hk; apply kic_coll|].
    apply den_set_join. left. split; assumption.
Qed.

Theorem drop_collection_refines : forall db s c, wf_db db -> R db s -> no_semi c = true ->
  let out := with_tx (drop_collection_tx c) None (mkDb s false) in
  match s_drop c db with
  | Ok db' => o_res out = Ok tt /\ R db' (durable (o_db out)) /\ wf_db db'
  | Err e => o_res out = Err e /\ o_db out = mkDb s false
  end.
Proof.
  intros db s c Hwf HR Hc. cbv zeta.
  pose proof (wf_s_drop c db) as Hwf'.
  unfold s_drop in *. destruct (assoc c db) as [sc|] eqn:Ha.
  - set (q := mkNQ c None (-1) 0 []).
    pose proof (runs_replace_docs db s q UFunNil sc (docs_by_id sc) None Hwf HR Ha
                  (fun cm' => runs_find_all_full db c sc s cm' Hwf Ha HR)
                  (fun d => docs_by_id_stored db c sc d Hwf Ha)
                  (docs_by_id_nodup db c sc Hwf Ha)) as H.
    destruct (apply_sel_nil_ok (docs_by_id sc) (sc_docs sc)) as (ds & Hs). rewrite Hs in H.
    destruct H as (view' & Hr & HRp' & _). cbn [nq_coll q] in HRp'.
    set (s' := kv_del (coll_key c) view').
    assert (Hrun : runs (drop_collection_tx c) s None (Ok tt) s' (Some s')).
    { unfold drop_collection_tx. eapply runs_bind; [exact Hr|].
      eapply runs_bind; [apply runs_tx_delete|]. apply runs_tx_commit. }
    destruct (runs_with_tx _ _ _ _ _ _ Hrun) as (Er & Ed). rewrite Er, Ed. cbn [durable].
    split; [reflexivity|]. split; [|apply (Hwf' _ Hwf eq_refl)].
    apply R_Rp.
    eapply Rp_equiv; [apply (drop_spec db c ds (sc_idx sc) Hwf Hc)|].
    + intros id. apply (apply_sel_nil_all db c sc ds id Hwf Ha Hs).
    + apply Rp_del. exact HRp'.
  - assert (Hrun : runs (drop_collection_tx c) s None (Err ECollNotExist) s None).
    { unfold drop_collection_tx. eapply runs_bind_err.
      apply (runs_replace_docs_nocoll db s (mkNQ c None (-1) 0 []) UFunNil None Hwf HR Ha). }
    destruct (runs_with_tx _ _ _ _ _ _ Hrun) as (Er & Ed). rewrite Er, Ed. split; reflexivity.
Qed.

(* every key of every other collection is untouched, also of collections whose names extend c *)
Corollary drop_collection_frame : forall db s c k, wf_db db -> R db s -> no_semi c = true ->
  assoc c db <> None -> ~ key_in_coll c k ->
  kv_get k (durable (o_db (with_tx (drop_collection_tx c) None (mkDb s false)))) = kv_get k s.
Proof.
  intros db s c k Hwf HR Hc Ha Hk.
  pose proof (drop_collection_refines db s c Hwf HR Hc) as H. cbv zeta in H.
  unfold s_drop in H. destruct (assoc c db) as [sc|]; [|contradiction Ha; reflexivity].
  destruct H as (_ & HR' & _).
  set (s' := durable (o_db (with_tx (drop_collection_tx c) None (mkDb s false)))) in *.
  destruct (kv_get k s) as [v|] eqn:E.
  - apply (R_get_iff _ s' k v HR'). apply (den_del_coll db c k v Hwf Hc). split; [|exact Hk].
    apply (R_get_iff db s k v HR). exact E.
  - apply (R_get_none _ s' k HR'). intros v H. apply (den_del_coll db c k v Hwf Hc) in H.
    destruct H as (H & _). apply (R_get_iff db s k v HR) in H. rewrite E in H. discriminate H.
Qed.

(* ================================================================== *)
(* 8. B5: no residue (C06 / C14)                                        *)
(* ================================================================== *)

(* after DropIndex no key of the store carries the prefix of the dropped index *)
Theorem drop_index_no_residue : forall db s c f db', wf_db db -> R db s ->
  no_semi c = true -> no_semi f = true -> s_drop_index c f db = Ok db' ->
  let s' := durable (o_db (with_tx (drop_index_tx c f) None (mkDb s false))) in
  R db' s' /\ forall e, In e s' -> is_prefix (idx_prefix c f) (fst e) = false.
Proof.
  intros db s c f db' Hwf HR Hc Hf Hs. cbv zeta.
  pose proof (drop_index_refines db s c f Hwf HR Hc Hf) as H. cbv zeta in H. rewrite Hs in H.
  destruct H as (_ & HR' & Hwf'). split; [exact HR'|].
  apply (R_idx_prefix_none db' _ c f HR' Hwf' Hc Hf).
  intros sc' Ha' Hin.
  destruct (assoc c db) as [sc|] eqn:Ha; [|unfold s_drop_index in Hs; rewrite Ha in Hs; discriminate Hs].
  destruct (drop_index_catalog db c f db' sc Hwf Hs Ha) as (sc0 & Ha0 & _ & Hidx).
  rewrite Ha' in Ha0. injection Ha0 as Ha0. subst sc0.
  apply Hidx in Hin. destruct Hin as (_ & F). apply F. reflexivity.
Qed.

(* CreateIndex after DropIndex: the index holds exactly the documents' current values *)
Theorem recreate_index_fresh : forall db s c f db1 sc, wf_db db -> R db s ->
  no_semi c = true -> no_semi f = true ->
  s_drop_index c f db = Ok db1 -> assoc c db = Some sc ->
  let o1 := with_tx (drop_index_tx c f) None (mkDb s false) in
  let o2 := with_tx (create_index_tx c f) None (o_db o1) in
  exists db2 sc2,
    s_create_index c f db1 = Ok db2 /\ o_res o1 = Ok tt /\ o_res o2 = Ok tt /\
    R db2 (durable (o_db o2)) /\ wf_db db2 /\
    assoc c db2 = Some sc2 /\ sc_docs sc2 = sc_docs sc /\
    (forall g, In g (sc_idx sc2) <-> In g (sc_idx sc)) /\
    (forall id d, assoc id (sc_docs sc) = Some d ->
       In (idx_key c f (doc_get f d) id, SEmpty) (durable (o_db o2))) /\
    (forall e, In e (durable (o_db o2)) -> is_prefix (idx_prefix c f) (fst e) = true ->
       exists id d, assoc id (sc_docs sc) = Some d /\ e = (idx_key c f (doc_get f d) id, SEmpty)).
Proof.
  intros db s c f db1 sc Hwf HR Hc Hf Hs Ha. cbv zeta.
  pose proof (drop_index_refines db s c f Hwf HR Hc Hf) as H1. cbv zeta in H1. rewrite Hs in H1.
  destruct H1 as (Er1 & HR1 & Hwf1).
  destruct (drop_index_catalog db c f db1 sc Hwf Hs Ha) as (sc1 & Ha1 & Hdocs1 & Hidx1).
  assert (Hnf : ~ In f (sc_idx sc1)).
  { intros F. apply Hidx1 in F. destruct F as (_ & F). apply F. reflexivity. }
  rewrite (with_tx_open_db _ (drop_index_tx c f) s).
  set (s1 := durable (o_db (with_tx (drop_index_tx c f) None (mkDb s false)))) in *.
  pose proof (create_index_refines db1 s1 c f Hwf1 HR1 Hc Hf) as H2. cbv zeta in H2.
  pose proof (create_index_entries db1 s1 c f sc1 Hwf1 HR1 Hc Hf Ha1 Hnf) as H3. cbv zeta in H3.
  unfold s_create_index in *. rewrite Ha1 in *.
  pose proof Hnf as Hh. apply has_field_false in Hh. rewrite Hh in *.
  destruct H2 as (Er2 & HR2 & Hwf2). destruct H3 as (H3a & H3b & _).
  eexists. exists (mkSC (sc_docs sc1) (sc_idx sc1 ++ [f])).
  split; [reflexivity|]. split; [exact Er1|]. split; [exact Er2|]. split; [exact HR2|].
  split; [exact Hwf2|]. split; [apply assoc_set_same|]. split; [exact Hdocs1|].
  split; [|split].
  - intros g. cbn [sc_idx]. rewrite in_app_iff, Hidx1. split.
    + intros [(Hg & _) | [E | []]]; [exact Hg|]. subst g.
      unfold s_drop_index in Hs. rewrite Ha in Hs.
      destruct (last_index_of f (sc_idx sc) 0 None) as [j|] eqn:Hj; [|discriminate Hs].
      apply (last_index_of_some_In f (sc_idx sc) j Hj).
    + intros Hg. destruct (bytes_eq_dec g f) as [E|E]; [right; left; symmetry; exact E|].
      left. split; assumption.
  - intros id d Hd. apply H3a. rewrite Hdocs1. exact Hd.
  - intros e Hin Hp. destruct (H3b e Hin Hp) as (id & d & Hd & E).
    exists id, d. split; [rewrite <- Hdocs1; exact Hd | exact E].
Qed.

(* after DropCollection no key of the collection is left *)
Theorem drop_collection_no_residue : forall db s c db', wf_db db -> R db s ->
  no_semi c = true -> s_drop c db = Ok db' ->
  let s' := durable (o_db (with_tx (drop_collection_tx c) None (mkDb s false))) in
  R db' s' /\ forall e, In e s' -> ~ key_in_coll c (fst e).
Proof.
  intros db s c db' Hwf HR Hc Hs. cbv zeta.
  pose proof (drop_collection_refines db s c Hwf HR Hc) as H. cbv zeta in H. rewrite Hs in H.
  destruct H as (_ & HR' & _). split; [exact HR'|].
  intros e Hin. pose proof (R_entry_den db' _ e HR' Hin) as Hd.
  unfold s_drop in Hs. destruct (assoc c db); [|discriminate Hs]. injection Hs as Hs. subst db'.
  apply (den_del_coll db c _ _ Hwf Hc) in Hd. exact (proj2 Hd).
Qed.

(* ================================================================== *)
(* 9. B6: non-vacuity on RProofs' example (collection "t", index on "a") *)
(* ================================================================== *)

Definition bx_b : bytes := [98%N].            (* field "b", absent from both documents *)
Definition bx_q : nquery := mkNQ ex_c None (-1) 0 [].

(* CreateIndex on "b": one nil entry per document, the catalog gains "b" *)
Definition bx_db1 : sdb := [(ex_c, mkSC [(ex_id1, ex_d1); (ex_id2, ex_d2)] [ex_f; bx_b])].
Definition bx_s1 : kv :=
  [ (doc_key ex_c ex_id1, SDoc (doc_encode ex_d1));
    (doc_key ex_c ex_id2, SDoc (doc_encode ex_d2));
    (idx_key ex_c ex_f (VInt 5) ex_id1, SEmpty);
    (idx_key ex_c ex_f (VStr [120%N]) ex_id2, SEmpty);
    (idx_key ex_c bx_b VNil ex_id1, SEmpty);
    (idx_key ex_c bx_b VNil ex_id2, SEmpty);
    (coll_key ex_c, SMeta 2 [ex_f; bx_b]) ].

Example bx_create_index :
  let out := with_tx (create_index_tx ex_c bx_b) None (mkDb ex_s false) in
  s_create_index ex_c bx_b ex_db = Ok bx_db1 /\
  o_res out = Ok tt /\ o_db out = mkDb bx_s1 false /\ length bx_s1 = 7%nat /\
  R bx_db1 bx_s1 /\ wf_db bx_db1.
Proof.
  cbv zeta.
  assert (E1 : s_create_index ex_c bx_b ex_db = Ok bx_db1) by (vm_compute; reflexivity).
  assert (E2 : o_db (with_tx (create_index_tx ex_c bx_b) None (mkDb ex_s false)) = mkDb bx_s1 false)
    by (vm_compute; reflexivity).
  pose proof (create_index_refines ex_db ex_s ex_c bx_b ex_wf ex_R eq_refl eq_refl) as H.
  cbv zeta in H. rewrite E1, E2 in H. destruct H as (H1 & H2 & H3).
  split; [exact E1|]. split; [exact H1|]. split; [exact E2|]. split; [reflexivity|].
  split; [exact H2 | exact H3].
Qed.

(* creating it again: ErrIndexExist, nothing changes; on a missing collection: ErrCollectionNotExist *)
Example bx_create_index_errors :
  let o1 := with_tx (create_index_tx ex_c bx_b) None (mkDb bx_s1 false) in
  let o2 := with_tx (create_index_tx bx_b bx_b) None (mkDb bx_s1 false) in
  s_create_index ex_c bx_b bx_db1 = Err EIdxExist /\ o_res o1 = Err EIdxExist /\ o_db o1 = mkDb bx_s1 false /\
  s_create_index bx_b bx_b bx_db1 = Err ECollNotExist /\ o_res o2 = Err ECollNotExist /\ o_db o2 = mkDb bx_s1 false.
Proof.
  cbv zeta. destruct bx_create_index as (_ & _ & _ & _ & HR1 & Hwf1).
  assert (E1 : s_create_index ex_c bx_b bx_db1 = Err EIdxExist) by (vm_compute; reflexivity).
  assert (E2 : s_create_index bx_b bx_b bx_db1 = Err ECollNotExist) by (vm_compute; reflexivity).
  pose proof (create_index_refines bx_db1 bx_s1 ex_c bx_b Hwf1 HR1 eq_refl eq_refl) as H1.
  pose proof (create_index_refines bx_db1 bx_s1 bx_b bx_b Hwf1 HR1 eq_refl eq_refl) as H2.
  cbv zeta in H1, H2. rewrite E1 in H1. rewrite E2 in H2.
  destruct H1 as (A1 & A2). destruct H2 as (B1 & B2). repeat split; assumption.
Qed.

(* DropIndex on "a" from there: both entries of "a" go, those of "b" stay, slot surgery leaves ["b"] *)
Definition bx_db2 : sdb := [(ex_c, mkSC [(ex_id1, ex_d1); (ex_id2, ex_d2)] [bx_b])].
Definition bx_s2 : kv :=
  [ (doc_key ex_c ex_id1, SDoc (doc_encode ex_d1));
    (doc_key ex_c ex_id2, SDoc (doc_encode ex_d2));
    (idx_key ex_c bx_b VNil ex_id1, SEmpty);
    (idx_key ex_c bx_b VNil ex_id2, SEmpty);
    (coll_key ex_c, SMeta 2 [bx_b]) ].

Example bx_drop_index :
  let out := with_tx (drop_index_tx ex_c ex_f) None (mkDb bx_s1 false) in
  s_drop_index ex_c ex_f bx_db1 = Ok bx_db2 /\
  o_res out = Ok tt /\ o_db out = mkDb bx_s2 false /\ length bx_s2 = 5%nat /\
  R bx_db2 bx_s2 /\ wf_db bx_db2.
Proof.
  cbv zeta. destruct bx_create_index as (_ & _ & _ & _ & HR1 & Hwf1).
  assert (E1 : s_drop_index ex_c ex_f bx_db1 = Ok bx_db2) by (vm_compute; reflexivity).
  assert (E2 : o_db (with_tx (drop_index_tx ex_c ex_f) None (mkDb bx_s1 false)) = mkDb bx_s2 false)
    by (vm_compute; reflexivity).
  pose proof (drop_index_refines bx_db1 bx_s1 ex_c ex_f Hwf1 HR1 eq_refl eq_refl) as H.
  cbv zeta in H. rewrite E1, E2 in H. destruct H as (H1 & H2 & H3).
  split; [exact E1|]. split; [exact H1|]. split; [exact E2|]. split; [reflexivity|].
  split; [exact H2 | exact H3].
Qed.

(* dropping the index on "b" gives back the original store; dropping a missing index is an error *)
Example bx_drop_index_back :
  let o1 := with_tx (drop_index_tx ex_c bx_b) None (mkDb bx_s1 false) in
  let o2 := with_tx (drop_index_tx ex_c bx_b) None (mkDb ex_s false) in
  s_drop_index ex_c bx_b bx_db1 = Ok ex_db /\ o_res o1 = Ok tt /\ o_db o1 = mkDb ex_s false /\
  s_drop_index ex_c bx_b ex_db = Err EIdxNotExist /\ o_res o2 = Err EIdxNotExist /\ o_db o2 = mkDb ex_s false.
Proof.
  cbv zeta. destruct bx_create_index as (_ & _ & _ & _ & HR1 & Hwf1).
  assert (E1 : s_drop_index ex_c bx_b bx_db1 = Ok ex_db) by (vm_compute; reflexivity).
  assert (E2 : s_drop_index ex_c bx_b ex_db = Err EIdxNotExist) by (vm_compute; reflexivity).
  assert (E3 : o_db (with_tx (drop_index_tx ex_c bx_b) None (mkDb bx_s1 false)) = mkDb ex_s false)
    by (vm_compute; reflexivity).
  pose proof (drop_index_refines bx_db1 bx_s1 ex_c bx_b Hwf1 HR1 eq_refl eq_refl) as H1.
  pose proof (drop_index_refines ex_db ex_s ex_c bx_b ex_wf ex_R eq_refl eq_refl) as H2.
  cbv zeta in H1, H2. rewrite E1 in H1. rewrite E2 in H2.
  destruct H1 as (A1 & _). destruct H2 as (B1 & B2). repeat split; assumption.
Qed.

(* bulk UpdateFunc with UFunIncr "a" over the whole collection: 5 -> 6, "x" -> 1 *)
Definition bx_d1' : obj := doc_set ex_f (VInt 6) ex_d1.
Definition bx_d2' : obj := doc_set ex_f (VInt 1) ex_d2.
Definition bx_db3 : sdb := [(ex_c, mkSC [(ex_id1, bx_d1'); (ex_id2, bx_d2')] [ex_f; bx_b])].
Definition bx_s3 : kv :=
  [ (doc_key ex_c ex_id1, SDoc (doc_encode bx_d1'));
    (doc_key ex_c ex_id2, SDoc (doc_encode bx_d2'));
    (idx_key ex_c ex_f (VInt 1) ex_id2, SEmpty);
    (idx_key ex_c ex_f (VInt 6) ex_id1, SEmpty);
    (idx_key ex_c bx_b VNil ex_id1, SEmpty);
    (idx_key ex_c bx_b VNil ex_id2, SEmpty);
    (coll_key ex_c, SMeta 2 [ex_f; bx_b]) ].

Lemma bx_sel_stored : forall ds, ds = [(ex_id1, ex_d1); (ex_id2, ex_d2)] ->
  forall d, In d [ex_d1; ex_d2] -> assoc (object_id d) ds = Some d.
Proof. intros ds -> d [E|[E|[]]]; subst d; vm_compute; reflexivity. Qed.

Lemma bx_sel_nodup : NoDup (map object_id [ex_d1; ex_d2]).
Proof.
  cbn [map]. constructor; [|constructor; [intros [] | constructor]].
  intros [F|[]]. vm_compute in F. discriminate F.
Qed.

Example bx_update :
  let out := with_tx (update_tx bx_q (UFunIncr ex_f)) None (mkDb bx_s1 false) in
  o_res (with_tx (find_all_tx bx_q) None (mkDb bx_s1 false)) = Ok [ex_d1; ex_d2] /\
  s_apply_sel (UFunIncr ex_f) [ex_d1; ex_d2] [(ex_id1, ex_d1); (ex_id2, ex_d2)]
    = Ok [(ex_id1, bx_d1'); (ex_id2, bx_d2')] /\
  o_res out = Ok tt /\ o_db out = mkDb bx_s3 false /\ length bx_s3 = 7%nat /\
  R bx_db3 bx_s3 /\ wf_db bx_db3.
Proof.
  cbv zeta. destruct bx_create_index as (_ & _ & _ & _ & HR1 & Hwf1).
  assert (E0 : o_res (with_tx (find_all_tx bx_q) None (mkDb bx_s1 false)) = Ok [ex_d1; ex_d2])
    by (vm_compute; reflexivity).
  assert (E1 : s_apply_sel (UFunIncr ex_f) [ex_d1; ex_d2] [(ex_id1, ex_d1); (ex_id2, ex_d2)]
               = Ok [(ex_id1, bx_d1'); (ex_id2, bx_d2')]) by (vm_compute; reflexivity).
  assert (E2 : o_db (with_tx (update_tx bx_q (UFunIncr ex_f)) None (mkDb bx_s1 false)) = mkDb bx_s3 false)
    by (vm_compute; reflexivity).
  pose proof (update_refines bx_db1 bx_s1 bx_q (UFunIncr ex_f)
                (mkSC [(ex_id1, ex_d1); (ex_id2, ex_d2)] [ex_f; bx_b]) [ex_d1; ex_d2]
                Hwf1 HR1 eq_refl E0 (bx_sel_stored _ eq_refl) bx_sel_nodup) as H.
  cbv zeta in H. cbn [sc_docs sc_idx] in H. rewrite E1, E2 in H. destruct H as (H1 & H2 & H3).
  split; [exact E0|]. split; [exact E1|]. split; [exact H1|]. split; [exact E2|].
  split; [reflexivity|]. split; [exact H2 | exact H3].
Qed.

(* an updater that changes _id on the second selected document: error, nothing is committed *)
Example bx_update_error :
  let u := UFunSet id_field (VStr ex_id1) in
  let out := with_tx (update_tx bx_q u) None (mkDb bx_s1 false) in
  s_apply_sel u [ex_d1; ex_d2] [(ex_id1, ex_d1); (ex_id2, ex_d2)] = Err EOther /\
  o_res out = Err EOther /\ o_db out = mkDb bx_s1 false.
Proof.
  cbv zeta. destruct bx_create_index as (_ & _ & _ & _ & HR1 & Hwf1).
  assert (E0 : o_res (with_tx (find_all_tx bx_q) None (mkDb bx_s1 false)) = Ok [ex_d1; ex_d2])
    by (vm_compute; reflexivity).
  assert (E1 : s_apply_sel (UFunSet id_field (VStr ex_id1)) [ex_d1; ex_d2] [(ex_id1, ex_d1); (ex_id2, ex_d2)]
               = Err EOther) by (vm_compute; reflexivity).
  pose proof (update_refines bx_db1 bx_s1 bx_q (UFunSet id_field (VStr ex_id1))
                (mkSC [(ex_id1, ex_d1); (ex_id2, ex_d2)] [ex_f; bx_b]) [ex_d1; ex_d2]
                Hwf1 HR1 eq_refl E0 (bx_sel_stored _ eq_refl) bx_sel_nodup) as H.
  cbv zeta in H. cbn [sc_docs sc_idx] in H. rewrite E1 in H. split; [exact E1 | exact H].
Qed.

(* Delete of everything (the always-nil updater): documents and entries go, Size is rewritten to 0 *)
Definition bx_db4 : sdb := [(ex_c, mkSC [] [ex_f; bx_b])].
Definition bx_s4 : kv := [(coll_key ex_c, SMeta 0 [ex_f; bx_b])].

Example bx_delete_all :
  let out := with_tx (update_tx bx_q UFunNil) None (mkDb bx_s3 false) in
  o_res (with_tx (find_all_tx bx_q) None (mkDb bx_s3 false)) = Ok [bx_d1'; bx_d2'] /\
  s_apply_sel UFunNil [bx_d1'; bx_d2'] [(ex_id1, bx_d1'); (ex_id2, bx_d2')] = Ok [] /\
  o_res out = Ok tt /\ o_db out = mkDb bx_s4 false /\ length bx_s4 = 1%nat /\
  R bx_db4 bx_s4 /\ wf_db bx_db4.
Proof.
  cbv zeta. destruct bx_update as (_ & _ & _ & _ & _ & HR3 & Hwf3).
  assert (E0 : o_res (with_tx (find_all_tx bx_q) None (mkDb bx_s3 false)) = Ok [bx_d1'; bx_d2'])
    by (vm_compute; reflexivity).
  assert (E1 : s_apply_sel UFunNil [bx_d1'; bx_d2'] [(ex_id1, bx_d1'); (ex_id2, bx_d2')] = Ok [])
    by (vm_compute; reflexivity).
  assert (E2 : o_db (with_tx (update_tx bx_q UFunNil) None (mkDb bx_s3 false)) = mkDb bx_s4 false)
    by (vm_compute; reflexivity).
  assert (Hst : forall d, In d [bx_d1'; bx_d2'] ->
                  assoc (object_id d) [(ex_id1, bx_d1'); (ex_id2, bx_d2')] = Some d).
  { intros d [E|[E|[]]]; subst d; vm_compute; reflexivity. }
  assert (Hnd : NoDup (map object_id [bx_d1'; bx_d2'])).
  { cbn [map]. constructor; [|constructor; [intros [] | constructor]].
    intros [F|[]]. vm_compute in F. discriminate F. }
  pose proof (update_refines bx_db3 bx_s3 bx_q UFunNil
                (mkSC [(ex_id1, bx_d1'); (ex_id2, bx_d2')] [ex_f; bx_b]) [bx_d1'; bx_d2']
                Hwf3 HR3 eq_refl E0 Hst Hnd) as H.
  cbv zeta in H. cbn [sc_docs sc_idx] in H. rewrite E1, E2 in H. destruct H as (H1 & H2 & H3).
  split; [exact E0|]. split; [exact E1|]. split; [exact H1|]. split; [exact E2|].
  split; [reflexivity|]. split; [exact H2 | exact H3].
Qed.

(* DropCollection of the populated, doubly indexed collection: the store is empty afterwards;
   dropping it again: ErrCollectionNotExist *)
Example bx_drop_collection :
  let o1 := with_tx (drop_collection_tx ex_c) None (mkDb bx_s3 false) in
  let o2 := with_tx (drop_collection_tx ex_c) None (mkDb [] false) in
  s_drop ex_c bx_db3 = Ok [] /\ o_res o1 = Ok tt /\ o_db o1 = mkDb [] false /\ R [] [] /\
  s_drop ex_c [] = Err ECollNotExist /\ o_res o2 = Err ECollNotExist /\ o_db o2 = mkDb [] false.
Proof.
  cbv zeta. destruct bx_update as (_ & _ & _ & _ & _ & HR3 & Hwf3).
  assert (E1 : s_drop ex_c bx_db3 = Ok []) by (vm_compute; reflexivity).
  assert (E2 : o_db (with_tx (drop_collection_tx ex_c) None (mkDb bx_s3 false)) = mkDb [] false)
    by (vm_compute; reflexivity).
  assert (E3 : s_drop ex_c [] = Err ECollNotExist) by reflexivity.
  pose proof (drop_collection_refines bx_db3 bx_s3 ex_c Hwf3 HR3 eq_refl) as H1.
  pose proof (drop_collection_refines [] [] ex_c wf_empty R_empty eq_refl) as H2.
  cbv zeta in H1, H2. rewrite E1, E2 in H1. rewrite E3 in H2.
  destruct H1 as (A1 & A2 & _). destruct H2 as (B1 & B2). cbn [durable] in A2.
  repeat split; try assumption; apply A2.
Qed.

(* a second collection "tt" whose name extends "t" survives DropCollection "t" *)
Definition bx_c2 : bytes := [116%N; 116%N].
Example bx_drop_collection_frame :
  let s0 := kv_set (coll_key bx_c2) (SMeta 0 []) bx_s3 in
  o_db (with_tx (drop_collection_tx ex_c) None (mkDb s0 false)) = mkDb [(coll_key bx_c2, SMeta 0 [])] false.
Proof. vm_compute. reflexivity. Qed.

Print Assumptions ro_find_all_tx.
Print Assumptions find_all_in_tx.
Print Assumptions create_index_refines.
Print Assumptions create_index_entries.
Print Assumptions drop_index_refines.
Print Assumptions drop_index_keeps_others.
Print Assumptions apply_sel_untouched.
Print Assumptions apply_sel_updated.
Print Assumptions replace_loop_refines.
Print Assumptions update_refines.
Print Assumptions update_no_collection.
Print Assumptions update_refines_spec.
Print Assumptions drop_collection_refines.
Print Assumptions drop_collection_frame.
Print Assumptions drop_index_no_residue.
Print Assumptions recreate_index_fresh.
Print Assumptions drop_collection_no_residue.

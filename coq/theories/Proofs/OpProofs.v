(* C20, C07 and C19 at the level of the public operation alphabet (Model/Ops.v).

   Part A (C20, "no public operation panics"): the model is a total function, and every operation,
   in every state (open or closed handle, any fault position), answers a well-formed result term:
   [TL [TZ c; p]] with c = 0 (success), 1..6 (the six sentinel errors), 7 (any other error) or
   8 (an injected store failure).  After Close every operation other than Close/Reopen answers the
   non-sentinel error and changes nothing at all.

   Part B (C07): the generic linearizability theorem of Proofs/ConcurrencyProofs.v instantiated with
   clover's own sequential semantics [Ops.step].

   Part C (C19): the JSON typing of export/import, [json_value], is idempotent, produces only
   JSON-typed values, keeps object keys and array lengths, and keeps integers within 2^53
   numerically equal (they compare Eq with the original). *)
From Coq Require Import Lia ZArith Bool List.
Import ListNotations.
From Clover Require Import TxSpec TxProofs Concurrency ConcurrencyProofs.
From Clover Require Import Compare Domains CompareProofs.
Open Scope Z_scope.

(* ========================================================================================== *)
(* PART A : C20                                                                               *)
(* ========================================================================================== *)

(* a well-formed result term: a code between 0 and 8 and a payload *)
Definition wf_result (t : T) : Prop := exists c p, t = TL [TZ c; p] /\ 0 <= c <= 8.

Lemma wf_T_ok : forall p, wf_result (T_ok p).
Proof. intro p. exists 0, p. split; [reflexivity | lia]. Qed.

Lemma err_code_range : forall e, 1 <= err_code e <= 8.
Proof. intros []; cbn; lia. Qed.

Lemma wf_T_err : forall e, wf_result (T_err e).
Proof.
  intro e. exists (err_code e), (TL []). split; [reflexivity|].
  pose proof (err_code_range e). lia.
Qed.

Lemma wf_T_unit : forall A (r : res A), wf_result (T_unit r).
Proof. intros A [a|e]; [apply wf_T_ok | apply wf_T_err]. Qed.

Lemma wf_T_res : forall A (f : A -> T) (r : res A), wf_result (T_res f r).
Proof. intros A f [a|e]; [apply wf_T_ok | apply wf_T_err]. Qed.

(* peel one [match]/[let '(_, _) := _]/[if] off the head of the computation *)
Ltac shape_step :=
  match goal with
  | |- wf_result (fst (match ?x with _ => _ end)) => destruct x
  end.

Ltac shape_done :=
  cbn [fst]; first [apply wf_T_unit | apply wf_T_res | apply wf_T_ok | apply wf_T_err].

Lemma exec_op_wf : forall o st, wf_result (fst (exec_op o st)).
Proof.
  intros o st. destruct o; unfold exec_op; repeat (cbn [fst]; shape_step); shape_done.
Qed.

(* A1 *)
Theorem exec_op_result_shape : forall o st,
  exists c p, fst (exec_op o st) = TL [TZ c; p] /\ (0 <= c <= 8)%Z.
Proof. exact exec_op_wf. Qed.

(* the code is 0 exactly when the term is not an error term (ties A1 to [T_is_err]) *)
Lemma exec_op_result_ok_or_err : forall o st,
  (exists p, fst (exec_op o st) = T_ok p) \/
  (exists c p, fst (exec_op o st) = TL [TZ c; p] /\ 1 <= c <= 8 /\ T_is_err (fst (exec_op o st)) = true).
Proof.
  intros o st. destruct (exec_op_wf o st) as (c & p & E & R).
  destruct (Z.eq_dec c 0) as [->|N].
  - left. exists p. exact E.
  - right. exists c, p. split; [exact E|]. split; [lia|].
    rewrite E. cbn. apply negb_true_iff. apply Z.eqb_neq. exact N.
Qed.

(* ---- A2: a closed handle ---- *)

Lemma run_tx_closed : forall A (body : M A) st, closed (r_db st) = true ->
  run_tx body st = (Err EOther, st).
Proof.
  intros A body [db flt n f] H. cbn [r_db] in H. unfold run_tx. cbn [r_db r_fault r_calls r_fired].
  rewrite with_tx_closed by exact H. cbn [o_res o_db o_calls o_fired].
  rewrite Nat.add_0_r, orb_false_r.
  destruct flt as [k|]; [rewrite Nat.sub_0_r|]; reflexivity.
Qed.

(* the two operations on the handle itself *)
Definition handle_op (o : op) : bool :=
  match o with OClose | OReopen => true | _ => false end.

Lemma find_all_op_closed : forall q st, closed (r_db st) = true ->
  find_all_op q st = (Err EOther, st).
Proof.
  intros q st H. unfold find_all_op.
  destruct (normalize_query q); [apply run_tx_closed; exact H | reflexivity].
Qed.

Lemma insert_op_closed : forall c docs st, closed (r_db st) = true ->
  insert_op c docs st = (Err EOther, st).
Proof. intros. unfold insert_op. apply run_tx_closed. assumption. Qed.

Ltac closed_step H :=
  first
    [ rewrite run_tx_closed by exact H
    | rewrite find_all_op_closed by exact H
    | rewrite insert_op_closed by exact H
    | match goal with
      | |- context [match ?x with _ => _ end] => destruct x
      end ].

(* the strongest form: EVERY operation other than Close/Reopen (the composite ones included) answers
   exactly the non-sentinel error on a closed handle, and the whole running state (handle, fault
   position, call counter) is what it was *)
Theorem exec_op_closed_strong : forall o st,
  closed (r_db st) = true -> handle_op o = false -> exec_op o st = (T_err EOther, st).
Proof.
  intros o st H Ho.
  destruct o; try discriminate Ho; clear Ho; unfold exec_op;
    repeat closed_step H; reflexivity.
Qed.

Lemma single_tx_not_handle : forall o, single_tx o = true -> handle_op o = false.
Proof. intros []; intro H; try discriminate H; reflexivity. Qed.

(* A2 as stated: no disjunct is needed, no single-transaction operation succeeds on a closed handle *)
Theorem exec_op_closed : forall o st,
  closed (r_db st) = true -> single_tx o = true ->
  T_is_err (fst (exec_op o st)) = true /\ r_db (snd (exec_op o st)) = r_db st.
Proof.
  intros o st H S.
  rewrite (exec_op_closed_strong o st H (single_tx_not_handle o S)). split; reflexivity.
Qed.

(* the same through the fault-free [step] *)
Corollary step_closed : forall o db,
  closed db = true -> handle_op o = false -> step db o = (T_err EOther, db).
Proof.
  intros o db H Ho. unfold step.
  rewrite exec_op_closed_strong by assumption. reflexivity.
Qed.

(* ---- A3 ---- *)
Theorem run_ops_total : forall ops db, length (fst (run_ops db ops)) = length ops.
Proof.
  induction ops as [|o t IH]; intro db; [reflexivity|].
  cbn [run_ops]. destruct (step db o) as [x db'].
  specialize (IH db'). destruct (run_ops db' t) as [xs db''].
  cbn [fst length] in *. rewrite IH. reflexivity.
Qed.

(* and every one of these results is well-formed *)
Lemma step_wf : forall db o, wf_result (fst (step db o)).
Proof.
  intros db o. unfold step.
  pose proof (exec_op_wf o (fresh_rstate db None)) as H.
  destruct (exec_op o (fresh_rstate db None)) as [t st]. exact H.
Qed.

Theorem run_ops_results_wf : forall ops db, Forall wf_result (fst (run_ops db ops)).
Proof.
  induction ops as [|o t IH]; intro db; [constructor|].
  cbn [run_ops]. pose proof (step_wf db o) as W. destruct (step db o) as [x db'].
  specialize (IH db'). destruct (run_ops db' t) as [xs db''].
  cbn [fst] in *. constructor; assumption.
Qed.

(* ========================================================================================== *)
(* PART B : C07                                                                               *)
(* ========================================================================================== *)

(* B1.  Operations run in a write transaction.  The ten reads are [false].  The twelve operations
   that open one write transaction are [true].  The five remaining constructors are classified
   [true] as well, which is the conservative choice for the hypothesis [read_pure] of the generic
   theorem (nothing is required of a write): Close and Reopen change the handle; Import and
   CreateByQuery change the store; Export does not, but it is not one read transaction either.
   NOTE: the transition system of Spec/Concurrency.v runs every operation as exactly ONE
   transaction.  That is what clover does for the operations with [single_tx o = true]; the three
   composite operations (Export: two read transactions; Import: two write transactions;
   CreateByQuery: up to three) are NOT atomic in clover (TxProofs.import_not_atomic_refuted,
   create_by_query_not_atomic_refuted), and Close/Reopen are no transactions at all.
   [clover_linearizable] below is the instantiation over the whole alphabet, as asked; it is a claim
   about clover only for traces made of single-transaction operations.
   [clover_linearizable_single_tx] is the same theorem over the sub-alphabet [txop] of the
   single-transaction operations, where the discipline is faithful. *)
Definition is_write_op (o : op) : bool :=
  match o with
  | OHasCollection _ | OListCollections | OFindAll _ _ | OCount _ | OExists _ | OFindFirst _
  | OForEach _ _ _ | OFindById _ _ | OHasIndex _ _ | OListIndexes _ => false
  | OCreateCollection _ | ODropCollection _ | OInsert _ _ _ | OSave _ _ _ | ODeleteById _ _
  | OUpdateById _ _ _ | OReplaceById _ _ _ | OUpdate _ _ | OUpdateFunc _ _ | ODelete _
  | OCreateIndex _ _ | ODropIndex _ _ => true
  | OExport _ | OImport _ _ | OCreateByQuery _ _ | OClose | OReopen => true
  end.

(* a transaction whose body never commits gives the handle back as it was: for a closed handle it is
   not even begun; for an open one the handle is rebuilt as [mkDb (durable db) false], which is db *)
Lemma run_tx_no_commit_db : forall A (body : M A) st,
  no_commit body -> r_db (snd (run_tx body st)) = r_db st.
Proof.
  intros A body st NC. unfold run_tx. cbn [snd r_db].
  destruct (closed (r_db st)) eqn:Cl.
  - rewrite with_tx_closed by exact Cl. reflexivity.
  - destruct ((tick ;;; body) (tx_start (r_fault st) (r_db st))) as [r s] eqn:Eb.
    rewrite (with_tx_open _ _ _ _ _ _ Cl Eb). cbn [o_db].
    assert (NC' : no_commit (tick ;;; body))
      by (apply no_commit_bind; [exact no_commit_tick | intros _; exact NC]).
    rewrite (NC' _ _ _ Eb). cbn [tx_start committed].
    destruct (r_db st) as [d c]. cbn in Cl |- *. rewrite Cl. reflexivity.
Qed.

Lemma no_commit_count_cons : forall d n, no_commit (count_cons d n).
Proof. intros. unfold count_cons. apply no_commit_ret. Qed.

Lemma no_commit_foreach_cons : forall k d acc, no_commit (foreach_cons k d acc).
Proof. intros. unfold foreach_cons. apply no_commit_ret. Qed.

Lemma no_commit_read_body :
  (forall q, no_commit (find_all_tx q)) /\
  (forall c id, no_commit (find_by_id_tx c id)) /\
  (forall c, no_commit (has_collection c)) /\
  (forall c f, no_commit (has_index_tx c f)) /\
  (forall c, no_commit (list_indexes_tx c)) /\
  (forall c, no_commit (collection_size_tx c)) /\
  no_commit list_collections_tx /\
  (forall q n, no_commit (iterate_docs q count_cons n)) /\
  (forall q k acc, no_commit (iterate_docs q (foreach_cons k) acc)).
Proof.
  destruct read_bodies_no_commit as (H1 & H2 & H3 & H4 & H5 & H6 & H7 & H8).
  repeat split; intros; auto.
  - apply H8. exact no_commit_count_cons.
  - apply H8. exact (no_commit_foreach_cons k).
Qed.

(* one read transaction followed by the rendering of its result *)
Ltac read_tx :=
  match goal with
  | |- context [run_tx ?b ?st] =>
      generalize (run_tx_no_commit_db _ b st);
      destruct (run_tx b st) as [? ?]; cbn [snd];
      let H := fresh in intro H; apply H
  end.

Lemma exec_op_read_pure : forall o st,
  is_write_op o = false -> r_db (snd (exec_op o st)) = r_db st.
Proof.
  intros o st Hr.
  destruct no_commit_read_body as (H1 & H2 & H3 & H4 & H5 & H6 & H7 & H8 & H9).
  destruct o; try discriminate Hr; clear Hr; unfold exec_op, find_all_op.
  - (* HasCollection *) read_tx; auto.
  - (* ListCollections *) read_tx; auto.
  - (* FindAll *) destruct (normalize_query (mk_query q)); [read_tx; auto | reflexivity].
  - (* Count *)
    destruct (normalize_query (mk_query q)) as [nq|]; [|reflexivity].
    destruct (nq_crit nq); read_tx; auto.
  - (* Exists *)
    destruct (normalize_query (q_apply (mk_query q) (QLimit 1))); [read_tx; auto | reflexivity].
  - (* FindFirst *)
    destruct (normalize_query (q_apply (mk_query q) (QLimit 1))); [read_tx; auto | reflexivity].
  - (* ForEach *) destruct (normalize_query (mk_query q)); [read_tx; auto | reflexivity].
  - (* FindById *) read_tx; auto.
  - (* HasIndex *) read_tx; auto.
  - (* ListIndexes *) read_tx; auto.
Qed.

Lemma step_snd : forall db o, snd (step db o) = r_db (snd (exec_op o (fresh_rstate db None))).
Proof. intros. unfold step. destruct (exec_op o (fresh_rstate db None)); reflexivity. Qed.

Lemma step_fst : forall db o, fst (step db o) = fst (exec_op o (fresh_rstate db None)).
Proof. intros. unfold step. destruct (exec_op o (fresh_rstate db None)); reflexivity. Qed.

(* B2: for open AND closed handles, so no side condition and no [step_keeps_open] is needed *)
Theorem clover_read_pure : forall db o, is_write_op o = false -> snd (step db o) = db.
Proof. intros db o H. rewrite step_snd. exact (exec_op_read_pure o _ H). Qed.

(* B3: [ConcurrencyProofs.linearizable] with State := dbst, Op := op, Res := T, step := Ops.step,
   is_write := is_write_op.  The conclusions are those of [linearizable], spelled out:
     (1) the linearisation replays sequentially with [step] from db0 to the durable state of the
         system, with exactly the recorded results;
     (2) every returned call is in it, with the result it returned, at a point between its invoke
         and its return;
     (3) it contains only invoked calls;
     (4) it orders A before B whenever A returned before B was invoked. *)
Theorem clover_linearizable : forall (db0 : dbst) (tr : list (event op T)) (s : sys dbst op T),
  exec step is_write_op (init db0) tr s ->
  replay_ok step db0 (lin_of tr) (Concurrency.durable s) /\
  (forall i c o r, returned_at tr i c o r ->
     exists k j, lin_point_of tr c o r k j /\ (j < i)%nat /\
                 own_quiet tr c o k i (Some j) /\
                 nth_error (lin_of tr) (lin_index tr j) = Some (c, o, r)) /\
  (forall j c o r, linearised_at tr j c o r ->
     exists k, lin_point_of tr c o r k j) /\
  (forall i ca oa ra j cb ob rb lb,
     returned_at tr i ca oa ra -> (i < j)%nat -> lin_point_of tr cb ob rb j lb ->
     exists ka la, lin_point_of tr ca oa ra ka la /\ (la < i)%nat /\
                   (lin_index tr la < lin_index tr lb)%nat).
Proof. exact (linearizable dbst op T step is_write_op clover_read_pure). Qed.

(* the other named consequences, instantiated *)
Theorem clover_lin_replay : forall db0 tr (s : sys dbst op T),
  exec step is_write_op (init db0) tr s -> replay_ok step db0 (lin_of tr) (Concurrency.durable s).
Proof. exact (lin_replay dbst op T step is_write_op clover_read_pure). Qed.

Theorem clover_reads_see_committed_prefix : forall db0 tr (s : sys dbst op T) i c o r,
  exec step is_write_op (init db0) tr s ->
  nth_error tr i = Some (EBeginRead c o r) ->
  exists db1, replay_ok step db0 (lin_of (firstn i tr)) db1 /\ r = fst (step db1 o).
Proof. exact (reads_see_committed_prefix dbst op T step is_write_op clover_read_pure). Qed.

Theorem clover_one_writer : forall db0 tr (s : sys dbst op T),
  exec step is_write_op (init db0) tr s ->
  forall c1 c2 sn1 o1 sn2 o2,
    cl s c1 = CWriting sn1 o1 -> cl s c2 = CWriting sn2 o2 -> c1 = c2.
Proof. exact (one_writer dbst op T step is_write_op). Qed.

(* B4: an operation rejected at commit has no effect *)
Theorem clover_conflict_no_effect : forall (s s' : sys dbst op T) c o,
  trans step is_write_op s (EAbort c o) s' -> Concurrency.durable s' = Concurrency.durable s.
Proof.
  intros s s' c o H.
  exact (abort_no_effect dbst op T step is_write_op s s' (EAbort c o) c o H eq_refl).
Qed.

(* a write operation whose own answer is an error is linearised like any other, and its sequential
   semantics is "change nothing" (C04 at the level of [step]) *)
Theorem clover_failed_op_no_effect : forall db o,
  single_tx o = true -> T_is_err (fst (step db o)) = true -> snd (step db o) = db.
Proof.
  intros db o S E. rewrite step_snd. rewrite step_fst in E.
  exact (exec_op_error_no_effect o (fresh_rstate db None) S E).
Qed.

(* ---- the faithful sub-alphabet: single-transaction operations only ---- *)
Record txop : Type := mkTxOp { the_op : op; the_op_single : single_tx the_op = true }.

Definition step_tx (db : dbst) (o : txop) : T * dbst := step db (the_op o).
Definition is_write_tx (o : txop) : bool := is_write_op (the_op o).

Lemma clover_read_pure_tx : forall db o, is_write_tx o = false -> snd (step_tx db o) = db.
Proof. intros db o H. exact (clover_read_pure db (the_op o) H). Qed.

Theorem clover_linearizable_single_tx :
  forall (db0 : dbst) (tr : list (event txop T)) (s : sys dbst txop T),
  exec step_tx is_write_tx (init db0) tr s ->
  replay_ok step_tx db0 (lin_of tr) (Concurrency.durable s) /\
  (forall i c o r, returned_at tr i c o r ->
     exists k j, lin_point_of tr c o r k j /\ (j < i)%nat /\
                 own_quiet tr c o k i (Some j) /\
                 nth_error (lin_of tr) (lin_index tr j) = Some (c, o, r)) /\
  (forall j c o r, linearised_at tr j c o r ->
     exists k, lin_point_of tr c o r k j) /\
  (forall i ca oa ra j cb ob rb lb,
     returned_at tr i ca oa ra -> (i < j)%nat -> lin_point_of tr cb ob rb j lb ->
     exists ka la, lin_point_of tr ca oa ra ka la /\ (la < i)%nat /\
                   (lin_index tr la < lin_index tr lb)%nat).
Proof. exact (linearizable dbst txop T step_tx is_write_tx clover_read_pure_tx). Qed.

(* on this alphabet [is_write_op] is exact: the operations classified as writes are those whose body
   may commit, and a handle that is open stays open *)
Theorem step_keeps_closed_flag : forall db (o : txop), closed (snd (step_tx db o)) = closed db.
Proof.
  intros db [o S]. unfold step_tx. cbn [the_op]. rewrite step_snd.
  destruct (exec_op_shape o S) as [(A & body & f & _ & _ & Hx) | (t & _ & Hx)];
    rewrite Hx; cbn [snd]; [|reflexivity].
  unfold run_tx, fresh_rstate. cbn [snd r_db r_fault].
  destruct (closed db) eqn:Cl.
  - rewrite with_tx_closed by exact Cl. exact Cl.
  - destruct ((tick ;;; body) (tx_start None db)) as [r s] eqn:Eb.
    rewrite (with_tx_open _ _ _ _ _ _ Cl Eb). reflexivity.
Qed.

Corollary step_keeps_open : forall db (o : txop), closed db = false -> closed (snd (step_tx db o)) = false.
Proof. intros db o H. rewrite step_keeps_closed_flag. exact H. Qed.

(* ========================================================================================== *)
(* PART C : C19                                                                               *)
(* ========================================================================================== *)

(* a value as json.Unmarshal into interface{} produces it: no int, no uint, no time, at any depth *)
Fixpoint json_typed (v : value) {struct v} : bool :=
  match v with
  | VInt _ | VUint _ | VTime _ _ _ => false
  | VArr l => forallb json_typed l
  | VObj o => (fix go (o : list (bytes * value)) : bool :=
                 match o with [] => true | (_, x) :: t => json_typed x && go t end) o
  | _ => true
  end.

Section JsonProofs.
  Variable fmt : Z -> Z -> Z -> bytes.

  (* C2a *)
  Theorem json_value_shape : forall v, json_typed (json_value fmt v) = true.
  Proof.
    induction v as [ | z | z | b | s | b | s n o | l IH | o IH ] using value_ind';
      cbn [json_value json_typed]; try reflexivity.
    - induction IH as [|x t Hx _ IHt]; cbn [map forallb]; [reflexivity|].
      rewrite Hx. exact IHt.
    - induction IH as [|[k x] t Hx _ IHt]; [reflexivity|].
      cbn [snd] in Hx. rewrite Hx. exact IHt.
  Qed.

  (* JSON-typed values are fixed points *)
  Theorem json_value_fixpoint : forall v, json_typed v = true -> json_value fmt v = v.
  Proof.
    induction v as [ | z | z | b | s | b | s n o | l IH | o IH ] using value_ind';
      cbn [json_value json_typed]; intro H; try reflexivity; try discriminate H.
    - f_equal. induction IH as [|x t Hx _ IHt]; [reflexivity|].
      cbn [forallb] in H. apply andb_prop in H as [H1 H2].
      cbn [map]. rewrite (Hx H1), (IHt H2). reflexivity.
    - f_equal. induction IH as [|[k x] t Hx _ IHt]; [reflexivity|].
      apply andb_prop in H as [H1 H2]. cbn [snd] in Hx.
      rewrite (Hx H1), (IHt H2). reflexivity.
  Qed.

  (* C1 *)
  Theorem json_value_idempotent : forall v, json_value fmt (json_value fmt v) = json_value fmt v.
  Proof. intro v. apply json_value_fixpoint. apply json_value_shape. Qed.

  (* C2b: keys of every object, length of every array *)
  Lemma json_value_obj : forall o,
    json_value fmt (VObj o) = VObj (map (fun kv => (fst kv, json_value fmt (snd kv))) o).
  Proof.
    intro o. cbn [json_value]. f_equal.
    induction o as [|[k x] t IHt]; [reflexivity|]. cbn [map fst snd]. rewrite IHt. reflexivity.
  Qed.

  Theorem json_value_keys : forall o,
    map fst (match json_value fmt (VObj o) with VObj o' => o' | _ => [] end) = map fst o.
  Proof.
    intro o. rewrite json_value_obj, map_map. apply map_ext. intros [k x]. reflexivity.
  Qed.

  Theorem json_value_arr_length : forall l,
    length (match json_value fmt (VArr l) with VArr l' => l' | _ => [] end) = length l.
  Proof. intro l. cbn [json_value]. apply map_length. Qed.

  (* C3 *)
  Theorem json_number_equal : forall z, (- two53 <= z <= two53)%Z ->
    json_value fmt (VInt z) = VFloat (of_Z z) /\ fden (of_Z z) = (z * scale1074)%Z.
  Proof. intros z Hz. split; [reflexivity | exact (fden_of_Z_exact z Hz)]. Qed.

  Theorem json_number_equal_uint : forall z, (- two53 <= z <= two53)%Z ->
    json_value fmt (VUint z) = VFloat (of_Z z) /\ fden (of_Z z) = (z * scale1074)%Z.
  Proof. intros z Hz. split; [reflexivity | exact (fden_of_Z_exact z Hz)]. Qed.

  Lemma small_int_of_range : forall z, - two53 <= z <= two53 -> small_int z = true.
  Proof.
    intros z Hz. unfold small_int. apply andb_true_intro. split; apply Z.leb_le; lia.
  Qed.

  Theorem json_number_compare_eq : forall z, (- two53 <= z <= two53)%Z ->
    compare (json_value fmt (VInt z)) (VInt z) = Eq.
  Proof.
    intros z Hz. cbn [json_value].
    rewrite compare_numbers_nden;
      [| reflexivity | reflexivity | reflexivity | exact (small_int_of_range z Hz)].
    cbn [nden]. rewrite (fden_of_Z_exact z Hz). apply Z.compare_refl.
  Qed.

  Theorem json_number_compare_eq_uint : forall z, (- two53 <= z <= two53)%Z ->
    compare (json_value fmt (VUint z)) (VUint z) = Eq.
  Proof.
    intros z Hz. cbn [json_value].
    rewrite compare_numbers_nden;
      [| reflexivity | reflexivity | reflexivity | exact (small_int_of_range z Hz)].
    cbn [nden]. rewrite (fden_of_Z_exact z Hz). apply Z.compare_refl.
  Qed.
End JsonProofs.

(* ========================================================================================== *)
Print Assumptions exec_op_result_shape.
Print Assumptions exec_op_closed_strong.
Print Assumptions exec_op_closed.
Print Assumptions run_ops_total.
Print Assumptions run_ops_results_wf.
Print Assumptions clover_read_pure.
Print Assumptions clover_linearizable.
Print Assumptions clover_linearizable_single_tx.
Print Assumptions clover_lin_replay.
Print Assumptions clover_reads_see_committed_prefix.
Print Assumptions clover_one_writer.
Print Assumptions clover_conflict_no_effect.
Print Assumptions clover_failed_op_no_effect.
Print Assumptions step_keeps_closed_flag.
Print Assumptions step_keeps_open.
Print Assumptions json_value_idempotent.
Print Assumptions json_value_shape.
Print Assumptions json_value_fixpoint.
Print Assumptions json_value_keys.
Print Assumptions json_value_arr_length.
Print Assumptions json_number_equal.
Print Assumptions json_number_equal_uint.
Print Assumptions json_number_compare_eq.
Print Assumptions json_number_compare_eq_uint.

(* End-to-end theorems about the read operations (FindAll, Count, ForEach, FindFirst, Exists) against the
   abstract database: assembly of the scan theorems (ScanProofs), the planner soundness theorems
   (VisitProofs) and the plan-level theorems (PlanProofs) under the refinement relation R.

   FINDING recorded here (see section 2 and [elided_sort_not_docs_le_sorted], [na_find_all_not_find_ok]):
   when the planner elides the sort node (single sort option on an indexed field), the result is in
   index order, in which an absent field and a present nil share the key of nil and interleave by id;
   the in-memory comparator [docs_leb] ranks absent strictly before nil. So the index-ordered result is
   NOT [StronglySorted (docs_le sort)] in general; it is sorted w.r.t. the order that identifies absent
   with nil ([docs_le_nil]). [find_ok'] and [tie_equal'] are [find_ok] / [tie_equal] over that order. *)
From Clover Require Import QueryDom RProofs ScanProofs PlanProofs VisitProofs SortProofs WriteProofs.
From Clover Require Import CompareProofs RangeProofs BytesProofs CriteriaProofs.
From Coq Require Import Lia.
Open Scope Z_scope.

Arguments compare : simpl never.

(* ================================================================== *)
(** * 0. List utilities *)

Lemma Permutation_filter' : forall {A} (P : A -> bool) l1 l2,
  Permutation l1 l2 -> Permutation (filter P l1) (filter P l2).
Proof.
  intros A P l1 l2 H. induction H as [|x l l' H IH|x y l|l l' l'' H1 IH1 H2 IH2].
  - constructor.
  - cbn [filter]. destruct (P x); [constructor|]; exact IH.
  - cbn [filter]. destruct (P x), (P y); try apply Permutation_refl. apply perm_swap.
  - eapply Permutation_trans; eassumption.
Qed.

Lemma filter_implied : forall {A} (P Q : A -> bool) l,
  (forall x, In x l -> P x = true -> Q x = true) ->
  filter P (filter Q l) = filter P l.
Proof.
  intros A P Q l H. induction l as [|x t IH]; [reflexivity|].
  cbn [filter]. destruct (Q x) eqn:EQ.
  - cbn [filter]. rewrite IH by (intros y Hy; apply H; right; exact Hy). reflexivity.
  - destruct (P x) eqn:EP.
    + rewrite (H x (or_introl eq_refl) EP) in EQ. discriminate EQ.
    + apply IH. intros y Hy; apply H; right; exact Hy.
Qed.

Lemma filter_none : forall {A} (P : A -> bool) l, (forall x, In x l -> P x = false) -> filter P l = [].
Proof.
  intros A P l H. induction l as [|x t IH]; [reflexivity|].
  cbn [filter]. rewrite (H x (or_introl eq_refl)). apply IH. intros y Hy. apply H. right. exact Hy.
Qed.

Lemma skipn_incl : forall {A} n (l : list A) x, In x (skipn n l) -> In x l.
Proof.
  intros A n. induction n as [|n IH]; intros l x H; [exact H|].
  destruct l as [|y t]; [exact H|]. right. apply IH. exact H.
Qed.

Lemma firstn_incl : forall {A} n (l : list A) x, In x (firstn n l) -> In x l.
Proof.
  intros A n. induction n as [|n IH]; intros l x H; [contradiction H|].
  destruct l as [|y t]; [exact H|]. destruct H as [H|H]; [left; exact H | right; apply IH; exact H].
Qed.

Lemma NoDup_skipn : forall {A} n (l : list A), NoDup l -> NoDup (skipn n l).
Proof.
  intros A n. induction n as [|n IH]; intros l H; [exact H|].
  destruct l as [|y t]; [exact H|]. apply IH. inversion H; assumption.
Qed.

Lemma NoDup_firstn : forall {A} n (l : list A), NoDup l -> NoDup (firstn n l).
Proof.
  intros A n. induction n as [|n IH]; intros l H; [constructor|].
  destruct l as [|y t]; [constructor|]. inversion H as [|y' t' Hn Ht]; subst.
  cbn [firstn]. constructor; [|apply IH; exact Ht].
  intro Hin. apply Hn. apply (firstn_incl n t y Hin).
Qed.

Lemma NoDup_map_filter : forall {A B} (f : A -> B) (P : A -> bool) l,
  NoDup (map f l) -> NoDup (map f (filter P l)).
Proof.
  intros A B f P l. induction l as [|x t IH]; intro H; [constructor|].
  cbn [map] in H. inversion H as [|y t' Hn Ht]; subst.
  cbn [filter]. destruct (P x); [|apply IH; exact Ht].
  cbn [map]. constructor; [|apply IH; exact Ht].
  intro Hin. apply Hn. apply in_map_iff in Hin as (z & Ez & Hz).
  apply in_map_iff. exists z. split; [exact Ez|]. apply filter_In in Hz. apply Hz.
Qed.

Lemma Forall2_skipn : forall {A B} (Q : A -> B -> Prop) n l1 l2,
  Forall2 Q l1 l2 -> Forall2 Q (skipn n l1) (skipn n l2).
Proof.
  intros A B Q n. induction n as [|n IH]; intros l1 l2 H; [exact H|].
  destruct H as [|x y t1 t2 Hxy Ht]; [constructor|]. cbn [skipn]. apply IH. exact Ht.
Qed.

Lemma Forall2_firstn : forall {A B} (Q : A -> B -> Prop) n l1 l2,
  Forall2 Q l1 l2 -> Forall2 Q (firstn n l1) (firstn n l2).
Proof.
  intros A B Q n. induction n as [|n IH]; intros l1 l2 H; [constructor|].
  destruct H as [|x y t1 t2 Hxy Ht]; [constructor|]. cbn [firstn]. constructor; [exact Hxy|].
  apply IH. exact Ht.
Qed.

Lemma Forall2_weaken_on : forall {A} (P : A -> Prop) (Q1 Q2 : A -> A -> Prop) l1 l2,
  (forall x y, P x -> P y -> Q1 x y -> Q2 x y) ->
  Forall P l1 -> Forall P l2 -> Forall2 Q1 l1 l2 -> Forall2 Q2 l1 l2.
Proof.
  intros A P Q1 Q2 l1 l2 Hw H1 H2 H. revert H1 H2.
  induction H as [|x y t1 t2 Hxy Ht IH]; intros H1 H2; [constructor|].
  inversion H1; subst. inversion H2; subst.
  constructor; [apply Hw; assumption | apply IH; assumption].
Qed.

Lemma window_incl : forall skip limit l d, In d (window skip limit l) -> In d l.
Proof.
  intros skip limit l d H. unfold window in H.
  destruct (limit <? 0); [|apply firstn_incl in H]; apply (skipn_incl _ _ _ H).
Qed.

Lemma window_NoDup_map : forall {B} (f : obj -> B) skip limit l,
  NoDup (map f l) -> NoDup (map f (window skip limit l)).
Proof.
  intros B f skip limit l H. unfold window.
  destruct (limit <? 0).
  - rewrite <- skipn_map. apply NoDup_skipn. exact H.
  - rewrite <- firstn_map, <- skipn_map. apply NoDup_firstn, NoDup_skipn. exact H.
Qed.

Lemma window_Forall2 : forall (Q : obj -> obj -> Prop) skip limit l1 l2,
  Forall2 Q l1 l2 -> Forall2 Q (window skip limit l1) (window skip limit l2).
Proof.
  intros Q skip limit l1 l2 H. unfold window.
  destruct (limit <? 0); [|apply Forall2_firstn]; apply Forall2_skipn; exact H.
Qed.

Lemma window_length_eq : forall skip limit (l1 l2 : list obj),
  length l1 = length l2 -> length (window skip limit l1) = length (window skip limit l2).
Proof.
  intros skip limit l1 l2 H. unfold window.
  destruct (limit <? 0); rewrite ?firstn_length, !skipn_length, H; reflexivity.
Qed.

Lemma window_all : forall limit l, limit < 0 -> window 0 limit l = l.
Proof.
  intros limit l H. unfold window. destruct (limit <? 0) eqn:E; [reflexivity | lia].
Qed.

(* ================================================================== *)
(** * 1. The order "absent = nil" of an index-ordered result

    For a single sort option the relaxed order compares the field values with an absent field read
    as nil ([doc_get]); for any other option list it is the comparator of the in-memory sort. *)

Definition field_leb_nil (f : bytes) (dir : Z) (a b : obj) : bool :=
  if dir <? 0 then is_le (compare (doc_get f b) (doc_get f a))
  else is_le (compare (doc_get f a) (doc_get f b)).

Definition docs_leb_nil (opts : list (bytes * Z)) (a b : obj) : bool :=
  match opts with
  | [(f, dir)] => field_leb_nil f dir a b
  | _ => docs_leb opts a b
  end.

Definition docs_le_nil (opts : list (bytes * Z)) (a b : obj) : Prop := docs_leb_nil opts a b = true.

(* the statement form asked for: direction-adjusted [compare ... <> Gt] on the field read with nil *)
Lemma docs_le_nil_single : forall f dir a b,
  docs_le_nil [(f, dir)] a b <->
  (if dir <? 0 then compare (doc_get f b) (doc_get f a) <> Gt
   else compare (doc_get f a) (doc_get f b) <> Gt).
Proof.
  intros f dir a b. unfold docs_le_nil, docs_leb_nil, field_leb_nil.
  destruct (dir <? 0); apply is_le_not_gt.
Qed.

(* the in-memory order is finer: it implies the relaxed one *)
Lemma docs_leb_leb_nil : forall opts a b, docs_leb opts a b = true -> docs_leb_nil opts a b = true.
Proof.
  intros opts a b H. destruct opts as [|[f dir] [|o t]]; try exact H.
  unfold docs_leb_nil, field_leb_nil. unfold docs_leb in H.
  rewrite compare_docs_cons in H. cbn [compare_docs] in H. unfold field_cmp in H.
  destruct (doc_has f a) eqn:Ha, (doc_has f b) eqn:Hb; cbn [negb andb] in H.
  - destruct (dir <? 0).
    + rewrite (compare_antisym (doc_get f a) (doc_get f b)).
      destruct (compare (doc_get f a) (doc_get f b)); cbn in *; congruence.
    + destruct (compare (doc_get f a) (doc_get f b)); cbn in *; congruence.
  - rewrite (doc_has_false_get f b Hb). destruct (dir <? 0).
    + rewrite compare_nil_l. destruct (is_nilv (doc_get f a)); reflexivity.
    + cbn in H. discriminate H.
  - rewrite (doc_has_false_get f a Ha). destruct (dir <? 0).
    + cbn in H. discriminate H.
    + rewrite compare_nil_l. destruct (is_nilv (doc_get f b)); reflexivity.
  - rewrite (doc_has_false_get f a Ha), (doc_has_false_get f b Hb).
    destruct (dir <? 0); reflexivity.
Qed.

Lemma docs_le_le_nil : forall opts a b, docs_le opts a b -> docs_le_nil opts a b.
Proof. intros opts a b. apply docs_leb_leb_nil. Qed.

Lemma docs_leb_nil_total : forall opts a b, docs_leb_nil opts a b = true \/ docs_leb_nil opts b a = true.
Proof.
  intros opts a b. destruct opts as [|[f dir] [|o t]]; try apply docs_leb_total.
  unfold docs_leb_nil, field_leb_nil.
  rewrite (compare_antisym (doc_get f a) (doc_get f b)).
  destruct (dir <? 0), (compare (doc_get f a) (doc_get f b)); cbn; auto.
Qed.

Lemma docs_leb_nil_trans : forall m opts a b c,
  doc_regime m opts a -> doc_regime m opts b -> doc_regime m opts c ->
  docs_leb_nil opts a b = true -> docs_leb_nil opts b c = true -> docs_leb_nil opts a c = true.
Proof.
  intros m opts a b c Ha Hb Hc.
  destruct opts as [|[f dir] [|o t]]; try (apply (docs_leb_trans m); assumption).
  unfold docs_leb_nil, field_leb_nil.
  assert (Ra : regime m (doc_get f a) = true) by (apply (Ha f dir); left; reflexivity).
  assert (Rb : regime m (doc_get f b) = true) by (apply (Hb f dir); left; reflexivity).
  assert (Rc : regime m (doc_get f c) = true) by (apply (Hc f dir); left; reflexivity).
  destruct (dir <? 0).
  - pose proof (compare_t3 _ _ _ (regime_cmp_dom3 m _ _ _ Rc Rb Ra)) as H. revert H.
    destruct (compare (doc_get f c) (doc_get f b)), (compare (doc_get f b) (doc_get f a)),
      (compare (doc_get f c) (doc_get f a)); cbn; intros; congruence.
  - pose proof (compare_t3 _ _ _ (regime_cmp_dom3 m _ _ _ Ra Rb Rc)) as H. revert H.
    destruct (compare (doc_get f a) (doc_get f b)), (compare (doc_get f b) (doc_get f c)),
      (compare (doc_get f a) (doc_get f c)); cbn; intros; congruence.
Qed.

(* the acceptable results of FindAll, with sortedness relaxed to the absent = nil order *)
Definition find_ok' (docs : list obj) (q : nquery) (res : list obj) : Prop :=
  exists l0, Permutation l0 (matches (nq_crit q) docs) /\
             (nq_sort q <> [] -> StronglySorted (docs_le_nil (nq_sort q)) l0) /\
             res = window (nq_skip q) (nq_limit q) l0.

Lemma find_ok_find_ok' : forall docs q res, find_ok docs q res -> find_ok' docs q res.
Proof.
  intros docs q res (l0 & HP & HS & E). exists l0. split; [exact HP|]. split; [|exact E].
  intro Hne. apply (SSorted_weaken (docs_le (nq_sort q))); [|apply HS; exact Hne].
  intros x y _ _. apply docs_le_le_nil.
Qed.

Definition tie_equal' (sort : list (bytes * Z)) (r1 r2 : list obj) : Prop :=
  Forall2 (fun a b => docs_leb_nil sort a b = true /\ docs_leb_nil sort b a = true) r1 r2.

Lemma tie_equal_tie_equal' : forall sort r1 r2, tie_equal sort r1 r2 -> tie_equal' sort r1 r2.
Proof.
  intros sort r1 r2 H. unfold tie_equal in H. unfold tie_equal'.
  induction H as [|x y t1 t2 [H1 H2] Ht IH]; constructor; [|exact IH].
  split; apply docs_leb_leb_nil; assumption.
Qed.

(* two lists in one regime, sorted by the relaxed order, permutations of each other: equal up to ties.
   [sorted_perm_unique_keys] wants a globally transitive comparator, the document comparator is
   transitive inside one regime only; so it is applied to the comparator that places every document
   outside the regime after all others, which agrees with the original one on the two lists. *)
Definition regb (m : bool) (sort : list (bytes * Z)) (d : obj) : bool :=
  forallb (fun fd => regime m (doc_get (fst fd) d)) sort.

Lemma regb_doc_regime : forall m sort d, regb m sort d = true <-> doc_regime m sort d.
Proof.
  intros m sort d. unfold regb, doc_regime. rewrite forallb_forall. split.
  - intros H f dir Hin. apply (H (f, dir) Hin).
  - intros H [f dir] Hin. apply (H f dir Hin).
Qed.

Definition leb_in (m : bool) (sort : list (bytes * Z)) (a b : obj) : bool :=
  if regb m sort a then (if regb m sort b then docs_leb_nil sort a b else true)
  else negb (regb m sort b).

Lemma leb_in_total : forall m sort a b, leb_in m sort a b = true \/ leb_in m sort b a = true.
Proof.
  intros m sort a b. unfold leb_in.
  destruct (regb m sort a), (regb m sort b); cbn; auto. apply docs_leb_nil_total.
Qed.

Lemma leb_in_trans : forall m sort a b c,
  leb_in m sort a b = true -> leb_in m sort b c = true -> leb_in m sort a c = true.
Proof.
  intros m sort a b c. unfold leb_in.
  destruct (regb m sort a) eqn:Ea, (regb m sort b) eqn:Eb, (regb m sort c) eqn:Ec; cbn;
    try congruence.
  apply (docs_leb_nil_trans m); apply regb_doc_regime; assumption.
Qed.

Theorem sorted_perm_tie_equal : forall m sort l1 l2,
  Forall (fun d => regb m sort d = true) l1 ->
  StronglySorted (docs_le_nil sort) l1 -> StronglySorted (docs_le_nil sort) l2 ->
  Permutation l1 l2 -> tie_equal' sort l1 l2.
Proof.
  intros m sort l1 l2 F1 S1 S2 P.
  assert (F2 : Forall (fun d => regb m sort d = true) l2).
  { rewrite Forall_forall in *. intros d Hd. apply F1. apply (Permutation_in d (Permutation_sym P) Hd). }
  assert (Hup : forall l, Forall (fun d => regb m sort d = true) l ->
            StronglySorted (docs_le_nil sort) l ->
            StronglySorted (fun x y => leb_in m sort x y = true) l).
  { intros l F S. apply (SSorted_weaken (docs_le_nil sort)); [|exact S].
    rewrite Forall_forall in F. intros x y Hx Hy Hle. unfold leb_in.
    rewrite (F x Hx), (F y Hy). exact Hle. }
  pose proof (sorted_perm_unique_keys (leb_in m sort) (leb_in_total m sort) (leb_in_trans m sort)
                l1 l2 (Hup l1 F1 S1) (Hup l2 F2 S2) P) as H.
  unfold tie_equal'.
  apply (Forall2_weaken_on (fun d => regb m sort d = true)
           (fun x y => leb_in m sort x y = true /\ leb_in m sort y x = true)); try assumption.
  intros x y Hx Hy. unfold leb_in. rewrite Hx, Hy. auto.
Qed.

(* ================================================================== *)
(** * 2. The plan-level theorems for an input node that feeds L at the states of ONE view

    [input_feeds] (PureRun) quantifies over all transaction states; the scan theorems hold at the
    states whose view refines the abstract database. ROUTE CHOSEN: [exec_plan_pure] is re-derived for
    the state-restricted premise (its proof uses the premise only at the state the plan is started
    in: 25 lines, from the exported [run_input_ext], [down_pure], [feed_pure], [down_window_any]);
    every other PlanProofs result is a property of the pure window [window skip limit plan_seq] and is
    reused unchanged ([fold_count], [foreach_prefix], [findfirst_agrees], [exists_agrees], ...). *)

Definition input_feeds_at (s : kv) (c : bytes) (crit : option ncrit) (sort : list (bytes * Z))
           (idx : list bytes) (L : list obj) : Prop :=
  forall (B : Type) (g : obj -> B -> B * bool) (b : B) (st : txst),
    fault st = None -> view st = s ->
    runs_to (run_input c crit (fst (try_select_index crit sort idx)) (pure_cons g) b) st (fold_pure g L b).

Lemma input_feeds_at_of_all : forall s c crit sort idx L,
  input_feeds c crit sort idx L -> input_feeds_at s c crit sort idx L.
Proof. intros s c crit sort idx L H B g b st Hf _. apply H. exact Hf. Qed.

Theorem exec_plan_pure_at : forall s c crit sort skip idx L,
  input_feeds_at s c crit sort idx L ->
  forall B (k : obj -> B -> B * bool) limit b0 st,
    fault st = None -> view st = s ->
    runs_to (exec_plan (pure_cons k) c crit sort skip limit idx b0) st
            (fold_pure k (window skip limit (plan_seq crit sort idx L)) b0).
Proof.
  intros s c crit sort skip idx L Hin B k limit b0 st Hf Hv.
  assert (Hd : runs_to (x <- run_input c crit (fst (try_select_index crit sort idx))
                             (down (pure_cons k) skip limit) (mkD 0 0 b0) ;; ret (d_acc x)) st
                       (fold_pure k (window skip limit L) b0)).
  { rewrite <- (down_window_any B k skip limit L b0). apply runs_to_ret_bind.
    eapply runs_to_meq; [|apply Hin; [exact Hf | exact Hv]].
    apply run_input_ext. intros d b s0. rewrite down_pure. reflexivity. }
  assert (Hs : runs_to (docs <- run_input c crit (fst (try_select_index crit sort idx))
                                 (fun d (acc : list obj) => ret (d :: acc, true)) [] ;;
                        x <- feed (pure_cons k) skip limit (sort_docs sort (rev docs)) (mkD 0 0 b0) ;;
                        ret (d_acc x)) st
                       (fold_pure k (window skip limit (sort_docs sort L)) b0)).
  { destruct (Hin _ PlanProofs.collect_g [] st Hf Hv) as (s' & E & Hs').
    exists s'. split; [|exact Hs'].
    unfold bind at 1. change (fun (d : obj) (acc : list obj) => ret (d :: acc, true))
      with (pure_cons PlanProofs.collect_g). rewrite E.
    unfold bind. rewrite feed_pure. unfold ret.
    rewrite PlanProofs.fold_collect, rev_involutive.
    rewrite (down_window_any B k skip limit (sort_docs sort L) b0). reflexivity. }
  unfold exec_plan, plan_seq, needs_sort.
  destruct (try_select_index crit sort idx) as [iq sorted]. cbn [fst snd] in *.
  destruct sort as [|o t]; [exact Hd|].
  destruct sorted; cbn [negb]; [exact Hd | exact Hs].
Qed.

(* ================================================================== *)
(** * 3. From a run inside the transaction to the outcome of [with_tx] *)

Lemma with_tx_runs_to : forall A (body : M A) s a,
  (forall st, fault st = None -> view st = s -> runs_to body st a) ->
  o_res (with_tx body None (mkDb s false)) = Ok a /\
  o_db (with_tx body None (mkDb s false)) = mkDb s false.
Proof.
  intros A body s a H.
  destruct (H (mkTx s None 1 None false) eq_refl eq_refl) as (s' & E & (_ & _ & Hc & _)).
  cbn [committed] in Hc.
  assert (E0 : (tick ;;; body) (mkTx s None 0 None false) = (Ok a, s')).
  { unfold bind, tick. cbn [fault view calls committed fired]. exact E. }
  unfold with_tx. cbn [closed durable]. rewrite E0. cbn [o_res o_db]. rewrite Hc.
  split; reflexivity.
Qed.

Lemma get_meta_runs : forall db s c sc st, wf_db db -> R db s -> assoc c db = Some sc ->
  fault st = None -> view st = s ->
  runs_to (get_meta c) st (Z.of_nat (length (sc_docs sc)), sc_idx sc).
Proof.
  intros db s c sc st Hwf HR Ha Hf Hv.
  pose proof (R_get_meta db s c HR Hwf) as Hg. rewrite Ha in Hg.
  unfold get_meta.
  apply (ScanProofs.runs_bind _ _ _ _ st (kv_get (coll_key c) s)).
  - apply (ScanProofs.runs_tx_get _ s). split; assumption.
  - intros s' _. rewrite Hg. apply ScanProofs.runs_ret.
Qed.

Lemma iterate_docs_runs : forall db s q sc A (cons : obj -> A -> M (A * bool)) a0 r st,
  wf_db db -> R db s -> assoc (nq_coll q) db = Some sc ->
  (forall st', fault st' = None -> view st' = s ->
     runs_to (exec_plan cons (nq_coll q) (nq_crit q) (nq_sort q) (nq_skip q) (nq_limit q) (sc_idx sc) a0)
             st' r) ->
  fault st = None -> view st = s ->
  runs_to (iterate_docs q cons a0) st r.
Proof.
  intros db s q sc A cons a0 r st Hwf HR Ha Hex Hf Hv. unfold iterate_docs.
  apply (ScanProofs.runs_bind _ _ _ _ st (Z.of_nat (length (sc_docs sc)), sc_idx sc)).
  - apply (get_meta_runs db s); assumption.
  - intros s' Hs'. cbn [snd]. apply Hex.
    + apply (sbc_fault st s' Hs' Hf).
    + rewrite (sbc_view st s' Hs'). exact Hv.
Qed.

Lemma with_tx_missing : forall db s c A (k : Z * list bytes -> M A),
  wf_db db -> R db s -> assoc c db = None ->
  o_res (with_tx (m <- get_meta c ;; k m) None (mkDb s false)) = Err ECollNotExist /\
  o_db (with_tx (m <- get_meta c ;; k m) None (mkDb s false)) = mkDb s false.
Proof.
  intros db s c A k Hwf HR Ha.
  pose proof (R_get_meta db s c HR Hwf) as Hg. rewrite Ha in Hg.
  unfold with_tx, get_meta, tx_get, bind, tick, get_view, ret, fail.
  cbn [closed durable fault view calls committed fired]. rewrite Hg.
  cbn [o_res o_db committed]. split; reflexivity.
Qed.

(* ================================================================== *)
(** * 4. Q1: the input node selected by the planner feeds the matches *)

Lemma has_field_In : forall f idx, has_field f idx = true -> In f idx.
Proof.
  intros f idx H. unfold has_field in H. apply existsb_exists in H as (x & Hx & E).
  apply beqb_true_iff in E. subst x. exact Hx.
Qed.

(* the bounds of a derived range are literals of the criteria or VNil: [VisitProofs.field_range_bounds]
   for an arbitrary predicate that holds of VNil (there it is stated for [regime m]) *)
Lemma unary_range_bounds_P : forall (P : value -> bool) o v r,
  P VNil = true -> operand_lit_ok P v = true -> unary_range o v = Some r ->
  P (r_start r) = true /\ P (r_end r) = true.
Proof.
  intros P o v r PN L U. destruct v as [x | g]; [ | discriminate U].
  simpl in L. unfold unary_range in U.
  destruct (is_ref_operand (OLit x)); [discriminate U | ].
  destruct o.
  - inversion U; subst r. simpl. auto.
  - destruct (is_nilv x); [discriminate U | ]. inversion U; subst r. simpl. auto.
  - destruct (is_nilv x); [discriminate U | ]. inversion U; subst r. simpl. auto.
  - destruct (is_nilv x); [discriminate U | ]. inversion U; subst r. simpl. auto.
  - destruct (is_nilv x); [discriminate U | ]. inversion U; subst r. simpl. auto.
Qed.

Lemma field_range_bounds_P : forall (P : value -> bool) fld c r,
  P VNil = true -> crit_lits_ok P c = true -> field_range fld c = Some r ->
  P (r_start r) = true /\ P (r_end r) = true.
Proof.
  intros P fld c r PN. revert r.
  induction c as [o f v | f | f p | f vs | f vs | k | c IH | a IHa b IHb | a IHa b IHb];
    intros r L F; try discriminate F.
  - simpl in F. simpl in L. destruct (beqb f fld); [ | discriminate F].
    apply unary_range_bounds_P with o v; assumption.
  - simpl in L. apply andb_true_iff in L as [La Lb]. simpl in F.
    destruct (field_range fld a) as [r1 | ] eqn:FA.
    + destruct (field_range fld b) as [r2 | ] eqn:FB.
      * inversion F; subst r.
        destruct (IHa r1 La eq_refl) as [A1 A2]. destruct (IHb r2 Lb eq_refl) as [B1 B2].
        apply (intersect_bounds (fun x => P x = true)); assumption.
      * inversion F; subst r. apply IHa; [exact La | reflexivity].
    + apply IHb; [exact Lb | exact F].
Qed.

Lemma key_dom_nil : key_dom VNil = true.
Proof. reflexivity. Qed.

Lemma in_docs_pair : forall (sc : scoll) d, In d (map snd (sc_docs sc)) -> exists id, In (id, d) (sc_docs sc).
Proof.
  intros sc d H. apply in_map_iff in H as ([id d'] & E & Hin). cbn [snd] in E. subst d'.
  exists id. exact Hin.
Qed.

Lemma in_docs_regime : forall m sc d f, coll_dom m sc -> In d (map snd (sc_docs sc)) ->
  regime m (doc_get f d) = true.
Proof.
  intros m sc d f [_ Hreg] H. destruct (in_docs_pair sc d H) as (id & Hin). apply (Hreg f id d Hin).
Qed.

(* the selected input satisfies the side conditions of the scan theorems *)
Lemma selected_input_ok : forall m sc crit sort,
  coll_dom m sc -> crit_dom m crit ->
  input_ok sc (fst (try_select_index crit sort (sc_idx sc))).
Proof.
  intros m sc crit sort Hcd Hcr.
  destruct (try_select_index crit sort (sc_idx sc)) as [iq b] eqn:T. cbn [fst].
  destruct iq as [[f r rv | f rv]|]; cbn [input_ok]; [| |exact I].
  - pose proof (try_select_index_indexed crit sort (sc_idx sc) _ b T) as Hf. cbn [iq_field] in Hf.
    apply has_field_In in Hf.
    pose proof (try_select_index_range crit sort (sc_idx sc) f r rv b T) as G.
    destruct crit as [c|]; [|rewrite get_index_query_none in G; discriminate G].
    destruct (get_index_query_inv c (sc_idx sc) f r G) as [_ F].
    destruct Hcr as [_ Hk].
    destruct (field_range_bounds_P key_dom f (Visit.flat c) r key_dom_nil (lits_flat _ c Hk) F) as [Ks Ke].
    right. split; [exact Hf|]. split; [exact (proj1 Hcd f Hf)|]. split; assumption.
  - pose proof (try_select_index_indexed crit sort (sc_idx sc) _ b T) as Hf. cbn [iq_field] in Hf.
    apply has_field_In. exact Hf.
Qed.

(* what the selected input node feeds downstream *)
Definition feed_list (c : bytes) (sc : scoll) (crit : option ncrit) (sort : list (bytes * Z)) : list obj :=
  filter (sat_opt crit) (input_docs c sc (fst (try_select_index crit sort (sc_idx sc)))).

Lemma feed_list_feeds : forall m db s c sc crit sort,
  wf_db db -> R db s -> assoc c db = Some sc -> coll_dom m sc -> crit_dom m crit ->
  input_feeds_at s c crit sort (sc_idx sc) (feed_list c sc crit sort).
Proof.
  intros m db s c sc crit sort Hwf HR Ha Hcd Hcr B g b st Hf Hv. unfold feed_list.
  apply (run_input_pure db c sc _ B g crit b st Hwf Ha (selected_input_ok m sc crit sort Hcd Hcr)).
  - rewrite Hv. exact HR.
  - exact Hf.
Qed.

Lemma feed_list_In : forall c sc crit sort d,
  In d (feed_list c sc crit sort) -> sat_opt crit d = true /\ In d (map snd (sc_docs sc)).
Proof.
  intros c sc crit sort d H. unfold feed_list in H. apply filter_In in H as [H1 H2].
  split; [exact H2 | apply (input_docs_In c sc _ d H1)].
Qed.

(* planner soundness, assembled: scanning the selected range and filtering by the criteria gives
   exactly the matches *)
Lemma feed_list_perm : forall m c sc crit sort,
  coll_dom m sc -> crit_dom m crit ->
  Permutation (feed_list c sc crit sort) (matches crit (map snd (sc_docs sc))).
Proof.
  intros m c sc crit sort Hcd Hcr. unfold feed_list, matches.
  destruct (try_select_index crit sort (sc_idx sc)) as [iq b] eqn:T. cbn [fst].
  destruct iq as [[f r rv | f rv]|]; cbn [input_docs].
  - pose proof (try_select_index_range crit sort (sc_idx sc) f r rv b T) as G.
    destruct crit as [cr|]; [|rewrite get_index_query_none in G; discriminate G].
    destruct Hcr as [Hl _].
    destruct (range_is_empty r) eqn:Em.
    + cbn [filter]. rewrite filter_none; [constructor|].
      intros d Hd. cbn [sat_opt].
      apply (try_select_index_empty_sound m cr sort (sc_idx sc) f r rv b d T Hl);
        [apply (in_docs_regime m sc d f Hcd Hd) | exact Em].
    + rewrite filter_implied.
      * apply Permutation_filter'. apply docs_by_idx_perm.
      * intros d Hd Hs. cbn [sat_opt] in Hs.
        apply (try_select_index_sound m cr sort (sc_idx sc) f r rv b d T Hl); [|exact Hs].
        apply (in_docs_regime m sc d f Hcd).
        apply (Permutation_in d (docs_by_idx_perm c f rv sc) Hd).
  - apply Permutation_filter'. apply docs_by_idx_perm.
  - apply Permutation_filter'. unfold docs_by_id. apply Permutation_map. apply msort_perm.
Qed.

(* when the planner reports its output as sorted, there is one sort option, on the scanned field *)
Lemma try_select_sorted_inv : forall crit sort idx iq,
  try_select_index crit sort idx = (iq, true) ->
  exists f dir, sort = [(f, dir)] /\
    (iq = Some (IQAll f (dir <? 0)) \/ exists r, iq = Some (IQRange f r (dir <? 0))).
Proof.
  intros crit sort idx iq H. unfold try_select_index in H.
  destruct (get_index_query crit idx) as [[g r]|].
  - destruct sort as [|[sf dir] [|o t]]; try (inversion H; fail).
    destruct (beqb sf g) eqn:E; inversion H; subst.
    apply beqb_true_iff in E. subst g. exists sf, dir. split; [reflexivity|]. right. exists r. reflexivity.
  - destruct sort as [|[sf dir] [|o t]]; try (inversion H; fail).
    destruct (has_field sf idx); inversion H; subst.
    exists sf, dir. split; [reflexivity|]. left. reflexivity.
Qed.

(* index order is the relaxed sort order of the scanned field *)
Lemma docs_by_idx_sorted_nil : forall c f dir sc, idx_dom f sc ->
  StronglySorted (docs_le_nil [(f, dir)]) (docs_by_idx c f (dir <? 0) sc).
Proof.
  intros c f dir sc Hdom. destruct (dir <? 0) eqn:E.
  - apply (SSorted_weaken (fun a b => compare (doc_get f b) (doc_get f a) <> Gt));
      [|apply docs_by_idx_sorted_rev; exact Hdom].
    intros x y _ _ H. apply docs_le_nil_single. rewrite E. exact H.
  - apply (SSorted_weaken (fun a b => compare (doc_get f a) (doc_get f b) <> Gt));
      [|apply docs_by_idx_sorted; exact Hdom].
    intros x y _ _ H. apply docs_le_nil_single. rewrite E. exact H.
Qed.

Lemma feed_list_sorted : forall m c sc crit sort,
  coll_dom m sc ->
  snd (try_select_index crit sort (sc_idx sc)) = true -> sort <> [] ->
  StronglySorted (docs_le_nil sort) (feed_list c sc crit sort).
Proof.
  intros m c sc crit sort Hcd Hs _. unfold feed_list.
  destruct (try_select_index crit sort (sc_idx sc)) as [iq b] eqn:T. cbn [fst snd] in *. subst b.
  destruct (try_select_sorted_inv crit sort (sc_idx sc) iq T) as (f & dir & Es & [Ei | (r & Ei)]);
    subst sort iq.
  - pose proof (try_select_index_indexed _ _ _ _ _ T) as Hf. cbn [iq_field] in Hf.
    apply has_field_In in Hf. cbn [input_docs]. apply SSorted_filter.
    apply docs_by_idx_sorted_nil. exact (proj1 Hcd f Hf).
  - pose proof (try_select_index_indexed _ _ _ _ _ T) as Hf. cbn [iq_field] in Hf.
    apply has_field_In in Hf. cbn [input_docs].
    destruct (range_is_empty r); [constructor|].
    apply SSorted_filter, SSorted_filter. apply docs_by_idx_sorted_nil. exact (proj1 Hcd f Hf).
Qed.

(* Q1 *)
Theorem input_feeds_real : forall m db s c sc crit sort,
  wf_db db -> R db s -> assoc c db = Some sc -> coll_dom m sc -> crit_dom m crit ->
  exists L,
    (forall st : txst, view st = s -> True) /\
    input_feeds_at s c crit sort (sc_idx sc) L /\
    Permutation L (matches crit (map snd (sc_docs sc))) /\
    (snd (try_select_index crit sort (sc_idx sc)) = true -> sort <> [] ->
     StronglySorted (docs_le_nil sort) L).
Proof.
  intros m db s c sc crit sort Hwf HR Ha Hcd Hcr. exists (feed_list c sc crit sort).
  split; [intros; exact I|]. split; [|split].
  - apply (feed_list_feeds m db); assumption.
  - apply (feed_list_perm m); assumption.
  - apply (feed_list_sorted m). exact Hcd.
Qed.

(* ================================================================== *)
(** * 5. Q2: FindAll *)

(* the sequence before the window, and the result, in closed form *)
Definition find_all_seq (sc : scoll) (q : nquery) : list obj :=
  plan_seq (nq_crit q) (nq_sort q) (sc_idx sc) (feed_list (nq_coll q) sc (nq_crit q) (nq_sort q)).

Definition find_all_result (sc : scoll) (q : nquery) : list obj :=
  window (nq_skip q) (nq_limit q) (find_all_seq sc q).

(* every read operation of the query family, for any pure consumer *)
Lemma iterate_docs_pure_runs : forall m db s q sc B (k : obj -> B -> B * bool) b0 st,
  wf_db db -> R db s -> assoc (nq_coll q) db = Some sc -> coll_dom m sc -> crit_dom m (nq_crit q) ->
  fault st = None -> view st = s ->
  runs_to (iterate_docs q (pure_cons k) b0) st (fold_pure k (find_all_result sc q) b0).
Proof.
  intros m db s q sc B k b0 st Hwf HR Ha Hcd Hcr Hf Hv.
  apply (iterate_docs_runs db s q sc); try assumption.
  intros st' Hf' Hv'. unfold find_all_result, find_all_seq.
  apply (exec_plan_pure_at s); [|exact Hf' | exact Hv'].
  apply (feed_list_feeds m db); assumption.
Qed.

Theorem iterate_docs_refines : forall m db s q sc B (k : obj -> B -> B * bool) b0,
  wf_db db -> R db s -> assoc (nq_coll q) db = Some sc -> coll_dom m sc -> crit_dom m (nq_crit q) ->
  o_res (with_tx (iterate_docs q (pure_cons k) b0) None (mkDb s false)) =
    Ok (fold_pure k (find_all_result sc q) b0) /\
  o_db (with_tx (iterate_docs q (pure_cons k) b0) None (mkDb s false)) = mkDb s false.
Proof.
  intros m db s q sc B k b0 Hwf HR Ha Hcd Hcr. apply with_tx_runs_to.
  intros st Hf Hv. apply (iterate_docs_pure_runs m db s); assumption.
Qed.

Theorem find_all_value : forall m db s q sc,
  wf_db db -> R db s -> assoc (nq_coll q) db = Some sc -> coll_dom m sc -> crit_dom m (nq_crit q) ->
  o_res (with_tx (find_all_tx q) None (mkDb s false)) = Ok (find_all_result sc q) /\
  o_db (with_tx (find_all_tx q) None (mkDb s false)) = mkDb s false.
Proof.
  intros m db s q sc Hwf HR Ha Hcd Hcr. apply with_tx_runs_to.
  intros st Hf Hv. unfold find_all_tx.
  rewrite <- (rev_involutive (find_all_result sc q)), <- (PlanProofs.fold_collect (find_all_result sc q)).
  apply runs_to_ret_bind. rewrite PlanProofs.collect_pure.
  apply (iterate_docs_pure_runs m db s); assumption.
Qed.

Lemma find_all_seq_perm_feed : forall sc q,
  Permutation (find_all_seq sc q) (feed_list (nq_coll q) sc (nq_crit q) (nq_sort q)).
Proof.
  intros sc q. unfold find_all_seq, plan_seq.
  destruct (needs_sort _ _ _); [apply sort_docs_perm | apply Permutation_refl].
Qed.

Lemma find_all_seq_perm : forall m sc q, coll_dom m sc -> crit_dom m (nq_crit q) ->
  Permutation (find_all_seq sc q) (matches (nq_crit q) (map snd (sc_docs sc))).
Proof.
  intros m sc q Hcd Hcr.
  eapply Permutation_trans; [apply find_all_seq_perm_feed | apply (feed_list_perm m); assumption].
Qed.

Lemma find_all_seq_In : forall sc q d, In d (find_all_seq sc q) ->
  sat_opt (nq_crit q) d = true /\ In d (map snd (sc_docs sc)).
Proof.
  intros sc q d H. apply (feed_list_In (nq_coll q) sc (nq_crit q) (nq_sort q)).
  apply (Permutation_in d (find_all_seq_perm_feed sc q) H).
Qed.

Lemma find_all_seq_sorted : forall m sc q, coll_dom m sc -> nq_sort q <> [] ->
  StronglySorted (docs_le_nil (nq_sort q)) (find_all_seq sc q).
Proof.
  intros m sc q Hcd Hne. unfold find_all_seq, plan_seq, needs_sort.
  destruct (nq_sort q) as [|o t] eqn:Es; [contradiction Hne; reflexivity|]. rewrite <- Es in *.
  destruct (snd (try_select_index (nq_crit q) (nq_sort q) (sc_idx sc))) eqn:E; cbn [negb].
  - apply (feed_list_sorted m); assumption.
  - apply (SSorted_weaken (docs_le (nq_sort q))); [intros x y _ _; apply docs_le_le_nil|].
    apply (sort_docs_sorted m). intros d f dir Hd _.
    apply (in_docs_regime m sc d f Hcd). apply (feed_list_In _ _ _ _ d Hd).
Qed.

Theorem find_all_result_ok : forall m sc q, coll_dom m sc -> crit_dom m (nq_crit q) ->
  find_ok' (map snd (sc_docs sc)) q (find_all_result sc q).
Proof.
  intros m sc q Hcd Hcr. exists (find_all_seq sc q). split; [|split; [|reflexivity]].
  - apply (find_all_seq_perm m); assumption.
  - apply (find_all_seq_sorted m). exact Hcd.
Qed.

(* Q2 *)
Theorem find_all_refines : forall m db s q sc,
  wf_db db -> R db s -> assoc (nq_coll q) db = Some sc -> coll_dom m sc -> crit_dom m (nq_crit q) ->
  0 <= nq_skip q ->
  exists res,
    o_res (with_tx (find_all_tx q) None (mkDb s false)) = Ok res /\
    o_db (with_tx (find_all_tx q) None (mkDb s false)) = mkDb s false /\
    find_ok' (map snd (sc_docs sc)) q res.
Proof.
  intros m db s q sc Hwf HR Ha Hcd Hcr _. exists (find_all_result sc q).
  destruct (find_all_value m db s q sc Hwf HR Ha Hcd Hcr) as [E1 E2].
  split; [exact E1|]. split; [exact E2|]. apply (find_all_result_ok m); assumption.
Qed.

Theorem find_all_missing : forall db s q,
  wf_db db -> R db s -> assoc (nq_coll q) db = None ->
  o_res (with_tx (find_all_tx q) None (mkDb s false)) = Err ECollNotExist /\
  o_db (with_tx (find_all_tx q) None (mkDb s false)) = mkDb s false.
Proof.
  intros db s q Hwf HR Ha.
  pose proof (R_get_meta db s (nq_coll q) HR Hwf) as Hg. rewrite Ha in Hg.
  unfold with_tx, find_all_tx, iterate_docs, get_meta, tx_get, bind, tick, get_view, ret, fail.
  cbn [closed durable fault view calls committed fired]. rewrite Hg.
  cbn [o_res o_db committed]. split; reflexivity.
Qed.

(* the strict specification [find_ok] does hold whenever the plan keeps its sort node (or the query
   has no sort option): the relaxation is needed for the elided sort only *)
Theorem find_all_refines_strict : forall m db s q sc,
  wf_db db -> R db s -> assoc (nq_coll q) db = Some sc -> coll_dom m sc -> crit_dom m (nq_crit q) ->
  0 <= nq_skip q ->
  nq_sort q = [] \/ snd (try_select_index (nq_crit q) (nq_sort q) (sc_idx sc)) = false ->
  exists res,
    o_res (with_tx (find_all_tx q) None (mkDb s false)) = Ok res /\
    o_db (with_tx (find_all_tx q) None (mkDb s false)) = mkDb s false /\
    find_ok (map snd (sc_docs sc)) q res.
Proof.
  intros m db s q sc Hwf HR Ha Hcd Hcr _ Hns. exists (find_all_result sc q).
  destruct (find_all_value m db s q sc Hwf HR Ha Hcd Hcr) as [E1 E2].
  split; [exact E1|]. split; [exact E2|].
  exists (find_all_seq sc q). split; [apply (find_all_seq_perm m); assumption|]. split; [|reflexivity].
  intro Hne. destruct Hns as [Hns|Hns]; [contradiction|].
  unfold find_all_seq, plan_seq, needs_sort. rewrite Hns.
  destruct (nq_sort q) as [|o t] eqn:Es; [contradiction Hne; reflexivity|]. rewrite <- Es in *.
  cbn [negb]. apply (sort_docs_sorted m). intros d f dir Hd _.
  apply (in_docs_regime m sc d f Hcd). apply (feed_list_In _ _ _ _ d Hd).
Qed.

(* Count / ForEach on a missing collection *)
Theorem iterate_docs_missing : forall db s q A (cons : obj -> A -> M (A * bool)) a0,
  wf_db db -> R db s -> assoc (nq_coll q) db = None ->
  o_res (with_tx (iterate_docs q cons a0) None (mkDb s false)) = Err ECollNotExist /\
  o_db (with_tx (iterate_docs q cons a0) None (mkDb s false)) = mkDb s false.
Proof.
  intros db s q A cons a0 Hwf HR Ha. unfold iterate_docs.
  apply (with_tx_missing db s (nq_coll q) A _ Hwf HR Ha).
Qed.

(* whatever FindAll returns is the closed form *)
Lemma find_all_res_eq : forall m db s q sc res,
  wf_db db -> R db s -> assoc (nq_coll q) db = Some sc -> coll_dom m sc -> crit_dom m (nq_crit q) ->
  o_res (with_tx (find_all_tx q) None (mkDb s false)) = Ok res -> res = find_all_result sc q.
Proof.
  intros m db s q sc res Hwf HR Ha Hcd Hcr H.
  rewrite (proj1 (find_all_value m db s q sc Hwf HR Ha Hcd Hcr)) in H. inversion H. reflexivity.
Qed.

(* ================================================================== *)
(** * 6. Q3 (C01): exactly the matching documents, each once *)

Theorem find_all_exact : forall m db s q sc,
  wf_db db -> R db s -> assoc (nq_coll q) db = Some sc -> coll_dom m sc -> crit_dom m (nq_crit q) ->
  0 <= nq_skip q -> nq_sort q = [] -> unwindowed q ->
  exists res,
    o_res (with_tx (find_all_tx q) None (mkDb s false)) = Ok res /\
    Permutation res (filter (sat_opt (nq_crit q)) (map snd (sc_docs sc))).
Proof.
  intros m db s q sc Hwf HR Ha Hcd Hcr _ _ [Hsk Hlim]. exists (find_all_result sc q).
  split; [apply (find_all_value m db s q sc); assumption|].
  unfold find_all_result. rewrite Hsk, (window_all _ _ Hlim).
  apply (find_all_seq_perm m); assumption.
Qed.

Lemma docs_object_ids : forall db c sc, wf_db db -> assoc c db = Some sc ->
  map object_id (map snd (sc_docs sc)) = map fst (sc_docs sc).
Proof.
  intros db c sc Hwf Ha. rewrite map_map. apply map_ext_in. intros [id d] Hin. cbn [fst snd].
  apply (wf_doc_object_id db c sc id d Hwf Ha).
  apply (assoc_In id d (sc_docs sc) (wf_docs_NoDup db c sc Hwf Ha)). exact Hin.
Qed.

Lemma find_all_seq_NoDup : forall m db q sc,
  wf_db db -> assoc (nq_coll q) db = Some sc -> coll_dom m sc -> crit_dom m (nq_crit q) ->
  NoDup (map object_id (find_all_seq sc q)).
Proof.
  intros m db q sc Hwf Ha Hcd Hcr.
  apply (Permutation_NoDup (Permutation_sym (Permutation_map object_id (find_all_seq_perm m sc q Hcd Hcr)))).
  unfold matches. apply NoDup_map_filter.
  rewrite (docs_object_ids db (nq_coll q) sc Hwf Ha). apply (wf_docs_NoDup db (nq_coll q) sc Hwf Ha).
Qed.

(* for ANY query (windowed or not, sorted or not): no document is returned twice *)
Theorem find_all_each_once : forall m db s q sc res,
  wf_db db -> R db s -> assoc (nq_coll q) db = Some sc -> coll_dom m sc -> crit_dom m (nq_crit q) ->
  o_res (with_tx (find_all_tx q) None (mkDb s false)) = Ok res ->
  NoDup (map object_id res).
Proof.
  intros m db s q sc res Hwf HR Ha Hcd Hcr H.
  rewrite (find_all_res_eq m db s q sc res Hwf HR Ha Hcd Hcr H).
  unfold find_all_result. apply window_NoDup_map. apply (find_all_seq_NoDup m db); assumption.
Qed.

(* for ANY query: only matching documents of the collection are returned *)
Theorem find_all_only_matches : forall m db s q sc res d,
  wf_db db -> R db s -> assoc (nq_coll q) db = Some sc -> coll_dom m sc -> crit_dom m (nq_crit q) ->
  o_res (with_tx (find_all_tx q) None (mkDb s false)) = Ok res ->
  In d res -> sat_opt (nq_crit q) d = true /\ In d (map snd (sc_docs sc)).
Proof.
  intros m db s q sc res d Hwf HR Ha Hcd Hcr H Hin.
  rewrite (find_all_res_eq m db s q sc res Hwf HR Ha Hcd Hcr H) in Hin.
  unfold find_all_result in Hin. apply window_incl in Hin. apply (find_all_seq_In sc q d Hin).
Qed.

(* ================================================================== *)
(** * 7. Q5 (C09): Count, ForEach, FindFirst, Exists in terms of the FindAll result *)

Section ClosedForms.
  Variables (m : bool) (db : sdb) (s : kv) (q : nquery) (sc : scoll) (res : list obj).
  Hypotheses (Hwf : wf_db db) (HR : R db s) (Ha : assoc (nq_coll q) db = Some sc)
             (Hcd : coll_dom m sc) (Hcr : crit_dom m (nq_crit q)).
  (* [res] is what FindAll returns *)
  Hypothesis Hres : o_res (with_tx (find_all_tx q) None (mkDb s false)) = Ok res.

  Let h : dbst := mkDb s false.

  Lemma res_closed : res = find_all_result sc q.
  Proof. apply (find_all_res_eq m db s q sc res); assumption. Qed.

  Theorem count_refines :
    o_res (with_tx (iterate_docs q count_cons 0) None h) = Ok (Z.of_nat (length res)) /\
    o_db (with_tx (iterate_docs q count_cons 0) None h) = h.
  Proof.
    rewrite res_closed, count_cons_pure, <- fold_count.
    apply (iterate_docs_refines m db s q sc); assumption.
  Qed.

  Lemma matches_none : forall l, matches None l = l.
  Proof.
    intro l. unfold matches. induction l as [|d t IH]; [reflexivity|].
    cbn [filter sat_opt]. rewrite IH. reflexivity.
  Qed.

  (* the stored-counter shortcut of Count without criteria *)
  Theorem count_counter_refines : nq_crit q = None -> 0 <= nq_skip q ->
    count_window (Z.of_nat (length (sc_docs sc))) (nq_skip q) (nq_limit q) = Z.of_nat (length res).
  Proof.
    intros Hn Hsk. rewrite res_closed. unfold find_all_result.
    apply count_window_agrees; [exact Hsk|].
    rewrite (Permutation_length (find_all_seq_perm m sc q Hcd Hcr)), Hn, matches_none.
    apply map_length.
  Qed.

  (* the same, through the transaction that reads the counter *)
  Theorem count_counter_op_refines : nq_crit q = None -> 0 <= nq_skip q ->
    exists n,
      o_res (with_tx (collection_size_tx (nq_coll q)) None h) = Ok n /\
      o_db (with_tx (collection_size_tx (nq_coll q)) None h) = h /\
      count_window n (nq_skip q) (nq_limit q) = Z.of_nat (length res).
  Proof.
    intros Hn Hsk. exists (Z.of_nat (length (sc_docs sc))).
    destruct (collection_size_refines db s (nq_coll q) Hwf HR) as [E1 E2]. rewrite Ha in E1.
    split; [exact E1|]. split; [exact E2|]. apply count_counter_refines; assumption.
  Qed.

  Theorem foreach_refines : forall n,
    o_res (with_tx (iterate_docs q (foreach_cons n) []) None h) =
      Ok (rev (if 0 <? n then firstn (Z.to_nat n) res else res)) /\
    o_db (with_tx (iterate_docs q (foreach_cons n) []) None h) = h.
  Proof.
    intro n. rewrite res_closed, foreach_cons_pure, <- foreach_prefix.
    apply (iterate_docs_refines m db s q sc); assumption.
  Qed.

  (* FindFirst / Exists run FindAll with the limit replaced by 1 *)
  Definition with_limit (q0 : nquery) (l : Z) : nquery :=
    mkNQ (nq_coll q0) (nq_crit q0) l (nq_skip q0) (nq_sort q0).

  Lemma find_all_limit_one :
    o_res (with_tx (find_all_tx (with_limit q 1)) None h) =
      Ok (window (nq_skip q) 1 (find_all_seq sc q)) /\
    o_db (with_tx (find_all_tx (with_limit q 1)) None h) = h.
  Proof. apply (find_all_value m db s (with_limit q 1) sc); assumption. Qed.

  Theorem findfirst_refines : nq_limit q <> 0 ->
    exists r1,
      o_res (with_tx (find_all_tx (with_limit q 1)) None h) = Ok r1 /\
      o_db (with_tx (find_all_tx (with_limit q 1)) None h) = h /\
      hd_error r1 = hd_error res.
  Proof.
    intro Hl. exists (window (nq_skip q) 1 (find_all_seq sc q)).
    destruct find_all_limit_one as [E1 E2]. split; [exact E1|]. split; [exact E2|].
    rewrite res_closed. unfold find_all_result. apply findfirst_agrees. exact Hl.
  Qed.

  Theorem exists_refines : nq_limit q <> 0 ->
    exists r1,
      o_res (with_tx (find_all_tx (with_limit q 1)) None h) = Ok r1 /\
      o_db (with_tx (find_all_tx (with_limit q 1)) None h) = h /\
      nonempty r1 = nonempty res.
  Proof.
    intro Hl. exists (window (nq_skip q) 1 (find_all_seq sc q)).
    destruct find_all_limit_one as [E1 E2]. split; [exact E1|]. split; [exact E2|].
    rewrite res_closed. unfold find_all_result. apply exists_agrees. exact Hl.
  Qed.
End ClosedForms.

(* ================================================================== *)
(** * 8. Q4 (C02): index transparency *)

Theorem index_transparent : forall m db1 s1 db2 s2 c sc1 sc2 q,
  wf_db db1 -> R db1 s1 -> wf_db db2 -> R db2 s2 ->
  assoc c db1 = Some sc1 -> assoc c db2 = Some sc2 ->
  Permutation (sc_docs sc1) (sc_docs sc2) ->
  coll_dom m sc1 -> coll_dom m sc2 -> crit_dom m (nq_crit q) -> nq_coll q = c -> 0 <= nq_skip q ->
  exists r1 r2,
    o_res (with_tx (find_all_tx q) None (mkDb s1 false)) = Ok r1 /\
    o_res (with_tx (find_all_tx q) None (mkDb s2 false)) = Ok r2 /\
    length r1 = length r2 /\
    (nq_sort q = [] -> unwindowed q -> Permutation r1 r2) /\
    (nq_sort q <> [] -> tie_equal' (nq_sort q) r1 r2).
Proof.
  intros m db1 s1 db2 s2 c sc1 sc2 q Hwf1 HR1 Hwf2 HR2 Ha1 Ha2 HP Hcd1 Hcd2 Hcr Hc _.
  subst c. exists (find_all_result sc1 q), (find_all_result sc2 q).
  split; [apply (find_all_value m db1 s1 q sc1); assumption|].
  split; [apply (find_all_value m db2 s2 q sc2); assumption|].
  assert (Pseq : Permutation (find_all_seq sc1 q) (find_all_seq sc2 q)).
  { eapply Permutation_trans; [apply (find_all_seq_perm m); assumption|].
    eapply Permutation_trans; [|apply Permutation_sym; apply (find_all_seq_perm m); assumption].
    unfold matches. apply Permutation_filter'. apply Permutation_map. exact HP. }
  unfold find_all_result. split; [|split].
  - apply window_length_eq. apply Permutation_length. exact Pseq.
  - intros _ [Hsk Hlim]. rewrite Hsk, !(window_all _ _ Hlim). exact Pseq.
  - intro Hne. apply window_Forall2.
    apply (sorted_perm_tie_equal m); [| apply (find_all_seq_sorted m); assumption
                                      | apply (find_all_seq_sorted m); assumption | exact Pseq].
    apply Forall_forall. intros d Hd. apply regb_doc_regime. intros f dir _.
    apply (in_docs_regime m sc1 d f Hcd1). apply (find_all_seq_In sc1 q d Hd).
Qed.

(* ================================================================== *)
(** * 9. A checkable sufficient condition for [coll_dom] *)

Section ObjAll.
  Variable P : value -> bool.
  Hypothesis P_obj_cons : forall k x t, P (VObj ((k, x) :: t)) = P x && P (VObj t).

  Lemma obj_get_P : forall o k v, P (VObj o) = true -> obj_get k o = Some v -> P v = true.
  Proof.
    induction o as [|[k' x] t IH]; intros k v H G; [discriminate G|].
    cbn [obj_get] in G. rewrite P_obj_cons in H. apply andb_true_iff in H as [H1 H2].
    destruct (beqb k k'); [inversion G; subst; exact H1 | apply (IH k v H2 G)].
  Qed.

  Lemma lookup_path_P : forall path o v, P (VObj o) = true -> lookup_path path o = Some v -> P v = true.
  Proof.
    induction path as [|k rest IH]; intros o v H L; [discriminate L|].
    destruct rest as [|k2 rest'].
    - cbn [lookup_path] in L. apply (obj_get_P o k v H L).
    - cbn [lookup_path] in L. destruct (obj_get k o) as [x|] eqn:G; [|discriminate L].
      destruct x as [| | | | | | | | o'] ; try discriminate L.
      apply (IH o' v); [apply (obj_get_P o k _ H G) | exact L].
  Qed.
End ObjAll.

Lemma doc_get_P : forall (P : value -> bool),
  (forall k x t, P (VObj ((k, x) :: t)) = P x && P (VObj t)) -> P VNil = true ->
  forall d f, P (VObj d) = true -> P (doc_get f d) = true.
Proof.
  intros P Hc Hn d f H. unfold doc_get, doc_lookup.
  destruct (lookup_path (split_dot f) d) as [v|] eqn:L; [|exact Hn].
  apply (lookup_path_P P Hc _ d v H L).
Qed.

Lemma doc_get_regime : forall m d f, regime m (VObj d) = true -> regime m (doc_get f d) = true.
Proof.
  intros m d f H. unfold regime in *. apply andb_true_iff in H as [H1 H2]. apply andb_true_iff. split.
  - apply (doc_get_P num_ok); [reflexivity | reflexivity | exact H1].
  - destruct m.
    + apply (doc_get_P small_ints); [reflexivity | reflexivity | exact H2].
    + apply (doc_get_P no_floats); [reflexivity | reflexivity | exact H2].
Qed.

Lemma doc_get_key_dom : forall d f, key_dom (VObj d) = true -> key_dom (doc_get f d) = true.
Proof. intros d f H. apply (doc_get_P key_dom); [reflexivity | reflexivity | exact H]. Qed.

(* every stored document, as a value, is in the regime and in the key-order domain *)
Theorem coll_dom_of_values : forall m sc,
  (forall id d, In (id, d) (sc_docs sc) -> regime m (VObj d) = true /\ key_dom (VObj d) = true) ->
  coll_dom m sc.
Proof.
  intros m sc H. split.
  - intros f _ id d Hin. apply doc_get_key_dom. apply (H id d Hin).
  - intros f id d Hin. apply doc_get_regime. apply (H id d Hin).
Qed.

(* ================================================================== *)
(** * 10. Q6: non-vacuity on the example database of RProofs *)

(* 1 <= a < 7 on the indexed field, ascending by a *)
Definition ex_crit : ncrit :=
  CAnd (CCmp OGtEq ex_f (OLit (VInt 1))) (CCmp OLt ex_f (OLit (VInt 7))).
Definition ex_q : nquery := mkNQ ex_c (Some ex_crit) (-1) 0 [(ex_f, 1)].
(* everything, descending by a, second document only *)
Definition ex_q2 : nquery := mkNQ ex_c None 1 1 [(ex_f, -1)].

Lemma ex_coll_dom : coll_dom true ex_sc.
Proof.
  apply coll_dom_of_values. intros id d [H|[H|[]]]; injection H as <- <-; split; vm_compute; reflexivity.
Qed.

Lemma ex_crit_dom : crit_dom true (nq_crit ex_q).
Proof. split; vm_compute; reflexivity. Qed.

Example ex_plan :
  try_select_index (nq_crit ex_q) (nq_sort ex_q) (sc_idx ex_sc) =
    (Some (IQRange ex_f (mkRange (VInt 1) (VInt 7) true false) false), true) /\
  try_select_index (nq_crit ex_q2) (nq_sort ex_q2) (sc_idx ex_sc) = (Some (IQAll ex_f true), true).
Proof. split; vm_compute; reflexivity. Qed.

Example ex_find_all_refines :
  exists res,
    o_res (with_tx (find_all_tx ex_q) None (mkDb ex_s false)) = Ok res /\
    o_db (with_tx (find_all_tx ex_q) None (mkDb ex_s false)) = mkDb ex_s false /\
    find_ok' (map snd (sc_docs ex_sc)) ex_q res.
Proof.
  apply (find_all_refines true ex_db ex_s ex_q ex_sc ex_wf ex_R eq_refl ex_coll_dom ex_crit_dom).
  cbn. lia.
Qed.

Example ex_find_all_computed :
  o_res (with_tx (find_all_tx ex_q) None (mkDb ex_s false)) = Ok [ex_d1] /\
  find_all_result ex_sc ex_q = [ex_d1] /\
  o_res (with_tx (find_all_tx ex_q2) None (mkDb ex_s false)) = Ok [ex_d1] /\
  find_all_result ex_sc ex_q2 = [ex_d1] /\
  o_res (with_tx (find_all_tx (mkNQ ex_c None (-1) 0 [(ex_f, -1)])) None (mkDb ex_s false)) = Ok [ex_d2; ex_d1] /\
  o_res (with_tx (iterate_docs ex_q count_cons 0) None (mkDb ex_s false)) = Ok 1.
Proof. vm_compute. repeat split; reflexivity. Qed.

Example ex_closed_forms :
  o_res (with_tx (iterate_docs ex_q count_cons 0) None (mkDb ex_s false)) = Ok 1 /\
  o_res (with_tx (iterate_docs ex_q (foreach_cons 5) []) None (mkDb ex_s false)) = Ok [ex_d1].
Proof.
  assert (Hres : o_res (with_tx (find_all_tx ex_q) None (mkDb ex_s false)) = Ok [ex_d1])
    by apply ex_find_all_computed.
  split.
  - exact (proj1 (count_refines true ex_db ex_s ex_q ex_sc [ex_d1] ex_wf ex_R eq_refl ex_coll_dom
                    ex_crit_dom Hres)).
  - exact (proj1 (foreach_refines true ex_db ex_s ex_q ex_sc [ex_d1] ex_wf ex_R eq_refl ex_coll_dom
                    ex_crit_dom Hres 5)).
Qed.

(* ================================================================== *)
(** * 11. The finding: an index-ordered result is not sorted by the in-memory comparator

    Collection "t" indexed on "a" with two documents: id1 has a = nil, id2 has no field a. Sorting
    ascending by a, the planner elides the sort node and scans the index, whose entries for both
    documents carry the key of nil and are ordered by id: the result is [nil; absent]. The in-memory
    comparator ranks absent strictly before nil: the same query without the index gives [absent; nil].
    So [find_ok] (sorted by [docs_le]) does NOT hold of the index-ordered result; [find_ok'] does. *)

Definition na_dn : obj := [(id_field, VStr ex_id1); (ex_f, VNil)].
Definition na_da : obj := [(id_field, VStr ex_id2)].
Definition na_sc : scoll := mkSC [(ex_id1, na_dn); (ex_id2, na_da)] [ex_f].
Definition na_db : sdb := [(ex_c, na_sc)].
Definition na_s : kv :=
  [ (doc_key ex_c ex_id1, SDoc (doc_encode na_dn));
    (doc_key ex_c ex_id2, SDoc (doc_encode na_da));
    (idx_key ex_c ex_f (doc_get ex_f na_dn) ex_id1, SEmpty);
    (idx_key ex_c ex_f (doc_get ex_f na_da) ex_id2, SEmpty);
    (coll_key ex_c, SMeta (Z.of_nat (length (sc_docs na_sc))) (sc_idx na_sc)) ].
Definition na_q : nquery := mkNQ ex_c None (-1) 0 [(ex_f, 1)].

Lemma na_wf : wf_db na_db.
Proof.
  split.
  - simpl. constructor; [intros F; exact F | constructor].
  - intros c sc [H|F]; [|contradiction F]. injection H as E1 E2. subst c sc.
    split; [reflexivity|]. split; [|split; [|split]].
    + simpl. constructor; [|constructor; [intros F; exact F | constructor]].
      intros [F|F]; [|exact F]. vm_compute in F. discriminate F.
    + intros id d [H|[H|F]]; [| |contradiction F]; injection H as E1 E2; subst id d;
        (split; [|split]); vm_compute; reflexivity.
    + simpl. constructor; [intros F; exact F | constructor].
    + intros f [H|F]; [|contradiction F]. subst f. reflexivity.
Qed.

Lemma na_sorted : kv_sorted na_s.
Proof.
  unfold kv_sorted, na_s.
  repeat (apply SSorted_cons || apply SSorted_nil || apply Forall_cons || apply Forall_nil);
    vm_compute; reflexivity.
Qed.

Lemma na_R : R na_db na_s.
Proof.
  split; [exact na_sorted|]. intros k v. split.
  - intros H. unfold na_s in H. cbn [kv_get] in H.
    destruct (beqb k (doc_key ex_c ex_id1)) eqn:E1.
    { apply beqb_true_iff in E1. injection H as H. subst k v.
      apply (den_doc na_db ex_c na_sc ex_id1 na_dn); reflexivity. }
    destruct (beqb k (doc_key ex_c ex_id2)) eqn:E2.
    { apply beqb_true_iff in E2. injection H as H. subst k v.
      apply (den_doc na_db ex_c na_sc ex_id2 na_da); reflexivity. }
    destruct (beqb k (idx_key ex_c ex_f (doc_get ex_f na_dn) ex_id1)) eqn:E3.
    { apply beqb_true_iff in E3. injection H as H. subst k v.
      apply (den_idx na_db ex_c na_sc ex_id1 na_dn ex_f); [reflexivity | reflexivity |].
      left. reflexivity. }
    destruct (beqb k (idx_key ex_c ex_f (doc_get ex_f na_da) ex_id2)) eqn:E4.
    { apply beqb_true_iff in E4. injection H as H. subst k v.
      apply (den_idx na_db ex_c na_sc ex_id2 na_da ex_f); [reflexivity | reflexivity |].
      left. reflexivity. }
    destruct (beqb k (coll_key ex_c)) eqn:E5; [|discriminate H].
    apply beqb_true_iff in E5. injection H as H. subst k v.
    apply (den_meta na_db ex_c na_sc). reflexivity.
  - intros H. apply den_inv in H.
    assert (Hc : forall c0 sc, assoc c0 na_db = Some sc -> c0 = ex_c /\ sc = na_sc).
    { intros c0 sc Ha. unfold na_db in Ha. cbn [assoc] in Ha.
      destruct (beqb c0 ex_c) eqn:E; [|discriminate Ha].
      apply beqb_true_iff in E. injection Ha as Ha. split; [exact E | symmetry; exact Ha]. }
    assert (Hd : forall id d, assoc id (sc_docs na_sc) = Some d ->
                              (id = ex_id1 /\ d = na_dn) \/ (id = ex_id2 /\ d = na_da)).
    { intros id d Ha. unfold na_sc in Ha. cbn [assoc sc_docs] in Ha.
      destruct (beqb id ex_id1) eqn:E1.
      - apply beqb_true_iff in E1. injection Ha as Ha. left. split; [exact E1 | symmetry; exact Ha].
      - destruct (beqb id ex_id2) eqn:E2; [|discriminate Ha].
        apply beqb_true_iff in E2. injection Ha as Ha. right. split; [exact E2 | symmetry; exact Ha]. }
    destruct H as [(c0 & sc & Ha & Ek & Ev) | [(c0 & sc & id0 & d & Ha & Hd0 & Ek & Ev)
                                              | (c0 & sc & id0 & d & f0 & Ha & Hd0 & Hf0 & Ek & Ev)]];
      destruct (Hc c0 sc Ha) as [E1 E2]; subst c0 sc k v.
    + vm_compute. reflexivity.
    + destruct (Hd id0 d Hd0) as [[E1 E2]|[E1 E2]]; subst id0 d; vm_compute; reflexivity.
    + destruct Hf0 as [Ef|F]; [|contradiction F]. subst f0.
      destruct (Hd id0 d Hd0) as [[E1 E2]|[E1 E2]]; subst id0 d; vm_compute; reflexivity.
Qed.

Lemma na_coll_dom : coll_dom true na_sc.
Proof.
  apply coll_dom_of_values. intros id d [H|[H|[]]]; injection H as <- <-; split; vm_compute; reflexivity.
Qed.

(* the plan elides the sort node; the input feeds [nil; absent]; the in-memory sort would give
   [absent; nil]; the fed list is not sorted by the in-memory comparator *)
Example elided_sort_not_docs_le_sorted :
  snd (try_select_index (nq_crit na_q) (nq_sort na_q) (sc_idx na_sc)) = true /\
  feed_list ex_c na_sc (nq_crit na_q) (nq_sort na_q) = [na_dn; na_da] /\
  sort_docs (nq_sort na_q) [na_dn; na_da] = [na_da; na_dn] /\
  ~ StronglySorted (docs_le (nq_sort na_q)) [na_dn; na_da].
Proof.
  split; [vm_compute; reflexivity|]. split; [vm_compute; reflexivity|].
  split; [vm_compute; reflexivity|].
  intro H. inversion H as [|a t _ Hall]; subst. inversion Hall as [|x l Hle _]; subst.
  vm_compute in Hle. discriminate Hle.
Qed.

(* end to end: FindAll on a store refining the database returns [nil; absent], which is not an
   acceptable result under the strict specification [find_ok], and is one under [find_ok'] *)
Theorem na_find_all_not_find_ok :
  wf_db na_db /\ R na_db na_s /\ coll_dom true na_sc /\ crit_dom true (nq_crit na_q) /\
  o_res (with_tx (find_all_tx na_q) None (mkDb na_s false)) = Ok [na_dn; na_da] /\
  ~ find_ok (map snd (sc_docs na_sc)) na_q [na_dn; na_da] /\
  find_ok' (map snd (sc_docs na_sc)) na_q [na_dn; na_da].
Proof.
  assert (Hv : o_res (with_tx (find_all_tx na_q) None (mkDb na_s false)) = Ok [na_dn; na_da])
    by (vm_compute; reflexivity).
  split; [exact na_wf|]. split; [exact na_R|]. split; [exact na_coll_dom|]. split; [exact I|].
  split; [exact Hv|]. split.
  - intros (l0 & _ & HS & E). cbn [nq_skip nq_limit na_q] in E.
    rewrite (window_all (-1) l0) in E by lia. subst l0.
    apply (proj2 (proj2 (proj2 elided_sort_not_docs_le_sorted))). apply HS. discriminate.
  - destruct (find_all_refines true na_db na_s na_q na_sc na_wf na_R eq_refl na_coll_dom I) as
        (res & E1 & _ & Hok); [cbn; lia|].
    rewrite Hv in E1. inversion E1; subst res. exact Hok.
Qed.

(* ================================================================== *)

Check @input_feeds_real.
Check @find_all_refines.
Check @find_all_missing.
Check @find_all_exact.
Check @find_all_each_once.
Check @find_all_only_matches.
Check @index_transparent.
Check @count_refines.
Check @count_counter_refines.
Check @count_counter_op_refines.
Check @foreach_refines.
Check @findfirst_refines.
Check @exists_refines.

Print Assumptions input_feeds_real.
Print Assumptions find_all_refines.
Print Assumptions find_all_missing.
Print Assumptions find_all_refines_strict.
Print Assumptions iterate_docs_missing.
Print Assumptions find_ok_find_ok'.
Print Assumptions find_all_exact.
Print Assumptions find_all_each_once.
Print Assumptions find_all_only_matches.
Print Assumptions index_transparent.
Print Assumptions count_refines.
Print Assumptions count_counter_refines.
Print Assumptions count_counter_op_refines.
Print Assumptions foreach_refines.
Print Assumptions findfirst_refines.
Print Assumptions exists_refines.
Print Assumptions ex_find_all_refines.
Print Assumptions ex_find_all_computed.
Print Assumptions na_find_all_not_find_ok.

(* Lemmas on the lexicographic order of byte strings. *)
From Clover Require Import Bytes.
From Coq Require Import Lia.

Lemma lex_refl : forall a, lex a a = Eq.
Proof. induction a as [|x a IH]; simpl; [reflexivity|]. rewrite N.compare_refl. exact IH. Qed.

Lemma lex_eq_iff : forall a b, lex a b = Eq <-> a = b.
Proof.
  induction a as [|x a IH]; intros [|y b]; simpl; split; intros H; try reflexivity; try discriminate.
  - destruct (N.compare x y) eqn:E; try discriminate.
    apply N.compare_eq in E. subst. f_equal. apply IH. exact H.
  - inversion H; subst. rewrite N.compare_refl. apply IH. reflexivity.
Qed.

Lemma lex_antisym : forall a b, lex b a = CompOpp (lex a b).
Proof.
  induction a as [|x a IH]; intros [|y b]; simpl; try reflexivity.
  rewrite (N.compare_antisym x y). destruct (N.compare x y); simpl; auto.
Qed.

Lemma lex_lt_trans : forall a b c, lex a b = Lt -> lex b c = Lt -> lex a c = Lt.
Proof.
  induction a as [|x a IH]; intros [|y b] [|z c]; simpl; intros H1 H2; try discriminate; try reflexivity.
  destruct (N.compare x y) eqn:E1; try discriminate.
  - apply N.compare_eq in E1. subst y.
    destruct (N.compare x z) eqn:E2; try discriminate; try reflexivity. eapply IH; eauto.
  - destruct (N.compare y z) eqn:E2; try discriminate.
    + apply N.compare_eq in E2. subst z. rewrite E1. reflexivity.
    + rewrite N.compare_lt_iff in *. assert (x < z)%N by lia.
      rewrite (proj2 (N.compare_lt_iff x z)); auto.
Qed.

Lemma lex_eq_l : forall a b c, lex a b = Eq -> lex a c = lex b c.
Proof. intros a b c H. apply lex_eq_iff in H. subst. reflexivity. Qed.

Lemma lex_gt_lt : forall a b, lex a b = Gt <-> lex b a = Lt.
Proof. intros a b. rewrite (lex_antisym a b). destruct (lex a b); simpl; split; congruence. Qed.

(* transitivity in the general form used for comparison functions *)
Lemma lex_trans : forall c0 a b c, lex a b = c0 -> lex b c = c0 -> lex a c = c0.
Proof.
  intros [] a b c H1 H2.
  - apply lex_eq_iff in H1. subst. exact H2.
  - eapply lex_lt_trans; eauto.
  - apply lex_gt_lt in H1. apply lex_gt_lt in H2. apply lex_gt_lt. eapply lex_lt_trans; eauto.
Qed.

Lemma lex_app_prefix : forall p a b, lex (p ++ a) (p ++ b) = lex a b.
Proof. induction p as [|x p IH]; intros; simpl; [reflexivity|]. rewrite N.compare_refl. apply IH. Qed.

Lemma lex_nil_l : forall b, lex [] b = match b with [] => Eq | _ => Lt end.
Proof. destruct b; reflexivity. Qed.

Lemma beqb_true_iff : forall a b, beqb a b = true <-> a = b.
Proof.
  intros a b. unfold beqb. destruct (lex a b) eqn:E; split; intros H; try discriminate; try reflexivity.
  - apply lex_eq_iff; exact E.
  - subst. rewrite lex_refl in E. discriminate.
  - subst. rewrite lex_refl in E. discriminate.
Qed.

Lemma beqb_refl : forall a, beqb a a = true.
Proof. intros. apply beqb_true_iff. reflexivity. Qed.

Lemma beqb_false_iff : forall a b, beqb a b = false <-> a <> b.
Proof.
  intros a b. split; intros H.
  - intros E. apply beqb_true_iff in E. congruence.
  - destruct (beqb a b) eqn:E; [apply beqb_true_iff in E; contradiction | reflexivity].
Qed.

Lemma beqb_sym : forall a b, beqb a b = beqb b a.
Proof.
  intros. destruct (beqb a b) eqn:E.
  - apply beqb_true_iff in E. subst. symmetry. apply beqb_refl.
  - symmetry. apply beqb_false_iff. apply beqb_false_iff in E. congruence.
Qed.

Lemma is_prefix_app : forall p s, is_prefix p (p ++ s) = true.
Proof. induction p as [|x p IH]; intros; simpl; [reflexivity|]. rewrite N.eqb_refl. apply IH. Qed.

Lemma is_prefix_true_iff : forall p s, is_prefix p s = true <-> exists r, s = p ++ r.
Proof.
  induction p as [|x p IH]; intros s; simpl.
  - split; [intros _; exists s; reflexivity | reflexivity].
  - destruct s as [|y s]; [split; [discriminate | intros [r H]; discriminate]|].
    rewrite andb_true_iff, N.eqb_eq, IH. split.
    + intros [-> [r ->]]. exists r. reflexivity.
    + intros [r H]. inversion H; subst. split; [reflexivity | exists r; reflexivity].
Qed.

Lemma drop_prefix_app : forall p s, drop_prefix p (p ++ s) = s.
Proof. induction p as [|x p IH]; intros; simpl; [reflexivity | apply IH]. Qed.

(* Correctness of the generic sorts of Bytes.v (Section Sort):
   permutation, sortedness, uniqueness up to ties, and msort = isort (stability). *)
From Clover Require Import Bytes.
From Coq Require Import Permutation Sorted Lia.

Section SortProofs.
  Context {A : Type} (leb : A -> A -> bool).

  Local Notation le := (fun x y : A => leb x y = true).

  (* ---------- unfolding equations ---------- *)

  Lemma isort_cons : forall a l, isort leb (a :: l) = insert_sorted leb a (isort leb l).
  Proof. reflexivity. Qed.

  Lemma merge_nil_l : forall l, merge leb [] l = l.
  Proof. destruct l; reflexivity. Qed.

  Lemma merge_nil_r : forall l, merge leb l [] = l.
  Proof. destruct l; reflexivity. Qed.

  Lemma merge_cons : forall a l1 b l2,
    merge leb (a :: l1) (b :: l2) =
    if leb a b then a :: merge leb l1 (b :: l2) else b :: merge leb (a :: l1) l2.
  Proof. reflexivity. Qed.

  (* the list a stack stands for, in original (left-to-right) order: deeper = older *)
  Fixpoint flat (stack : list (option (list A))) : list A :=
    match stack with
    | [] => []
    | None :: s => flat s
    | Some l :: s => flat s ++ l
    end.

  (* ---------- 1. permutation (no hypothesis on leb) ---------- *)

  Lemma insert_sorted_perm : forall x l, Permutation (insert_sorted leb x l) (x :: l).
  Proof.
    intros x l; induction l as [|y t IH]; simpl.
    - apply Permutation_refl.
    - destruct (leb x y).
      + apply Permutation_refl.
      + eapply Permutation_trans; [apply perm_skip, IH | apply perm_swap].
  Qed.

  Theorem isort_perm : forall l, Permutation (isort leb l) l.
  Proof.
    induction l as [|a l IH].
    - apply perm_nil.
    - rewrite isort_cons.
      eapply Permutation_trans; [apply insert_sorted_perm | apply perm_skip, IH].
  Qed.

  Lemma merge_perm : forall l1 l2, Permutation (merge leb l1 l2) (l1 ++ l2).
  Proof.
    induction l1 as [|a l1 IH1]; intro l2.
    - rewrite merge_nil_l. apply Permutation_refl.
    - induction l2 as [|b l2 IH2].
      + rewrite merge_nil_r, app_nil_r. apply Permutation_refl.
      + rewrite merge_cons. destruct (leb a b).
        * simpl. apply perm_skip, IH1.
        * eapply Permutation_trans; [apply perm_skip, IH2|].
          apply (Permutation_middle (a :: l1) l2 b).
  Qed.

  Lemma merge_list_to_stack_perm : forall stack l,
    Permutation (flat (merge_list_to_stack leb stack l)) (flat stack ++ l).
  Proof.
    induction stack as [|[l'|] s IH]; intros l; simpl.
    - apply Permutation_refl.
    - eapply Permutation_trans; [apply IH|].
      rewrite <- app_assoc. apply Permutation_app_head, merge_perm.
    - apply Permutation_refl.
  Qed.

  Lemma merge_stack_perm : forall stack, Permutation (merge_stack leb stack) (flat stack).
  Proof.
    induction stack as [|[l|] s IH]; simpl.
    - apply perm_nil.
    - eapply Permutation_trans; [apply merge_perm|].
      apply Permutation_app_tail, IH.
    - exact IH.
  Qed.

  Lemma iter_merge_perm : forall l stack,
    Permutation (iter_merge leb stack l) (flat stack ++ l).
  Proof.
    induction l as [|a l IH]; intros stack; simpl.
    - rewrite app_nil_r. apply merge_stack_perm.
    - eapply Permutation_trans; [apply IH|].
      change (a :: l) with ([a] ++ l). rewrite app_assoc.
      apply Permutation_app_tail, merge_list_to_stack_perm.
  Qed.

  Theorem msort_perm : forall l, Permutation (msort leb l) l.
  Proof. intro l. apply (iter_merge_perm l []). Qed.

  (* ---------- 6. length / membership ---------- *)

  Theorem msort_length : forall l, length (msort leb l) = length l.
  Proof. intro l. apply Permutation_length, msort_perm. Qed.

  Theorem isort_length : forall l, length (isort leb l) = length l.
  Proof. intro l. apply Permutation_length, isort_perm. Qed.

  Theorem msort_in : forall x l, In x (msort leb l) <-> In x l.
  Proof.
    intros x l; split; apply Permutation_in;
      [apply msort_perm | apply Permutation_sym, msort_perm].
  Qed.

  Theorem isort_in : forall x l, In x (isort leb l) <-> In x l.
  Proof.
    intros x l; split; apply Permutation_in;
      [apply isort_perm | apply Permutation_sym, isort_perm].
  Qed.

  (* ---------- 2. local sortedness (total leb) ---------- *)

  Hypothesis leb_total : forall x y, leb x y = true \/ leb y x = true.

  Lemma leb_false_flip : forall x y, leb x y = false -> leb y x = true.
  Proof.
    intros x y H. destruct (leb_total x y) as [H'|H']; [congruence | exact H'].
  Qed.

  Lemma leb_refl : forall x, leb x x = true.
  Proof. intro x. destruct (leb_total x x); assumption. Qed.

  Lemma insert_sorted_HdRel : forall y x l,
    leb y x = true -> HdRel le y l -> HdRel le y (insert_sorted leb x l).
  Proof.
    intros y x l Hyx Hd. destruct l as [|z t]; simpl.
    - constructor. exact Hyx.
    - destruct (leb x z).
      + constructor. exact Hyx.
      + constructor. inversion Hd; assumption.
  Qed.

  Lemma insert_sorted_Sorted : forall x l,
    Sorted le l -> Sorted le (insert_sorted leb x l).
  Proof.
    intros x l Hs. induction Hs as [|y t Ht IH Hd]; simpl.
    - constructor; constructor.
    - destruct (leb x y) eqn:E.
      + constructor; [constructor; assumption | constructor; exact E].
      + constructor; [exact IH|].
        apply insert_sorted_HdRel; [apply leb_false_flip, E | exact Hd].
  Qed.

  Theorem isort_locally_sorted : forall l, Sorted le (isort leb l).
  Proof.
    induction l as [|a l IH].
    - constructor.
    - rewrite isort_cons. apply insert_sorted_Sorted, IH.
  Qed.

  Lemma merge_HdRel : forall a l1 l2,
    HdRel le a l1 -> HdRel le a l2 -> HdRel le a (merge leb l1 l2).
  Proof.
    intros a [|b l1] [|c l2] H1 H2.
    - constructor.
    - rewrite merge_nil_l. exact H2.
    - rewrite merge_nil_r. exact H1.
    - rewrite merge_cons. destruct (leb b c); constructor.
      + inversion H1; assumption.
      + inversion H2; assumption.
  Qed.

  Lemma merge_Sorted : forall l1 l2,
    Sorted le l1 -> Sorted le l2 -> Sorted le (merge leb l1 l2).
  Proof.
    induction l1 as [|a l1 IH1]; intros l2 H1 H2.
    - rewrite merge_nil_l. exact H2.
    - induction l2 as [|b l2 IH2].
      + rewrite merge_nil_r. exact H1.
      + rewrite merge_cons. destruct (leb a b) eqn:E.
        * inversion H1; subst. constructor.
          -- apply IH1; assumption.
          -- apply merge_HdRel; [assumption | constructor; exact E].
        * inversion H2; subst. constructor.
          -- apply IH2; assumption.
          -- apply merge_HdRel; [constructor; apply leb_false_flip, E | assumption].
  Qed.

  Fixpoint SortedStack (stack : list (option (list A))) : Prop :=
    match stack with
    | [] => True
    | None :: s => SortedStack s
    | Some l :: s => Sorted le l /\ SortedStack s
    end.

  Lemma merge_list_to_stack_Sorted : forall stack l,
    SortedStack stack -> Sorted le l -> SortedStack (merge_list_to_stack leb stack l).
  Proof.
    induction stack as [|[l'|] s IH]; intros l Hs Hl; simpl in *.
    - split; [exact Hl | exact I].
    - destruct Hs as [Hl' Hs]. apply IH; [exact Hs|]. apply merge_Sorted; assumption.
    - split; assumption.
  Qed.

  Lemma merge_stack_Sorted : forall stack,
    SortedStack stack -> Sorted le (merge_stack leb stack).
  Proof.
    induction stack as [|[l|] s IH]; intros Hs; simpl in *.
    - constructor.
    - destruct Hs as [Hl Hs]. apply merge_Sorted; [apply IH, Hs | exact Hl].
    - apply IH, Hs.
  Qed.

  Lemma iter_merge_Sorted : forall l stack,
    SortedStack stack -> Sorted le (iter_merge leb stack l).
  Proof.
    induction l as [|a l IH]; intros stack Hs; simpl.
    - apply merge_stack_Sorted, Hs.
    - apply IH, merge_list_to_stack_Sorted; [exact Hs|]. constructor; constructor.
  Qed.

  Theorem msort_locally_sorted : forall l, Sorted le (msort leb l).
  Proof. intro l. apply iter_merge_Sorted. exact I. Qed.

  (* ---------- 3. strong sortedness (total + transitive leb) ---------- *)

  Hypothesis leb_trans : forall x y z, leb x y = true -> leb y z = true -> leb x z = true.

  Lemma le_Transitive : Relations_1.Transitive le.
  Proof. intros x y z. apply leb_trans. Qed.

  Theorem msort_sorted : forall l, StronglySorted le (msort leb l).
  Proof.
    intro l. apply Sorted_StronglySorted; [exact le_Transitive | apply msort_locally_sorted].
  Qed.

  Theorem isort_sorted : forall l, StronglySorted le (isort leb l).
  Proof.
    intro l. apply Sorted_StronglySorted; [exact le_Transitive | apply isort_locally_sorted].
  Qed.

  (* ---------- 4. two sorted permutations agree up to ties ---------- *)

  (* number of elements strictly below z *)
  Fixpoint cnt_lt (z : A) (l : list A) : nat :=
    match l with
    | [] => 0
    | x :: t => (if leb z x then 0 else 1) + cnt_lt z t
    end.

  Lemma cnt_lt_perm : forall z l1 l2, Permutation l1 l2 -> cnt_lt z l1 = cnt_lt z l2.
  Proof.
    intros z l1 l2 P; induction P; simpl; lia.
  Qed.

  Lemma cnt_lt_lower_bound : forall a l,
    Forall (fun x => leb a x = true) l -> cnt_lt a l = 0.
  Proof.
    intros a l F; induction F as [|x t Hx _ IH]; simpl.
    - reflexivity.
    - rewrite Hx, IH. reflexivity.
  Qed.

  Lemma head_le_of_counts : forall a l1 b l2,
    Forall (fun x => leb a x = true) l1 ->
    cnt_lt a (a :: l1) = cnt_lt a (b :: l2) ->
    leb a b = true.
  Proof.
    intros a l1 b l2 F H. simpl in H.
    rewrite leb_refl, (cnt_lt_lower_bound _ _ F) in H.
    destruct (leb a b); [reflexivity | simpl in H; discriminate].
  Qed.

  Lemma leb_equiv_cong : forall a b z,
    leb a b = true -> leb b a = true -> leb z a = leb z b.
  Proof.
    intros a b z Hab Hba.
    destruct (leb z a) eqn:Ea, (leb z b) eqn:Eb; try reflexivity.
    - rewrite (leb_trans _ _ _ Ea Hab) in Eb. discriminate.
    - rewrite (leb_trans _ _ _ Eb Hba) in Ea. discriminate.
  Qed.

  Lemma sorted_counts_unique_keys : forall l1 l2,
    StronglySorted le l1 -> StronglySorted le l2 ->
    length l1 = length l2 ->
    (forall z, cnt_lt z l1 = cnt_lt z l2) ->
    Forall2 (fun x y => leb x y = true /\ leb y x = true) l1 l2.
  Proof.
    induction l1 as [|a l1 IH]; intros [|b l2] S1 S2 Hlen Hcnt;
      try discriminate Hlen.
    - constructor.
    - inversion S1 as [|? ? S1' F1]; subst.
      inversion S2 as [|? ? S2' F2]; subst.
      assert (Hab : leb a b = true).
      { apply (head_le_of_counts a l1 b l2 F1), Hcnt. }
      assert (Hba : leb b a = true).
      { apply (head_le_of_counts b l2 a l1 F2). symmetry. apply Hcnt. }
      constructor; [split; assumption|].
      apply IH; try assumption.
      + simpl in Hlen. congruence.
      + intro z. specialize (Hcnt z). simpl in Hcnt.
        rewrite (leb_equiv_cong a b z Hab Hba) in Hcnt. lia.
  Qed.

  Theorem sorted_perm_unique_keys : forall l1 l2,
    StronglySorted le l1 -> StronglySorted le l2 -> Permutation l1 l2 ->
    Forall2 (fun x y => leb x y = true /\ leb y x = true) l1 l2.
  Proof.
    intros l1 l2 S1 S2 P. apply sorted_counts_unique_keys; try assumption.
    - apply Permutation_length, P.
    - intro z. apply cnt_lt_perm, P.
  Qed.

  (* ---------- 5. stability: msort and isort are the same function ---------- *)

  Lemma merge_singleton : forall a l, merge leb [a] l = insert_sorted leb a l.
  Proof.
    intros a l; induction l as [|b l IH].
    - reflexivity.
    - rewrite merge_cons. cbn [insert_sorted]. destruct (leb a b).
      + rewrite merge_nil_l. reflexivity.
      + rewrite IH. reflexivity.
  Qed.

  Lemma merge_insert_sorted : forall a l1 l2,
    merge leb (insert_sorted leb a l1) l2 = insert_sorted leb a (merge leb l1 l2).
  Proof.
    intros a l1; induction l1 as [|b l1 IH1]; intros l2.
    - rewrite merge_nil_l. apply merge_singleton.
    - induction l2 as [|c l2 IH2].
      + rewrite !merge_nil_r. reflexivity.
      + rewrite (merge_cons b l1 c l2).
        cbn [insert_sorted] in *.
        destruct (leb a b) eqn:Eab.
        * rewrite (merge_cons a (b :: l1) c l2).
          destruct (leb b c) eqn:Ebc.
          -- rewrite (leb_trans _ _ _ Eab Ebc).
             cbn [insert_sorted]. rewrite Eab.
             rewrite (merge_cons b l1 c l2), Ebc. reflexivity.
          -- cbn [insert_sorted]. destruct (leb a c) eqn:Eac.
             ++ rewrite (merge_cons b l1 c l2), Ebc. reflexivity.
             ++ rewrite IH2. reflexivity.
        * rewrite (merge_cons b (insert_sorted leb a l1) c l2).
          destruct (leb b c) eqn:Ebc.
          -- cbn [insert_sorted]. rewrite Eab. rewrite IH1. reflexivity.
          -- cbn [insert_sorted].
             assert (Eac : leb a c = false).
             { destruct (leb a c) eqn:Eac; [|reflexivity].
               rewrite (leb_trans _ _ _ Eac (leb_false_flip _ _ Ebc)) in Eab.
               discriminate. }
             rewrite Eac, IH2. reflexivity.
  Qed.

  Lemma merge_isort : forall l1 l2,
    merge leb (isort leb l1) (isort leb l2) = isort leb (l1 ++ l2).
  Proof.
    induction l1 as [|a l1 IH]; intros l2.
    - apply merge_nil_l.
    - rewrite <- app_comm_cons, !isort_cons, merge_insert_sorted, IH. reflexivity.
  Qed.

  (* [stack_rep stack o]: the stack holds the isort of consecutive segments of [o] *)
  Fixpoint stack_rep (stack : list (option (list A))) (o : list A) : Prop :=
    match stack with
    | [] => o = []
    | None :: s => stack_rep s o
    | Some l :: s => exists o1 o2, o = o1 ++ o2 /\ l = isort leb o2 /\ stack_rep s o1
    end.

  Lemma merge_list_to_stack_rep : forall stack o1 o2,
    stack_rep stack o1 ->
    stack_rep (merge_list_to_stack leb stack (isort leb o2)) (o1 ++ o2).
  Proof.
    induction stack as [|[l'|] s IH]; intros o1 o2 H; simpl in *.
    - subst o1. exists [], o2. repeat split.
    - destruct H as (p & q & -> & -> & Hs).
      rewrite merge_isort, <- app_assoc. apply IH, Hs.
    - exists o1, o2. repeat split. exact H.
  Qed.

  Lemma merge_stack_rep : forall stack o,
    stack_rep stack o -> merge_stack leb stack = isort leb o.
  Proof.
    induction stack as [|[l|] s IH]; intros o H; simpl in *.
    - subst o. reflexivity.
    - destruct H as (p & q & -> & -> & Hs).
      rewrite (IH _ Hs). apply merge_isort.
    - apply IH, H.
  Qed.

  Lemma iter_merge_rep : forall l stack o,
    stack_rep stack o -> iter_merge leb stack l = isort leb (o ++ l).
  Proof.
    induction l as [|a l IH]; intros stack o H; simpl.
    - rewrite app_nil_r. apply merge_stack_rep, H.
    - change (a :: l) with ([a] ++ l). rewrite app_assoc.
      apply IH. apply (merge_list_to_stack_rep stack o [a] H).
  Qed.

  Theorem msort_stable_isort : forall l, msort leb l = isort leb l.
  Proof. intro l. apply (iter_merge_rep l [] []). reflexivity. Qed.

End SortProofs.

(* The theorems as seen from outside the section. *)
Check @isort_perm.
Check @msort_perm.
Check @isort_locally_sorted.
Check @msort_locally_sorted.
Check @isort_sorted.
Check @msort_sorted.
Check @sorted_perm_unique_keys.
Check @msort_stable_isort.
Check @msort_length.
Check @isort_length.
Check @msort_in.
Check @isort_in.

Print Assumptions isort_perm.
Print Assumptions msort_perm.
Print Assumptions isort_locally_sorted.
Print Assumptions msort_locally_sorted.
Print Assumptions isort_sorted.
Print Assumptions msort_sorted.
Print Assumptions sorted_perm_unique_keys.
Print Assumptions msort_stable_isort.
Print Assumptions msort_length.
Print Assumptions isort_length.
Print Assumptions msort_in.
Print Assumptions isort_in.

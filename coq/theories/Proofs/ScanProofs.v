(* C17 / scan half of C01: with no fault injected and a pure consumer, every input scan of the model
   computes a pure fold over a precisely characterised list of documents, and changes nothing in the
   transaction state but the call counter. *)
From Clover Require Import BytesProofs KVProofs KeyProofs PureRun RProofs SortProofs CodeProofs WireProofs RangeProofs.
From Coq Require Import Lia.
Open Scope Z_scope.

Arguments idx_key : simpl never.
Arguments doc_key : simpl never.
Arguments coll_key : simpl never.
Arguments idx_value_key : simpl never.
Arguments idx_prefix : simpl never.
Arguments doc_prefix : simpl never.
Arguments compare : simpl never.
Arguments N.compare : simpl never.
Arguments N.eqb : simpl never.

(* ------------------------------------------------------------------ *)
(* 0. lists                                                            *)
(* ------------------------------------------------------------------ *)

Section Lists.
  Context {A : Type}.

  Fixpoint takeW (P : A -> bool) (l : list A) : list A :=
    match l with
    | [] => []
    | x :: t => if P x then x :: takeW P t else []
    end.

  Fixpoint dropW (P : A -> bool) (l : list A) : list A :=
    match l with
    | [] => []
    | x :: t => if P x then dropW P t else l
    end.

  (* P is closed towards the head of a sorted list *)
  Lemma takeW_filter : forall (Rel : A -> A -> Prop) (P : A -> bool) l,
    StronglySorted Rel l ->
    (forall x y, In x l -> In y l -> Rel x y -> P y = true -> P x = true) ->
    takeW P l = filter P l.
  Proof.
    intros Rel P l Hs. induction Hs as [|x t Hs IH Hx]; intros Hc; [reflexivity|].
    cbn [takeW filter]. destruct (P x) eqn:Px.
    - f_equal. apply IH. intros a b Ha Hb. apply Hc; right; assumption.
    - symmetry. apply filter_none. rewrite Forall_forall in Hx |- *. intros y Hy.
      destruct (P y) eqn:Py; [|reflexivity].
      rewrite (Hc x y (or_introl eq_refl) (or_intror Hy) (Hx y Hy) Py) in Px. discriminate Px.
  Qed.

  Lemma dropW_filter : forall (Rel : A -> A -> Prop) (P : A -> bool) l,
    StronglySorted Rel l ->
    (forall x y, In x l -> In y l -> Rel x y -> P y = true -> P x = true) ->
    dropW P l = filter (fun x => negb (P x)) l.
  Proof.
    intros Rel P l Hs. induction Hs as [|x t Hs IH Hx]; intros Hc; [reflexivity|].
    cbn [dropW filter]. destruct (P x) eqn:Px; cbn [negb].
    - apply IH. intros a b Ha Hb. apply Hc; right; assumption.
    - f_equal. symmetry. apply filter_all. rewrite Forall_forall in Hx |- *. intros y Hy.
      destruct (P y) eqn:Py; [|reflexivity].
      rewrite (Hc x y (or_introl eq_refl) (or_intror Hy) (Hx y Hy) Py) in Px. discriminate Px.
  Qed.

  Lemma filter_filter : forall (P Q : A -> bool) l,
    filter P (filter Q l) = filter (fun x => Q x && P x) l.
  Proof.
    intros P Q l. induction l as [|x t IH]; [reflexivity|].
    cbn [filter]. destruct (Q x); cbn [andb filter]; [destruct (P x)|]; rewrite IH; reflexivity.
  Qed.

  Lemma filter_In_sub : forall (P : A -> bool) l x, In x (filter P l) -> In x l.
  Proof. intros P l x H. apply filter_In in H. apply H. Qed.

  Lemma SSorted_filter : forall (Rel : A -> A -> Prop) (P : A -> bool) l,
    StronglySorted Rel l -> StronglySorted Rel (filter P l).
  Proof.
    intros Rel P l Hs. induction Hs as [|x t Hs IH Hx]; [constructor|].
    cbn [filter]. destruct (P x); [|exact IH].
    constructor; [exact IH|]. rewrite Forall_forall in Hx |- *.
    intros y Hy. apply Hx. apply (filter_In_sub _ _ _ Hy).
  Qed.

  Lemma SSorted_weaken : forall (R1 R2 : A -> A -> Prop) l,
    (forall x y, In x l -> In y l -> R1 x y -> R2 x y) ->
    StronglySorted R1 l -> StronglySorted R2 l.
  Proof.
    intros R1 R2 l Hw Hs. induction Hs as [|x t Hs IH Hx]; [constructor|].
    constructor.
    - apply IH. intros a b Ha Hb. apply Hw; right; assumption.
    - rewrite Forall_forall in Hx |- *. intros y Hy.
      apply Hw; [left; reflexivity | right; exact Hy | apply Hx; exact Hy].
  Qed.

  Lemma rev_filter : forall (P : A -> bool) l, rev (filter P l) = filter P (rev l).
  Proof. intros. symmetry. apply filter_rev_comm. Qed.
End Lists.

Lemma filter_map_comm : forall {A B} (f : A -> B) (P : B -> bool) l,
  filter P (map f l) = map f (filter (fun x => P (f x)) l).
Proof.
  intros A B f P l. induction l as [|x t IH]; [reflexivity|].
  cbn [map filter]. destruct (P (f x)); cbn [map]; rewrite IH; reflexivity.
Qed.

Lemma SSorted_map : forall {A B} (f : A -> B) (Rel : B -> B -> Prop) l,
  StronglySorted (fun x y => Rel (f x) (f y)) l -> StronglySorted Rel (map f l).
Proof.
  intros A B f Rel l Hs. induction Hs as [|x t Hs IH Hx]; [constructor|].
  cbn [map]. constructor; [exact IH|].
  rewrite Forall_forall in Hx |- *. intros y Hy. apply in_map_iff in Hy.
  destruct Hy as (z & <- & Hz). apply Hx. exact Hz.
Qed.

(* two lists strictly sorted by key, with the same elements, are equal *)
Lemma kv_sorted_same_elements : forall (l1 l2 : list (bytes * sval)),
  kv_sorted l1 -> kv_sorted l2 -> (forall e, In e l1 <-> In e l2) -> l1 = l2.
Proof.
  induction l1 as [|a t1 IH]; intros l2 H1 H2 Hiff.
  - destruct l2 as [|b t2]; [reflexivity|]. exfalso. apply (Hiff b). left. reflexivity.
  - destruct l2 as [|b t2]; [exfalso; apply (Hiff a); left; reflexivity|].
    apply kv_sorted_cons_inv in H1. destruct H1 as [H1 F1].
    apply kv_sorted_cons_inv in H2. destruct H2 as [H2 F2].
    rewrite Forall_forall in F1, F2.
    assert (Eab : a = b).
    { destruct (proj1 (Hiff a) (or_introl eq_refl)) as [E|Ha]; [symmetry; exact E|].
      destruct (proj2 (Hiff b) (or_introl eq_refl)) as [E|Hb]; [exact E|].
      pose proof (F2 a Ha) as L1. pose proof (F1 b Hb) as L2.
      rewrite lex_antisym, L2 in L1. discriminate L1. }
    subst b. f_equal. apply IH; [exact H1 | exact H2 |].
    intros e. split; intros He.
    + destruct (proj1 (Hiff e) (or_intror He)) as [E|H]; [|exact H].
      subst e. pose proof (F1 a He) as L. rewrite lex_refl in L. discriminate L.
    + destruct (proj2 (Hiff e) (or_intror He)) as [E|H]; [|exact H].
      subst e. pose proof (F2 a He) as L. rewrite lex_refl in L. discriminate L.
Qed.

(* ------------------------------------------------------------------ *)
(* 1. byte order helpers                                               *)
(* ------------------------------------------------------------------ *)

Lemma lex_le_trans : forall a b c, lex a b <> Gt -> lex b c <> Gt -> lex a c <> Gt.
Proof.
  intros a b c H1 H2 H3. apply lex_gt_lt in H3.
  destruct (lex a b) eqn:E1; [| |apply H1; reflexivity].
  - apply lex_eq_iff in E1. subst b. apply H2. apply lex_gt_lt. exact H3.
  - apply H2. apply lex_gt_lt. apply (lex_lt_trans c a b H3 E1).
Qed.

Lemma lex_lt_le_trans : forall a b c, lex a b = Lt -> lex b c <> Gt -> lex a c = Lt.
Proof.
  intros a b c H1 H2. destruct (lex b c) eqn:E; [| |exfalso; apply H2; reflexivity].
  - apply lex_eq_iff in E. subst c. exact H1.
  - apply (lex_lt_trans a b c H1 E).
Qed.

Lemma lex_le_lt_trans : forall a b c, lex a b <> Gt -> lex b c = Lt -> lex a c = Lt.
Proof.
  intros a b c H1 H2. destruct (lex a b) eqn:E; [| |exfalso; apply H1; reflexivity].
  - apply lex_eq_iff in E. subst b. exact H2.
  - apply (lex_lt_trans a b c E H2).
Qed.

Lemma lex_not_lt_ge : forall a b, lex a b <> Lt <-> lex b a <> Gt.
Proof. intros a b. rewrite (lex_antisym a b). destruct (lex a b); cbn; split; congruence. Qed.

Lemma bleb_total : forall a b, bleb a b = true \/ bleb b a = true.
Proof. intros a b. unfold bleb. rewrite (lex_antisym a b). destruct (lex a b); cbn; auto. Qed.

Lemma bleb_trans : forall a b c, bleb a b = true -> bleb b c = true -> bleb a c = true.
Proof.
  intros a b c H1 H2. unfold bleb in *.
  assert (L1 : lex a b <> Gt) by (destruct (lex a b); congruence).
  assert (L2 : lex b c <> Gt) by (destruct (lex b c); congruence).
  pose proof (lex_le_trans a b c L1 L2) as L3. destruct (lex a c); congruence.
Qed.

Lemma bleb_true_iff : forall a b, bleb a b = true <-> lex a b <> Gt.
Proof. intros a b. unfold bleb. destruct (lex a b); split; congruence. Qed.

Lemma is_prefix_trans : forall p b k, is_prefix p b = true -> is_prefix b k = true -> is_prefix p k = true.
Proof.
  intros p b k H1 H2. apply is_prefix_true_iff in H1. apply is_prefix_true_iff in H2.
  destruct H1 as [r1 ->]. destruct H2 as [r2 ->]. rewrite <- app_assoc. apply is_prefix_app.
Qed.

Lemma cmp_then_eq_r : forall c, cmp_then c Eq = c.
Proof. destruct c; reflexivity. Qed.

(* ------------------------------------------------------------------ *)
(* 2. runs of the primitives when no fault is pending                  *)
(* ------------------------------------------------------------------ *)

Lemma sbc_refl : forall s, same_but_calls s s.
Proof. intros s. repeat split. Qed.

Lemma sbc_trans : forall s1 s2 s3, same_but_calls s1 s2 -> same_but_calls s2 s3 -> same_but_calls s1 s3.
Proof.
  intros s1 s2 s3 (A1 & A2 & A3 & A4) (B1 & B2 & B3 & B4).
  repeat split; congruence.
Qed.

Lemma sbc_fault : forall s s', same_but_calls s s' -> fault s = None -> fault s' = None.
Proof. intros s s' (_ & H & _) Hf. congruence. Qed.

Lemma sbc_view : forall s s', same_but_calls s s' -> view s' = view s.
Proof. intros s s' (H & _). exact H. Qed.

(* the standing assumption on the transaction state *)
Definition okst (kvs : kv) (s : txst) : Prop := fault s = None /\ view s = kvs.

Lemma okst_sbc : forall kvs s s', okst kvs s -> same_but_calls s s' -> okst kvs s'.
Proof.
  intros kvs s s' [Hf Hv] H. split; [apply (sbc_fault s s' H Hf)|].
  rewrite (sbc_view s s' H). exact Hv.
Qed.

Lemma runs_ret : forall A (a : A) s, runs_to (ret a) s a.
Proof. intros A a s. exists s. split; [reflexivity | apply sbc_refl]. Qed.

Lemma runs_bind : forall A B (m : M A) (k : A -> M B) s a b,
  runs_to m s a ->
  (forall s', same_but_calls s s' -> runs_to (k a) s' b) ->
  runs_to (bind m k) s b.
Proof.
  intros A B m k s a b (s1 & E1 & S1) Hk.
  destruct (Hk s1 S1) as (s2 & E2 & S2).
  exists s2. split; [|apply (sbc_trans s s1 s2 S1 S2)].
  unfold bind. rewrite E1. exact E2.
Qed.

Lemma runs_tick : forall s, fault s = None -> runs_to tick s tt.
Proof.
  intros s Hf. unfold runs_to, tick. rewrite Hf.
  eexists. split; [reflexivity|]. repeat split. cbn. symmetry. exact Hf.
Qed.

Lemma runs_cursor_item : forall e s, fault s = None -> runs_to (cursor_item e) s e.
Proof.
  intros e s Hf. unfold cursor_item.
  apply (runs_bind _ _ tick _ s tt e (runs_tick s Hf)). intros s' _. apply runs_ret.
Qed.

Lemma runs_tx_cursor : forall fw kvs s, okst kvs s ->
  runs_to (tx_cursor fw) s (if fw then kvs else rev kvs).
Proof.
  intros fw kvs s [Hf Hv]. unfold tx_cursor.
  apply (runs_bind _ _ tick _ s tt _ (runs_tick s Hf)). intros s' S'.
  exists s'. split; [|apply sbc_refl].
  unfold bind, get_view, ret. rewrite (sbc_view s s' S'), Hv. reflexivity.
Qed.

Lemma runs_tx_get : forall k kvs s, okst kvs s -> runs_to (tx_get k) s (kv_get k kvs).
Proof.
  intros k kvs s [Hf Hv]. unfold tx_get.
  apply (runs_bind _ _ tick _ s tt _ (runs_tick s Hf)). intros s' S'.
  exists s'. split; [|apply sbc_refl].
  unfold bind, get_view, ret. rewrite (sbc_view s s' S'), Hv. reflexivity.
Qed.

(* ------------------------------------------------------------------ *)
(* 3. sorted lists of entries                                          *)
(* ------------------------------------------------------------------ *)

Lemma SSorted_strict : forall {A} (key : A -> bytes) l,
  StronglySorted (fun x y => bleb (key x) (key y) = true) l ->
  NoDup (map key l) ->
  StronglySorted (fun x y => lex (key x) (key y) = Lt) l.
Proof.
  intros A key l Hs. induction Hs as [|x t Hs IH Hx]; intros Hn; [constructor|].
  cbn [map] in Hn. inversion Hn as [|k0 l0 Hnin Hn']; subst.
  constructor; [apply IH; exact Hn'|].
  rewrite Forall_forall in Hx |- *. intros y Hy.
  pose proof (Hx y Hy) as Hle. apply bleb_true_iff in Hle.
  destruct (lex (key x) (key y)) eqn:E; [|reflexivity|exfalso; apply Hle; reflexivity].
  exfalso. apply Hnin. apply lex_eq_iff in E. rewrite E. apply in_map. exact Hy.
Qed.

Lemma NoDup_map_key : forall {A} (key : bytes * A -> bytes) (l : list (bytes * A)),
  NoDup (map fst l) ->
  (forall x y, In x l -> In y l -> key x = key y -> fst x = fst y) ->
  NoDup (map key l).
Proof.
  intros A key l. induction l as [|x t IH]; intros Hn Hk; [constructor|].
  cbn [map] in *. inversion Hn as [|k0 l0 Hnin Hn']; subst. constructor.
  - intros Hin. apply in_map_iff in Hin. destruct Hin as (y & Ey & Hy).
    apply Hnin. rewrite <- (Hk y x (or_intror Hy) (or_introl eq_refl) Ey).
    apply in_map. exact Hy.
  - apply IH; [exact Hn'|]. intros a b Ha Hb. apply Hk; right; assumption.
Qed.

Lemma msort_In : forall {A} (leb : A -> A -> bool) l x, In x (msort leb l) <-> In x l.
Proof.
  intros A leb l x. split; intros H.
  - apply (Permutation_in x (msort_perm leb l) H).
  - apply (Permutation_in x (Permutation_sym (msort_perm leb l)) H).
Qed.

Lemma msort_key_sorted : forall {A} (key : A -> bytes) l,
  NoDup (map key l) ->
  StronglySorted (fun x y => lex (key x) (key y) = Lt) (msort (fun a b => bleb (key a) (key b)) l).
Proof.
  intros A key l Hn. apply SSorted_strict.
  - apply (msort_sorted (fun a b => bleb (key a) (key b))).
    + intros x y. apply bleb_total.
    + intros x y z. apply bleb_trans.
  - apply (Permutation_NoDup (l := map key l)); [|exact Hn].
    apply Permutation_map. apply Permutation_sym. apply msort_perm.
Qed.

(* a sorted store splits into the keys below a prefix, the keys carrying it, and keys above all of those *)
Definition above_prefix (p : bytes) (e : bytes * sval) : Prop :=
  forall k', is_prefix p k' = true -> lex k' (fst e) = Lt.

Lemma above_prefix_not : forall p e, above_prefix p e -> is_prefix p (fst e) = false.
Proof.
  intros p e H. destruct (is_prefix p (fst e)) eqn:E; [|reflexivity].
  pose proof (H (fst e) E) as L. rewrite lex_refl in L. discriminate L.
Qed.

Lemma suffix_split : forall p c0, kv_sorted c0 ->
  Forall (fun e => lex (fst e) p <> Lt) c0 ->
  exists post, c0 = filter (fun e => is_prefix p (fst e)) c0 ++ post /\ Forall (above_prefix p) post.
Proof.
  intros p c0. induction c0 as [|e t IH]; intros Hs Hge.
  - exists []. split; [reflexivity | constructor].
  - apply kv_sorted_cons_inv in Hs. destruct Hs as [Hs Ht].
    inversion Hge as [|e' t' Hge_e Hge_t]; subst.
    cbn [filter]. destruct (is_prefix p (fst e)) eqn:Ep.
    + destruct (IH Hs Hge_t) as (post & E & Hpost). exists post. split; [|exact Hpost].
      cbn [app]. f_equal. exact E.
    + assert (Hall : Forall (above_prefix p) (e :: t)).
      { assert (He : above_prefix p e).
        { intros k' Hk'. apply (prefix_left p (fst e)); [|exact Ep|exact Hk'].
          apply lex_not_lt_not_gt. exact Hge_e. }
        constructor; [exact He|]. rewrite Forall_forall in Ht |- *.
        intros x Hx k' Hk'. apply (lex_lt_trans k' (fst e) (fst x)); [apply He; exact Hk' | apply Ht; exact Hx]. }
      exists (e :: t). split; [|exact Hall].
      inversion Hall as [|e' t' _ Hall_t]; subst.
      rewrite (filter_none (fun e0 => is_prefix p (fst e0)) t); [reflexivity|].
      rewrite Forall_forall in Hall_t |- *. intros x Hx. apply above_prefix_not. apply Hall_t. exact Hx.
Qed.

Lemma prefix_split : forall p kvs, kv_sorted kvs ->
  exists pre post, kvs = pre ++ filter (fun e => is_prefix p (fst e)) kvs ++ post /\
    Forall (fun e => lex (fst e) p = Lt) pre /\ Forall (above_prefix p) post.
Proof.
  intros p kvs Hs. destruct (seek_fwd_split p kvs Hs) as (pre & E & Hpre & Hge).
  assert (Hs0 : kv_sorted (seek_fwd p kvs)) by (apply seek_fwd_sorted; exact Hs).
  destruct (suffix_split p (seek_fwd p kvs) Hs0 Hge) as (post & E2 & Hpost).
  exists pre, post. split; [|split; [exact Hpre | exact Hpost]].
  rewrite E at 2. rewrite filter_app.
  rewrite (filter_none (fun e => is_prefix p (fst e)) pre).
  - cbn [app]. rewrite <- E2. exact E.
  - rewrite Forall_forall in Hpre |- *. intros x Hx. apply lt_not_prefix. apply Hpre. exact Hx.
Qed.

Lemma takeW_all : forall {A} (P : A -> bool) l, (forall x, P x = true) -> takeW P l = l.
Proof. intros A P l H. induction l as [|x t IH]; [reflexivity|]. cbn [takeW]. rewrite H, IH. reflexivity. Qed.

Lemma dropW_ext_in : forall {A} (P Q : A -> bool) l,
  (forall x, In x l -> P x = Q x) -> dropW P l = dropW Q l.
Proof.
  intros A P Q l. induction l as [|x t IH]; intros H; [reflexivity|].
  cbn [dropW]. rewrite <- (H x (or_introl eq_refl)).
  destruct (P x); [|reflexivity]. apply IH. intros y Hy. apply H. right. exact Hy.
Qed.

Lemma dropW_In_sub : forall {A} (P : A -> bool) l x, In x (dropW P l) -> In x l.
Proof.
  intros A P l x. induction l as [|y t IH]; intros H; [exact H|].
  cbn [dropW] in H. destruct (P y); [right; apply IH; exact H | exact H].
Qed.

(* what the two range-bound conditions of the scan amount to, in terms of [compare] *)
Lemma keep_fwd_spec : forall r v,
  ((if range_is_nil r || negb (is_nilv (r_start r)) then negb (is_lt (compare v (r_start r))) else true)
   && negb ((negb (is_nilv (r_start r)) && negb (r_sinc r)) && is_eq (compare v (r_start r))))
  && negb ((range_is_nil r || negb (is_nilv (r_end r)))
           && (is_gt (compare v (r_end r)) || (is_eq (compare v (r_end r)) && negb (r_einc r))))
  = in_range r v.
Proof.
  intros [s e si ei] v. unfold in_range, range_is_nil, above, below. cbn [r_start r_end r_sinc r_einc].
  destruct (is_nilv s) eqn:Ns; [apply is_nilv_true in Ns; subst s|];
  (destruct (is_nilv e) eqn:Ne; [apply is_nilv_true in Ne; subst e|]);
  rewrite ?compare_nil_r; cbn [is_nilv];
  destruct si, ei; cbn [andb orb negb];
  repeat match goal with |- context [compare ?a ?b] => destruct (compare a b) end;
  try destruct (is_nilv v); reflexivity.
Qed.

Lemma keep_rev_spec : forall r v,
  ((if range_is_nil r || negb (is_nilv (r_end r))
    then (if r_einc r then negb (is_gt (compare v (r_end r))) else is_lt (compare v (r_end r)))
    else true)
   && negb ((negb (is_nilv (r_end r)) && negb (r_einc r)) && is_eq (compare v (r_end r))))
  && negb ((range_is_nil r || negb (is_nilv (r_start r)))
           && (is_lt (compare v (r_start r)) || (is_eq (compare v (r_start r)) && negb (r_sinc r))))
  = in_range r v.
Proof.
  intros [s e si ei] v. unfold in_range, range_is_nil, above, below. cbn [r_start r_end r_sinc r_einc].
  destruct (is_nilv s) eqn:Ns; [apply is_nilv_true in Ns; subst s|];
  (destruct (is_nilv e) eqn:Ne; [apply is_nilv_true in Ne; subst e|]);
  rewrite ?compare_nil_r; cbn [is_nilv];
  destruct si, ei; cbn [andb orb negb];
  repeat match goal with |- context [compare ?a ?b] => destruct (compare a b) end;
  try destruct (is_nilv v); reflexivity.
Qed.

(* ------------------------------------------------------------------ *)
(* 4. scans over one collection                                        *)
(* ------------------------------------------------------------------ *)

Definition nopre (p : bytes) (rest : cursor) : Prop :=
  match rest with [] => True | e :: _ => is_prefix p (fst e) = false end.

Lemma nopre_Forall : forall p rest, Forall (fun e => is_prefix p (fst e) = false) rest -> nopre p rest.
Proof. intros p rest H. destruct H; [exact I | assumption]. Qed.

Definition pastb (rv chk : bool) (far : bytes) (inc : bool) (pk : bytes) : bool :=
  chk && (if rv then is_lt (lex pk far) || (is_eq (lex pk far) && negb inc)
          else is_gt (lex pk far) || (is_eq (lex pk far) && negb inc)).

Lemma pastb_mono : forall (rv : bool) chk far inc k1 k2,
  (if rv then lex k2 k1 <> Gt else lex k1 k2 <> Gt) ->
  pastb rv chk far inc k1 = true -> pastb rv chk far inc k2 = true.
Proof.
  intros rv chk far inc k1 k2 Ho H. unfold pastb in *. destruct chk; [|discriminate H]. cbn [andb] in *.
  destruct rv.
  - destruct (lex k1 far) eqn:E1; cbn in H; [|clear H|discriminate H].
    + apply lex_eq_iff in E1. subst k1. destruct inc; [discriminate H|].
      destruct (lex k2 far); [reflexivity | reflexivity | exfalso; apply Ho; reflexivity].
    + rewrite (lex_le_lt_trans k2 k1 far Ho E1). reflexivity.
  - destruct (lex k1 far) eqn:E1; cbn in H; [|discriminate H|clear H].
    + apply lex_eq_iff in E1. subst k1. destruct inc; [discriminate H|].
      rewrite (lex_antisym far k2). destruct (lex far k2); [reflexivity | reflexivity | exfalso; apply Ho; reflexivity].
    + apply lex_gt_lt in E1. pose proof (lex_lt_le_trans far k1 k2 E1 Ho) as L.
      apply lex_gt_lt in L. rewrite L. reflexivity.
Qed.

(* the full-scan loop reads exactly the leading run of entries carrying the prefix *)
Lemma full_scan_loop_run : forall B (g : obj -> B -> B * bool) p flt cur b s,
  fault s = None ->
  runs_to (full_scan_loop p flt (pure_cons g) cur b) s
    (fold_pure g (filter (sat_opt flt) (map (fun e => decode_sval (snd e)) (take_prefix p cur))) b).
Proof.
  intros B g p flt cur. induction cur as [|e t IH]; intros b s Hf.
  - apply runs_ret.
  - cbn [full_scan_loop take_prefix].
    apply (runs_bind _ _ (cursor_item e) _ s e _ (runs_cursor_item e s Hf)). intros s1 S1.
    pose proof (sbc_fault s s1 S1 Hf) as Hf1.
    destruct (is_prefix p (fst e)) eqn:Ep; cbn [negb].
    + cbn [map filter]. destruct (sat_opt flt (decode_sval (snd e))) eqn:Es.
      * cbn [fold_pure]. unfold pure_cons at 1.
        apply (runs_bind _ _ (ret (g (decode_sval (snd e)) b)) _ s1 _ _ (runs_ret _ _ s1)).
        intros s2 S2. destruct (snd (g (decode_sval (snd e)) b)).
        -- apply IH. apply (sbc_fault s1 s2 S2 Hf1).
        -- apply runs_ret.
      * apply IH. exact Hf1.
    + apply runs_ret.
Qed.

Section Coll.
  Variables (db : sdb) (c : bytes) (sc : scoll) (kvs : kv).
  Hypothesis Hwf : wf_db db.
  Hypothesis Hc : assoc c db = Some sc.
  Hypothesis HR : R db kvs.

  Let Hnc : no_semi c = true := wf_coll_name db c sc Hwf Hc.
  Let Hnd : NoDup (map fst (sc_docs sc)) := wf_docs_NoDup db c sc Hwf Hc.

  Lemma docs_assoc : forall id d, In (id, d) (sc_docs sc) <-> assoc id (sc_docs sc) = Some d.
  Proof. intros id d. apply assoc_In. exact Hnd. Qed.

  Lemma docs_id_ok : forall id d, In (id, d) (sc_docs sc) -> id_ok id.
  Proof. intros id d H. apply docs_assoc in H. apply (wf_doc_id_ok db c sc id d Hwf Hc H). Qed.

  (* ---- document records ---- *)
  Definition doc_ent (e : bytes * obj) : bytes * sval := (doc_key c (fst e), SDoc (doc_encode (snd e))).

  Lemma doc_entries :
    filter (fun e => is_prefix (doc_prefix c) (fst e)) kvs = map doc_ent (msort by_id_leb (sc_docs sc)).
  Proof.
    apply kv_sorted_same_elements.
    - apply SSorted_filter. apply (R_sorted db kvs HR).
    - unfold kv_sorted. apply SSorted_map.
      apply (SSorted_weaken (fun x y : bytes * obj => lex (fst x) (fst y) = Lt)).
      + intros x y _ _ H. unfold doc_ent. cbn [fst]. unfold doc_key. rewrite lex_app_prefix. exact H.
      + apply (msort_key_sorted (fun x : bytes * obj => fst x)). exact Hnd.
    - intros e. rewrite filter_In, in_map_iff. split.
      + intros [Hin Hp].
        destruct (R_doc_prefix_entries db kvs c HR Hwf Hnc e Hin Hp) as (sc' & id & d & Hc' & Hd & ->).
        rewrite Hc in Hc'. injection Hc' as <-.
        exists (id, d). split; [reflexivity|]. apply msort_In. apply docs_assoc. exact Hd.
      + intros ((id & d) & <- & Hin). apply msort_In in Hin. apply docs_assoc in Hin.
        apply (R_doc_entry_in db kvs c sc id d HR Hc Hin).
  Qed.

  Lemma full_scan_run : forall B (g : obj -> B -> B * bool) flt b s, okst kvs s ->
    runs_to (full_scan c flt (pure_cons g) b) s (fold_pure g (filter (sat_opt flt) (docs_by_id sc)) b).
  Proof.
    intros B g flt b s Hs. unfold full_scan.
    apply (runs_bind _ _ (tx_cursor true) _ s _ _ (runs_tx_cursor true kvs s Hs)). intros s1 S1.
    cbn [cursor_seek].
    replace (docs_by_id sc)
      with (map (fun e => decode_sval (snd e)) (take_prefix (doc_prefix c) (seek_fwd (doc_prefix c) kvs))).
    - apply full_scan_loop_run. apply (okst_sbc kvs s s1 Hs S1).
    - rewrite (prefix_scan_spec _ _ (R_sorted db kvs HR)), doc_entries, map_map.
      unfold docs_by_id. apply map_ext. intros [id d]. cbn. apply decode_encode.
  Qed.

  (* ---- index entries of field f ---- *)
  Variable f : bytes.
  Hypothesis Hf : In f (sc_idx sc).
  Let Hnf : no_semi f = true := wf_idx_name db c sc f Hwf Hc Hf.
  Let p := idx_prefix c f.

  Definition entry_vkey (e : bytes * obj) : bytes := idx_value_key c f (doc_get f (snd e)).
  Definition idx_ent (e : bytes * obj) : bytes * sval := (idx_entry_key c f e, SEmpty).
  Definition idx_sorted : list (bytes * obj) := msort (by_idx_leb c f) (sc_docs sc).

  Lemma ent_key : forall e, fst (idx_ent e) = entry_vkey e ++ fst e.
  Proof. intros e. reflexivity. Qed.

  Lemma idx_entry_key_fst : forall x y, In x (sc_docs sc) -> In y (sc_docs sc) ->
    idx_entry_key c f x = idx_entry_key c f y -> fst x = fst y.
  Proof.
    intros [id d] [id' d'] Hx Hy E. unfold idx_entry_key in E. cbn [fst snd] in *.
    destruct (docs_id_ok id d Hx) as [L1 _]. destruct (docs_id_ok id' d' Hy) as [L2 _].
    destruct (idx_key_inj c c f f _ _ id id' Hnc Hnc Hnf Hnf L1 L2 E) as (_ & _ & _ & Eid). exact Eid.
  Qed.

  Lemma SL_In : forall e, In e idx_sorted <-> In e (sc_docs sc).
  Proof. intros e. apply msort_In. Qed.

  Lemma SL_sorted : StronglySorted (fun x y => lex (idx_entry_key c f x) (idx_entry_key c f y) = Lt) idx_sorted.
  Proof.
    apply (msort_key_sorted (idx_entry_key c f)).
    apply NoDup_map_key; [exact Hnd | exact idx_entry_key_fst].
  Qed.

  Lemma idx_entries : filter (fun e => is_prefix p (fst e)) kvs = map idx_ent idx_sorted.
  Proof.
    apply kv_sorted_same_elements.
    - apply SSorted_filter. apply (R_sorted db kvs HR).
    - unfold kv_sorted. apply SSorted_map. exact SL_sorted.
    - intros e. rewrite filter_In, in_map_iff. split.
      + intros [Hin Hp].
        destruct (R_idx_prefix_entries db kvs c f HR Hwf Hnc Hnf e Hin Hp)
          as (sc' & id & d & Hc' & Hd & _ & ->).
        rewrite Hc in Hc'. injection Hc' as <-.
        exists (id, d). split; [reflexivity|]. apply SL_In. apply docs_assoc. exact Hd.
      + intros ((id & d) & <- & Hin). apply SL_In in Hin. apply docs_assoc in Hin.
        apply (R_idx_entry_in db kvs c sc f id d HR Hc Hin Hf).
  Qed.

  Lemma vk_prefix : forall v, is_prefix p (idx_value_key c f v) = true.
  Proof.
    intros v. unfold idx_value_key, idx_type_prefix, p. rewrite <- !app_assoc. apply is_prefix_app.
  Qed.

  Lemma ent_prefix : forall e, is_prefix p (fst (idx_ent e)) = true.
  Proof.
    intros e. rewrite ent_key. apply (is_prefix_trans p (entry_vkey e)); [apply vk_prefix | apply is_prefix_app].
  Qed.

  (* the per-id function on an id of the collection *)
  Lemma runs_on_index_id : forall B (g : obj -> B -> B * bool) flt id d b s,
    In (id, d) (sc_docs sc) -> okst kvs s ->
    runs_to (on_index_id c flt (pure_cons g) id b) s (if sat_opt flt d then g d b else (b, true)).
  Proof.
    intros B g flt id d b s Hin Hs. unfold on_index_id, get_doc.
    apply docs_assoc in Hin.
    eapply runs_bind.
    - eapply runs_bind; [apply (runs_tx_get (doc_key c id) kvs s Hs)|].
      intros s1 S1. apply runs_ret.
    - intros s1 S1. rewrite (R_get_doc db kvs c id HR Hwf Hnc), Hc, Hin.
      cbn [decode_sval]. rewrite decode_encode.
      destruct (sat_opt flt d); apply runs_ret.
  Qed.

  (* the main loop of an index scan over a run of entries of the collection followed by foreign keys *)
  Lemma range_loop_run : forall B (g : obj -> B -> B * bool) flt rv chk far inc X rest,
    (forall e, In e X -> In e (sc_docs sc)) -> nopre p rest ->
    forall a s, okst kvs s ->
    runs_to (range_loop (on_index_id c flt (pure_cons g)) p rv chk far inc (map idx_ent X ++ rest) a) s
      (fold_pure g (filter (sat_opt flt)
         (map snd (takeW (fun e => negb (pastb rv chk far inc (entry_vkey e))) X))) a).
  Proof.
    intros B g flt rv chk far inc X rest. induction X as [|e X IH]; intros HX Hrest a s Hs.
    - cbn [map app takeW filter fold_pure]. destruct rest as [|e0 rest]; [apply runs_ret|].
      cbn [range_loop].
      apply (runs_bind _ _ (cursor_item e0) _ s e0 _ (runs_cursor_item e0 s (proj1 Hs))). intros s1 S1.
      cbn [nopre] in Hrest. rewrite Hrest. cbn [negb]. apply runs_ret.
    - change (map idx_ent (e :: X) ++ rest) with (idx_ent e :: (map idx_ent X ++ rest)). cbn [range_loop].
      apply (runs_bind _ _ (cursor_item (idx_ent e)) _ s _ _ (runs_cursor_item (idx_ent e) s (proj1 Hs))).
      intros s1 S1. pose proof (okst_sbc kvs s s1 Hs S1) as Hs1.
      rewrite ent_prefix. cbn [negb].
      assert (He : In e (sc_docs sc)) by (apply HX; left; reflexivity).
      destruct e as [id d]. destruct (docs_id_ok id d He) as [Lid _].
      change (fst (idx_ent (id, d))) with (idx_key c f (doc_get f d) id).
      rewrite (key_split_id_idx c f (doc_get f d) id Lid).
      cbn [takeW]. change (entry_vkey (id, d)) with (idx_value_key c f (doc_get f d)).
      fold (pastb rv chk far inc (idx_value_key c f (doc_get f d))).
      destruct (pastb rv chk far inc (idx_value_key c f (doc_get f d))); cbn [negb].
      + apply runs_ret.
      + cbn [map snd filter].
        eapply runs_bind; [apply (runs_on_index_id B g flt id d a s1 He Hs1)|].
        intros s2 S2. pose proof (okst_sbc kvs s1 s2 Hs1 S2) as Hs2.
        assert (HX' : forall e, In e X -> In e (sc_docs sc)) by (intros e' H'; apply HX; right; exact H').
        destruct (sat_opt flt d).
        * cbn [fold_pure]. destruct (snd (g d a)); [apply (IH HX' Hrest _ s2 Hs2) | apply runs_ret].
        * cbn [fst snd]. apply (IH HX' Hrest _ s2 Hs2).
  Qed.

  (* ---- where a seek inside the index lands ---- *)
  Definition no_idx_prefix (l : cursor) : Prop := Forall (fun e => is_prefix p (fst e) = false) l.

  Lemma seek_fwd_idx : exists post, no_idx_prefix post /\
    forall t, is_prefix p t = true ->
      seek_fwd t kvs = map idx_ent (filter (fun e => negb (bltb (idx_entry_key c f e) t)) idx_sorted) ++ post.
  Proof.
    pose proof (R_sorted db kvs HR) as Hs.
    destruct (prefix_split p kvs Hs) as (pre & post & E & Hpre & Hpost).
    exists post. split.
    { unfold no_idx_prefix. rewrite Forall_forall in Hpost |- *. intros x Hx. apply above_prefix_not. apply Hpost. exact Hx. }
    intros t Ht. rewrite (seek_fwd_spec t kvs Hs). rewrite E at 1. rewrite idx_entries.
    rewrite !filter_app, filter_map_comm.
    rewrite (filter_none _ pre), (filter_all _ post); [reflexivity| |].
    - rewrite Forall_forall in Hpost |- *. intros x Hx. unfold bltb.
      rewrite lex_antisym, (Hpost x Hx t Ht). reflexivity.
    - rewrite Forall_forall in Hpre |- *. intros x Hx. unfold bltb.
      rewrite (lex_lt_le_trans (fst x) p t (Hpre x Hx)); [reflexivity|].
      apply lex_not_lt_not_gt. apply prefix_ge. exact Ht.
  Qed.

  Lemma seek_rev_idx : exists pre, no_idx_prefix pre /\
    forall t, is_prefix p t = true ->
      seek_rev t (rev kvs) = map idx_ent (filter (fun e => negb (bltb t (idx_entry_key c f e))) (rev idx_sorted)) ++ pre.
  Proof.
    pose proof (R_sorted db kvs HR) as Hs.
    destruct (prefix_split p kvs Hs) as (pre & post & E & Hpre & Hpost).
    exists (rev pre). split.
    { unfold no_idx_prefix. apply Forall_rev. rewrite Forall_forall in Hpre |- *. intros x Hx.
      apply lt_not_prefix. apply Hpre. exact Hx. }
    intros t Ht. rewrite (seek_rev_spec t kvs Hs). rewrite E at 1. rewrite idx_entries.
    rewrite !filter_app, filter_map_comm.
    rewrite (filter_all _ pre), (filter_none _ post).
    - rewrite app_nil_r, rev_app_distr, <- map_rev, rev_filter. reflexivity.
    - rewrite Forall_forall in Hpost |- *. intros x Hx. unfold bltb.
      rewrite (Hpost x Hx t Ht). reflexivity.
    - rewrite Forall_forall in Hpre |- *. intros x Hx. unfold bltb.
      rewrite lex_antisym, (lex_lt_le_trans (fst x) p t (Hpre x Hx)); [reflexivity|].
      apply lex_not_lt_not_gt. apply prefix_ge. exact Ht.
  Qed.

  Definition idx_scanned (rv : bool) : list (bytes * obj) := if rv then rev idx_sorted else idx_sorted.

  Lemma DL_In : forall rv e, In e (idx_scanned rv) -> In e (sc_docs sc).
  Proof.
    intros rv e H. apply SL_In. destruct rv; [apply in_rev|]; exact H.
  Qed.

  Lemma docs_by_idx_DL : forall rv, docs_by_idx c f rv sc = map snd (idx_scanned rv).
  Proof. intros rv. unfold docs_by_idx, idx_scanned. fold idx_sorted. destruct rv; [apply eq_sym, map_rev | reflexivity]. Qed.

  (* cursor position + seek, in both directions *)
  Lemma seek_idx : forall rv, exists rest, no_idx_prefix rest /\
    forall t, is_prefix p t = true ->
      cursor_seek (negb rv) t (if negb rv then kvs else rev kvs) =
      map idx_ent (filter (fun e => negb (if rv then bltb t (idx_entry_key c f e)
                                      else bltb (idx_entry_key c f e) t)) (idx_scanned rv)) ++ rest.
  Proof.
    intros [|]; cbn [negb cursor_seek idx_scanned]; [exact seek_rev_idx | exact seek_fwd_idx].
  Qed.

  Lemma idx_iterate_run : forall B (g : obj -> B -> B * bool) flt rv b s, okst kvs s ->
    runs_to (idx_iterate (on_index_id c flt (pure_cons g)) c f rv b) s
      (fold_pure g (filter (sat_opt flt) (docs_by_idx c f rv sc)) b).
  Proof.
    intros B g flt rv b s Hs. unfold idx_iterate. fold p.
    apply (runs_bind _ _ (tx_cursor (negb rv)) _ s _ _ (runs_tx_cursor (negb rv) kvs s Hs)). intros s1 S1.
    destruct (seek_idx rv) as (rest & Hrest & Hseek).
    rewrite (Hseek (if rv then p ++ [255%N] else p)); [|destruct rv; [apply is_prefix_app | rewrite <- (app_nil_r p) at 2; apply is_prefix_app]].
    rewrite filter_all.
    - rewrite docs_by_idx_DL.
      rewrite <- (takeW_all (fun e => negb (pastb rv false [] false (entry_vkey e))) (idx_scanned rv)) at 2; [|reflexivity].
      apply range_loop_run; [apply DL_In | apply nopre_Forall; exact Hrest | apply (okst_sbc kvs s s1 Hs S1)].
    - rewrite Forall_forall. intros [id d] _. unfold bltb, idx_entry_key. cbn [fst snd]. destruct rv.
      + unfold p. rewrite lex_antisym, (idx_key_lt_prefix255 c f (doc_get f d) id). reflexivity.
      + pose proof (prefix_ge p _ (ent_prefix (id, d))) as Hge. cbn [idx_ent fst] in Hge. unfold idx_entry_key in Hge.
        cbn [fst snd] in Hge. destruct (lex (idx_key c f (doc_get f d) id) p); [reflexivity | exfalso; apply Hge; reflexivity | reflexivity].
  Qed.

  (* ---- range scans: values are ordered like their keys ---- *)
  Hypothesis Hdom : idx_dom f sc.
  Notation K := (idx_value_key c f).

  Lemma klaw : forall a b x y, key_dom a = true -> key_dom b = true ->
    lex (K a ++ x) (K b ++ y) = cmp_then (lex (K a) (K b)) (lex x y).
  Proof.
    intros a b x y Ha Hb. rewrite (idx_key_law c f a b x y Ha Hb).
    pose proof (idx_key_law c f a b [] [] Ha Hb) as E. rewrite !app_nil_r in E.
    cbn [lex] in E. rewrite cmp_then_eq_r in E. rewrite E. reflexivity.
  Qed.

  Lemma kcmp : forall a b, key_dom a = true -> key_dom b = true -> lex (K a) (K b) = compare a b.
  Proof.
    intros a b Ha Hb. pose proof (idx_key_law c f a b [] [] Ha Hb) as E. rewrite !app_nil_r in E.
    cbn [lex] in E. rewrite cmp_then_eq_r in E. exact E.
  Qed.

  Lemma val_dom : forall x, In x (sc_docs sc) -> key_dom (doc_get f (snd x)) = true.
  Proof. intros [id d] H. apply (Hdom id d H). Qed.

  Lemma canonical_hd : forall id, canonical_id id = true -> exists h t, id = h :: t /\ (h < 255)%N.
  Proof.
    intros id H. unfold canonical_id in H. apply andb_true_iff in H. destruct H as [H0 H].
    destruct id as [|h t]; [discriminate H0|].
    exists h, t. split; [reflexivity|]. cbn in H. apply andb_true_iff in H. destruct H as [H _].
    unfold is_hex in H. rewrite !orb_true_iff, !andb_true_iff, !N.leb_le in H. lia.
  Qed.

  Lemma id_bounds : forall x, In x (sc_docs sc) ->
    lex (fst x) [] = Gt /\ lex [] (fst x) = Lt /\ lex [255%N] (fst x) = Gt.
  Proof.
    intros [id d] H. cbn [fst]. apply docs_assoc in H.
    destruct (wf_doc db c sc id d Hwf Hc H) as (Hcan & _).
    destruct (canonical_hd id Hcan) as (h & t & -> & Hh).
    cbn [lex]. repeat split. rewrite (proj2 (N.compare_gt_iff 255 h) Hh). reflexivity.
  Qed.

  Lemma entry_key_split : forall x, idx_entry_key c f x = entry_vkey x ++ fst x.
  Proof. intros x. reflexivity. Qed.

  (* where the seeks land, in terms of value keys *)
  Lemma seekQ_fwd : forall x b, In x (sc_docs sc) -> key_dom b = true ->
    negb (bltb (idx_entry_key c f x) (K b)) = negb (is_lt (lex (entry_vkey x) (K b))).
  Proof.
    intros x b Hx Hb. rewrite entry_key_split. rewrite <- (app_nil_r (K b)) at 1.
    unfold entry_vkey, bltb. rewrite (klaw _ b _ _ (val_dom x Hx) Hb).
    destruct (id_bounds x Hx) as (-> & _ & _).
    destruct (lex (K (doc_get f (snd x))) (K b)); reflexivity.
  Qed.

  Lemma seekQ_rev_inc : forall x b, In x (sc_docs sc) -> key_dom b = true ->
    negb (bltb (K b ++ [255%N]) (idx_entry_key c f x)) = negb (is_gt (lex (entry_vkey x) (K b))).
  Proof.
    intros x b Hx Hb. rewrite entry_key_split.
    unfold entry_vkey, bltb. rewrite (klaw b _ _ _ Hb (val_dom x Hx)).
    destruct (id_bounds x Hx) as (_ & _ & ->).
    rewrite (lex_antisym (K (doc_get f (snd x))) (K b)).
    destruct (lex (K (doc_get f (snd x))) (K b)); reflexivity.
  Qed.

  Lemma seekQ_rev_exc : forall x b, In x (sc_docs sc) -> key_dom b = true ->
    negb (bltb (K b) (idx_entry_key c f x)) = is_lt (lex (entry_vkey x) (K b)).
  Proof.
    intros x b Hx Hb. rewrite entry_key_split. rewrite <- (app_nil_r (K b)) at 1.
    unfold entry_vkey, bltb. rewrite (klaw b _ _ _ Hb (val_dom x Hx)).
    destruct (id_bounds x Hx) as (_ & -> & _).
    rewrite (lex_antisym (K (doc_get f (snd x))) (K b)).
    destruct (lex (K (doc_get f (snd x))) (K b)); reflexivity.
  Qed.

  Lemma skipP : forall x b, In x (sc_docs sc) -> key_dom b = true ->
    is_prefix (K b) (fst (idx_ent x)) = is_eq (lex (entry_vkey x) (K b)).
  Proof.
    intros x b Hx Hb. rewrite ent_key. unfold entry_vkey.
    destruct (is_prefix (K b) (K (doc_get f (snd x)) ++ fst x)) eqn:E.
    - apply is_prefix_true_iff in E. destruct E as [r E].
      pose proof (klaw _ b (fst x) r (val_dom x Hx) Hb) as L. rewrite E, lex_refl in L.
      destruct (lex (K (doc_get f (snd x))) (K b)); [reflexivity | discriminate L | discriminate L].
    - destruct (lex (K (doc_get f (snd x))) (K b)) eqn:L; [|reflexivity|reflexivity].
      apply lex_eq_iff in L. rewrite L, is_prefix_app in E. discriminate E.
  Qed.

  Lemma skip_bound_run : forall bkey X rest, nopre bkey rest ->
    forall s, fault s = None ->
    runs_to (skip_bound bkey (map idx_ent X ++ rest)) s
      (map idx_ent (dropW (fun e => is_prefix bkey (fst (idx_ent e))) X) ++ rest).
  Proof.
    intros bkey X rest Hrest. induction X as [|e X IH]; intros s Hs.
    - cbn [map app dropW]. destruct rest as [|e0 rest]; [apply runs_ret|].
      cbn [skip_bound].
      apply (runs_bind _ _ (cursor_item e0) _ s e0 _ (runs_cursor_item e0 s Hs)). intros s1 S1.
      cbn [nopre] in Hrest. rewrite Hrest. apply runs_ret.
    - change (map idx_ent (e :: X) ++ rest) with (idx_ent e :: (map idx_ent X ++ rest)). cbn [skip_bound dropW].
      apply (runs_bind _ _ (cursor_item (idx_ent e)) _ s _ _ (runs_cursor_item (idx_ent e) s Hs)).
      intros s1 S1. destruct (is_prefix bkey (fst (idx_ent e))).
      + apply IH. apply (sbc_fault s s1 S1 Hs).
      + apply runs_ret.
  Qed.

  (* the order of the scanned list in terms of value keys *)
  Definition value_ordered (rv : bool) (x y : bytes * obj) : Prop :=
    if rv then lex (entry_vkey y) (entry_vkey x) <> Gt else lex (entry_vkey x) (entry_vkey y) <> Gt.

  Lemma SL_ordV : StronglySorted (fun x y => lex (entry_vkey x) (entry_vkey y) <> Gt) idx_sorted.
  Proof.
    apply (SSorted_weaken (fun x y => lex (idx_entry_key c f x) (idx_entry_key c f y) = Lt));
      [|exact SL_sorted].
    intros x y Hx Hy L. apply SL_In in Hx. apply SL_In in Hy.
    rewrite !entry_key_split in L. unfold entry_vkey in *.
    rewrite (klaw _ _ _ _ (val_dom x Hx) (val_dom y Hy)) in L.
    destruct (lex (K (doc_get f (snd x))) (K (doc_get f (snd y)))); [discriminate | discriminate | discriminate L].
  Qed.

  Lemma DL_ordV : forall rv, StronglySorted (value_ordered rv) (idx_scanned rv).
  Proof.
    intros [|]; unfold value_ordered, idx_scanned; [|exact SL_ordV].
    apply (SSorted_rev (fun x y => lex (entry_vkey x) (entry_vkey y) <> Gt)). exact SL_ordV.
  Qed.

  Lemma seekQ_p : forall x, negb (bltb (idx_entry_key c f x) p) = true.
  Proof.
    intros x. pose proof (prefix_ge p _ (ent_prefix x)) as Hge. cbn [idx_ent fst] in Hge.
    unfold bltb. destruct (lex (idx_entry_key c f x) p); [reflexivity | exfalso; apply Hge; reflexivity | reflexivity].
  Qed.

  Lemma seekQ_p255 : forall x, negb (bltb (p ++ [255%N]) (idx_entry_key c f x)) = true.
  Proof.
    intros [id d]. unfold bltb, idx_entry_key, p. cbn [fst snd].
    rewrite lex_antisym, (idx_key_lt_prefix255 c f (doc_get f d) id). reflexivity.
  Qed.

  (* seek + optional skip + main loop = one filter of the scanned list *)
  Lemma scan_list : forall rv chk far inc (Q : bytes * obj -> bool) (skip : bool) b,
    key_dom b = true ->
    (skip = true -> forall x y, In x (idx_scanned rv) -> In y (idx_scanned rv) -> Q x = true -> Q y = true -> value_ordered rv x y ->
        lex (entry_vkey y) (K b) = Eq -> lex (entry_vkey x) (K b) = Eq) ->
    takeW (fun x => negb (pastb rv chk far inc (entry_vkey x)))
      (if skip then dropW (fun x => is_prefix (K b) (fst (idx_ent x))) (filter Q (idx_scanned rv)) else filter Q (idx_scanned rv))
    = filter (fun x => (Q x && negb (skip && is_eq (lex (entry_vkey x) (K b)))) && negb (pastb rv chk far inc (entry_vkey x)))
        (idx_scanned rv).
  Proof.
    intros rv chk far inc Q skip b Hb Hcl.
    assert (Hsf : forall P, StronglySorted (value_ordered rv) (filter P (idx_scanned rv))).
    { intros P. apply SSorted_filter. apply DL_ordV. }
    assert (E1 : (if skip then dropW (fun x => is_prefix (K b) (fst (idx_ent x))) (filter Q (idx_scanned rv)) else filter Q (idx_scanned rv))
                 = filter (fun x => Q x && negb (skip && is_eq (lex (entry_vkey x) (K b)))) (idx_scanned rv)).
    { destruct skip.
      - rewrite (dropW_ext_in _ (fun x => is_eq (lex (entry_vkey x) (K b)))).
        + rewrite (dropW_filter (value_ordered rv)); [rewrite filter_filter; reflexivity | apply Hsf |].
          intros x y Hx Hy Ho Py. apply filter_In in Hx. apply filter_In in Hy.
          destruct Hx as [Hx Qx]. destruct Hy as [Hy Qy].
          apply is_eq_iff. apply is_eq_iff in Py. apply (Hcl eq_refl x y Hx Hy Qx Qy Ho Py).
        + intros x Hx. apply filter_In in Hx. destruct Hx as [Hx _].
          apply (skipP x b (DL_In rv x Hx) Hb).
      - apply filter_ext. intros x. cbn [andb negb]. rewrite andb_true_r. reflexivity. }
    rewrite E1. rewrite (takeW_filter (value_ordered rv)); [apply filter_filter | apply Hsf |].
    intros x y _ _ Ho Py. destruct (pastb rv chk far inc (entry_vkey x)) eqn:Px; [|reflexivity].
    rewrite (pastb_mono rv chk far inc (entry_vkey x) (entry_vkey y)) in Py; [discriminate Py | | exact Px].
    unfold value_ordered in Ho. destruct rv; exact Ho.
  Qed.

  Lemma nonpre_nopre : forall bkey rest, is_prefix p bkey = true -> no_idx_prefix rest -> nopre bkey rest.
  Proof.
    intros bkey rest Hb H. destruct H as [|e t He _]; [exact I|]. cbn [nopre].
    destruct (is_prefix bkey (fst e)) eqn:E; [|reflexivity].
    rewrite (is_prefix_trans p bkey (fst e) Hb E) in He. discriminate He.
  Qed.

  Lemma p_prefix_self : is_prefix p p = true.
  Proof. rewrite <- (app_nil_r p) at 2. apply is_prefix_app. Qed.

  Lemma idx_iterate_range_run : forall B (g : obj -> B -> B * bool) flt r rv b s, okst kvs s ->
    key_dom (r_start r) = true -> key_dom (r_end r) = true -> range_is_empty r = false ->
    runs_to (idx_iterate_range (on_index_id c flt (pure_cons g)) c f r rv b) s
      (fold_pure g (filter (sat_opt flt)
         (filter (fun d => in_range r (doc_get f d)) (docs_by_idx c f rv sc))) b).
  Proof.
    intros B g flt r rv b s Hs Hks Hke Hne. unfold idx_iterate_range. rewrite Hne. cbv zeta. fold p.
    apply (runs_bind _ _ (tx_cursor (negb rv)) _ s _ _ (runs_tx_cursor (negb rv) kvs s Hs)). intros s1 S1.
    pose proof (okst_sbc kvs s s1 Hs S1) as Hs1.
    destruct (seek_idx rv) as (rest & Hrest & Hseek).
    rewrite docs_by_idx_DL, filter_map_comm.
    destruct rv; cbn [negb] in *.
    - (* reverse *)
      set (he := range_is_nil r || negb (is_nilv (r_end r))).
      set (hs := range_is_nil r || negb (is_nilv (r_start r))).
      set (skip := negb (is_nilv (r_end r)) && negb (r_einc r)).
      set (seek := if he then (if r_einc r then K (r_end r) ++ [255%N] else K (r_end r)) else p ++ [255%N]).
      assert (Hpk : is_prefix p seek = true).
      { unfold seek. destruct he; [destruct (r_einc r)|]; try apply is_prefix_app; [|apply vk_prefix].
        apply (is_prefix_trans p (K (r_end r))); [apply vk_prefix | apply is_prefix_app]. }
      rewrite (Hseek seek Hpk).
      set (Q := fun e : bytes * obj => negb (bltb seek (idx_entry_key c f e))).
      eapply runs_bind.
      { instantiate (1 := map idx_ent (if skip then dropW (fun x => is_prefix (K (r_end r)) (fst (idx_ent x))) (filter Q (idx_scanned true))
                                   else filter Q (idx_scanned true)) ++ rest).
        destruct skip; [|apply runs_ret].
        apply skip_bound_run; [|exact (proj1 Hs1)].
        apply nonpre_nopre; [apply vk_prefix | exact Hrest]. }
      intros s2 S2. pose proof (okst_sbc kvs s1 s2 Hs1 S2) as Hs2.
      replace (filter (fun x => in_range r (doc_get f (snd x))) (idx_scanned true))
        with (takeW (fun x => negb (pastb true hs (K (r_start r)) (r_sinc r) (entry_vkey x)))
                (if skip then dropW (fun x => is_prefix (K (r_end r)) (fst (idx_ent x))) (filter Q (idx_scanned true))
                 else filter Q (idx_scanned true))).
      { apply range_loop_run; [|apply nopre_Forall; exact Hrest | exact Hs2].
        intros e He. apply (DL_In true). destruct skip; [|apply (filter_In_sub _ _ _ He)].
        apply (filter_In_sub Q). apply (dropW_In_sub _ _ _ He). }
      rewrite (scan_list true hs (K (r_start r)) (r_sinc r) Q skip (r_end r) Hke).
      + apply filter_ext_in. intros x Hx. apply DL_In in Hx.
        rewrite <- (keep_rev_spec r (doc_get f (snd x))).
        pose proof (val_dom x Hx) as Hv.
        rewrite <- (kcmp _ _ Hv Hks), <- (kcmp _ _ Hv Hke). fold (entry_vkey x). fold he hs skip.
        unfold pastb. f_equal. f_equal. unfold Q, seek.
        destruct he; [destruct (r_einc r)|].
        * apply (seekQ_rev_inc x _ Hx Hke).
        * apply (seekQ_rev_exc x _ Hx Hke).
        * apply seekQ_p255.
      + intros Hsk x y Hx Hy Qx Qy _ Ey. exfalso.
        unfold skip in Hsk. apply andb_true_iff in Hsk. destruct Hsk as [Hn Hi].
        unfold Q, seek, he in Qy. rewrite Hn, orb_true_r in Qy.
        destruct (r_einc r); [discriminate Hi|].
        rewrite (seekQ_rev_exc y _ (DL_In true y Hy) Hke), Ey in Qy. discriminate Qy.
    - (* forward *)
      set (he := range_is_nil r || negb (is_nilv (r_end r))).
      set (hs := range_is_nil r || negb (is_nilv (r_start r))).
      set (skip := negb (is_nilv (r_start r)) && negb (r_sinc r)).
      match goal with |- context [cursor_seek true ?t kvs] => set (seek := t) end.
      assert (Hpk : is_prefix p seek = true).
      { unfold seek. destruct hs; [apply vk_prefix | apply p_prefix_self]. }
      rewrite (Hseek seek Hpk).
      set (Q := fun e : bytes * obj => negb (bltb (idx_entry_key c f e) seek)).
      eapply runs_bind.
      { instantiate (1 := map idx_ent (if skip then dropW (fun x => is_prefix (K (r_start r)) (fst (idx_ent x))) (filter Q (idx_scanned false))
                                   else filter Q (idx_scanned false)) ++ rest).
        destruct skip; [|apply runs_ret].
        apply skip_bound_run; [|exact (proj1 Hs1)].
        apply nonpre_nopre; [apply vk_prefix | exact Hrest]. }
      intros s2 S2. pose proof (okst_sbc kvs s1 s2 Hs1 S2) as Hs2.
      replace (filter (fun x => in_range r (doc_get f (snd x))) (idx_scanned false))
        with (takeW (fun x => negb (pastb false he (K (r_end r)) (r_einc r) (entry_vkey x)))
                (if skip then dropW (fun x => is_prefix (K (r_start r)) (fst (idx_ent x))) (filter Q (idx_scanned false))
                 else filter Q (idx_scanned false))).
      { apply range_loop_run; [|apply nopre_Forall; exact Hrest | exact Hs2].
        intros e He. apply (DL_In false). destruct skip; [|apply (filter_In_sub _ _ _ He)].
        apply (filter_In_sub Q). apply (dropW_In_sub _ _ _ He). }
      rewrite (scan_list false he (K (r_end r)) (r_einc r) Q skip (r_start r) Hks).
      + apply filter_ext_in. intros x Hx. apply DL_In in Hx.
        rewrite <- (keep_fwd_spec r (doc_get f (snd x))).
        pose proof (val_dom x Hx) as Hv.
        rewrite <- (kcmp _ _ Hv Hks), <- (kcmp _ _ Hv Hke). fold (entry_vkey x). fold he hs skip.
        unfold pastb. f_equal. f_equal. unfold Q, seek.
        destruct hs.
        * apply (seekQ_fwd x _ Hx Hks).
        * apply seekQ_p.
      + intros Hsk x y Hx Hy Qx Qy Ho Ey.
        unfold skip in Hsk. apply andb_true_iff in Hsk. destruct Hsk as [Hn _].
        unfold Q, seek, hs in Qx. rewrite Hn, orb_true_r in Qx.
        rewrite (seekQ_fwd x _ (DL_In false x Hx) Hks) in Qx.
        unfold value_ordered in Ho. apply lex_eq_iff in Ey. rewrite Ey in Ho.
        destruct (lex (entry_vkey x) (K (r_start r))); [reflexivity | discriminate Qx | exfalso; apply Ho; reflexivity].
  Qed.
End Coll.

(* ------------------------------------------------------------------ *)
(* 5. the theorems                                                     *)
(* ------------------------------------------------------------------ *)

(* S1: a full collection scan folds the consumer over the documents in id order *)
Theorem full_scan_pure : forall db c sc B (g : obj -> B -> B * bool) (flt : option ncrit) (b : B) s,
  wf_db db -> assoc c db = Some sc -> R db (view s) -> fault s = None ->
  runs_to (full_scan c flt (pure_cons g) b) s
    (fold_pure g (filter (sat_opt flt) (docs_by_id sc)) b).
Proof.
  intros db c sc B g flt b s Hwf Hc HR Hf.
  apply (full_scan_run db c sc (view s) Hwf Hc HR B g flt b s). split; [exact Hf | reflexivity].
Qed.

Theorem docs_by_id_perm : forall (db : sdb) c sc, wf_db db -> assoc c db = Some sc ->
  Permutation (docs_by_id sc) (map snd (sc_docs sc)).
Proof. intros db c sc _ _. unfold docs_by_id. apply Permutation_map. apply msort_perm. Qed.

Theorem docs_by_idx_perm : forall c f rv sc,
  Permutation (docs_by_idx c f rv sc) (map snd (sc_docs sc)).
Proof.
  intros c f rv sc. unfold docs_by_idx.
  assert (P : Permutation (map snd (msort (by_idx_leb c f) (sc_docs sc))) (map snd (sc_docs sc))).
  { apply Permutation_map. apply msort_perm. }
  destruct rv; [|exact P].
  apply (Permutation_trans (Permutation_sym (Permutation_rev _)) P).
Qed.

(* S2: a whole-index scan folds the consumer over the documents in index-entry order *)
Theorem idx_iterate_pure : forall db c sc f B (g : obj -> B -> B * bool) (flt : option ncrit) reverse (b : B) s,
  wf_db db -> assoc c db = Some sc -> In f (sc_idx sc) -> R db (view s) -> fault s = None ->
  runs_to (idx_iterate (on_index_id c flt (pure_cons g)) c f reverse b) s
    (fold_pure g (filter (sat_opt flt) (docs_by_idx c f reverse sc)) b).
Proof.
  intros db c sc f B g flt rv b s Hwf Hc Hf HR Hfl.
  apply (idx_iterate_run db c sc (view s) Hwf Hc HR f Hf B g flt rv b s). split; [exact Hfl | reflexivity].
Qed.

(* index-entry order is value order (ties broken by id) when the stored values are in the key domain *)
Lemma by_idx_sorted_values : forall c f sc, idx_dom f sc ->
  StronglySorted (fun a b : bytes * obj => compare (doc_get f (snd a)) (doc_get f (snd b)) <> Gt)
    (msort (by_idx_leb c f) (sc_docs sc)).
Proof.
  intros c f sc Hdom.
  apply (SSorted_weaken (fun x y => by_idx_leb c f x y = true)).
  - intros [ida da] [idb db] Ha Hb H. apply msort_In in Ha. apply msort_In in Hb.
    unfold by_idx_leb, idx_entry_key, idx_key in H. cbn [fst snd] in *. apply bleb_true_iff in H.
    rewrite (idx_key_law c f _ _ ida idb (Hdom ida da Ha) (Hdom idb db Hb)) in H.
    destruct (compare (doc_get f da) (doc_get f db)); [discriminate | discriminate | exact H].
  - apply msort_sorted.
    + intros x y. apply bleb_total.
    + intros x y z. apply bleb_trans.
Qed.

Theorem docs_by_idx_sorted : forall c f sc, idx_dom f sc ->
  StronglySorted (fun a b => compare (doc_get f a) (doc_get f b) <> Gt) (docs_by_idx c f false sc).
Proof.
  intros c f sc Hdom. unfold docs_by_idx. apply SSorted_map. apply by_idx_sorted_values. exact Hdom.
Qed.

Theorem docs_by_idx_sorted_rev : forall c f sc, idx_dom f sc ->
  StronglySorted (fun a b => compare (doc_get f b) (doc_get f a) <> Gt) (docs_by_idx c f true sc).
Proof.
  intros c f sc Hdom. unfold docs_by_idx.
  apply (SSorted_rev (fun a b => compare (doc_get f a) (doc_get f b) <> Gt)).
  apply SSorted_map. apply by_idx_sorted_values. exact Hdom.
Qed.

(* S3: a range scan visits exactly the documents whose field value lies in the range, once each,
   in index order *)
Theorem idx_iterate_range_pure :
  forall db c sc f B (g : obj -> B -> B * bool) (flt : option ncrit) r reverse (b : B) s,
  wf_db db -> assoc c db = Some sc -> In f (sc_idx sc) -> idx_dom f sc ->
  key_dom (r_start r) = true -> key_dom (r_end r) = true -> range_is_empty r = false ->
  R db (view s) -> fault s = None ->
  runs_to (idx_iterate_range (on_index_id c flt (pure_cons g)) c f r reverse b) s
    (fold_pure g (filter (sat_opt flt)
       (filter (fun d => in_range r (doc_get f d)) (docs_by_idx c f reverse sc))) b).
Proof.
  intros db c sc f B g flt r rv b s Hwf Hc Hf Hdom Hks Hke Hne HR Hfl.
  apply (idx_iterate_range_run db c sc (view s) Hwf Hc HR f Hf Hdom B g flt r rv b s);
    [split; [exact Hfl | reflexivity] | exact Hks | exact Hke | exact Hne].
Qed.

(* a range the planner's emptiness test rejects is not scanned at all *)
Theorem idx_iterate_range_empty : forall A (on_id : bytes -> A -> M (A * bool)) c f r reverse a,
  range_is_empty r = true -> idx_iterate_range on_id c f r reverse a = ret a.
Proof. intros A on_id c f r rv a H. unfold idx_iterate_range. rewrite H. reflexivity. Qed.

Corollary idx_iterate_range_empty_runs : forall A (on_id : bytes -> A -> M (A * bool)) c f r reverse a s,
  range_is_empty r = true -> runs_to (idx_iterate_range on_id c f r reverse a) s a.
Proof. intros. rewrite idx_iterate_range_empty by assumption. apply runs_ret. Qed.

(* S4: the three inputs of a plan, packaged *)
Definition input_docs (c : bytes) (sc : scoll) (iq : option idx_query) : list obj :=
  match iq with
  | None => docs_by_id sc
  | Some (IQAll f rv) => docs_by_idx c f rv sc
  | Some (IQRange f r rv) =>
      if range_is_empty r then []
      else filter (fun d => in_range r (doc_get f d)) (docs_by_idx c f rv sc)
  end.

Definition input_ok (sc : scoll) (iq : option idx_query) : Prop :=
  match iq with
  | None => True
  | Some (IQAll f _) => In f (sc_idx sc)
  | Some (IQRange f r _) =>
      range_is_empty r = true \/
      (In f (sc_idx sc) /\ idx_dom f sc /\ key_dom (r_start r) = true /\ key_dom (r_end r) = true)
  end.

Theorem run_input_pure : forall db c sc iq B (g : obj -> B -> B * bool) (flt : option ncrit) (b : B) s,
  wf_db db -> assoc c db = Some sc -> input_ok sc iq -> R db (view s) -> fault s = None ->
  runs_to (run_input c flt iq (pure_cons g) b) s
    (fold_pure g (filter (sat_opt flt) (input_docs c sc iq)) b).
Proof.
  intros db c sc iq B g flt b s Hwf Hc Hok HR Hfl.
  destruct iq as [[f r rv | f rv]|]; cbn [run_input input_docs input_ok] in *.
  - destruct (range_is_empty r) eqn:He.
    + apply idx_iterate_range_empty_runs. exact He.
    + destruct Hok as [Hok | (Hf & Hdom & Hks & Hke)]; [discriminate Hok|].
      apply (idx_iterate_range_pure db c sc f B g flt r rv b s); assumption.
  - apply (idx_iterate_pure db c sc f B g flt rv b s); assumption.
  - apply (full_scan_pure db c sc B g flt b s); assumption.
Qed.

(* every input visits a sub-multiset of the collection's documents *)
Lemma input_docs_In : forall c sc iq d, In d (input_docs c sc iq) -> In d (map snd (sc_docs sc)).
Proof.
  intros c sc iq d H. destruct iq as [[f r rv | f rv]|]; cbn [input_docs] in H.
  - destruct (range_is_empty r); [contradiction H|]. apply filter_In in H. destruct H as [H _].
    apply (Permutation_in d (docs_by_idx_perm c f rv sc) H).
  - apply (Permutation_in d (docs_by_idx_perm c f rv sc) H).
  - unfold docs_by_id in H. apply (Permutation_in d (Permutation_map snd (msort_perm by_id_leb (sc_docs sc))) H).
Qed.

(* S5: collecting *)
Definition collect_g : obj -> list obj -> list obj * bool := fun d acc => (d :: acc, true).

Lemma collect_pure : collect = pure_cons collect_g.
Proof. reflexivity. Qed.

Lemma fold_collect : forall l acc, fold_pure collect_g l acc = rev l ++ acc.
Proof.
  induction l as [|d t IH]; intros acc; [reflexivity|].
  cbn [fold_pure collect_g fst snd rev]. rewrite IH, <- app_assoc. reflexivity.
Qed.

Theorem full_scan_collect : forall db c sc (flt : option ncrit) acc s,
  wf_db db -> assoc c db = Some sc -> R db (view s) -> fault s = None ->
  runs_to (full_scan c flt collect acc) s (rev (filter (sat_opt flt) (docs_by_id sc)) ++ acc).
Proof.
  intros db c sc flt acc s Hwf Hc HR Hfl. rewrite collect_pure, <- fold_collect.
  apply (full_scan_pure db c sc (list obj) collect_g flt acc s); assumption.
Qed.

Theorem idx_iterate_collect : forall db c sc f (flt : option ncrit) reverse acc s,
  wf_db db -> assoc c db = Some sc -> In f (sc_idx sc) -> R db (view s) -> fault s = None ->
  runs_to (idx_iterate (on_index_id c flt collect) c f reverse acc) s
    (rev (filter (sat_opt flt) (docs_by_idx c f reverse sc)) ++ acc).
Proof.
  intros db c sc f flt rv acc s Hwf Hc Hf HR Hfl. rewrite collect_pure, <- fold_collect.
  apply (idx_iterate_pure db c sc f (list obj) collect_g flt rv acc s); assumption.
Qed.

Theorem run_input_collect : forall db c sc iq (flt : option ncrit) acc s,
  wf_db db -> assoc c db = Some sc -> input_ok sc iq -> R db (view s) -> fault s = None ->
  runs_to (run_input c flt iq collect acc) s (rev (filter (sat_opt flt) (input_docs c sc iq)) ++ acc).
Proof.
  intros db c sc iq flt acc s Hwf Hc Hok HR Hfl. rewrite collect_pure, <- fold_collect.
  apply (run_input_pure db c sc iq (list obj) collect_g flt acc s); assumption.
Qed.

(* non-vacuity: the hypotheses hold on the example database of RProofs *)
Example range_scan_example :
  runs_to (idx_iterate_range (on_index_id ex_c None collect) ex_c ex_f
             (mkRange (VInt 1) (VInt 7) true false) false [])
          (mkTx ex_s None 0 None false) [ex_d1] /\
  runs_to (idx_iterate_range (on_index_id ex_c None collect) ex_c ex_f
             (mkRange (VInt 5) VNil false false) true [])
          (mkTx ex_s None 0 None false) [ex_d2].
Proof.
  assert (Hdom : idx_dom ex_f ex_sc).
  { intros id d [H|[H|[]]]; injection H as <- <-; reflexivity. }
  rewrite collect_pure. split.
  - exact (idx_iterate_range_pure ex_db ex_c ex_sc ex_f (list obj) collect_g None
             (mkRange (VInt 1) (VInt 7) true false) false [] (mkTx ex_s None 0 None false)
             ex_wf eq_refl (or_introl eq_refl) Hdom eq_refl eq_refl eq_refl ex_R eq_refl).
  - exact (idx_iterate_range_pure ex_db ex_c ex_sc ex_f (list obj) collect_g None
             (mkRange (VInt 5) VNil false false) true [] (mkTx ex_s None 0 None false)
             ex_wf eq_refl (or_introl eq_refl) Hdom eq_refl eq_refl eq_refl ex_R eq_refl).
Qed.

Print Assumptions full_scan_pure.
Print Assumptions docs_by_id_perm.
Print Assumptions idx_iterate_pure.
Print Assumptions docs_by_idx_sorted.
Print Assumptions docs_by_idx_sorted_rev.
Print Assumptions idx_iterate_range_pure.
Print Assumptions idx_iterate_range_empty.
Print Assumptions run_input_pure.
Print Assumptions fold_collect.
Print Assumptions full_scan_collect.
Print Assumptions idx_iterate_collect.
Print Assumptions run_input_collect.

(* Composition laws for the orderedcode primitives: each encoder is order preserving
   and prefix free, in the chained form
     lex (enc a ++ x) (enc b ++ y) = cmp_then (cmp a b) (lex x y). *)
From Clover Require Import Bytes Float64 OrderedCode BytesProofs FloatProofs.
From Coq Require Import ZArith NArith List Lia.
From Coq Require Import ZifyBool ZifyNat ZifyN.
Open Scope Z_scope.

Ltac Zify.zify_post_hook ::= Z.div_mod_to_equations.

Arguments Z.pow : simpl never.
Arguments Z.mul : simpl never.
Arguments Z.div : simpl never.
Arguments Z.modulo : simpl never.
Arguments Z.to_N : simpl never.
Arguments N.compare : simpl never.

(* ---------------------------------------------------------------- *)
(* lex on cons cells *)

Lemma lex_cons : forall u v s t,
  lex (u :: s) (v :: t) = match (u ?= v)%N with Eq => lex s t | c => c end.
Proof. reflexivity. Qed.

Lemma lex_cons_eq : forall u s t, lex (u :: s) (u :: t) = lex s t.
Proof. intros. rewrite lex_cons, N.compare_refl. reflexivity. Qed.

Lemma lex_cons_lt : forall u v s t, (u < v)%N -> lex (u :: s) (v :: t) = Lt.
Proof. intros u v s t H. rewrite lex_cons. apply N.compare_lt_iff in H. rewrite H. reflexivity. Qed.

Lemma lex_cons_gt : forall u v s t, (v < u)%N -> lex (u :: s) (v :: t) = Gt.
Proof. intros u v s t H. rewrite lex_cons. apply N.compare_gt_iff in H. rewrite H. reflexivity. Qed.

Lemma lex_swap_lt : forall a b, lex b a = Gt -> lex a b = Lt.
Proof. intros a b H. apply lex_gt_lt. exact H. Qed.

(* ---------------------------------------------------------------- *)
(* A. strings *)

Definition escb (u : N) : bytes :=
  if N.eqb u 0 then [0; 255]%N else if N.eqb u 255 then [255; 0]%N else [u].

Lemma esc_cons : forall u s, esc (u :: s) = escb u ++ esc s.
Proof. reflexivity. Qed.

(* every escape sequence starts with the byte it escapes *)
Lemma escb_head : forall u, exists t, escb u = u :: t.
Proof.
  intros u. unfold escb.
  destruct (N.eqb_spec u 0) as [->|H0]; [eexists; reflexivity|].
  destruct (N.eqb_spec u 255) as [->|H255]; eexists; reflexivity.
Qed.

(* ... and the terminator is below every escape sequence *)
Lemma term_lt_escb : forall u r x,
  lex (0 :: 1 :: x)%N (escb u ++ r) = Lt.
Proof.
  intros u r x. unfold escb.
  destruct (N.eqb_spec u 0) as [->|H0].
  - cbn [app]. rewrite lex_cons_eq. apply lex_cons_lt. lia.
  - destruct (N.eqb_spec u 255) as [->|H255]; cbn [app]; apply lex_cons_lt; lia.
Qed.

Theorem oc_string_law : forall a b x y,
  lex (oc_string a ++ x) (oc_string b ++ y) = cmp_then (lex a b) (lex x y).
Proof.
  unfold oc_string.
  induction a as [|u a IH]; intros [|v b] x y.
  - cbn [esc app]. rewrite !lex_cons_eq. reflexivity.
  - rewrite esc_cons. cbn [esc app lex cmp_then]. rewrite <- !app_assoc.
    apply term_lt_escb.
  - rewrite esc_cons. cbn [esc app lex cmp_then]. rewrite <- !app_assoc.
    apply lex_gt_lt. apply term_lt_escb.
  - rewrite !esc_cons, <- !app_assoc. rewrite (lex_cons u v a b).
    destruct (N.compare_spec u v) as [->|H|H].
    + rewrite lex_app_prefix. rewrite !app_assoc. apply IH.
    + destruct (escb_head u) as [tu ->]. destruct (escb_head v) as [tv ->].
      cbn [app cmp_then]. apply lex_cons_lt. exact H.
    + destruct (escb_head u) as [tu ->]. destruct (escb_head v) as [tv ->].
      cbn [app cmp_then]. apply lex_cons_gt. exact H.
Qed.

(* ---------------------------------------------------------------- *)
(* B. fixed-width big endian *)

Lemma pow256_pos : forall n : nat, 0 < 256 ^ Z.of_nat n.
Proof. intros. apply Z.pow_pos_nonneg; lia. Qed.

Lemma pow256_S : forall n : nat, 256 ^ Z.of_nat (S n) = 256 * 256 ^ Z.of_nat n.
Proof. intros. rewrite Nat2Z.inj_succ. apply Z.pow_succ_r. lia. Qed.

Lemma pow256_two : forall k, 0 <= k -> 256 ^ k = 2 ^ (8 * k).
Proof. intros k Hk. rewrite Z.pow_mul_r by lia. reflexivity. Qed.

Lemma be_bytes_S : forall n v,
  be_bytes (S n) v = be_bytes n (v / 256) ++ [Z.to_N (v mod 256)].
Proof. reflexivity. Qed.

Lemma be_bytes_law : forall n a b x y,
  0 <= a < 256 ^ Z.of_nat n -> 0 <= b < 256 ^ Z.of_nat n ->
  lex (be_bytes n a ++ x) (be_bytes n b ++ y) = cmp_then (Z.compare a b) (lex x y).
Proof.
  induction n as [|n IH]; intros a b x y Ha Hb.
  - change (256 ^ Z.of_nat 0) with 1 in *.
    assert (a = 0) by lia. assert (b = 0) by lia. subst. reflexivity.
  - rewrite pow256_S in Ha, Hb. pose proof (pow256_pos n) as HP.
    set (P := 256 ^ Z.of_nat n) in *.
    rewrite !be_bytes_S, <- !app_assoc.
    rewrite IH by (fold P; lia).
    cbn [app]. rewrite lex_cons.
    rewrite Z2N.inj_compare by lia.
    destruct (Z.compare_spec (a / 256) (b / 256)) as [E|E|E];
      destruct (Z.compare_spec (a mod 256) (b mod 256)) as [F|F|F];
      destruct (Z.compare_spec a b) as [G|G|G];
      cbn [cmp_then]; try reflexivity; exfalso; lia.
Qed.

(* split a big-endian string into a high and a low part *)
Lemma be_bytes_split : forall m n v,
  be_bytes (n + m) v =
  be_bytes n (v / 256 ^ Z.of_nat m) ++ be_bytes m (v mod 256 ^ Z.of_nat m).
Proof.
  induction m as [|m IH]; intros n v.
  - rewrite Nat.add_0_r. change (256 ^ Z.of_nat 0) with 1.
    rewrite Z.div_1_r. cbn [be_bytes]. rewrite app_nil_r. reflexivity.
  - rewrite Nat.add_succ_r, !be_bytes_S, IH, pow256_S.
    pose proof (pow256_pos m) as HP. set (P := 256 ^ Z.of_nat m) in *.
    rewrite <- app_assoc. f_equal.
    + f_equal. rewrite Z.div_div by lia. reflexivity.
    + rewrite (Z.rem_mul_r v 256 P) by lia.
      set (r2 := (v / 256) mod P).
      f_equal; [f_equal; lia | do 2 f_equal; lia].
Qed.

(* shorter string against the head of a longer one *)
Lemma be_bytes_mixed_lt : forall n m u v x y,
  0 <= u < 256 ^ Z.of_nat n -> 0 <= v < 256 ^ Z.of_nat (n + m) ->
  (u + 1) * 256 ^ Z.of_nat m <= v ->
  lex (be_bytes n u ++ x) (be_bytes (n + m) v ++ y) = Lt.
Proof.
  intros n m u v x y Hu Hv Huv.
  rewrite be_bytes_split, <- app_assoc.
  rewrite Nat2Z.inj_add, Z.pow_add_r in Hv by lia.
  pose proof (pow256_pos m) as HM. set (M := 256 ^ Z.of_nat m) in *.
  assert (Hq : u + 1 <= v / M) by (apply Z.div_le_lower_bound; lia).
  assert (Hq2 : v / M < 256 ^ Z.of_nat n) by (apply Z.div_lt_upper_bound; lia).
  rewrite be_bytes_law; [|lia|lia].
  assert (E : (u ?= v / M) = Lt) by (apply Z.compare_lt_iff; lia).
  rewrite E. reflexivity.
Qed.

Lemma be_bytes_mixed_gt : forall n m u v x y,
  0 <= u < 256 ^ Z.of_nat n -> 0 <= v < 256 ^ Z.of_nat (n + m) ->
  v < u * 256 ^ Z.of_nat m ->
  lex (be_bytes n u ++ x) (be_bytes (n + m) v ++ y) = Gt.
Proof.
  intros n m u v x y Hu Hv Huv.
  rewrite be_bytes_split, <- app_assoc.
  rewrite Nat2Z.inj_add, Z.pow_add_r in Hv by lia.
  pose proof (pow256_pos m) as HM. set (M := 256 ^ Z.of_nat m) in *.
  assert (Hq : v / M < u) by (apply Z.div_lt_upper_bound; lia).
  assert (Hq0 : 0 <= v / M) by (apply Z.div_pos; lia).
  rewrite be_bytes_law; [|lia|lia].
  assert (E : (u ?= v / M) = Gt) by (apply Z.compare_gt_iff; lia).
  rewrite E. reflexivity.
Qed.

(* first byte of a non-empty big-endian string *)
Lemma be_bytes_head : forall n v, 0 <= v < 256 ^ Z.of_nat (S n) ->
  exists t, be_bytes (S n) v = Z.to_N (v / 256 ^ Z.of_nat n) :: t.
Proof.
  intros n v Hv. rewrite pow256_S in Hv. pose proof (pow256_pos n) as HP.
  change (S n) with (1 + n)%nat. rewrite be_bytes_split.
  set (P := 256 ^ Z.of_nat n) in *.
  assert (Hq : 0 <= v / P < 256).
  { split; [apply Z.div_pos; lia | apply Z.div_lt_upper_bound; lia]. }
  exists (be_bytes n (v mod P)).
  cbn [be_bytes app]. rewrite (Z.mod_small (v / P) 256) by lia. reflexivity.
Qed.

(* the bytewise complement of a big-endian string is the string of the complement *)
Lemma invert_app : forall s t, invert (s ++ t) = invert s ++ invert t.
Proof. intros. unfold invert. apply map_app. Qed.

Lemma invert_be_bytes : forall n v,
  invert (be_bytes n v) = be_bytes n (256 ^ Z.of_nat n - 1 - v).
Proof.
  induction n as [|n IH]; intros v; [reflexivity|].
  rewrite !be_bytes_S, invert_app, IH, pow256_S.
  set (P := 256 ^ Z.of_nat n).
  f_equal.
  - f_equal. lia.
  - unfold invert. cbn [map]. f_equal.
    replace ((256 * P - 1 - v) mod 256) with (255 - v mod 256) by lia.
    rewrite Z2N.inj_sub by lia. reflexivity.
Qed.

(* ---------------------------------------------------------------- *)
(* B'. uint64: minimal length byte, then the big-endian digits *)

Lemma ulen_spec : forall a, 0 <= a ->
  a < 256 ^ Z.of_nat (ulen a) /\
  (0 < Z.of_nat (ulen a) -> 256 ^ (Z.of_nat (ulen a) - 1) <= a).
Proof.
  intros a Ha. unfold ulen. destruct (a <=? 0) eqn:E.
  - assert (a = 0) by lia. subst. cbn. split; [reflexivity | lia].
  - assert (Hpos : 0 < a) by lia.
    pose proof (Z.log2_nonneg a) as Hl0.
    pose proof (Z.log2_spec a Hpos) as [Hlo Hhi].
    set (l := Z.log2 a) in *.
    assert (Hq : 0 <= l / 8) by (apply Z.div_pos; lia).
    rewrite Z2Nat.id by lia.
    rewrite !pow256_two by lia.
    split.
    + eapply Z.lt_le_trans; [exact Hhi|]. apply Z.pow_le_mono_r; lia.
    + intros _. eapply Z.le_trans; [|exact Hlo]. apply Z.pow_le_mono_r; lia.
Qed.

Theorem oc_uint64_law_gen : forall a b x y, 0 <= a -> 0 <= b ->
  lex (oc_uint64 a ++ x) (oc_uint64 b ++ y) = cmp_then (Z.compare a b) (lex x y).
Proof.
  intros a b x y Ha Hb. unfold oc_uint64. cbn [app]. rewrite lex_cons.
  destruct (ulen_spec a Ha) as [Ua La]. destruct (ulen_spec b Hb) as [Ub Lb].
  rewrite <- Nat2N.inj_compare.
  destruct (Nat.compare_spec (ulen a) (ulen b)) as [E|E|E].
  - rewrite <- E in *. apply be_bytes_law; lia.
  - assert (Hle : 256 ^ Z.of_nat (ulen a) <= 256 ^ (Z.of_nat (ulen b) - 1))
      by (apply Z.pow_le_mono_r; lia).
    assert (Hab : (a ?= b) = Lt) by (apply Z.compare_lt_iff; lia).
    rewrite Hab. reflexivity.
  - assert (Hle : 256 ^ Z.of_nat (ulen b) <= 256 ^ (Z.of_nat (ulen a) - 1))
      by (apply Z.pow_le_mono_r; lia).
    assert (Hab : (a ?= b) = Gt) by (apply Z.compare_gt_iff; lia).
    rewrite Hab. reflexivity.
Qed.

Theorem oc_uint64_law : forall a b x y, 0 <= a < two64 -> 0 <= b < two64 ->
  lex (oc_uint64 a ++ x) (oc_uint64 b ++ y) = cmp_then (Z.compare a b) (lex x y).
Proof. intros a b x y Ha Hb. apply oc_uint64_law_gen; lia. Qed.

(* ---------------------------------------------------------------- *)
(* C. int64: L leading one bits, a zero bit, 7L-1 payload bits; negatives inverted *)

Lemma ilen_spec : forall a, 0 <= a ->
  1 <= Z.of_nat (ilen a) /\
  a < 2 ^ (7 * Z.of_nat (ilen a) - 1) /\
  (2 <= Z.of_nat (ilen a) -> 2 ^ (7 * Z.of_nat (ilen a) - 8) <= a).
Proof.
  intros a Ha. unfold ilen. destruct (a <=? 0) eqn:E.
  - assert (a = 0) by lia. subst. cbn. repeat split; try lia.
  - assert (Hpos : 0 < a) by lia.
    pose proof (Z.log2_nonneg a) as Hl0.
    pose proof (Z.log2_spec a Hpos) as [Hlo Hhi].
    set (l := Z.log2 a) in *.
    assert (Hq : 0 <= (l + 1) / 7) by (apply Z.div_pos; lia).
    rewrite Z2Nat.id by lia.
    split; [lia|]. split.
    + eapply Z.lt_le_trans; [exact Hhi|]. apply Z.pow_le_mono_r; lia.
    + intros _. eapply Z.le_trans; [|exact Hlo]. apply Z.pow_le_mono_r; lia.
Qed.

(* the numbers written by the encoder *)
Definition nnv (n : nat) (a : Z) : Z := 2 ^ (8 * Z.of_nat n) - 2 ^ (7 * Z.of_nat n) + a.
Definition ngv (n : nat) (c : Z) : Z := 2 ^ (7 * Z.of_nat n) - 1 - c.

Lemma oc_nn_eq : forall a, oc_int64_nonneg a = be_bytes (ilen a) (nnv (ilen a) a).
Proof. reflexivity. Qed.

Lemma oc_ng_eq : forall c, invert (oc_int64_nonneg c) = be_bytes (ilen c) (ngv (ilen c) c).
Proof.
  intros c. rewrite oc_nn_eq, invert_be_bytes. unfold nnv, ngv.
  rewrite pow256_two by lia. f_equal. lia.
Qed.

Lemma pow2_double : forall k, 1 <= k -> 2 ^ k = 2 * 2 ^ (k - 1).
Proof.
  intros k Hk. replace k with (Z.succ (k - 1)) at 1 by lia. apply Z.pow_succ_r. lia.
Qed.

Lemma pow2_pos : forall k, 0 <= k -> 0 < 2 ^ k.
Proof. intros. apply Z.pow_pos_nonneg; lia. Qed.

(* value ranges: a nonnegative code starts with a one bit, an inverted one with a zero bit *)
Lemma nnv_range : forall n a, (1 <= n)%nat -> 0 <= a < 2 ^ (7 * Z.of_nat n - 1) ->
  2 ^ (8 * Z.of_nat n - 1) <= nnv n a /\
  nnv n a + 1 <= 2 ^ (8 * Z.of_nat n) - 2 ^ (7 * Z.of_nat n - 1) /\
  nnv n a < 2 ^ (8 * Z.of_nat n).
Proof.
  intros n a Hn Ha. unfold nnv.
  set (N := Z.of_nat n) in *. assert (HN : 1 <= N) by (unfold N; lia).
  pose proof (pow2_double (7 * N) ltac:(lia)) as H7.
  pose proof (pow2_double (8 * N) ltac:(lia)) as H8.
  pose proof (pow2_pos (7 * N - 1) ltac:(lia)) as P7.
  assert (Hle : 2 ^ (7 * N) <= 2 ^ (8 * N - 1)) by (apply Z.pow_le_mono_r; lia).
  lia.
Qed.

Lemma ngv_range : forall n c, (1 <= n)%nat -> 0 <= c < 2 ^ (7 * Z.of_nat n - 1) ->
  2 ^ (7 * Z.of_nat n - 1) <= ngv n c /\
  ngv n c < 2 ^ (7 * Z.of_nat n) /\
  ngv n c < 2 ^ (8 * Z.of_nat n - 1) /\
  ngv n c < 2 ^ (8 * Z.of_nat n).
Proof.
  intros n c Hn Hc. unfold ngv.
  set (N := Z.of_nat n) in *. assert (HN : 1 <= N) by (unfold N; lia).
  pose proof (pow2_double (7 * N) ltac:(lia)) as H7.
  pose proof (pow2_double (8 * N) ltac:(lia)) as H8.
  pose proof (pow2_pos (7 * N - 1) ltac:(lia)) as P7.
  assert (Hle : 2 ^ (7 * N) <= 2 ^ (8 * N - 1)) by (apply Z.pow_le_mono_r; lia).
  lia.
Qed.

(* powers relating a length n to a longer length n + m *)
Lemma mixed_pows : forall n m : nat, (1 <= n)%nat -> (1 <= m)%nat ->
  2 ^ (8 * Z.of_nat (n + m)) = 2 ^ (8 * Z.of_nat n) * 256 ^ Z.of_nat m /\
  2 ^ (7 * Z.of_nat (n + m)) <= 2 ^ (7 * Z.of_nat n - 1) * 256 ^ Z.of_nat m.
Proof.
  intros n m Hn Hm. rewrite (pow256_two (Z.of_nat m)) by lia.
  rewrite <- !Z.pow_add_r by lia. split.
  - f_equal. lia.
  - apply Z.pow_le_mono_r; lia.
Qed.

Lemma nn_mixed : forall (n m : nat) a b x y, (1 <= n)%nat -> (1 <= m)%nat ->
  0 <= a < 2 ^ (7 * Z.of_nat n - 1) -> 0 <= b < 2 ^ (7 * Z.of_nat (n + m) - 1) ->
  lex (be_bytes n (nnv n a) ++ x) (be_bytes (n + m) (nnv (n + m) b) ++ y) = Lt.
Proof.
  intros n m a b x y Hn Hm Ha Hb.
  destruct (nnv_range n a Hn Ha) as (A1 & A2 & A3).
  destruct (nnv_range (n + m) b ltac:(lia) Hb) as (B1 & B2 & B3).
  destruct (mixed_pows n m Hn Hm) as [E8 L7].
  pose proof (pow2_pos (8 * Z.of_nat (n + m) - 1) ltac:(lia)) as Q1.
  pose proof (pow2_pos (8 * Z.of_nat n - 1) ltac:(lia)) as Q2.
  apply be_bytes_mixed_lt.
  - rewrite pow256_two by lia. lia.
  - rewrite pow256_two by lia. lia.
  - pose proof (pow256_pos m) as HM. set (M := 256 ^ Z.of_nat m) in *.
    assert (H1 : (nnv n a + 1) * M <=
                 (2 ^ (8 * Z.of_nat n) - 2 ^ (7 * Z.of_nat n - 1)) * M).
    { apply Z.mul_le_mono_nonneg_r; lia. }
    rewrite Z.mul_sub_distr_r in H1.
    unfold nnv at 2. lia.
Qed.

Lemma ng_mixed : forall (n m : nat) c d x y, (1 <= n)%nat -> (1 <= m)%nat ->
  0 <= c < 2 ^ (7 * Z.of_nat n - 1) -> 0 <= d < 2 ^ (7 * Z.of_nat (n + m) - 1) ->
  lex (be_bytes n (ngv n c) ++ x) (be_bytes (n + m) (ngv (n + m) d) ++ y) = Gt.
Proof.
  intros n m c d x y Hn Hm Hc Hd.
  destruct (ngv_range n c Hn Hc) as (A1 & A2 & A3 & A4).
  destruct (ngv_range (n + m) d ltac:(lia) Hd) as (B1 & B2 & B3 & B4).
  destruct (mixed_pows n m Hn Hm) as [E8 L7].
  pose proof (pow2_pos (7 * Z.of_nat (n + m) - 1) ltac:(lia)) as Q1.
  pose proof (pow2_pos (7 * Z.of_nat n - 1) ltac:(lia)) as Q2.
  apply be_bytes_mixed_gt.
  - rewrite pow256_two by lia. lia.
  - rewrite pow256_two by lia. lia.
  - pose proof (pow256_pos m) as HM. set (M := 256 ^ Z.of_nat m) in *.
    assert (H1 : 2 ^ (7 * Z.of_nat n - 1) * M <= ngv n c * M).
    { apply Z.mul_le_mono_nonneg_r; lia. }
    lia.
Qed.

(* a shorter code length means a smaller magnitude *)
Lemma ilen_lt : forall a b, 0 <= a -> 0 <= b -> (ilen a < ilen b)%nat -> a < b.
Proof.
  intros a b Ha Hb Hl.
  destruct (ilen_spec a Ha) as (A1 & A2 & _).
  destruct (ilen_spec b Hb) as (B1 & _ & B3).
  assert (Hle : 2 ^ (7 * Z.of_nat (ilen a) - 1) <= 2 ^ (7 * Z.of_nat (ilen b) - 8))
    by (apply Z.pow_le_mono_r; lia).
  lia.
Qed.

Lemma oc_nn_lt : forall a b x y, 0 <= a -> 0 <= b -> (ilen a < ilen b)%nat ->
  lex (oc_int64_nonneg a ++ x) (oc_int64_nonneg b ++ y) = Lt.
Proof.
  intros a b x y Ha Hb Hl. rewrite !oc_nn_eq.
  destruct (ilen_spec a Ha) as (A1 & A2 & _).
  destruct (ilen_spec b Hb) as (B1 & B2 & _).
  remember (ilen a) as n. remember (ilen b) as k.
  replace k with (n + (k - n))%nat in * by lia.
  apply nn_mixed; lia.
Qed.

Lemma oc_ng_gt : forall c d x y, 0 <= c -> 0 <= d -> (ilen c < ilen d)%nat ->
  lex (invert (oc_int64_nonneg c) ++ x) (invert (oc_int64_nonneg d) ++ y) = Gt.
Proof.
  intros c d x y Hc Hd Hl. rewrite !oc_ng_eq.
  destruct (ilen_spec c Hc) as (A1 & A2 & _).
  destruct (ilen_spec d Hd) as (B1 & B2 & _).
  remember (ilen c) as n. remember (ilen d) as k.
  replace k with (n + (k - n))%nat in * by lia.
  apply ng_mixed; lia.
Qed.

Theorem oc_int64_nonneg_law : forall a b x y, 0 <= a -> 0 <= b ->
  lex (oc_int64_nonneg a ++ x) (oc_int64_nonneg b ++ y) = cmp_then (Z.compare a b) (lex x y).
Proof.
  intros a b x y Ha Hb.
  destruct (Nat.compare_spec (ilen a) (ilen b)) as [E|E|E].
  - rewrite !oc_nn_eq, <- E.
    destruct (ilen_spec a Ha) as (A1 & A2 & _).
    destruct (ilen_spec b Hb) as (B1 & B2 & _). rewrite <- E in *.
    destruct (nnv_range (ilen a) a ltac:(lia) ltac:(lia)) as (P1 & _ & P3).
    destruct (nnv_range (ilen a) b ltac:(lia) ltac:(lia)) as (R1 & _ & R3).
    pose proof (pow2_pos (8 * Z.of_nat (ilen a) - 1) ltac:(lia)) as Q.
    rewrite be_bytes_law by (rewrite pow256_two by lia; lia).
    unfold nnv. rewrite Z.add_compare_mono_l. reflexivity.
  - rewrite (oc_nn_lt a b x y Ha Hb E).
    pose proof (ilen_lt a b Ha Hb E) as Hab. apply Z.compare_lt_iff in Hab.
    rewrite Hab. reflexivity.
  - rewrite lex_antisym, (oc_nn_lt b a y x Hb Ha E).
    pose proof (ilen_lt b a Hb Ha E) as Hab. apply Z.compare_gt_iff in Hab.
    rewrite Hab. reflexivity.
Qed.

Theorem oc_int64_neg_law : forall c d x y, 0 <= c -> 0 <= d ->
  lex (invert (oc_int64_nonneg c) ++ x) (invert (oc_int64_nonneg d) ++ y)
  = cmp_then (Z.compare d c) (lex x y).
Proof.
  intros c d x y Hc Hd.
  destruct (Nat.compare_spec (ilen c) (ilen d)) as [E|E|E].
  - rewrite !oc_ng_eq, <- E.
    destruct (ilen_spec c Hc) as (A1 & A2 & _).
    destruct (ilen_spec d Hd) as (B1 & B2 & _). rewrite <- E in *.
    destruct (ngv_range (ilen c) c ltac:(lia) ltac:(lia)) as (P1 & _ & _ & P3).
    destruct (ngv_range (ilen c) d ltac:(lia) ltac:(lia)) as (R1 & _ & _ & R3).
    pose proof (pow2_pos (7 * Z.of_nat (ilen c) - 1) ltac:(lia)) as Q.
    rewrite be_bytes_law by (rewrite pow256_two by lia; lia).
    unfold ngv. f_equal.
    destruct (Z.compare_spec d c);
      [apply Z.compare_eq_iff | apply Z.compare_lt_iff | apply Z.compare_gt_iff]; lia.
  - rewrite (oc_ng_gt c d x y Hc Hd E).
    pose proof (ilen_lt c d Hc Hd E) as Hab. apply Z.compare_gt_iff in Hab.
    rewrite Hab. reflexivity.
  - rewrite lex_antisym, (oc_ng_gt d c y x Hd Hc E).
    pose proof (ilen_lt d c Hd Hc E) as Hab. apply Z.compare_lt_iff in Hab.
    rewrite Hab. reflexivity.
Qed.

(* mixed signs are decided by the first byte *)
Lemma pow2_8S : forall k : nat, 2 ^ (8 * Z.of_nat (S k) - 1) = 128 * 256 ^ Z.of_nat k.
Proof.
  intros k. rewrite pow256_two by lia.
  replace (8 * Z.of_nat (S k) - 1) with (7 + 8 * Z.of_nat k) by lia.
  rewrite Z.pow_add_r by lia. reflexivity.
Qed.

Lemma be_bytes_head_ge : forall n v, (1 <= n)%nat ->
  2 ^ (8 * Z.of_nat n - 1) <= v < 2 ^ (8 * Z.of_nat n) ->
  exists h t, be_bytes n v = h :: t /\ (128 <= h)%N.
Proof.
  intros [|k] v Hn Hv; [lia|].
  pose proof (pow2_pos (8 * Z.of_nat (S k) - 1) ltac:(lia)) as Q.
  destruct (be_bytes_head k v) as [t Ht]; [rewrite pow256_two by lia; lia|].
  rewrite pow2_8S in Hv. pose proof (pow256_pos k) as HP.
  exists (Z.to_N (v / 256 ^ Z.of_nat k)), t. split; [exact Ht|].
  assert (128 <= v / 256 ^ Z.of_nat k) by (apply Z.div_le_lower_bound; lia).
  lia.
Qed.

Lemma be_bytes_head_lt : forall n v, (1 <= n)%nat ->
  0 <= v < 2 ^ (8 * Z.of_nat n - 1) ->
  exists h t, be_bytes n v = h :: t /\ (h < 128)%N.
Proof.
  intros [|k] v Hn Hv; [lia|].
  pose proof (pow2_double (8 * Z.of_nat (S k)) ltac:(lia)) as D.
  destruct (be_bytes_head k v) as [t Ht]; [rewrite pow256_two by lia; lia|].
  rewrite pow2_8S in Hv. pose proof (pow256_pos k) as HP.
  exists (Z.to_N (v / 256 ^ Z.of_nat k)), t. split; [exact Ht|].
  assert (v / 256 ^ Z.of_nat k < 128) by (apply Z.div_lt_upper_bound; lia).
  assert (0 <= v / 256 ^ Z.of_nat k) by (apply Z.div_pos; lia).
  lia.
Qed.

Lemma oc_int64_sign_gt : forall a d x y, 0 <= a -> 0 <= d ->
  lex (oc_int64_nonneg a ++ x) (invert (oc_int64_nonneg d) ++ y) = Gt.
Proof.
  intros a d x y Ha Hd. rewrite oc_nn_eq, oc_ng_eq.
  destruct (ilen_spec a Ha) as (A1 & A2 & _).
  destruct (ilen_spec d Hd) as (B1 & B2 & _).
  destruct (nnv_range (ilen a) a ltac:(lia) ltac:(lia)) as (P1 & _ & P3).
  destruct (ngv_range (ilen d) d ltac:(lia) ltac:(lia)) as (R1 & _ & R3 & _).
  pose proof (pow2_pos (7 * Z.of_nat (ilen d) - 1) ltac:(lia)) as Q.
  destruct (be_bytes_head_ge (ilen a) (nnv (ilen a) a)) as (h1 & t1 & -> & H1); [lia|lia|].
  destruct (be_bytes_head_lt (ilen d) (ngv (ilen d) d)) as (h2 & t2 & -> & H2); [lia|lia|].
  cbn [app]. apply lex_cons_gt. lia.
Qed.

(* the law for every integer; the int64 range is not needed *)
Theorem oc_int64_law_gen : forall a b x y,
  lex (oc_int64 a ++ x) (oc_int64 b ++ y) = cmp_then (Z.compare a b) (lex x y).
Proof.
  intros a b x y. unfold oc_int64.
  destruct (0 <=? a) eqn:Sa; destruct (0 <=? b) eqn:Sb.
  - apply oc_int64_nonneg_law; lia.
  - rewrite oc_int64_sign_gt by lia.
    assert (E : (a ?= b) = Gt) by (apply Z.compare_gt_iff; lia). rewrite E. reflexivity.
  - rewrite lex_antisym, oc_int64_sign_gt by lia.
    assert (E : (a ?= b) = Lt) by (apply Z.compare_lt_iff; lia). rewrite E. reflexivity.
  - rewrite oc_int64_neg_law by lia. f_equal.
    destruct (Z.compare_spec a b);
      [apply Z.compare_eq_iff | apply Z.compare_lt_iff | apply Z.compare_gt_iff]; lia.
Qed.

Theorem oc_int64_law : forall a b x y,
  - two63 <= a <= two63 -> - two63 <= b <= two63 ->
  lex (oc_int64 a ++ x) (oc_int64 b ++ y) = cmp_then (Z.compare a b) (lex x y).
Proof. intros a b x y _ _. apply oc_int64_law_gen. Qed.

(* ---------------------------------------------------------------- *)
(* D. float64 *)

Theorem oc_float64_law_gen : forall a b x y, 0 <= a < two64 -> 0 <= b < two64 ->
  lex (oc_float64 a ++ x) (oc_float64 b ++ y) = cmp_then (fcmp a b) (lex x y).
Proof.
  intros a b x y Ha Hb. unfold oc_float64.
  rewrite oc_int64_law_gen, fkey_order_gen by assumption. reflexivity.
Qed.

Theorem oc_float64_law : forall a b x y, 0 <= a < two64 -> 0 <= b < two64 ->
  is_nan a = false -> is_nan b = false ->
  lex (oc_float64 a ++ x) (oc_float64 b ++ y) = cmp_then (fcmp a b) (lex x y).
Proof. intros a b x y Ha Hb _ _. apply oc_float64_law_gen; assumption. Qed.

(* corollaries: order preservation and injectivity of each encoder *)
Corollary oc_string_order : forall a b, lex (oc_string a) (oc_string b) = lex a b.
Proof.
  intros a b. pose proof (oc_string_law a b [] []) as H. rewrite !app_nil_r in H.
  rewrite H. destruct (lex a b); reflexivity.
Qed.

Corollary oc_int64_order : forall a b, lex (oc_int64 a) (oc_int64 b) = Z.compare a b.
Proof.
  intros a b. pose proof (oc_int64_law_gen a b [] []) as H. rewrite !app_nil_r in H.
  rewrite H. destruct (a ?= b); reflexivity.
Qed.

Corollary oc_uint64_order : forall a b, 0 <= a -> 0 <= b ->
  lex (oc_uint64 a) (oc_uint64 b) = Z.compare a b.
Proof.
  intros a b Ha Hb. pose proof (oc_uint64_law_gen a b [] [] Ha Hb) as H.
  rewrite !app_nil_r in H. rewrite H. destruct (a ?= b); reflexivity.
Qed.

Corollary oc_float64_order : forall a b, 0 <= a < two64 -> 0 <= b < two64 ->
  lex (oc_float64 a) (oc_float64 b) = fcmp a b.
Proof.
  intros a b Ha Hb. pose proof (oc_float64_law_gen a b [] [] Ha Hb) as H.
  rewrite !app_nil_r in H. rewrite H. destruct (fcmp a b); reflexivity.
Qed.

Print Assumptions oc_string_law.
Print Assumptions be_bytes_law.
Print Assumptions oc_uint64_law_gen.
Print Assumptions oc_uint64_law.
Print Assumptions oc_int64_law_gen.
Print Assumptions oc_int64_law.
Print Assumptions oc_float64_law_gen.
Print Assumptions oc_float64_law.

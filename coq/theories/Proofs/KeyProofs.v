(* The key algebra of the store: collection metadata keys, document keys and index
   entry keys live in pairwise disjoint, injectively named regions of the key space.

     coll_key c          = "coll:" ++ c
     doc_key c id        = "c:" ++ c ++ ";d:" ++ id
     idx_prefix c f      = "c:" ++ c ++ ";i:" ++ f ++ ";"
     idx_value_key c f v = idx_prefix c f ++ "t:<digit>;v:" ++ value_code v
     idx_key c f v id    = idx_value_key c f v ++ id

   Collection and field names are free of the reserved separator ';' ([no_semi]);
   document ids have a fixed length (36).  [value_code v] may contain any byte,
   including ';', so every argument goes from the left through the names and from
   the right through the fixed id length. *)
From Coq Require Import Lia.
From Clover Require Import Index Domains BytesProofs CodeProofs.

Arguments value_code : simpl never.
Arguments N.compare : simpl never.
Arguments N.eqb : simpl never.
Arguments Z.to_N : simpl never.

Definition no_semi (s : bytes) : bool := forallb (fun b => negb (N.eqb b ch_semi)) s.

(* a canonical UUID: 36 bytes, hex digits and dashes *)
Definition id_ok (id : bytes) : Prop := length id = 36%nat /\ no_semi id = true.

(* ------------------------------------------------------------------ *)
(* 0. Tools                                                            *)
(* ------------------------------------------------------------------ *)

Lemma no_semi_cons : forall x s,
  no_semi (x :: s) = negb (N.eqb x ch_semi) && no_semi s.
Proof. reflexivity. Qed.

Lemma no_semi_app : forall a b, no_semi (a ++ b) = no_semi a && no_semi b.
Proof. intros a b. unfold no_semi. apply forallb_app. Qed.

(* the first ';' of a string is where a ';'-free name ends *)
Lemma no_semi_split_inj : forall c c' r r',
  no_semi c = true -> no_semi c' = true ->
  c ++ [ch_semi] ++ r = c' ++ [ch_semi] ++ r' -> c = c' /\ r = r'.
Proof.
  induction c as [|x c IH]; intros [|y c'] r r' Hc Hc' H.
  - injection H as H. split; [reflexivity | exact H].
  - exfalso. injection H as Hy _. subst y.
    rewrite no_semi_cons, N.eqb_refl in Hc'. discriminate Hc'.
  - exfalso. injection H as Hx _. subst x.
    rewrite no_semi_cons, N.eqb_refl in Hc. discriminate Hc.
  - rewrite no_semi_cons in Hc, Hc'.
    apply andb_true_iff in Hc. apply andb_true_iff in Hc'.
    injection H as Hxy Ht. subst y.
    destruct (IH c' r r' (proj2 Hc) (proj2 Hc') Ht) as [E1 E2].
    subst. split; reflexivity.
Qed.

(* splitting from the right through a known length *)
Lemma app_eq_length_inj : forall (a a' b b' : bytes),
  a ++ b = a' ++ b' -> length b = length b' -> a = a' /\ b = b'.
Proof.
  induction a as [|x a IH]; intros [|y a'] b b' H L.
  - split; [reflexivity | exact H].
  - exfalso. simpl in H. subst b. simpl in L. rewrite app_length in L. lia.
  - exfalso. simpl in H. subst b'. simpl in L. rewrite app_length in L. lia.
  - injection H as Hxy Ht. subst y.
    destruct (IH a' b b' Ht L) as [E1 E2]. subst. split; reflexivity.
Qed.

Lemma firstn_length_app : forall (a b : bytes), firstn (length a) (a ++ b) = a.
Proof. induction a as [|x a IH]; intros b; simpl; [reflexivity | rewrite IH; reflexivity]. Qed.

Lemma skipn_length_app : forall (a b : bytes), skipn (length a) (a ++ b) = b.
Proof. induction a as [|x a IH]; intros b; simpl; [reflexivity | apply IH]. Qed.

(* ------------------------------------------------------------------ *)
(* Shapes: every key as  "c:" ++ name ++ ";" ++ rest                    *)
(* ------------------------------------------------------------------ *)

(* what follows the index prefix: "t:<digit>;v:" ++ value_code v ++ r *)
Definition idx_tail (v : value) (r : bytes) : bytes :=
  [ch_t; ch_colon; Z.to_N (48 + type_id v); ch_semi; ch_v; ch_colon] ++ value_code v ++ r.

Lemma doc_prefix_shape : forall c r,
  doc_prefix c ++ r = [ch_c; ch_colon] ++ c ++ [ch_semi] ++ [ch_d; ch_colon] ++ r.
Proof. intros. unfold doc_prefix. rewrite <- !app_assoc. reflexivity. Qed.

Lemma doc_key_shape : forall c id,
  doc_key c id = [ch_c; ch_colon] ++ c ++ [ch_semi] ++ [ch_d; ch_colon] ++ id.
Proof. intros. unfold doc_key. apply doc_prefix_shape. Qed.

Lemma idx_prefix_shape : forall c f r,
  idx_prefix c f ++ r
  = [ch_c; ch_colon] ++ c ++ [ch_semi] ++ [ch_i; ch_colon] ++ f ++ [ch_semi] ++ r.
Proof. intros. unfold idx_prefix. rewrite <- !app_assoc. reflexivity. Qed.

Lemma idx_value_key_tail : forall c f v r,
  idx_value_key c f v ++ r = idx_prefix c f ++ idx_tail v r.
Proof.
  intros. unfold idx_value_key, idx_type_prefix, idx_tail.
  rewrite <- !app_assoc. reflexivity.
Qed.

Lemma idx_key_tail : forall c f v id,
  idx_key c f v id = idx_prefix c f ++ idx_tail v id.
Proof. intros. unfold idx_key. apply idx_value_key_tail. Qed.

Lemma idx_key_shape : forall c f v id,
  idx_key c f v id
  = [ch_c; ch_colon] ++ c ++ [ch_semi] ++ [ch_i; ch_colon] ++ f ++ [ch_semi] ++ idx_tail v id.
Proof. intros. rewrite idx_key_tail. apply idx_prefix_shape. Qed.

(* ------------------------------------------------------------------ *)
(* 3. Prefix characterisations                                         *)
(* ------------------------------------------------------------------ *)

Theorem coll_prefix_coll : forall c, is_prefix coll_prefix (coll_key c) = true.
Proof. intros. unfold coll_key. apply is_prefix_app. Qed.

Theorem drop_coll_prefix : forall c, drop_prefix coll_prefix (coll_key c) = c.
Proof. intros. unfold coll_key. apply drop_prefix_app. Qed.

(* "coll:" against "c:..." : the second byte is 'o' against ':' *)
Theorem coll_prefix_doc : forall c id, is_prefix coll_prefix (doc_key c id) = false.
Proof. intros. rewrite doc_key_shape. reflexivity. Qed.

Theorem coll_prefix_idx : forall c f v id, is_prefix coll_prefix (idx_key c f v id) = false.
Proof. intros. rewrite idx_key_shape. reflexivity. Qed.

Theorem doc_prefix_coll : forall c c', is_prefix (doc_prefix c) (coll_key c') = false.
Proof. intros. reflexivity. Qed.

Theorem idx_prefix_coll : forall c f c', is_prefix (idx_prefix c f) (coll_key c') = false.
Proof. intros. reflexivity. Qed.

Theorem doc_prefix_doc : forall c c' id,
  no_semi c = true -> no_semi c' = true ->
  (is_prefix (doc_prefix c) (doc_key c' id) = true <-> c = c').
Proof.
  intros c c' id Hc Hc'. split.
  - intros H. apply is_prefix_true_iff in H. destruct H as [r H].
    rewrite doc_key_shape, doc_prefix_shape in H.
    apply app_inv_head in H.
    apply no_semi_split_inj in H; [|assumption|assumption].
    symmetry. exact (proj1 H).
  - intros <-. unfold doc_key. apply is_prefix_app.
Qed.

(* after "c:<name>;" comes 'd' for documents and 'i' for indexes *)
Theorem doc_prefix_idx : forall c c' f v id,
  no_semi c = true -> no_semi c' = true ->
  is_prefix (doc_prefix c) (idx_key c' f v id) = false.
Proof.
  intros c c' f v id Hc Hc'. apply not_true_is_false. intros H.
  apply is_prefix_true_iff in H. destruct H as [r H].
  rewrite idx_key_shape, doc_prefix_shape in H.
  apply app_inv_head in H.
  apply no_semi_split_inj in H; [|assumption|assumption].
  destruct H as [_ H]. discriminate H.
Qed.

Theorem idx_prefix_doc : forall c f c' id,
  no_semi c = true -> no_semi c' = true ->
  is_prefix (idx_prefix c f) (doc_key c' id) = false.
Proof.
  intros c f c' id Hc Hc'. apply not_true_is_false. intros H.
  apply is_prefix_true_iff in H. destruct H as [r H].
  rewrite doc_key_shape, idx_prefix_shape in H.
  apply app_inv_head in H.
  apply no_semi_split_inj in H; [|assumption|assumption].
  destruct H as [_ H]. discriminate H.
Qed.

(* the prefix of the index on (c, f) selects exactly the entries of that index.
   The second [no_semi_split_inj] step is where the trailing ';' of [idx_prefix]
   is consumed: it terminates the field name. *)
Theorem idx_prefix_idx : forall c f c' f' v id,
  no_semi c = true -> no_semi c' = true -> no_semi f = true -> no_semi f' = true ->
  (is_prefix (idx_prefix c f) (idx_key c' f' v id) = true <-> c = c' /\ f = f').
Proof.
  intros c f c' f' v id Hc Hc' Hf Hf'. split.
  - intros H. apply is_prefix_true_iff in H. destruct H as [r H].
    rewrite idx_key_shape, idx_prefix_shape in H.
    apply app_inv_head in H.
    apply no_semi_split_inj in H; [|assumption|assumption].
    destruct H as [Ec H].
    apply app_inv_head in H.
    apply no_semi_split_inj in H; [|assumption|assumption].
    destruct H as [Ef _].
    split; symmetry; assumption.
  - intros [<- <-]. rewrite idx_key_tail. apply is_prefix_app.
Qed.

(* The same statement for a prefix WITHOUT the trailing separator is false:
   the entries of the index on "xy" carry the unterminated prefix of the index on "x". *)
Definition idx_prefix_nosep (c f : bytes) : bytes :=
  [ch_c; ch_colon] ++ c ++ [ch_semi; ch_i; ch_colon] ++ f.

Lemma idx_prefix_nosep_leaks : forall c f g v id,
  is_prefix (idx_prefix_nosep c f) (idx_key c (f ++ g) v id) = true.
Proof.
  intros. apply is_prefix_true_iff.
  exists (g ++ [ch_semi] ++ idx_tail v id).
  rewrite idx_key_shape. unfold idx_prefix_nosep.
  rewrite <- !app_assoc. reflexivity.
Qed.

Definition ex_id : bytes := repeat 48%N 36.
Definition ex_id' : bytes := repeat 102%N 36.

Example idx_prefix_nosep_false :
  let c := [97%N] in let f := [120%N] in let f' := [120%N; 121%N] in
  no_semi c = true /\ no_semi f = true /\ no_semi f' = true /\ id_ok ex_id /\
  is_prefix (idx_prefix_nosep c f) (idx_key c f' (VInt 5) ex_id) = true /\
  ~ (c = c /\ f = f') /\
  is_prefix (idx_prefix c f) (idx_key c f' (VInt 5) ex_id) = false.
Proof.
  vm_compute. repeat split; try reflexivity.
  intros [_ H]. discriminate H.
Qed.

(* ------------------------------------------------------------------ *)
(* 1. Kind disjointness                                                *)
(* ------------------------------------------------------------------ *)

Theorem coll_key_not_doc : forall c c' id, coll_key c <> doc_key c' id.
Proof.
  intros c c' id H.
  pose proof (coll_prefix_coll c) as P. rewrite H, coll_prefix_doc in P. discriminate P.
Qed.

Theorem coll_key_not_idx : forall c c' f v id, coll_key c <> idx_key c' f v id.
Proof.
  intros c c' f v id H.
  pose proof (coll_prefix_coll c) as P. rewrite H, coll_prefix_idx in P. discriminate P.
Qed.

Theorem doc_key_not_idx : forall c id c' f v id',
  no_semi c = true -> no_semi c' = true ->
  doc_key c id <> idx_key c' f v id'.
Proof.
  intros c id c' f v id' Hc Hc' H.
  pose proof (is_prefix_app (doc_prefix c) id) as P.
  change (doc_prefix c ++ id) with (doc_key c id) in P.
  rewrite H, (doc_prefix_idx c c' f v id' Hc Hc') in P. discriminate P.
Qed.

(* ------------------------------------------------------------------ *)
(* 2. Injectivity                                                      *)
(* ------------------------------------------------------------------ *)

Theorem coll_key_inj : forall c c', coll_key c = coll_key c' -> c = c'.
Proof. intros c c' H. unfold coll_key in H. apply app_inv_head in H. exact H. Qed.

Theorem doc_key_inj : forall c c' id id',
  no_semi c = true -> no_semi c' = true ->
  doc_key c id = doc_key c' id' -> c = c' /\ id = id'.
Proof.
  intros c c' id id' Hc Hc' H.
  rewrite !doc_key_shape in H.
  apply app_inv_head in H.
  apply no_semi_split_inj in H; [|assumption|assumption].
  destruct H as [Ec H]. apply app_inv_head in H. split; assumption.
Qed.

(* alternative hypothesis: ids of equal length (e.g. both 36), names arbitrary *)
Theorem doc_key_inj_len : forall c c' id id',
  length id = length id' ->
  doc_key c id = doc_key c' id' -> c = c' /\ id = id'.
Proof.
  intros c c' id id' L H. unfold doc_key in H.
  apply app_eq_length_inj in H; [|exact L].
  destruct H as [H Eid]. split; [|exact Eid].
  unfold doc_prefix in H. apply app_inv_head in H. apply app_inv_tail in H. exact H.
Qed.

Theorem idx_prefix_inj : forall c c' f f',
  no_semi c = true -> no_semi c' = true -> no_semi f = true -> no_semi f' = true ->
  idx_prefix c f = idx_prefix c' f' -> c = c' /\ f = f'.
Proof.
  intros c c' f f' Hc Hc' Hf Hf' H.
  apply (f_equal (fun x => x ++ [])) in H.
  rewrite !idx_prefix_shape in H.
  apply app_inv_head in H.
  apply no_semi_split_inj in H; [|assumption|assumption].
  destruct H as [Ec H]. apply app_inv_head in H.
  apply no_semi_split_inj in H; [|assumption|assumption].
  split; [exact Ec | exact (proj1 H)].
Qed.

(* from the left: the names are determined, whatever the value bytes and the id are *)
Lemma idx_key_names_inj : forall c c' f f' v v' id id',
  no_semi c = true -> no_semi c' = true -> no_semi f = true -> no_semi f' = true ->
  idx_key c f v id = idx_key c' f' v' id' ->
  c = c' /\ f = f' /\ idx_tail v id = idx_tail v' id'.
Proof.
  intros c c' f f' v v' id id' Hc Hc' Hf Hf' H.
  rewrite !idx_key_shape in H.
  apply app_inv_head in H.
  apply no_semi_split_inj in H; [|assumption|assumption].
  destruct H as [Ec H]. apply app_inv_head in H.
  apply no_semi_split_inj in H; [|assumption|assumption].
  destruct H as [Ef H]. repeat split; assumption.
Qed.

(* from the right: equal id lengths split the id off *)
Theorem idx_key_inj_len : forall c c' f f' v v' id id',
  no_semi c = true -> no_semi c' = true -> no_semi f = true -> no_semi f' = true ->
  length id = length id' ->
  idx_key c f v id = idx_key c' f' v' id' ->
  c = c' /\ f = f' /\ idx_value_key c f v = idx_value_key c' f' v' /\ id = id'.
Proof.
  intros c c' f f' v v' id id' Hc Hc' Hf Hf' L H.
  destruct (idx_key_names_inj c c' f f' v v' id id' Hc Hc' Hf Hf' H) as [Ec [Ef _]].
  unfold idx_key in H. apply app_eq_length_inj in H; [|exact L].
  destruct H as [Ek Eid]. repeat split; assumption.
Qed.

Theorem idx_key_inj : forall c c' f f' v v' id id',
  no_semi c = true -> no_semi c' = true -> no_semi f = true -> no_semi f' = true ->
  length id = 36%nat -> length id' = 36%nat ->
  idx_key c f v id = idx_key c' f' v' id' ->
  c = c' /\ f = f' /\ idx_value_key c f v = idx_value_key c' f' v' /\ id = id'.
Proof.
  intros c c' f f' v v' id id' Hc Hc' Hf Hf' L L' H.
  apply idx_key_inj_len; try assumption. rewrite L, L'. reflexivity.
Qed.

Theorem idx_key_inj_value : forall c c' f f' v v' id id',
  no_semi c = true -> no_semi c' = true -> no_semi f = true -> no_semi f' = true ->
  length id = 36%nat -> length id' = 36%nat ->
  key_dom v = true -> key_dom v' = true ->
  idx_key c f v id = idx_key c' f' v' id' ->
  c = c' /\ f = f' /\ compare v v' = Eq /\ id = id'.
Proof.
  intros c c' f f' v v' id id' Hc Hc' Hf Hf' L L' Dv Dv' H.
  destruct (idx_key_inj c c' f f' v v' id id' Hc Hc' Hf Hf' L L' H) as [Ec [Ef [Ek Eid]]].
  subst c' f'. repeat split; try assumption.
  apply (idx_key_prefix_free c f v v' [] Dv Dv').
  rewrite app_nil_r. exact Ek.
Qed.

(* ------------------------------------------------------------------ *)
(* 4. Splitting off the id                                             *)
(* ------------------------------------------------------------------ *)

Theorem key_split_id_idx : forall c f v id,
  length id = 36%nat ->
  key_split_id (idx_key c f v id) = (idx_value_key c f v, id).
Proof.
  intros c f v id L. unfold key_split_id, idx_key.
  rewrite app_length, L.
  replace (length (idx_value_key c f v) + 36 - 36)%nat with (length (idx_value_key c f v)) by lia.
  rewrite firstn_length_app, skipn_length_app. reflexivity.
Qed.

(* ------------------------------------------------------------------ *)
(* 5. Ordering facts used by scans                                     *)
(* ------------------------------------------------------------------ *)

(* within one collection: documents ('d') before index entries ('i') *)
Theorem doc_lt_idx : forall c id f v id',
  lex (doc_key c id) (idx_key c f v id') = Lt.
Proof.
  intros. rewrite doc_key_shape, idx_key_shape.
  rewrite 3 lex_app_prefix. reflexivity.
Qed.

(* "c:" < "co": the metadata keys come after every document and index key *)
Theorem ckey_lt_coll : forall c id f v c',
  lex (doc_key c id) (coll_key c') = Lt /\ lex (idx_key c f v id) (coll_key c') = Lt.
Proof.
  intros. rewrite doc_key_shape, idx_key_shape. split; reflexivity.
Qed.

(* reverse-scan seek bound of a whole index: the byte after the prefix is 't' < 255;
   no hypothesis on the id (or on the value bytes, which may well be 255) is needed *)
Theorem idx_key_lt_prefix255 : forall c f v id,
  lex (idx_key c f v id) (idx_prefix c f ++ [255%N]) = Lt.
Proof.
  intros. rewrite idx_key_tail, lex_app_prefix. reflexivity.
Qed.

(* the statement with the (redundant) hypothesis on the id bytes *)
Corollary idx_key_lt_255 : forall c f v id,
  (forall b, In b id -> (b < 255)%N) ->
  lex (idx_key c f v id) (idx_prefix c f ++ [255%N]) = Lt.
Proof. intros c f v id _. apply idx_key_lt_prefix255. Qed.

(* reverse-scan seek bound of one value: only the FIRST id byte matters *)
Lemma idx_entry_lt_value255_hd : forall c f v b id,
  (b < 255)%N ->
  lex (idx_value_key c f v ++ b :: id) (idx_value_key c f v ++ [255%N]) = Lt.
Proof.
  intros c f v b id Hb. rewrite lex_app_prefix. simpl.
  apply N.compare_lt_iff in Hb. rewrite Hb. reflexivity.
Qed.

Theorem idx_entry_lt_value255 : forall c f v id,
  (forall b, In b id -> (b < 255)%N) -> id <> [] ->
  lex (idx_value_key c f v ++ id) (idx_value_key c f v ++ [255%N]) = Lt.
Proof.
  intros c f v [|b id] Hb Hne; [contradiction Hne; reflexivity|].
  apply idx_entry_lt_value255_hd. apply Hb. left. reflexivity.
Qed.

(* ------------------------------------------------------------------ *)
(* 6. Non-vacuity                                                      *)
(* ------------------------------------------------------------------ *)

(* the hypotheses are satisfiable and the layout is the documented one *)
Example key_layout :
  let c := [97%N; 98%N] in let f := [120%N] in
  no_semi c = true /\ no_semi f = true /\ id_ok ex_id /\ id_ok ex_id' /\
  coll_key c = [99; 111; 108; 108; 58; 97; 98]%N /\
  doc_key c [49%N] = [99; 58; 97; 98; 59; 100; 58; 49]%N /\
  idx_prefix c f = [99; 58; 97; 98; 59; 105; 58; 120; 59]%N /\
  is_prefix (idx_prefix c f ++ [116; 58; 49; 59; 118; 58]%N) (idx_key c f (VInt 5) ex_id) = true /\
  key_split_id (idx_key c f (VInt 5) ex_id) = (idx_value_key c f (VInt 5), ex_id).
Proof. vm_compute. repeat split. Qed.

(* without ';'-freedom of the names, documents of different collections collide *)
Example doc_key_needs_no_semi :
  let c := [97%N] in let c' := [97%N; ch_semi; ch_d; ch_colon] in
  let id := [ch_semi; ch_d; ch_colon; 98%N] in let id' := [98%N] in
  doc_key c id = doc_key c' id' /\ c <> c' /\ no_semi c' = false.
Proof. vm_compute. repeat split. intros H. discriminate H. Qed.

(* ... and a document key can equal an index entry key *)
Example doc_idx_needs_no_semi :
  let c' := [97%N] in let f := [102%N] in
  let c := skipn 2 (idx_value_key c' f (VInt 1)) in
  doc_key c [120%N] = idx_key c' f (VInt 1) [ch_semi; ch_d; ch_colon; 120%N] /\
  no_semi c' = true /\ no_semi c = false.
Proof. vm_compute. repeat split. Qed.

(* equal index keys with different Go values: the conclusion of [idx_key_inj_value]
   is [compare v v' = Eq], not [v = v'] *)
Example idx_key_inj_value_not_eq :
  idx_key [99%N] [102%N] (VInt 1) ex_id
  = idx_key [99%N] [102%N] (VFloat 4607182418800017408) ex_id /\
  VInt 1 <> VFloat 4607182418800017408.
Proof. split; [vm_compute; reflexivity | intros H; discriminate H]. Qed.

(* value bytes can be ';' (a string value containing the separator), so the names
   cannot be recovered by searching from the right *)
Example value_code_has_semi :
  mem_byte ch_semi (value_code (VStr [ch_semi])) = true.
Proof. vm_compute. reflexivity. Qed.

(* ordering instances *)
Example order_instances :
  let c := [97%N] in let f := [120%N] in
  lex (doc_key c ex_id') (idx_key c f VNil ex_id) = Lt /\
  lex (idx_key c f (VStr [255%N; 255%N]) ex_id') (coll_key []) = Lt /\
  lex (idx_key c f (VStr [255%N; 255%N]) ex_id') (idx_prefix c f ++ [255%N]) = Lt /\
  lex (idx_value_key c f (VInt 7) ++ ex_id') (idx_value_key c f (VInt 7) ++ [255%N]) = Lt.
Proof. vm_compute. repeat split. Qed.

Print Assumptions no_semi_split_inj.
Print Assumptions coll_key_not_doc.
Print Assumptions coll_key_not_idx.
Print Assumptions doc_key_not_idx.
Print Assumptions coll_key_inj.
Print Assumptions doc_key_inj.
Print Assumptions doc_key_inj_len.
Print Assumptions idx_prefix_inj.
Print Assumptions idx_key_names_inj.
Print Assumptions idx_key_inj_len.
Print Assumptions idx_key_inj.
Print Assumptions idx_key_inj_value.
Print Assumptions doc_prefix_doc.
Print Assumptions doc_prefix_coll.
Print Assumptions doc_prefix_idx.
Print Assumptions idx_prefix_idx.
Print Assumptions idx_prefix_nosep_leaks.
Print Assumptions idx_prefix_nosep_false.
Print Assumptions idx_prefix_doc.
Print Assumptions idx_prefix_coll.
Print Assumptions coll_prefix_coll.
Print Assumptions coll_prefix_doc.
Print Assumptions coll_prefix_idx.
Print Assumptions drop_coll_prefix.
Print Assumptions key_split_id_idx.
Print Assumptions doc_lt_idx.
Print Assumptions ckey_lt_coll.
Print Assumptions idx_key_lt_prefix255.
Print Assumptions idx_key_lt_255.
Print Assumptions idx_entry_lt_value255_hd.
Print Assumptions idx_entry_lt_value255.
Print Assumptions key_layout.
Print Assumptions doc_key_needs_no_semi.
Print Assumptions doc_idx_needs_no_semi.
Print Assumptions idx_key_inj_value_not_eq.
Print Assumptions value_code_has_semi.
Print Assumptions order_instances.
